#!/usr/bin/env python3-vt
# validates MANIFEST.json and every evidence file against the harness schemas
import json, glob, sys, jsonschema
ok = True
def v(path, schema):
    global ok
    try:
        jsonschema.validate(json.load(open(path)), json.load(open(schema)))
    except Exception as e:
        ok = False
        print("INVALID", path, str(e)[:300])
v('/verif/MANIFEST.json', '/root/.vp/MANIFEST.schema.json')
for f in sorted(glob.glob('/verif/evidence/C*.json')):
    v(f, '/root/.vp/EVIDENCE.schema.json')
print("valid" if ok else "INVALID")
sys.exit(0 if ok else 1)
