#!/usr/bin/env python3
"""tools_rebase_seed.py <seed-id> [--verify]

Re-bases the patch of a kept seeded change onto the current /repo HEAD after a "fix:" commit touched the same file.
No commit is made anywhere: for every file of the patch a three-way merge of file CONTENTS is done
(git merge-file: seeded version / version the patch was made against / current version). The old patch is kept as
patch.orig.diff, meta.json records the re-base. With --verify the demonstration and the suite are re-run in a scratch
worktree (tools_try_seed.sh) and the output is printed for inspection.
"""
import json, os, subprocess, sys, tempfile, shutil

def sh(*a, **kw):
    return subprocess.run(a, capture_output=True, text=True, **kw)

def main():
    sid = sys.argv[1]
    d = f"/verif/seeded/{sid}"
    meta = json.load(open(d + "/meta.json"))
    base = meta.get("rebased_onto") or meta["repo_head_when_verified"]
    head = sh("git", "-C", "/repo", "rev-parse", "--short", "HEAD").stdout.strip()
    patch = open(d + "/patch.diff").read()
    files = [l[6:].strip() for l in patch.split("\n") if l.startswith("+++ b/")]
    tmp = tempfile.mkdtemp(prefix="rebase-")
    try:
        # seeded version of every file = base version + patch
        for f in files:
            os.makedirs(os.path.dirname(f"{tmp}/seeded/{f}"), exist_ok=True)
            os.makedirs(os.path.dirname(f"{tmp}/base/{f}"), exist_ok=True)
            os.makedirs(os.path.dirname(f"{tmp}/cur/{f}"), exist_ok=True)
            b = sh("git", "-C", "/repo", "show", f"{base}:{f}")
            if b.returncode != 0:
                b_text = ""
            else:
                b_text = b.stdout
            open(f"{tmp}/base/{f}", "w").write(b_text)
            open(f"{tmp}/seeded/{f}", "w").write(b_text)
            cur = f"/repo/{f}"
            open(f"{tmp}/cur/{f}", "w").write(open(cur).read() if os.path.exists(cur) else "")
        r = sh("patch", "-p1", "-s", "-f", "-d", f"{tmp}/seeded", "-i", d + "/patch.diff")
        if r.returncode != 0:
            print("ORIGINAL PATCH DOES NOT APPLY TO ITS BASE", base, r.stdout, r.stderr)
            return 2
        conflicts = False
        newpatch = ""
        for f in files:
            m = sh("git", "merge-file", "-p", f"{tmp}/seeded/{f}", f"{tmp}/base/{f}", f"{tmp}/cur/{f}")
            if m.returncode != 0:
                conflicts = True
                print(f"CONFLICT in {f} ({m.returncode} region(s)); merged text with markers written to {tmp}/merged/{f}")
            os.makedirs(os.path.dirname(f"{tmp}/merged/{f}"), exist_ok=True)
            open(f"{tmp}/merged/{f}", "w").write(m.stdout)
            dd = sh("diff", "-u", "--label", f"a/{f}", "--label", f"b/{f}", f"{tmp}/cur/{f}", f"{tmp}/merged/{f}")
            if dd.stdout:
                newpatch += f"diff --git a/{f} b/{f}\n" + dd.stdout
        if conflicts:
            print("resolve by hand: edit the merged file(s), then: diff -u current merged > patch.diff ; tmp kept:", tmp)
            return 3
        if not os.path.exists(d + "/patch.orig.diff"):
            shutil.copy(d + "/patch.diff", d + "/patch.orig.diff")
        open(d + "/patch.diff", "w").write(newpatch)
        meta["rebased_onto"] = head
        meta["rebase_note"] = f"patch re-based by a three-way merge of file contents onto {head} after fix: commits touched the same file(s); the original patch (against {meta['repo_head_when_verified']}) is kept as patch.orig.diff"
        json.dump(meta, open(d + "/meta.json", "w"), indent=1)
        print("rebased", sid, "onto", head)
    finally:
        if not (len(sys.argv) > 2 and sys.argv[2] == "--keep"):
            shutil.rmtree(tmp, ignore_errors=True)
    if "--verify" in sys.argv:
        vd = tempfile.mkdtemp(prefix="reverify-")
        for fn in os.listdir(d):
            if fn.endswith(".go.txt"):
                shutil.copy(f"{d}/{fn}", f"{vd}/{fn[:-4]}")
            elif fn in ("patch.diff", "demo_path.txt"):
                shutil.copy(f"{d}/{fn}", f"{vd}/{fn}")
        r = sh("/verif/tools_try_seed.sh", vd, meta["breaks_property"])
        print(r.stdout[-3500:])
        shutil.rmtree(vd, ignore_errors=True)
    return 0

sys.exit(main())
