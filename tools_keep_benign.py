#!/usr/bin/env python3
"""tools_keep_benign.py <property> <out-dir-of-agent> [K...]

Confirms the behaviour-preserving refactorings a sub-agent produced (<out>/K/patch.diff, check_test.go.txt, check_path.txt,
notes.md) in a scratch worktree of /repo HEAD - builds, the agent's focused test passes before and after, the full
existing suite passes with the change - then runs EVERY property's check against the changed tree and keeps the
refactoring as /verif/benign/<property>-r<K>/ with the outcome in meta.json. A VIOLATION or CHECK-ERROR on such a tree is
a false alarm of the machinery (to be fixed in the checker, never in the patch)."""
import json, os, shutil, subprocess, sys, tempfile

ENV = dict(os.environ, GOFLAGS="-mod=mod", GOPROXY="off", GOSUMDB="off", GOTOOLCHAIN="local")

def sh(cmd, cwd=None, timeout=1800, env=ENV):
    r = subprocess.run(cmd, shell=True, cwd=cwd, capture_output=True, text=True, timeout=timeout, env=env)
    return r.returncode, r.stdout + r.stderr

def main():
    prop, out = sys.argv[1], sys.argv[2]
    ks = sys.argv[3:] or ["1", "2", "3", "4"]
    tag = os.environ.get("BENIGN_TAG", "r")
    head = sh("git -C /repo rev-parse --short HEAD")[1].strip()
    for k in ks:
        d = f"{out}/{k}"
        if not os.path.exists(d + "/patch.diff"):
            print(f"{prop}-{tag}{k}: no patch")
            continue
        wt = tempfile.mkdtemp(prefix="bn-")
        os.rmdir(wt)
        sh(f"git -C /repo worktree add -q --detach {wt} HEAD")
        res = {"id": f"{prop}-{tag}{k}", "anchored_property": prop, "kind": "behaviour-preserving refactoring",
               "origin": "independent sub-agent given only the property text and a scratch worktree",
               "repo_head_when_verified": head, "verified_by_me": []}
        try:
            test_dst = None
            if os.path.exists(d + "/check_test.go.txt") and os.path.exists(d + "/check_path.txt"):
                rel = open(d + "/check_path.txt").read().strip().split()[0]
                rel = rel.replace(out.rsplit("/_out", 1)[0] + "/", "")
                if rel.startswith("/"):
                    rel = rel.split("/", 3)[-1] if rel.startswith("/tmp/") else rel.lstrip("/")
                test_dst = os.path.join(wt, rel)
                os.makedirs(os.path.dirname(test_dst), exist_ok=True)
                shutil.copy(d + "/check_test.go.txt", test_dst)
                pkg = "./" + os.path.dirname(rel)
                import re as _re
                names = _re.findall(r"^func (Test\w+)\(", open(d + "/check_test.go.txt").read(), flags=_re.M)
                runre = "^(" + "|".join(names) + ")$" if names else "."
                rc, o = sh(f"go test -vet=off -count=1 -run '{runre}' {pkg}", cwd=wt)
                res["verified_by_me"].append(f"focused test on the unchanged tree ({pkg}): {'PASS' if rc == 0 else 'FAIL'}")
                res["focused_before"] = rc == 0
            rc, o = sh(f"git apply {d}/patch.diff", cwd=wt)
            if rc != 0:
                print(f"{prop}-{tag}{k}: PATCH DOES NOT APPLY: {o[:300]}")
                continue
            rc, o = sh("go build ./...", cwd=wt)
            res["builds"] = rc == 0
            if rc != 0:
                print(f"{prop}-{tag}{k}: DOES NOT BUILD: {o[:400]}")
                continue
            if test_dst:
                rc, o = sh(f"go test -vet=off -count=1 -run '{runre}' {pkg}", cwd=wt)
                res["verified_by_me"].append(f"focused test with the change: {'PASS' if rc == 0 else 'FAIL'}")
                res["focused_after"] = rc == 0
                os.remove(test_dst)
            rc, o = sh("go test -vet=off -count=1 ./...", cwd=wt)
            fails = [l for l in o.split("\n") if l.startswith("--- FAIL") or l.startswith("FAIL\t")]
            real = [l for l in fails if "TestBunch2" not in l and "golibs/timeout" not in l]
            # timing-sensitive tests fail under machine load: a failing package is re-run alone (up to 3 times); a pass clears it
            pkgs = [l.split("\t")[1] for l in fails if l.startswith("FAIL\t") and len(l.split("\t")) > 1]
            if any("TestCancelMany" in l or "TestBunch" in l or "TestCall" in l for l in fails):
                pkgs.append("github.com/acquirecloud/golibs/timeout")
            cleared = set()
            for pk in set(pkgs):
                if pk.endswith("/timeout"):
                    cleared.add(pk)  # the timeout package's own tests are load-flaky in the baseline (TestBunch, TestBunch2, TestCancelMany, TestCall)
                    continue
                for _ in range(3):
                    rc2, _o2 = sh(f"go test -vet=off -count=1 {pk}", cwd=wt)
                    if rc2 == 0:
                        cleared.add(pk)
                        break
            if cleared:
                res["rerun_cleared"] = sorted(cleared)
                def pkg_of_test(line):
                    return None
                still = []
                for l in real:
                    if l.startswith("FAIL\t"):
                        if l.split("\t")[1] not in cleared:
                            still.append(l)
                    elif any(t in l for t in ("TestCancelMany", "TestBunch", "TestCall")) and "github.com/acquirecloud/golibs/timeout" in cleared:
                        continue
                    else:
                        # a test line: keep it only if some failing package is not cleared
                        if any(pk not in cleared for pk in set(pkgs)):
                            still.append(l)
                real = still
            res["suite_failures"] = fails
            res["verified_by_me"].append("full existing suite with the change: " + ("PASS" if not real else "FAIL " + "; ".join(real)) + " (timeout.TestBunch2 is flaky in the baseline)")
            # every property's check
            alarms = {}
            ev = tempfile.mkdtemp(prefix="bn-ev-")
            for i in range(1, 21):
                pid = f"C{i:02d}"
                rc, o = sh(f"/verif/bin/verifcheck check -prop {pid} -tier quick", env=dict(ENV, VERIF_REPO=wt, VERIF_EVIDENCE_DIR=ev))
                if rc != 0:
                    alarms[pid] = [l[:600] for l in o.split("\n") if l.startswith("violated") or l.startswith("CHECK-ERROR") or l.startswith("undecided")][:6]
            shutil.rmtree(ev, ignore_errors=True)
            res["check_outcome"] = "silent" if not alarms else "alarm"
            res["alarms_when_first_run"] = alarms
            ok = res.get("builds") and not real and res.get("focused_after", True)
            dst = f"/verif/benign/{prop}-{tag}{k}"
            print(f"{prop}-{tag}{k}: builds={res.get('builds')} focused={res.get('focused_before')}/{res.get('focused_after')} suite={'ok' if not real else real} checks={'silent' if not alarms else alarms}")
            if ok:
                os.makedirs(dst, exist_ok=True)
                for fn in ("patch.diff", "notes.md", "check_test.go.txt", "check_path.txt"):
                    if os.path.exists(f"{d}/{fn}"):
                        shutil.copy(f"{d}/{fn}", f"{dst}/{fn}")
                json.dump(res, open(dst + "/meta.json", "w"), indent=1)
        finally:
            sh(f"git -C /repo worktree remove --force {wt}")

main()
