#!/bin/bash
# tools_merge_agent.sh <agent-copy-dir (…/verif)> <base-commit> : three-way merge of a hardening agent's private copy into /verif
# (checker/**.go and mutants/*.json only; new files copied, edited files merged with git merge-file against <base-commit>)
H=$1; BASE=$2; cd /verif
for f in $(cd $H && find checker mutants -type f \( -name '*.go' -o -name '*.json' \) | sort); do
  if [ ! -f /verif/$f ]; then
    if git show $BASE:$f >/dev/null 2>&1; then echo "DELETED-IN-VERIF $f (skipped)"; else cp $H/$f /verif/$f; echo "ADD $f"; fi
    continue
  fi
  cmp -s $H/$f /verif/$f && continue
  if ! git show $BASE:$f > /tmp/mbase.x 2>/dev/null; then
     # new since base on both sides or only in verif
     if git log --oneline $BASE..HEAD -- $f | grep -q .; then : ; fi
     cmp -s $H/$f /verif/$f || { echo "BOTH-NEW? $f (kept /verif version unless agent-only)"; }
     continue
  fi
  cmp -s $H/$f /tmp/mbase.x && continue   # agent did not touch it; /verif moved on
  git merge-file -p /verif/$f /tmp/mbase.x $H/$f > /tmp/mmerged.x; rc=$?
  cp /tmp/mmerged.x /verif/$f; echo "MERGE $f conflicts=$rc"
done
