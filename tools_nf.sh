#!/bin/bash
# tools_nf.sh <benign-id> <prop>... : verdict of the check on the normal form of a benign refactoring (debug aid)
b=$1; shift
for p in "$@"; do
  echo "== $b $p"
  /verif/bin/verifcheck normal -prop $p -patch /verif/benign/$b 2>&1 | sed -n '/^inlined/,$p' | grep -v "C03.R9|role:redis.keyMapping|lossy-step:slice\|C05.L4|role\|C05.L9|role\|C08.R8|role" | cut -c1-${W:-260}
done
