#!/bin/bash
# tools_seed_vs.sh <seed-or-benign-dir-with-patch.diff> <prop>... : run the given property checks against a scratch worktree with the patch applied
# (-v as first argument: print all non-discharged obligations in full)
W=/tmp/wt-scratch
[ -d $W ] || git -C /repo worktree add -q --detach $W HEAD
D=$(realpath $1); shift
git -C $W checkout -q -- . && git -C $W clean -fdq
git -C $W apply $D/patch.diff || { echo "patch does not apply"; exit 3; }
for p in "$@"; do
  echo "== $p"
  VERIF_REPO=$W VERIF_EVIDENCE_DIR=/tmp/ev-scratch /verif/bin/verifcheck check -prop $p 2>/dev/null | grep '^violated\|^not-est\|^KNOWN' | cut -c1-${CUT:-400}
done
git -C $W checkout -q -- . && git -C $W clean -fdq
