import json, os, glob
props = [json.loads(l) for l in open('/verif/properties.jsonl')]
KINDS = """1. TWO-SITE REFACTORING: a change that moves a responsibility between two functions or files (an invariant that site A used to maintain is now maintained by site B; a check moves from the callers into the callee or back; a field that one function used to reset is now reset by a shared helper that ALL relevant paths call), done COMPLETELY and CORRECTLY - every path still maintains what it maintained.
2. EDGE PATH, DONE RIGHT: a change confined to the handling of an edge condition (context cancellation or deadline, an error returned by a callee, end of input, empty / nil / zero / maximal values, capacity exactly reached, a repeated call, an operation on a closed object): clearer code, an explicit early return that yields exactly the old result, a fast path for the edge that is exactly equivalent, better error wrapping with %w that keeps the class - the behaviour the property describes unchanged for every input in its quantifier.
3. API EXTENSION, DONE RIGHT: a NEW exported method, option or constructor parameter on the types the property is about (a maintainer's feature request: a timeout variant, a batch variant, a peek / touch / resize / drain / stats operation, an observer...), with doc comment, implemented CORRECTLY with respect to all invariants of the existing code (locking, bookkeeping, notifications, versions, indexes, in-flight records, reference counts...), so that the property - stated for the existing API - still holds for every call pattern of the existing API, also when the new operation is interleaved with it."""
for p in props:
    pid = p['id']
    txt = f"""You are helping to evaluate a verification tool for the Go library acquirecloud/golibs. The tool checks the property below. To find out whether it raises FALSE alarms, we need realistic changes to the library that a maintainer would accept and that do NOT break the property: the observable behaviour the property describes must stay exactly the same. Your job: write THREE such behaviour-preserving changes to the code the property is about. You see only the property and the source; you know nothing about the tool, and you must not look at or use anything under /verif.

## Your workspace
A git worktree of the library, yours alone: /tmp/wt-{pid}-u  (module github.com/acquirecloud/golibs). Work ONLY inside it (deliverables go to /tmp/wt-{pid}-u/_out). Never touch /repo or /verif. NEVER use `git stash` (it is shared between worktrees). The sandbox has no network. The machine is busy: timing-sensitive tests of the existing suite (`timeout.TestBunch*`, `TestCancelMany`, `TestCall`, `kvs/distlock.TestKvDistLock_Timeout`) fail now and then on the unchanged tree too - re-run a failing package alone before you conclude anything. Keep every response and file-write short (never more than ~150 lines in one tool call; extend long files in several steps); keep focused tests small and direct. In every shell call first run:
  export GOFLAGS=-mod=mod GOPROXY=off GOSUMDB=off GOTOOLCHAIN=local
Whole suite: `go build ./... && go test -vet=off -count=1 ./...` (about 1-2 minutes; `timeout.TestBunch2` and `TestCancelMany` are flaky in the baseline and may be ignored; redis tests use an in-process miniredis).

## The property (id {pid})
Title: {p['title']}
Statement: {p['statement']}
Quantifier: {json.dumps(p['quantifier'], ensure_ascii=False)}
Anchors (where the mechanism lives): {json.dumps(p['anchors'], ensure_ascii=False)}

## What to produce: three changes, one of each kind
{KINDS}

Requirements for EVERY change:
- It touches code that matters for the property (the anchored functions or what they depend on) - not an unrelated corner - and it is more than a rename or a comment: it changes the shape of the code (control flow, data flow, where things live).
- It is a patch a maintainer could plausibly write and a reviewer would accept: normal style, gofmt-clean, no dead code, exported API unchanged (signatures and documented behaviour).
- BEHAVIOUR IS PRESERVED for everything the property quantifies over: same results, same error classes, same side effects that the property talks about, for all inputs/schedules/faults in its quantifier - not just for the inputs the tests use. Think adversarially about your own change (boundary values, error paths, concurrency, aliasing) and convince yourself; if in doubt, choose a safer change. A change that subtly breaks the property is worse than useless here.
- After it: `go build ./...` succeeds and the WHOLE existing test suite passes, unedited.
- A focused test: ONE new Go test file that exercises the changed code paths thoroughly (including the corner cases where a sloppy version of your change would go wrong) and PASSES both on the unchanged tree and with your change. Under 60 s. Only packages already in the module cache (testify is available).
- The three changes are independent of each other (each is a patch against the unchanged tree).

## Deliverables (exactly this layout; it is consumed by a script)
For k in 1,2,3 the directory /tmp/wt-{pid}-u/_out/<k>/ containing:
- `patch.diff`  - `git diff` of the library change ONLY (no test file in it), against the unchanged HEAD, applying with `git apply` from the repository root;
- `check_test.go.txt` - the focused test file (note the .txt suffix);
- `check_path.txt` - one line: the repository-relative path where the test file goes, ending in `_test.go` (e.g. `kvs/distlock/zz_check_{pid.lower()}u<k>_test.go`);
- `notes.md` - first line `# {pid}-u<k> (<KIND>): <what the change is>`; then What changed and why a maintainer would want it; Why the behaviour the property describes is unchanged (your argument, including the corner cases you considered); Observed (focused test before / after, whole suite after).
Procedure for each k: start from a clean tree (`git checkout -- . && git clean -fdq -e _out`), write the focused test, run it on the unchanged tree (must PASS), make the change, run gofmt, run the focused test (must PASS), remove the test file and run the whole suite (must PASS), save `git diff` as patch.diff, restore the clean tree. Verify at the end that each patch.diff applies to a clean tree with `git apply --check`. Leave the worktree clean apart from `_out/`.

Report back briefly: for each k the title, the kind, and the observed results.
"""
    open(f'/tmp/prompts/{pid}-u.md', 'w').write(txt)
print('ok')
