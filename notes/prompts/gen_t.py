import json, os, glob
props = [json.loads(l) for l in open('/verif/properties.jsonl')]
KINDS = """1. DEPENDENCY-SIDE: a refactoring or clean-up made in a package or file OTHER than the one the property's main entry points live in - in something those entry points depend on (a helper package, a sibling file, a shared utility, a type's method defined elsewhere, a constructor). For example: rewrite a small helper in an equivalent form, move a helper between files, split or merge helpers, replace a hand-written helper by its standard-library equivalent (or the reverse) where they are exactly equivalent.
2. PERFORMANCE, DONE RIGHT: a plausible optimisation - caching, a fast path, batching, narrowing a critical section, avoiding an allocation or copy, lazy initialisation, reusing a buffer - implemented CORRECTLY, so that the observable behaviour the property describes is exactly what it was for every input / interleaving the property quantifies over.
3. HARDENING, DONE RIGHT: a robustness change - extra validation of conditions that cannot change any outcome the property describes, error wrapping that keeps the error class (`%w`), additional logging, recover-free clean-up, clearer control flow around error paths, context handling - implemented CORRECTLY, with the behaviour the property describes unchanged."""
for p in props:
    pid = p['id']
    txt = f"""You are helping to evaluate a verification tool for the Go library acquirecloud/golibs. The tool checks the property below. To find out whether it raises FALSE alarms, we need realistic changes to the library that a maintainer would accept and that do NOT break the property: the observable behaviour the property describes must stay exactly the same. Your job: write THREE such behaviour-preserving changes to the code the property is about. You see only the property and the source; you know nothing about the tool, and you must not look at or use anything under /verif.

## Your workspace
A git worktree of the library, yours alone: /tmp/wt-{pid}-t  (module github.com/acquirecloud/golibs). Work ONLY inside it (deliverables go to /tmp/wt-{pid}-t/_out). Never touch /repo or /verif. The sandbox has no network. In every shell call first run:
  export GOFLAGS=-mod=mod GOPROXY=off GOSUMDB=off GOTOOLCHAIN=local
Whole suite: `go build ./... && go test -vet=off -count=1 ./...` (about 1-2 minutes; `timeout.TestBunch2` and `TestCancelMany` are flaky in the baseline and may be ignored; redis tests use an in-process miniredis).

## The property (id {pid})
Title: {p['title']}
Statement: {p['statement']}
Quantifier: {json.dumps(p['quantifier'], ensure_ascii=False)}
Anchors (where the mechanism lives): {json.dumps(p['anchors'], ensure_ascii=False)}

## What to produce: three changes, one of each kind
{KINDS}

Requirements for EVERY change:
- It touches code that matters for the property (the anchored functions or what they depend on) - not an unrelated corner - and it is more than a rename or a comment: it changes the shape of the code (control flow, data flow, where things live).
- It is a patch a maintainer could plausibly write and a reviewer would accept: normal style, gofmt-clean, no dead code, exported API unchanged (signatures and documented behaviour).
- BEHAVIOUR IS PRESERVED for everything the property quantifies over: same results, same error classes, same side effects that the property talks about, for all inputs/schedules/faults in its quantifier - not just for the inputs the tests use. Think adversarially about your own change (boundary values, error paths, concurrency, aliasing) and convince yourself; if in doubt, choose a safer change. A change that subtly breaks the property is worse than useless here.
- After it: `go build ./...` succeeds and the WHOLE existing test suite passes, unedited.
- A focused test: ONE new Go test file that exercises the changed code paths thoroughly (including the corner cases where a sloppy version of your change would go wrong) and PASSES both on the unchanged tree and with your change. Under 60 s. Only packages already in the module cache (testify is available).
- The three changes are independent of each other (each is a patch against the unchanged tree).

## Deliverables (exactly this layout; it is consumed by a script)
For k in 1,2,3 the directory /tmp/wt-{pid}-t/_out/<k>/ containing:
- `patch.diff`  - `git diff` of the library change ONLY (no test file in it), against the unchanged HEAD, applying with `git apply` from the repository root;
- `check_test.go.txt` - the focused test file (note the .txt suffix);
- `check_path.txt` - one line: the repository-relative path where the test file goes, ending in `_test.go` (e.g. `kvs/distlock/zz_check_{pid.lower()}t<k>_test.go`);
- `notes.md` - first line `# {pid}-t<k> (<KIND>): <what the change is>`; then What changed and why a maintainer would want it; Why the behaviour the property describes is unchanged (your argument, including the corner cases you considered); Observed (focused test before / after, whole suite after).
Procedure for each k: start from a clean tree (`git checkout -- . && git clean -fdq -e _out`), write the focused test, run it on the unchanged tree (must PASS), make the change, run gofmt, run the focused test (must PASS), remove the test file and run the whole suite (must PASS), save `git diff` as patch.diff, restore the clean tree. Verify at the end that each patch.diff applies to a clean tree with `git apply --check`. Leave the worktree clean apart from `_out/`.

Report back briefly: for each k the title, the kind, and the observed results.
"""
    open(f'/tmp/prompts/{pid}-t.md', 'w').write(txt)
print('ok')
