import json, os, glob
props = [json.loads(l) for l in open('/verif/properties.jsonl')]
KINDS = """FREE CHOICE: pick whatever kind of change you judge MOST LIKELY to get through code review and through a static checker that knows this code base well: think of what a careful reviewer reading only the diff would wave through - a plausible commit message, locally reasonable edits, the defect visible only to somebody who holds the whole mechanism in their head. It may be of any kind (a refactoring, an optimisation, a hardening, a feature, a cooperating pair of edits, an edge path, something in a dependency) but it must be a DIFFERENT idea from the ones listed below."""
for p in props:
    pid = p['id']
    used = []
    for d in sorted(glob.glob(f'/verif/seeded/{pid}-*')):
        n = os.path.join(d, 'notes.md')
        if os.path.exists(n):
            for l in open(n):
                if l.strip():
                    t = l.strip().lstrip('# ').strip()
                    # drop the id prefix
                    used.append(t[:160]); break
    txt = f"""You are helping to evaluate a verification tool for the Go library acquirecloud/golibs. Your job: write ONE realistic change to the library which BREAKS the property below while the library still compiles and its whole existing test suite still passes. You see only the property and the source; you know nothing about the tool, and you must not look at or use anything under /verif.

## Your workspace
A git worktree of the library, yours alone: /tmp/wt-{pid}-i  (module github.com/acquirecloud/golibs). Work ONLY inside it (and /tmp/wt-{pid}-i/_out for your deliverables). Never touch /repo or /verif. NEVER use `git stash` (it is shared between worktrees of the repository and other contributors work in parallel). The sandbox has no network. The machine is busy: timing-sensitive tests of the existing suite (`timeout.TestBunch*`, `TestCancelMany`, `TestCall`, `kvs/distlock.TestKvDistLock_Timeout`) fail now and then on the unchanged tree too - re-run a failing package alone before you conclude anything, and make your own demonstration robust against a slow machine (generous time bounds, forced schedules). In every shell call first run:
  export GOFLAGS=-mod=mod GOPROXY=off GOSUMDB=off GOTOOLCHAIN=local
Whole suite: `go build ./... && go test -vet=off -count=1 ./...` (about 1-2 minutes; `timeout.TestBunch2` and `TestCancelMany` are flaky in the baseline and may be ignored; redis tests use an in-process miniredis).

## The property (id {pid})
Title: {p['title']}
Statement: {p['statement']}
Quantifier: {json.dumps(p['quantifier'], ensure_ascii=False)}
Why the existing tests cannot settle it: {p['why_tests_cant']}
Anchors (where the mechanism lives): {json.dumps(p['anchors'], ensure_ascii=False)}

## What to produce: one change (k = 1)
{KINDS}

Requirements for EVERY change:
- It is a patch a maintainer could plausibly have written and a reviewer could plausibly have accepted (sensible commit-message rationale, normal code style, no comments that give it away, no dead/test-only code, no special-casing of magic values).
- After it: `go build ./...` succeeds and the WHOLE existing test suite passes, unedited.
- It breaks the property AS STATED (read the statement and quantifier carefully; do not break something the property does not promise).
- The breakage needs something specific to manifest: a particular interleaving, a fault at a particular point, a multi-step sequence of operations, an unusual input, or two cooperating sites that each look fine alone. NOT something ordinary use exposes at once.
- A demonstration: ONE new Go test file `zz_demo_{pid.lower()}i<k>_test.go` (k = 1) with a test function `TestZZDemo{pid}i<k>` placed in the appropriate package directory, which PASSES on the unchanged tree and FAILS deterministically (or in at least ~19 of 20 runs) with your change. It must finish in under 60 s. It may use only what is in the module cache already (testify is available). For interleavings, force the schedule deterministically (wrap the storage in a test double that blocks/fails at the chosen point, use channels as barriers) rather than sleeping and hoping.
- Be quick: aim to finish within about 12 minutes of work; run the whole suite only once, at the end. The change must be a DIFFERENT idea from these, which earlier contributors have already used for this property:
{chr(10).join('  - ' + u for u in used)}

## Deliverables (exactly this layout; it is consumed by a script)
For k = 1 the directory /tmp/wt-{pid}-i/_out/<k>/ containing:
- `patch.diff`  - `git diff` of the library change ONLY (no demo file in it), against the unchanged HEAD, applying with `git apply` from the repository root;
- the demo test file `zz_demo_{pid.lower()}i<k>_test.go`;
- `demo_path.txt` - exactly two lines: line 1 the repository-relative path where the demo file goes (e.g. `kvs/distlock/zz_demo_{pid.lower()}i<k>_test.go`), line 2 the command, of the form `go test -vet=off -count=1 -run TestZZDemo{pid}i<k> ./<pkg>/`;
- `notes.md` - first line a one-line title `# {pid}-i<k> (<KIND>): <what the change is>`; then: What (files/functions changed and the stated rationale), Why it breaks the property, the Specific condition needed to manifest, and Observed (the three results below).
Procedure for each k: start from a clean tree (`git checkout -- . && git clean -fdq -e _out`), write the demo, run it on the unchanged tree (must PASS), make the change, run the demo (must FAIL), remove the demo file and run the whole suite (must PASS), save `git diff` as patch.diff, then restore the clean tree. Verify at the end that each patch.diff applies to a clean tree with `git apply --check`. Leave the worktree clean apart from `_out/`.

Report back briefly: for each k the title, kind, and the three observed results. 
"""
    open(f'/tmp/prompts/{pid}-i.md', 'w').write(txt)
print('ok')
