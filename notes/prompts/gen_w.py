import json, os, glob
props = [json.loads(l) for l in open('/verif/properties.jsonl')]
KINDS = """FREE CHOICE: one change of whatever kind a maintainer of this code would most plausibly make next and a reviewer would accept - a clean-up, a modernisation, an optimisation, a hardening, a small feature, moving code between files or helpers, a different but equivalent algorithm or data representation - each implemented CORRECTLY, so that the behaviour the property describes is exactly what it was for everything the property quantifies over. Prefer changes that alter the SHAPE of the anchored code substantially (not cosmetic ones), and make the two changes different in kind from each other."""
for p in props:
    pid = p['id']
    txt = f"""You are helping to evaluate a verification tool for the Go library acquirecloud/golibs. The tool checks the property below. To find out whether it raises FALSE alarms, we need realistic changes to the library that a maintainer would accept and that do NOT break the property: the observable behaviour the property describes must stay exactly the same. Your job: write ONE such behaviour-preserving change to the code the property is about. You see only the property and the source; you know nothing about the tool, and you must not look at or use anything under /verif.

## Your workspace
A git worktree of the library, yours alone: /tmp/wt-{pid}-w  (module github.com/acquirecloud/golibs). Work ONLY inside it (deliverables go to /tmp/wt-{pid}-w/_out). Never touch /repo or /verif. NEVER use `git stash` (it is shared between worktrees). The sandbox has no network. The machine is busy: timing-sensitive tests of the existing suite (`timeout.TestBunch*`, `TestCancelMany`, `TestCall`, `kvs/distlock.TestKvDistLock_Timeout`) fail now and then on the unchanged tree too - re-run a failing package alone before you conclude anything. Keep every response and file-write short (never more than ~150 lines in one tool call; extend long files in several steps); keep focused tests small and direct. In every shell call first run:
  export GOFLAGS=-mod=mod GOPROXY=off GOSUMDB=off GOTOOLCHAIN=local
Whole suite: `go build ./... && go test -vet=off -count=1 ./...` (about 1-2 minutes; `timeout.TestBunch2` and `TestCancelMany` are flaky in the baseline and may be ignored; redis tests use an in-process miniredis).

## The property (id {pid})
Title: {p['title']}
Statement: {p['statement']}
Quantifier: {json.dumps(p['quantifier'], ensure_ascii=False)}
Anchors (where the mechanism lives): {json.dumps(p['anchors'], ensure_ascii=False)}

## What to produce: one change (K = 1)
{KINDS}

Requirements for EVERY change:
- It touches code that matters for the property (the anchored functions or what they depend on) - not an unrelated corner - and it is more than a rename or a comment: it changes the shape of the code (control flow, data flow, where things live).
- It is a patch a maintainer could plausibly write and a reviewer would accept: normal style, gofmt-clean, no dead code, exported API unchanged (signatures and documented behaviour).
- BEHAVIOUR IS PRESERVED for everything the property quantifies over: same results, same error classes, same side effects that the property talks about, for all inputs/schedules/faults in its quantifier - not just for the inputs the tests use. Think adversarially about your own change (boundary values, error paths, concurrency, aliasing) and convince yourself; if in doubt, choose a safer change. A change that subtly breaks the property is worse than useless here.
- After it: `go build ./...` succeeds and the WHOLE existing test suite passes, unedited.
- A focused test: ONE new Go test file that exercises the changed code paths thoroughly (including the corner cases where a sloppy version of your change would go wrong) and PASSES both on the unchanged tree and with your change. Under 60 s. Only packages already in the module cache (testify is available).
- Be quick: aim to finish within about 12 minutes of work; run the whole suite only once, at the end.

## Deliverables (exactly this layout; it is consumed by a script)
For k = 1 the directory /tmp/wt-{pid}-w/_out/<k>/ containing:
- `patch.diff`  - `git diff` of the library change ONLY (no test file in it), against the unchanged HEAD, applying with `git apply` from the repository root;
- `check_test.go.txt` - the focused test file (note the .txt suffix);
- `check_path.txt` - one line: the repository-relative path where the test file goes, ending in `_test.go` (e.g. `kvs/distlock/zz_check_{pid.lower()}w<k>_test.go`);
- `notes.md` - first line `# {pid}-w<k> (<KIND>): <what the change is>`; then What changed and why a maintainer would want it; Why the behaviour the property describes is unchanged (your argument, including the corner cases you considered); Observed (focused test before / after, whole suite after).
Procedure for each k: start from a clean tree (`git checkout -- . && git clean -fdq -e _out`), write the focused test, run it on the unchanged tree (must PASS), make the change, run gofmt, run the focused test (must PASS), remove the test file and run the whole suite (must PASS), save `git diff` as patch.diff, restore the clean tree. Verify at the end that each patch.diff applies to a clean tree with `git apply --check`. Leave the worktree clean apart from `_out/`.

Report back briefly: for each k the title, the kind, and the observed results.
"""
    open(f'/tmp/prompts/{pid}-w.md', 'w').write(txt)
print('ok')
