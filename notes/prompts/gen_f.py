import json, os, glob
props = [json.loads(l) for l in open('/verif/properties.jsonl')]
KINDS = """1. DEPENDENCY: the change is made in a package or file OTHER than the one the property's main entry points live in - in something those entry points depend on (a helper package, a sibling backend, a shared utility, a type's method in another file, a constructor, a default value). The entry points themselves stay textually untouched; the property breaks through the dependency.
2. PERFORMANCE: a plausible optimisation a maintainer might submit - caching a value, a fast path, batching, narrowing a critical section, avoiding an allocation or a copy, lazy initialisation, reusing a buffer/object - that is correct in the common case and wrong in a specific one.
3. DEFENSIVE / HARDENING: a well-meant robustness change - added validation, an extra nil/empty check with early return, error wrapping or translation, context/timeout handling, retry, logging with a side effect, recover(), a default substituted for a zero value - that subtly breaks the property."""
for p in props:
    pid = p['id']
    used = []
    for d in sorted(glob.glob(f'/verif/seeded/{pid}-*')):
        n = os.path.join(d, 'notes.md')
        if os.path.exists(n):
            for l in open(n):
                if l.strip():
                    t = l.strip().lstrip('# ').strip()
                    # drop the id prefix
                    used.append(t[:160]); break
    txt = f"""You are helping to evaluate a verification tool for the Go library acquirecloud/golibs. Your job: write THREE realistic changes to the library, each of which BREAKS the property below while the library still compiles and its whole existing test suite still passes. You see only the property and the source; you know nothing about the tool, and you must not look at or use anything under /verif.

## Your workspace
A git worktree of the library, yours alone: /tmp/wt-{pid}-f  (module github.com/acquirecloud/golibs). Work ONLY inside it (and /tmp/wt-{pid}-f/_out for your deliverables). Never touch /repo or /verif. The sandbox has no network. In every shell call first run:
  export GOFLAGS=-mod=mod GOPROXY=off GOSUMDB=off GOTOOLCHAIN=local
Whole suite: `go build ./... && go test -vet=off -count=1 ./...` (about 1-2 minutes; `timeout.TestBunch2` and `TestCancelMany` are flaky in the baseline and may be ignored; redis tests use an in-process miniredis).

## The property (id {pid})
Title: {p['title']}
Statement: {p['statement']}
Quantifier: {json.dumps(p['quantifier'], ensure_ascii=False)}
Why the existing tests cannot settle it: {p['why_tests_cant']}
Anchors (where the mechanism lives): {json.dumps(p['anchors'], ensure_ascii=False)}

## What to produce: three changes, one of each kind
{KINDS}

Requirements for EVERY change:
- It is a patch a maintainer could plausibly have written and a reviewer could plausibly have accepted (sensible commit-message rationale, normal code style, no comments that give it away, no dead/test-only code, no special-casing of magic values).
- After it: `go build ./...` succeeds and the WHOLE existing test suite passes, unedited.
- It breaks the property AS STATED (read the statement and quantifier carefully; do not break something the property does not promise).
- The breakage needs something specific to manifest: a particular interleaving, a fault at a particular point, a multi-step sequence of operations, an unusual input, or two cooperating sites that each look fine alone. NOT something ordinary use exposes at once.
- A demonstration: ONE new Go test file `zz_demo_{pid.lower()}f<k>_test.go` (k = 1,2,3) with a test function `TestZZDemo{pid}f<k>` placed in the appropriate package directory, which PASSES on the unchanged tree and FAILS deterministically (or in at least ~19 of 20 runs) with your change. It must finish in under 60 s. It may use only what is in the module cache already (testify is available). For interleavings, force the schedule deterministically (wrap the storage in a test double that blocks/fails at the chosen point, use channels as barriers) rather than sleeping and hoping.
- The three changes are independent of each other (each is a patch against the unchanged tree), and each should be a DIFFERENT idea from these, which earlier contributors have already used for this property:
{chr(10).join('  - ' + u for u in used)}

## Deliverables (exactly this layout; it is consumed by a script)
For k in 1,2,3 the directory /tmp/wt-{pid}-f/_out/<k>/ containing:
- `patch.diff`  - `git diff` of the library change ONLY (no demo file in it), against the unchanged HEAD, applying with `git apply` from the repository root;
- the demo test file `zz_demo_{pid.lower()}f<k>_test.go`;
- `demo_path.txt` - exactly two lines: line 1 the repository-relative path where the demo file goes (e.g. `kvs/distlock/zz_demo_{pid.lower()}f<k>_test.go`), line 2 the command, of the form `go test -vet=off -count=1 -run TestZZDemo{pid}f<k> ./<pkg>/`;
- `notes.md` - first line a one-line title `# {pid}-f<k> (<KIND>): <what the change is>`; then: What (files/functions changed and the stated rationale), Why it breaks the property, the Specific condition needed to manifest, and Observed (the three results below).
Procedure for each k: start from a clean tree (`git checkout -- . && git clean -fdq -e _out`), write the demo, run it on the unchanged tree (must PASS), make the change, run the demo (must FAIL), remove the demo file and run the whole suite (must PASS), save `git diff` as patch.diff, then restore the clean tree. Verify at the end that each patch.diff applies to a clean tree with `git apply --check`. Leave the worktree clean apart from `_out/`.

Report back briefly: for each k the title, kind, and the three observed results. If after honest effort you cannot produce one of the kinds for this property, produce another change of a different kind instead and say so.
"""
    open(f'/tmp/prompts/{pid}-f.md', 'w').write(txt)
print('ok')
