package rules

import (
	"go/token"

	"golang.org/x/tools/go/ssa"

	"verif/checker/ir"
)

// Rule of the ordered map added after seeded round "g" (run by mapRules under every prefix: C10.R16, C08.M16, C09.M16,
// C11.M16).
//
// refDropCensusG (R16). A removed entry that an iterator is parked on stays linked (marked as removed) and is taken out
// of the list by whoever gives up the LAST reference on it: there is nobody else who would - Remove has already run,
// the index does not know the node any more. So every place of the package that takes a reference off a node (a
// decrement of the node's reference counter - in the release routine, in the advance routine, in any other function,
// also one that was added later: the census is over the functions of the package, not over a list of roles) has to
// look at the node it leaves: no path from the decrement to an exit of the function avoids all of
//   - a call of the unlink routine on that node (the routine itself unlinks only an unreferenced node, R15, and marks a
//     still referenced one),
//   - an edge on which the node is known not to carry the removed mark (a live entry, the end sentinel: nothing to do),
//   - an edge on which the node's count, read after the decrement, is known not to be zero (another iterator holds it
//     and inherits the duty).
//
// Nothing else excuses the path - in particular not a summary kept elsewhere ("the map has no removed entries", a
// counter of pinned entries): whether THIS node is removed and unreferenced is decided on the node. A path that skips
// the test leaves a removed entry linked with count zero for good: it is retained after every iterator was closed
// (C11), later iterators walk over it, First() gets slower with every occurrence.
//
// The decrement written as the call of a one-line "unpin" helper is the event at the call (refDelta); the store inside
// such a helper is not a site of its own when all uses of the helper are static calls.
//
// Over-approximations (correct code that would be flagged): a decrement on a node that is known to be live for a reason
// the rule does not read (say, freshly looked up in the index); a function that hands the node to another function
// which does the test (decided on the helper-inlined normal form when that function is a private helper).
func (c *Ctx) refDropCensusG(r *mapRoles, rule string) {
	const what = "reference dropped: a removed node left without reference is unlinked"
	if r.refCnt == nil || r.unlink == nil {
		c.Undecided(rule, r.release, what, nil, "reference counter or unlink routine not resolved")
		return
	}
	n := 0
	for _, fn := range c.mapFnsV() {
		fn := fn
		if len(fn.Blocks) == 0 {
			continue
		}
		helper := c.isDeltaHelperG(r, fn)
		ir.Instrs(fn, func(in ssa.Instruction) {
			node, isDec := r.refDelta(in, -1)
			if !isDec || node == nil {
				return
			}
			if _, isStore := in.(*ssa.Store); isStore && helper {
				return // judged at the calls of the helper
			}
			n++
			isUnlink := func(x ssa.Instruction) bool {
				call, ok := x.(*ssa.Call)
				return ok && ir.StaticCallee(call) == r.unlink && r.unlinkSubj < len(call.Call.Args) && same(call.Call.Args[r.unlinkSubj], node)
			}
			excused := func(f ir.Fact) bool {
				cm, ok := f.Cmp()
				if !ok {
					return false
				}
				for _, xy := range [][2]ssa.Value{{cm.X, cm.Y}, {cm.Y, cm.X}} {
					k, isC := ir.ConstInt(xy[1])
					if !isC {
						continue
					}
					op := cm.Op
					if xy[0] != cm.X {
						op = flipOpG(op)
					}
					// not removed
					if r.hasDeleted {
						if b, isState := loadOfField(xy[0], r.state); isState && same(b, node) {
							if (op == token.NEQ && k == r.deleted) || (op == token.EQL && k != r.deleted) {
								return true
							}
						}
					}
					// still referenced: the count read after the decrement is not zero
					if b, isCnt := loadOfField(xy[0], r.refCnt); isCnt && same(b, node) {
						ld, _ := ir.Resolve(xy[0]).(ssa.Instruction)
						if ld == nil || !ir.Dominates(in, ld) {
							continue
						}
						if (op == token.NEQ && k == 0) || (op == token.GTR && k >= 0) || (op == token.GEQ && k >= 1) {
							return true
						}
					}
				}
				return false
			}
			c.NoPath(rule, what, in, ir.Query{Fn: fn, From: in, Block: isUnlink, BlockFact: excused, Target: ir.IsExit},
				"a reference is taken off a node and the function can return without the test 'removed and no reference left -> unlink' on that node (no call of the unlink routine on it, no edge on which it is known to be not removed or still referenced): a removed entry that stayed linked only for this reference remains in the list with count zero for good - retained after all iterators were closed, walked over by every later iterator")
		})
	}
	if n == 0 {
		c.Decide(rule, r.release, what, nil, false, "no function of the package gives a reference back")
	}
}

// flipOpG mirrors a comparison operator (a op b  ==  b flip(op) a).
func flipOpG(op token.Token) token.Token {
	switch op {
	case token.LSS:
		return token.GTR
	case token.GTR:
		return token.LSS
	case token.LEQ:
		return token.GEQ
	case token.GEQ:
		return token.LEQ
	}
	return op
}

// isDeltaHelperG: fn is a straight-line private helper whose only write to a reference counter is one change of the
// counter of one of its parameters (the shape refDelta reads at the call), and every use of it is a static call.
func (c *Ctx) isDeltaHelperG(r *mapRoles, fn *ssa.Function) bool {
	if fn == nil || len(fn.Blocks) != 1 {
		return false
	}
	stores, onParam := 0, false
	for _, x := range fn.Blocks[0].Instrs {
		if b, _, isSt := storeToField(x, r.refCnt); isSt {
			stores++
			if _, isP := ir.Resolve(b).(*ssa.Parameter); isP {
				onParam = true
			}
		}
	}
	if stores != 1 || !onParam {
		return false
	}
	_, ok := c.privateSitesV(fn)
	return ok
}
