package rules

// C16.R9, shift counts of the decoders are never negative.
//
// Go evaluates a shift x<<y / x>>y with a SIGNED count y by first checking y >= 0 and panics with "negative shift amount"
// otherwise - also when x is 0 and also behind a short-circuit operand that is false for the interesting inputs only. An
// unsigned count cannot panic (a count >= the width gives 0), a constant count is checked by the compiler. So "each
// Unmarshal function returns without panicking" needs, for every shift in a decoder (and in the private functions a
// decoder hands its input to) whose count is a non-constant value of a signed integer type, that the count is >= 0 on
// every path to the shift. The rule evaluates the count as an interval over the SSA: constants, + - by intervals,
// * / % & >> by a non-negative constant, conversions (range of the source type), len/cap, loop variables (phi whose
// constant entry value is a lower bound kept by every back edge), narrowed by the comparisons with constants on the
// branch edges that dominate the shift. A count whose lower end is not shown >= 0 is reported: bytes that drive it below
// zero make the decoder panic instead of reporting an error.
//
// Over-approximations: a count bounded by a comparison with a non-constant, by a relation between two variables or by a
// guard inside a callee is not followed and is reported although it may be fine; wrap-around of the machine arithmetic
// is not modelled (an index times a small constant is taken as non-negative).

import (
	"go/constant"
	"go/token"
	"go/types"
	"math"

	"golang.org/x/tools/go/ssa"

	"verif/checker/ir"
)

type itvXI struct{ lo, hi int64 }

var fullXI = itvXI{math.MinInt64, math.MaxInt64}

func satAddXI(a, b int64) int64 {
	if a == math.MinInt64 || b == math.MinInt64 {
		return math.MinInt64
	}
	if a == math.MaxInt64 || b == math.MaxInt64 {
		return math.MaxInt64
	}
	s := a + b
	if a > 0 && b > 0 && s < 0 {
		return math.MaxInt64
	}
	if a < 0 && b < 0 && s >= 0 {
		return math.MinInt64
	}
	return s
}

func satNegXI(a int64) int64 {
	switch a {
	case math.MinInt64:
		return math.MaxInt64
	case math.MaxInt64:
		return math.MinInt64
	}
	return -a
}

func satMulXI(a, c int64) int64 { // c >= 0
	if c == 0 {
		return 0
	}
	if a == math.MinInt64 || a == math.MaxInt64 {
		return a
	}
	p := a * c
	if p/c != a {
		if a < 0 {
			return math.MinInt64
		}
		return math.MaxInt64
	}
	return p
}

func (i itvXI) meet(o itvXI) itvXI {
	if o.lo > i.lo {
		i.lo = o.lo
	}
	if o.hi < i.hi {
		i.hi = o.hi
	}
	return i
}

// typeRangeXI: the values of an integer type (64-bit unsigned saturates at MaxInt64 = unbounded).
func typeRangeXI(t types.Type) (r itvXI, unsignedWide bool) {
	b, ok := t.Underlying().(*types.Basic)
	if !ok || b.Info()&types.IsInteger == 0 {
		return fullXI, false
	}
	switch b.Kind() {
	case types.Int8:
		return itvXI{math.MinInt8, math.MaxInt8}, false
	case types.Int16:
		return itvXI{math.MinInt16, math.MaxInt16}, false
	case types.Int32:
		return itvXI{math.MinInt32, math.MaxInt32}, false
	case types.Uint8:
		return itvXI{0, math.MaxUint8}, false
	case types.Uint16:
		return itvXI{0, math.MaxUint16}, false
	case types.Uint32:
		return itvXI{0, math.MaxUint32}, false
	case types.Uint, types.Uint64, types.Uintptr:
		return itvXI{0, math.MaxInt64}, true
	}
	return fullXI, false
}

func constXI(v ssa.Value) (int64, bool) {
	c, ok := v.(*ssa.Const)
	if !ok || c.Value == nil || c.Value.Kind() != constant.Int {
		return 0, false
	}
	return constant.Int64Val(c.Value)
}

// guardsXI: what the comparisons of v with constants on the branch edges dominating block b say about v.
func guardsXI(v ssa.Value, b *ssa.BasicBlock) itvXI {
	r := fullXI
	for d := b.Idom(); d != nil; d = d.Idom() {
		if len(d.Instrs) == 0 {
			continue
		}
		iff, ok := d.Instrs[len(d.Instrs)-1].(*ssa.If)
		if !ok || len(d.Succs) != 2 || d.Succs[0] == d.Succs[1] {
			continue
		}
		cmp, ok := iff.Cond.(*ssa.BinOp)
		if !ok {
			continue
		}
		holds := -1
		for i, s := range d.Succs {
			if len(s.Preds) == 1 && (s == b || s.Dominates(b)) {
				holds = i
			}
		}
		if holds < 0 {
			continue
		}
		op := cmp.Op
		var k int64
		if kk, isC := constXI(cmp.Y); isC && cmp.X == v {
			k = kk
		} else if kk, isC := constXI(cmp.X); isC && cmp.Y == v {
			k = kk
			switch op { // k OP v  ==  v OP' k
			case token.LSS:
				op = token.GTR
			case token.LEQ:
				op = token.GEQ
			case token.GTR:
				op = token.LSS
			case token.GEQ:
				op = token.LEQ
			}
		} else {
			continue
		}
		if holds == 1 { // the condition is false on this edge
			switch op {
			case token.LSS:
				op = token.GEQ
			case token.LEQ:
				op = token.GTR
			case token.GTR:
				op = token.LEQ
			case token.GEQ:
				op = token.LSS
			case token.EQL:
				op = token.NEQ
			case token.NEQ:
				op = token.EQL
			}
		}
		switch op {
		case token.LSS:
			r = r.meet(itvXI{math.MinInt64, satAddXI(k, -1)})
		case token.LEQ:
			r = r.meet(itvXI{math.MinInt64, k})
		case token.GTR:
			r = r.meet(itvXI{satAddXI(k, 1), math.MaxInt64})
		case token.GEQ:
			r = r.meet(itvXI{k, math.MaxInt64})
		case token.EQL:
			r = r.meet(itvXI{k, k})
		}
	}
	return r
}

// evalXI: the interval of integer value v as seen in block at.
func evalXI(v ssa.Value, at *ssa.BasicBlock, assume map[*ssa.Phi]itvXI, depth int) itvXI {
	tr, _ := typeRangeXI(v.Type())
	if depth > 12 {
		return tr
	}
	if k, ok := constXI(v); ok {
		return itvXI{k, k}
	}
	r := tr
	switch x := v.(type) {
	case *ssa.Convert:
		in := evalXI(x.X, at, assume, depth+1)
		_, srcWide := typeRangeXI(x.X.Type())
		if sb, ok := x.X.Type().Underlying().(*types.Basic); !ok || sb.Info()&types.IsInteger == 0 {
			break
		}
		if srcWide && in.hi == math.MaxInt64 {
			break // an unbounded unsigned word: the conversion may wrap
		}
		if in.lo >= tr.lo && in.hi <= tr.hi {
			r = in
		}
	case *ssa.ChangeType:
		r = tr.meet(evalXI(x.X, at, assume, depth+1))
	case *ssa.Call:
		if bi, ok := x.Call.Value.(*ssa.Builtin); ok && (bi.Name() == "len" || bi.Name() == "cap") {
			r = itvXI{0, math.MaxInt64}
		}
	case *ssa.Phi:
		if a, ok := assume[x]; ok {
			r = a
			break
		}
		lo, have := int64(math.MaxInt64), false
		for _, e := range x.Edges {
			if k, ok := constXI(e); ok {
				have = true
				if k < lo {
					lo = k
				}
			}
		}
		if !have {
			break
		}
		assume[x] = itvXI{lo, math.MaxInt64}
		kept := true
		for _, e := range x.Edges {
			if evalXI(e, x.Block(), assume, depth+1).lo < lo {
				kept = false
			}
		}
		delete(assume, x)
		if kept {
			r = tr.meet(itvXI{lo, math.MaxInt64})
		}
	case *ssa.BinOp:
		a := evalXI(x.X, at, assume, depth+1)
		b := evalXI(x.Y, at, assume, depth+1)
		ky, yc := constXI(x.Y)
		kx, xc := constXI(x.X)
		switch x.Op {
		case token.ADD:
			r = tr.meet(itvXI{satAddXI(a.lo, b.lo), satAddXI(a.hi, b.hi)})
		case token.SUB:
			r = tr.meet(itvXI{satAddXI(a.lo, satNegXI(b.hi)), satAddXI(a.hi, satNegXI(b.lo))})
		case token.MUL:
			if yc && ky >= 0 {
				r = tr.meet(itvXI{satMulXI(a.lo, ky), satMulXI(a.hi, ky)})
			} else if xc && kx >= 0 {
				r = tr.meet(itvXI{satMulXI(b.lo, kx), satMulXI(b.hi, kx)})
			}
		case token.AND:
			if yc && ky >= 0 {
				r = tr.meet(itvXI{0, ky})
			} else if xc && kx >= 0 {
				r = tr.meet(itvXI{0, kx})
			}
		case token.REM:
			if yc && ky > 0 {
				if a.lo >= 0 {
					r = tr.meet(itvXI{0, ky - 1})
				} else {
					r = tr.meet(itvXI{-(ky - 1), ky - 1})
				}
			}
		case token.QUO, token.SHR:
			if yc && ky > 0 && a.lo >= 0 {
				r = tr.meet(itvXI{0, a.hi})
			}
		}
	}
	return r.meet(guardsXI(v, at))
}

// shiftCountNonNegXI is C16.R9 over the given functions.
func (c *Ctx) shiftCountNonNegXI(rule string, fns []*ssa.Function) {
	n := 0
	seen := map[*ssa.Function]bool{}
	for _, fn := range fns {
		if fn == nil || seen[fn] {
			continue
		}
		seen[fn] = true
		ir.Instrs(fn, func(in ssa.Instruction) {
			sh, ok := in.(*ssa.BinOp)
			if !ok || (sh.Op != token.SHL && sh.Op != token.SHR) {
				return
			}
			if _, isConst := sh.Y.(*ssa.Const); isConst {
				return
			}
			yb, ok := sh.Y.Type().Underlying().(*types.Basic)
			if !ok || yb.Info()&types.IsInteger == 0 || yb.Info()&types.IsUnsigned != 0 {
				return
			}
			n++
			r := evalXI(sh.Y, sh.Block(), map[*ssa.Phi]itvXI{}, 0)
			c.Decide(rule, fn, "signed shift count is never negative", sh, r.lo >= 0,
				"the count of this shift is a signed value that is not shown to be >= 0 on every path reaching it (constants, arithmetic, loop variables and the dominating comparisons with constants were followed): Go panics with 'negative shift amount' for a negative signed count, whatever the shifted value, so input bytes that drive the count below zero make the decoder panic instead of returning an error")
		})
	}
	if n == 0 && len(fns) > 0 {
		c.Decide(rule, fns[0], "no shift by a non-constant signed count in the decoders", nil, true, "")
	}
}
