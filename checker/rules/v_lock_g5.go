package rules

import (
	"go/token"
	"go/types"
	"strings"

	"golang.org/x/tools/go/ssa"

	"verif/checker/ir"
)

// ---------------------------------------------------------------------------
// Round g, seed C05-g3: a lease that can be changed at run time.
//   role provider.lease   also an integer / atomic field that is read (atomically, through an accessor) as the duration
//                         added to time.Now() for a record's expiration
//   lease reads           field load, atomic load (converted to time.Duration), accessor of the provider
//   C05.L2 / C05.L3       when the lease can change after construction: the period of the armed renewal and the
//                         ExpiresAt of the record it follows derive from ONE read of the lease

// readOfFieldVG: v is a read of the provider field f - a plain load, an atomic load (function or typed-atomic method),
// possibly converted, or the result of a function of the package that takes nothing but its receiver and returns such a
// read on every exit. Returns the SSA value that IS the read (two uses of one read have the same value), nil otherwise.
func readOfFieldVG(v ssa.Value, f *types.Var, depth int) ssa.Value {
	if v == nil || depth > 3 {
		return nil
	}
	v = ir.Resolve(v)
	switch x := v.(type) {
	case *ssa.Convert:
		return readOfFieldVG(x.X, f, depth)
	case *ssa.UnOp:
		if x.Op == token.MUL && ir.FieldOf(x.X) == f {
			return x
		}
	case *ssa.Field:
		if ir.FieldOf(x) == f {
			return x
		}
	case *ssa.Call:
		if op, addr, _, isAtomic := ir.AtomicCall(x); isAtomic {
			if op == "Load" && ir.FieldOf(addr) == f {
				return x
			}
			return nil
		}
		cal := calleeYA(x)
		if cal == nil || len(cal.Blocks) == 0 || cal.Signature.Recv() == nil || cal.Signature.Params().Len() != 0 || cal.Signature.Results().Len() != 1 {
			return nil
		}
		rets := ir.Returns(cal)
		if len(rets) == 0 {
			return nil
		}
		for _, ret := range rets {
			if readOfFieldVG(ir.ResultValue(ret, 0), f, depth+1) == nil {
				return nil
			}
		}
		return x
	}
	return nil
}

// leaseReadVG: v is a read of the provider's lease.
func (r *lockRoles) leaseReadVG(v ssa.Value) ssa.Value { return readOfFieldVG(v, r.leaseF, 0) }

// providerLeaseVG resolves the role "provider.lease": the provider's time.Duration field; when there is none (the lease
// is kept in an integer word so that it can be changed atomically), the one field of the provider whose reads are added
// to time.Now() somewhere in the package.
func (c *Ctx) providerLeaseVG(r *lockRoles) *types.Var {
	isDur := func(f *types.Var) bool { return ir.IsNamed(f.Type(), "time", "Duration") }
	if len(fieldsWhere(r.provider, isDur)) > 0 {
		return c.oneField("provider.lease", r.provider, isDur)
	}
	cands := fieldsWhere(r.provider, func(f *types.Var) bool {
		if b, ok := f.Type().Underlying().(*types.Basic); ok && b.Info()&types.IsInteger != 0 {
			return true
		}
		return strings.HasPrefix(types.TypeString(f.Type(), nil), "sync/atomic.Int") || strings.HasPrefix(types.TypeString(f.Type(), nil), "sync/atomic.Uint")
	})
	var used []*types.Var
	for _, fn := range c.P.FuncsOf("kvs/distlock") {
		ir.Instrs(fn, func(in ssa.Instruction) {
			add, ok := in.(*ssa.Call)
			if !ok || ir.CalleeFullName(add) != "(time.Time).Add" || len(add.Call.Args) != 2 {
				return
			}
			if now, isNow := ir.Resolve(add.Call.Args[0]).(*ssa.Call); !isNow || ir.CalleeFullName(now) != "time.Now" {
				return
			}
			for _, f := range cands {
				if readOfFieldVG(add.Call.Args[1], f, 0) != nil {
					used = appendUniq(used, f)
				}
			}
		})
	}
	if len(used) != 1 {
		c.Fatalf("role %q: expected exactly one time.Duration field in %s, or one integer field read as the duration added to time.Now(); found %d", "provider.lease", types.TypeString(r.provider, nil), len(used))
	}
	c.Role("provider.lease", used[0].Name(), used[0].Pos())
	return used[0]
}

// leaseMutableVG: the lease field is written outside the construction of a provider (a store into a freshly allocated
// provider is construction); returns where.
func (r *lockRoles) leaseMutableVG() *ssa.Function {
	var where *ssa.Function
	for _, fn := range r.all {
		fn := fn
		ir.Instrs(fn, func(in ssa.Instruction) {
			var base ssa.Value
			if b, _, ok := storeToField(in, r.leaseF); ok {
				base = b
			} else if op, addr, _, isAtomic := ir.AtomicCall(in); isAtomic && op != "Load" {
				if fa, isFA := addr.(*ssa.FieldAddr); isFA && ir.FieldOf(fa) == r.leaseF {
					base = fa.X
				}
			}
			if base == nil {
				return
			}
			// construction: the provider is fresh in the storing function and has not escaped yet (v_lock_u.go)
			if !r.underConstructionVU(base, in) && where == nil {
				where = fn
			}
		})
	}
	return where
}

// writtenLeaseVG: the read of the lease that went into ExpiresAt of the record handed to the storage call w.
func (r *lockRoles) writtenLeaseVG(w *ssa.Call) ssa.Value {
	if len(w.Call.Args) < 2 {
		return nil
	}
	cell := recordArgCell(w.Call.Args[1])
	if cell == nil {
		return nil
	}
	leaseOfSum := func(v ssa.Value) ssa.Value {
		add, ok := ir.Resolve(v).(*ssa.Call)
		if !ok || ir.CalleeFullName(add) != "(time.Time).Add" || len(add.Call.Args) != 2 {
			return nil
		}
		return r.leaseReadVG(add.Call.Args[1])
	}
	for _, st := range fieldStores(cell, r.recExpires) {
		switch x := ir.Resolve(st.Val).(type) {
		case *ssa.Call: // cast.Ptr(time.Now().Add(lease))
			if len(x.Call.Args) == 1 {
				if l := leaseOfSum(x.Call.Args[0]); l != nil {
					return l
				}
			}
		case *ssa.Alloc: // the cell shape of v_lock_shapes.go: every refresh of the cell
			var res ssa.Value
			for _, cst := range ir.StoresTo(x) {
				l := leaseOfSum(cst.Val)
				if l == nil || (res != nil && res != l) {
					return nil
				}
				res = l
			}
			return res
		}
	}
	return nil
}

// periodFromWrittenLease adds to C05.L2 (acquisition) and C05.L3 (renewal): the renewal that is armed behind a write of
// the lock record is due after lease/k of the lease that write put into the record. While the lease is fixed at
// construction two reads of the field cannot differ. Once it can be changed at run time (a store outside the
// constructor: SetLeaseTTL), a change that lands between "ExpiresAt = now + lease" and "arm(lease/2)" writes the short
// lease and arms at half of the long one: the record of a held lock expires before its next renewal, which then finds
// nothing and ends the chain. Both therefore have to come from ONE read of the lease (the same SSA value).
func (c *Ctx) periodFromWrittenLease(r *lockRoles, ruleAcquire, ruleRenew string) {
	const construct = "renewal period and ExpiresAt of the write it follows come from one read of the lease"
	mutable := r.leaseMutableVG()
	inRenewal := map[*ssa.Function]bool{}
	for _, fn := range r.renewalReachZA() {
		inRenewal[fn] = true
	}
	seen := map[*ssa.Function]bool{}
	fns := append([]*ssa.Function{}, r.lockerFns...)
	fns = append(fns, r.renewalReachZA()...)
	for _, fn := range fns {
		if seen[fn] {
			continue
		}
		seen[fn] = true
		fn := fn
		rule := ruleAcquire
		if inRenewal[fn] {
			rule = ruleRenew
		}
		ir.Instrs(fn, func(in ssa.Instruction) {
			tc := timeoutCallZA(in)
			if tc == nil || !r.periodBelowLease(tc.Call.Args[1]) {
				return
			}
			bo := ir.Resolve(tc.Call.Args[1]).(*ssa.BinOp)
			period := r.leaseReadVG(bo.X)
			// the record writes this arming follows
			ir.Instrs(fn, func(x ssa.Instruction) {
				w := r.storageCall(x, "Create")
				if w == nil {
					w = r.storageCall(x, "CasByVersion")
				}
				if w == nil || !ir.Dominates(w, tc) {
					return
				}
				written := r.writtenLeaseVG(w)
				if written == nil {
					return // L1 speaks about a record whose expiration is not now + lease
				}
				ok := mutable == nil || written == period
				detail := ""
				if !ok {
					detail = "the lease can be changed at run time (" + ir.FnName(mutable) + " stores into it) and is read twice: once for ExpiresAt of the record (" + c.P.InstrPos(w) + ") and once more for the period of the renewal armed behind it. A change between the two reads writes the record with the old lease and arms the renewal at a fraction of the new one; when the new lease is more than k times the old one the record of a held lock, whose storage answers, expires before the renewal comes - the renewal then finds nothing, the chain ends and another caller acquires. Read the lease once per write and use that value for both"
				}
				c.Decide(rule, fn, construct, tc, ok, detail)
			})
		})
	}
}
