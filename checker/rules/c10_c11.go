package rules

import (
	"go/token"
	"go/types"

	"golang.org/x/tools/go/ssa"

	"verif/checker/ir"
)

func init() {
	register(&Check{
		ID: "C10", Title: "Ordered map: iteration stays correct under any mutation history",
		Pkgs:      []string{"container/iterable"},
		Run:       runC10,
		Technique: "static analysis: result-use (contradiction) rule, guard dominance and must-pass-through path queries on go/ssa of container/iterable",
		Explanation: "R1: the result of the node unlink routine ('new head or nil') reaches, at every call site, a nil-test whose non-nil edge stores it into the map's head field. " +
			"R2: a node is handed back to the pool only on an edge where its reference count is tested to be zero (or <=0) and after the unlink routine was applied to it on every path. " +
			"R3: Add pairs the list append with the index store, Remove pairs the unlink with the index delete. " +
			"R4: Iterator() increments the reference count of the node it starts from and stores that node in the iterator; Close() calls the release routine exactly once and clears the pointer. " +
			"R5: in the advance routine every new cursor value gets a reference (+1) on its incoming path and the old cursor loses one (-1) before, also between two consecutive steps. R6: payload is read only from live nodes; R7: cursor routines get only iterator cursors; R8: links are written only by node methods; R9: the unlink routine reports nil or its own successor as new head; R10: release drops its reference before testing the count. R11: the unlink routine overwrites every payload field of the node (key and value) with its zero value on every path that changes the node.",
		NotDecided: "order and liveness of what an iterator returns over all histories (a value statement); the list pointer surgery inside the unlink routine.",
	})
	register(&Check{
		ID: "C11", Title: "Ordered map and LRU cache retain nothing beyond live entries",
		Pkgs:      []string{"container/iterable", "container/lru"},
		Run:       runC11,
		Technique: "static analysis: typestate (acquire/close on all paths) over go/ssa for every iterable.Iterator obtained inside library code, plus the C10 head-propagation rule",
		Explanation: "R1: every value of an iterable.Iterator type obtained by a call of Map.Iterator in non-test library code, and neither returned nor stored into a field, is closed (defer or explicit) on every path to a normal exit. " +
			"R2 (=C10.R1): the unlink result is propagated to the head at every call site, otherwise a stuck head pins every removed node behind it. R3: cursor routines are applied only to iterator cursors. M1-M10: the reference counting and list rules of C10. R4: every insert of the LRU cache is followed by the capacity test in the same critical section (C09.R4). R5: the unlink routine overwrites every payload field of the node (key and value) with its zero value on every path that changes the node - a recycled node keeps nothing of the removed entry reachable.",
		NotDecided: "the numeric retention bound and the cost growth; leaks through iterators that user code forgets to close.",
	})
}

// mapRoles resolves the roles of the ordered map from its exported API and types.
type mapRoles struct {
	Map, node             *types.Named
	head, vals, refCnt    *types.Var
	pool                  *types.Var
	unlink, release, next *ssa.Function
	putVal                *ssa.Function
	iterFn, addFn, remFn  *ssa.Function
	iterT                 *types.Named
	itPtr                 *types.Var
	closeFn               *ssa.Function
}

func resolveMapRoles(c *Ctx) *mapRoles {
	r := &mapRoles{}
	r.Map = c.P.LookupType("container/iterable", "Map")
	if r.Map == nil {
		c.Fatalf("role Map: exported type iterable.Map not found")
	}
	// index field: the only map-typed field; node type = pointee of its element type
	r.vals = c.oneField("map.index", r.Map, func(f *types.Var) bool {
		_, ok := f.Type().Underlying().(*types.Map)
		return ok
	})
	r.node = namedOf(r.vals.Type().Underlying().(*types.Map).Elem())
	if r.node == nil {
		c.Fatalf("role node: element type of the index is not a pointer to a named type")
	}
	c.Role("map.node", r.node.Obj().Name(), r.node.Obj().Pos())
	r.pool = c.oneField("map.pool", r.Map, func(f *types.Var) bool { return ir.IsNamed(f.Type(), "sync", "Pool") })
	r.iterFn = c.RequireFn(c.P.MethodOf(r.Map, "Iterator"), "Map.Iterator")
	r.addFn = c.RequireFn(c.P.MethodOf(r.Map, "Add"), "Map.Add")
	r.remFn = c.RequireFn(c.P.MethodOf(r.Map, "Remove"), "Map.Remove")
	// head = the node-pointer field of Map that Iterator() reads; refCnt = the int field of node it increments
	isNodePtr := func(t types.Type) bool { return namedOf(t) == r.node && t != types.Type(r.node) }
	var headCands, cntCands []*types.Var
	ir.Instrs(r.iterFn, func(in ssa.Instruction) {
		if fa, ok := in.(*ssa.FieldAddr); ok {
			f := ir.FieldOf(fa)
			if f != nil && isNodePtr(f.Type()) && namedOf(fa.X.Type()) == r.Map {
				headCands = appendUniq(headCands, f)
			}
		}
		for _, f := range fieldsWhere(r.node, func(f *types.Var) bool { return types.Identical(f.Type(), types.Typ[types.Int]) }) {
			if _, ok := isFieldDelta(in, f, 1); ok {
				cntCands = appendUniq(cntCands, f)
			}
		}
	})
	if len(headCands) != 1 {
		c.Fatalf("role map.head: Iterator() reads %d node-pointer fields of Map, expected 1", len(headCands))
	}
	r.head = headCands[0]
	c.Role("map.head", r.head.Name(), r.head.Pos())
	if len(cntCands) != 1 {
		// R4 reports the missing increment; fall back to the int field decremented by the release routine below
		r.refCnt = nil
	} else {
		r.refCnt = cntCands[0]
	}
	// unlink = node method without parameters returning a node pointer
	r.unlink = c.oneMethod("node.unlink", r.node, func(m *ssa.Function) bool {
		ps, rs := sigOf(m)
		return len(ps) == 0 && len(rs) == 1 && namedOf(rs[0]) == r.node
	})
	r.putVal = c.oneMethod("node.append", r.node, func(m *ssa.Function) bool {
		ps, rs := sigOf(m)
		return len(ps) > 0 && len(rs) == 1 && namedOf(rs[0]) == r.node
	})
	// iterator type: the concrete type Iterator() returns
	for _, ret := range ir.Returns(r.iterFn) {
		if mi, ok := ret.Results[0].(*ssa.MakeInterface); ok {
			r.iterT = namedOf(mi.X.Type())
		}
	}
	if r.iterT == nil {
		c.Fatalf("role map.iterator: Iterator() does not return a concrete named type")
	}
	c.Role("map.iterator", r.iterT.Obj().Name(), r.iterT.Obj().Pos())
	r.itPtr = c.oneField("iterator.cursor", r.iterT, func(f *types.Var) bool { return isNodePtr(f.Type()) })
	r.closeFn = c.RequireFn(c.P.MethodOf(r.iterT, "Close"), "iterator.Close")
	// release = the Map method taking a node that the iterator's Close calls
	for _, call := range ir.Calls(r.closeFn) {
		if cal := ir.StaticCallee(call); cal != nil && cal.Signature.Recv() != nil && namedOf(cal.Signature.Recv().Type()) == r.Map {
			ps, _ := sigOf(cal)
			if len(ps) == 1 && namedOf(ps[0]) == r.node {
				r.release = cal
			}
		}
	}
	if r.release == nil {
		c.Fatalf("role map.release: iterator Close() does not hand its cursor to a method of the map")
	}
	c.Role("map.release", relName(r.release), r.release.Pos())
	c.Saw(r.release)
	r.next = c.oneMethod("map.advance", r.Map, func(m *ssa.Function) bool {
		ps, rs := sigOf(m)
		if !(len(ps) == 1 && namedOf(ps[0]) == r.node && len(rs) == 1 && namedOf(rs[0]) == r.node) {
			return false
		}
		return hasLoop(m)
	})
	if r.refCnt == nil {
		for _, f := range fieldsWhere(r.node, func(f *types.Var) bool { return types.Identical(f.Type(), types.Typ[types.Int]) }) {
			found := false
			ir.Instrs(r.release, func(in ssa.Instruction) {
				if _, ok := isFieldDelta(in, f, -1); ok {
					found = true
				}
			})
			if found {
				cntCands = appendUniq(cntCands, f)
			}
		}
		if len(cntCands) != 1 {
			c.Fatalf("role node.refCnt: cannot identify the reference counter field")
		}
		r.refCnt = cntCands[0]
	}
	c.Role("node.refCnt", r.refCnt.Name(), r.refCnt.Pos())
	return r
}

func appendUniq(s []*types.Var, f *types.Var) []*types.Var {
	for _, x := range s {
		if x == f {
			return s
		}
	}
	return append(s, f)
}

// headPropagation is C10.R1 / C11.R2.
func headPropagation(c *Ctx, rule string, r *mapRoles) {
	for _, fn := range c.P.FuncsOf("container/iterable") {
		for _, call := range callsTo(fn, r.unlink) {
			ok := false
			detail := "the result of the unlink routine (new head or nil) is discarded"
			if refs := call.Referrers(); refs != nil && len(*refs) > 0 {
				detail = "the result is not stored into the head field on its non-nil edge"
				for _, ref := range *refs {
					if s, isStore := ref.(*ssa.Store); isStore && s.Val == ssa.Value(call) {
						if _, isHead := fieldAddrOf(s.Addr, r.head); isHead {
							// stored under the guard "result != nil"
							if hasFactCmp(s.Block(), func(cm ir.Cmp) bool {
								return cm.Op == token.NEQ && ((cm.X == ssa.Value(call) && ir.IsNilConst(cm.Y)) || (cm.Y == ssa.Value(call) && ir.IsNilConst(cm.X)))
							}) {
								ok = true
							} else {
								detail = "the result is stored into the head field without the nil test (nil means: head unchanged)"
							}
						}
					}
				}
				// the non-nil test must cover every path: from the call, no path to an exit that passes the
				// non-nil edge without the store is possible by construction (store is in the guarded block);
				// additionally require that the guarded store is reached on the non-nil edge directly
			}
			c.Decide(rule, fn, "unlink-result->head", call, ok, detail)
		}
	}
	c.R.Floor(rule, 3)
}

func runC10(c *Ctx) {
	mapRules(c, "C10.R")
	c.unlinkClearsPayload(resolveMapRoles(c), "C10.R11")
}

// mapRules runs the structural rules of the ordered map under the rule-id prefix pfx (C10.R, C08.M).
func mapRules(c *Ctx, pfx string) {
	r := resolveMapRoles(c)
	headPropagation(c, pfx+"1", r)

	// R2 recycle only dead nodes
	for _, fn := range c.P.FuncsOf("container/iterable") {
		ir.Instrs(fn, func(in ssa.Instruction) {
			call, ok := in.(*ssa.Call)
			if !ok || ir.CalleeFullName(call) != "(*sync.Pool).Put" {
				return
			}
			arg := ir.Resolve(call.Call.Args[1])
			if namedOf(arg.Type()) != r.node {
				return
			}
			guarded := c.refZeroGuarded(r, fn, call.Block(), arg, 0)
			if !guarded {
				c.Decide(pfx+"2", fn, "pool.Put(node)", call, false, "the node is recycled on a path where its reference count is not tested to be zero (neither here nor at every call site of this helper): an iterator may still point to it")
				return
			}
			c.NoPath(pfx+"2", "pool.Put(node)", call, ir.Query{Fn: fn,
				Block: func(x ssa.Instruction) bool {
					cl, ok := x.(*ssa.Call)
					return ok && ir.StaticCallee(cl) == r.unlink && same(cl.Call.Args[0], arg)
				},
				Target: func(x ssa.Instruction) bool { return x == ssa.Instruction(call) },
			}, "the node is recycled without having been unlinked")
		})
	}
	c.R.Floor(pfx+"2", 3)

	// R3 index and list in pairs
	{
		fn := r.addFn
		isIdxStore := func(x ssa.Instruction) bool {
			mu, ok := x.(*ssa.MapUpdate)
			if !ok {
				return false
			}
			_, isVals := loadOfField(mu.Map, r.vals)
			return isVals
		}
		puts := callsTo(fn, r.putVal)
		if len(puts) == 0 {
			c.Decide(pfx+"3", fn, "append+index", nil, false, "Add does not call the list append routine")
		}
		for _, pc := range puts {
			c.NoPath(pfx+"3", "append+index", pc, ir.Query{Fn: fn, From: pc, Block: isIdxStore, Target: ir.IsExit},
				"an entry is appended to the list but not stored into the index")
		}
		fn = r.remFn
		isIdxDel := func(x ssa.Instruction) bool {
			cc := builtinCall(x, "delete")
			if cc == nil {
				return false
			}
			_, isVals := loadOfField(cc.Args[0], r.vals)
			return isVals
		}
		uns := callsTo(fn, r.unlink)
		if len(uns) == 0 {
			c.Decide(pfx+"3", fn, "unlink+index-delete", nil, false, "Remove does not call the unlink routine")
		}
		for _, uc := range uns {
			c.NoPath(pfx+"3", "unlink+index-delete", uc, ir.Query{Fn: fn, From: uc, Block: isIdxDel, Target: ir.IsExit},
				"an entry is unlinked but stays in the index")
		}
		// and the other direction: no index delete without unlink
		ir.Instrs(fn, func(x ssa.Instruction) {
			if isIdxDel(x) {
				c.NoPath(pfx+"3", "index-delete-after-unlink", x, ir.Query{Fn: fn,
					Block:  func(y ssa.Instruction) bool { return isCallTo(y, r.unlink) },
					Target: func(y ssa.Instruction) bool { return y == x }},
					"an entry is deleted from the index without being unlinked from the list")
			}
		})
	}
	c.R.Floor(pfx+"3", 3)

	// R4 iterator accounting
	{
		fn := r.iterFn
		var incBase ssa.Value
		ir.Instrs(fn, func(in ssa.Instruction) {
			if b, ok := isFieldDelta(in, r.refCnt, 1); ok {
				incBase = b
			}
		})
		ok := false
		detail := "Iterator() does not increment the reference count of its start node"
		if incBase != nil {
			detail = "the node whose count is incremented is not the one stored in the iterator"
			ir.Instrs(fn, func(in ssa.Instruction) {
				if _, v, isSt := storeToField(in, r.itPtr); isSt {
					if samePath(v, incBase) || same(v, incBase) {
						ok = true
					}
				}
			})
		}
		c.Decide(pfx+"4", fn, "refcount+1 on start node", nil, ok, detail)

		cf := r.closeFn
		isRel := func(x ssa.Instruction) bool { return isCallTo(x, r.release) }
		c.NoPath(pfx+"4", "Close releases", nil, ir.Query{Fn: cf, Block: isRel, Target: ir.IsExit}, "Close can return without releasing the cursor")
		twice := false
		for _, rc := range callsTo(cf, r.release) {
			if w, _ := (ir.Query{Fn: cf, From: rc, Target: isRel}).Find(); w != nil {
				twice = true
			}
			// argument is the cursor
			if _, isCur := loadOfField(rc.Call.Args[1], r.itPtr); !isCur {
				c.Decide(pfx+"4", cf, "Close releases the cursor", rc, false, "the released node is not the iterator's cursor")
			}
		}
		c.Decide(pfx+"4", cf, "Close releases once", nil, !twice, "the release routine can run twice in one Close")
		c.NoPath(pfx+"4", "Close clears cursor", nil, ir.Query{Fn: cf,
			Block: func(x ssa.Instruction) bool {
				_, v, ok := storeToField(x, r.itPtr)
				return ok && ir.IsNilConst(v)
			}, Target: ir.IsExit}, "Close can return with the cursor still set")
	}

	// R5 moves are bracketed: every cursor value returned/continued by the advance routine other than the
	// parameter got +1, and every path from entry to such a +1 passes a -1 on the previous cursor.
	{
		fn := r.next
		incs, decs := 0, 0
		ir.Instrs(fn, func(in ssa.Instruction) {
			if _, ok := isFieldDelta(in, r.refCnt, 1); ok {
				incs++
				c.NoPath(pfx+"5", "ref+1 preceded by ref-1", in, ir.Query{Fn: fn,
					Block:  func(x ssa.Instruction) bool { _, ok := isFieldDelta(x, r.refCnt, -1); return ok },
					Target: func(x ssa.Instruction) bool { return x == in }},
					"the cursor moves to the next node without giving up the reference on the previous one")
			}
			if _, ok := isFieldDelta(in, r.refCnt, -1); ok {
				decs++
			}
		})
		// every path from a -1 to an exit or to the next -1 passes a +1 (the new cursor is referenced)
		ir.Instrs(fn, func(in ssa.Instruction) {
			if _, ok := isFieldDelta(in, r.refCnt, -1); ok {
				c.NoPath(pfx+"5", "ref-1 followed by ref+1", in, ir.Query{Fn: fn, From: in,
					Block: func(x ssa.Instruction) bool { _, ok := isFieldDelta(x, r.refCnt, 1); return ok },
					Target: func(x ssa.Instruction) bool {
						if ir.IsExit(x) {
							return true
						}
						_, ok := isFieldDelta(x, r.refCnt, -1)
						return ok
					}},
					"the cursor gives up its reference and the node it moves to is not referenced")
			}
		})
		// between two references taken there is always one given back
		ir.Instrs(fn, func(in ssa.Instruction) {
			if _, ok := isFieldDelta(in, r.refCnt, 1); !ok {
				return
			}
			c.NoPath(pfx+"5", "ref+1 to ref+1 passes ref-1", in, ir.Query{Fn: fn, From: in,
				Block:  func(x ssa.Instruction) bool { _, ok := isFieldDelta(x, r.refCnt, -1); return ok },
				Target: func(x ssa.Instruction) bool { _, ok := isFieldDelta(x, r.refCnt, 1); return ok }},
				"the cursor takes a reference on a further node without giving back the one it held on the node it leaves: that node keeps a phantom reference and is never unlinked")
		})
		if incs == 0 || decs == 0 {
			c.Decide(pfx+"5", fn, "advance keeps reference counts", nil, false, "the advance routine has no reference count increment/decrement")
		}
	}
	c.R.Floor(pfx+"5", 2)
	c.payloadAndCursorDiscipline(r, pfx+"6", pfx+"7")
	c.linkCensus(r, pfx+"8")
	// R9 the unlink routine reports as new head nil or its own successor
	for _, ret := range ir.Returns(r.unlink) {
		ok := true
		for _, o := range phiClosure(ir.Resolve(ret.Results[0])) {
			if ir.IsNilConst(o) {
				continue
			}
			base, isNext := ssa.Value(nil), false
			if u, isU := ir.Resolve(o).(*ssa.UnOp); isU {
				if fa, isFA := u.X.(*ssa.FieldAddr); isFA && namedOf(fa.X.Type()) == r.node {
					base, isNext = fa.X, true
				}
			}
			if !isNext || len(r.unlink.Params) == 0 || ir.Resolve(base) != ssa.Value(r.unlink.Params[0]) {
				ok = false
			}
		}
		c.Decide(pfx+"9", r.unlink, "new head is nil or the unlinked node's successor", ret, ok, "the unlink routine reports another node than its own successor as new head: the skipped node stays linked without predecessor while head points past it, a later unlink of the head goes through the middle branch and head dangles")
	}
	// R10 release drops its own reference before it tests whether the node is free
	{
		fn := r.release
		var dec ssa.Instruction
		ir.Instrs(fn, func(in ssa.Instruction) {
			if _, ok := isFieldDelta(in, r.refCnt, -1); ok {
				dec = in
			}
		})
		if dec == nil {
			c.Decide(pfx+"10", fn, "release gives the reference back", nil, false, "the release routine does not decrement the reference count")
		} else {
			ir.Instrs(fn, func(in ssa.Instruction) {
				bo, ok := in.(*ssa.BinOp)
				if !ok {
					return
				}
				if _, isCmp := ir.AsCmp(bo); !isCmp {
					return
				}
				if _, isCnt := loadOfField(bo.X, r.refCnt); !isCnt {
					return
				}
				if _, isC := ir.ConstInt(bo.Y); !isC {
					return
				}
				ld, _ := ir.Resolve(bo.X).(ssa.Instruction)
				c.Decide(pfx+"10", fn, "reference count tested after the own reference was dropped", in, ld != nil && ir.Dominates(dec, ld), "the release routine tests the reference count before it has dropped the closing iterator's own reference: the unlink branch is never taken and the removed node stays linked")
			})
		}
	}
}

func runC11(c *Ctx) {
	r := resolveMapRoles(c)
	headPropagation(c, "C11.R2", r)

	iterIface := c.P.LookupType("container/iterable", "Iterator")
	if iterIface == nil {
		c.Fatalf("role Iterator: exported interface iterable.Iterator not found")
	}
	isIterType := func(t types.Type) bool { return namedOf(t) == iterIface }
	closeOf := func(v ssa.Value) func(ssa.Instruction) bool {
		return func(x ssa.Instruction) bool {
			ci, ok := x.(ssa.CallInstruction)
			if !ok {
				return false
			}
			cc := ci.Common()
			if cc.IsInvoke() && cc.Method.Name() == "Close" && same(cc.Value, v) {
				return true
			}
			return false
		}
	}
	for _, rel := range []string{"container/iterable", "container/lru"} {
		for _, fn := range c.P.FuncsOf(rel) {
			ir.Instrs(fn, func(in ssa.Instruction) {
				call, ok := in.(*ssa.Call)
				if !ok || !isIterType(call.Type()) {
					return
				}
				// only iterators created by the map (they pin list nodes)
				if cal := ir.StaticCallee(call); cal != r.iterFn {
					return
				}
				// escaping values are the caller's responsibility
				escapes := false
				if refs := call.Referrers(); refs != nil {
					for _, ref := range *refs {
						switch x := ref.(type) {
						case *ssa.Return:
							escapes = true
						case *ssa.Store:
							if x.Val == ssa.Value(call) {
								if _, isAlloc := x.Addr.(*ssa.Alloc); !isAlloc {
									escapes = true
								}
							}
						case *ssa.ChangeType:
							// the synthetic generic wrappers return the value after a changetype
							if rr := x.Referrers(); rr != nil {
								for _, y := range *rr {
									if _, ok := y.(*ssa.Return); ok {
										escapes = true
									}
								}
							}
						}
					}
				}
				if escapes {
					return
				}
				c.NoPath("C11.R1", "iterator closed on all paths", call, ir.Query{Fn: fn, From: call, Block: closeOf(call), Target: ir.IsExit},
					"an iterator obtained from the ordered map is never closed on this path: the node it points to stays pinned in the list")
			})
		}
	}
	c.R.Floor("C11.R1", 1)
	c.payloadAndCursorDiscipline(r, "", "C11.R3")
	// M: nothing is retained only if the reference counts balance and the list stays consistent (rules of C10)
	mapRules(c, "C11.M")
	c.unlinkClearsPayload(r, "C11.R5")
	// R4: the cache holds at most its capacity: the capacity rule of C09
	lruCapacityRule(c, resolveLRURoles(c), "C11.R4")
}

// hasLoop reports whether fn's CFG has a back edge.
func hasLoop(fn *ssa.Function) bool {
	for _, b := range fn.Blocks {
		for _, s := range b.Succs {
			if s.Dominates(b) {
				return true
			}
		}
	}
	return false
}

// refZeroGuarded reports whether, at block b of fn, the reference count of node is known to be zero (or <=0):
// by a local guard fact, or - when node is a parameter of a private helper - at every static call site.
func (c *Ctx) refZeroGuarded(r *mapRoles, fn *ssa.Function, b *ssa.BasicBlock, node ssa.Value, depth int) bool {
	local := hasFactCmp(b, func(cm ir.Cmp) bool {
		if base, isCnt := loadOfField(cm.X, r.refCnt); isCnt && same(base, node) {
			if z, isC := ir.ConstInt(cm.Y); isC && z == 0 && (cm.Op == token.EQL || cm.Op == token.LEQ) {
				return true
			}
		}
		return false
	})
	if local {
		return true
	}
	prm, isParam := ir.Resolve(node).(*ssa.Parameter)
	if !isParam || depth >= 3 || (fn.Object() != nil && fn.Object().Exported()) {
		return false
	}
	idx := -1
	for i, p := range fn.Params {
		if p == prm {
			idx = i
		}
	}
	sites := 0
	for _, caller := range c.P.FuncsOf("container/iterable") {
		for _, call := range callsTo(caller, fn) {
			sites++
			if idx < 0 || idx >= len(call.Call.Args) || !c.refZeroGuarded(r, caller, call.Block(), call.Call.Args[idx], depth+1) {
				return false
			}
		}
	}
	return sites > 0
}

// payloadAndCursorDiscipline is C10.R6 / C10.R7 (R7 shared with C11.R3).
func (c *Ctx) payloadAndCursorDiscipline(r *mapRoles, ruleRead, ruleCursor string) {
	// live-cursor routines: Map methods (node) -> node
	live := map[*ssa.Function]bool{}
	for _, m := range c.P.MethodsOf(r.Map) {
		ps, rs := sigOf(m)
		if len(ps) == 1 && namedOf(ps[0]) == r.node && len(rs) == 1 && namedOf(rs[0]) == r.node {
			live[m] = true
		}
	}
	cursorRoutine := map[*ssa.Function]bool{r.release: true}
	for m := range live {
		cursorRoutine[m] = true
	}
	payload := fieldsWhere(r.node, func(f *types.Var) bool {
		_, isTP := f.Type().(*types.TypeParam)
		return isTP
	})
	isPayload := func(f *types.Var) bool {
		for _, p := range payload {
			if p == f {
				return true
			}
		}
		return false
	}
	// a node value is "live" if it stems from the index, a live-cursor routine, or the iterator cursor right after
	// it was assigned from such a routine
	var liveNode func(fn *ssa.Function, at ssa.Instruction, v ssa.Value, depth int) bool
	liveNode = func(fn *ssa.Function, at ssa.Instruction, v ssa.Value, depth int) bool {
		if depth > 4 {
			return false
		}
		v = ir.Resolve(v)
		switch x := v.(type) {
		case *ssa.Extract:
			if lk, ok := x.Tuple.(*ssa.Lookup); ok {
				_, isIdx := loadOfField(lk.X, r.vals)
				return isIdx
			}
		case *ssa.Lookup:
			_, isIdx := loadOfField(x.X, r.vals)
			return isIdx
		case *ssa.Call:
			return live[ir.StaticCallee(x)]
		case *ssa.Phi:
			for _, e := range x.Edges {
				if !liveNode(fn, at, e, depth+1) {
					return false
				}
			}
			return true
		case *ssa.UnOp:
			if x.Op != token.MUL {
				return false
			}
			if base, isCur := fieldAddrOf(x.X, r.itPtr); isCur {
				// nearest store to the same cursor before the load, in the same block
				var last *ssa.Store
				for _, in := range x.Block().Instrs {
					if in == ssa.Instruction(x) {
						break
					}
					if b2, val, ok := storeToField(in, r.itPtr); ok && same(b2, base) {
						last = in.(*ssa.Store)
						_ = val
					}
				}
				if last != nil {
					return liveNode(fn, last, last.Val, depth+1)
				}
			}
		}
		return false
	}
	nReads, nCursor := 0, 0
	for _, fn := range c.P.FuncsOf("container/iterable") {
		recv := fn.Signature.Recv()
		if recv == nil {
			continue
		}
		rt := namedOf(recv.Type())
		if rt != r.Map && rt != r.iterT {
			continue
		}
		ir.Instrs(fn, func(in ssa.Instruction) {
			// R6: payload reads
			if u, ok := in.(*ssa.UnOp); ok && u.Op == token.MUL {
				if fa, ok := u.X.(*ssa.FieldAddr); ok && isPayload(ir.FieldOf(fa)) && namedOf(fa.X.Type()) == r.node {
					nReads++
					c.Decide(ruleRead, fn, "payload read from a live node", in, liveNode(fn, in, fa.X, 0),
						"an entry's key/value is read from a node that was obtained neither through the index nor through the skip-removed routine: it can be a removed entry")
				}
			}
			// R7: cursor routines receive only cursors
			if call, ok := in.(*ssa.Call); ok && ruleCursor != "" {
				cal := ir.StaticCallee(call)
				if !cursorRoutine[cal] || len(call.Call.Args) < 2 {
					return
				}
				nCursor++
				arg := ir.Resolve(call.Call.Args[1])
				okArg := false
				switch a := arg.(type) {
				case *ssa.Parameter:
					okArg = cursorRoutine[fn] // the routines pass their own cursor on
				case *ssa.Phi:
					okArg = cursorRoutine[fn]
				case *ssa.UnOp:
					if a.Op == token.MUL {
						_, okArg = fieldAddrOf(a.X, r.itPtr)
					}
				case *ssa.Call:
					okArg = live[ir.StaticCallee(a)]
				}
				c.Decide(ruleCursor, fn, "cursor routine applied to an iterator cursor", in, okArg,
					"a routine that moves/releases a reference is applied to a node on which the caller holds no reference (not an iterator cursor): reference counts get out of balance and removed nodes stay linked or are recycled while in use")
			}
		})
	}
	if ruleRead != "" {
		c.R.Floor(ruleRead, 3)
	}
	if ruleCursor != "" {
		c.R.Floor(ruleCursor, 4)
	}
	_ = nReads
	_ = nCursor
}

// linkCensus is C10.R8: the list links (node-pointer fields of the node) are written only by the node's own
// methods; list surgery elsewhere (a bulk clear, a fast path) bypasses the head/sentinel bookkeeping.
func (c *Ctx) linkCensus(r *mapRoles, rule string) {
	links := fieldsWhere(r.node, func(f *types.Var) bool { return namedOf(f.Type()) == r.node })
	isLink := func(f *types.Var) bool {
		for _, l := range links {
			if l == f {
				return true
			}
		}
		return false
	}
	n := 0
	for _, fn := range c.P.FuncsOf("container/iterable") {
		own := fn.Signature.Recv() != nil && namedOf(fn.Signature.Recv().Type()) == r.node
		ir.Instrs(fn, func(in ssa.Instruction) {
			st, ok := in.(*ssa.Store)
			if !ok {
				return
			}
			fa, ok := st.Addr.(*ssa.FieldAddr)
			if !ok || !isLink(ir.FieldOf(fa)) {
				return
			}
			// stores into a node that is being constructed in this function are initialisation
			if _, fresh := ir.Resolve(fa.X).(*ssa.Alloc); fresh {
				return
			}
			n++
			c.Decide(rule, fn, "list link written by a node method", in, own, "a prev/next link is rewired outside the node's own methods: the head/sentinel bookkeeping (head is the node without predecessor) is bypassed")
		})
	}
	c.R.Floor(rule, 4)
}

// unlinkClearsPayload (C11.R5 / C10.R11): a node that is taken out of the map keeps nothing of the entry it carried: on
// every path of the unlink routine that changes the node (writes a link, the state, or a payload field) every payload
// field - the fields whose type is a type parameter of the node: key and value - is overwritten with its zero value.
// A field left behind stays reachable through the recycled node (the pool, or the terminal node a recycled node becomes):
// the removed entry's key is retained after every iterator was closed, and First()/Next() at the end of the list report
// it (with ok=false) instead of the zero key.
func (c *Ctx) unlinkClearsPayload(r *mapRoles, rule string) {
	fn := r.unlink
	if fn == nil || len(fn.Params) == 0 {
		c.Fatalf("role unlink routine not resolved")
	}
	recv := fn.Params[0]
	payload := fieldsWhere(r.node, func(f *types.Var) bool {
		_, isTP := f.Type().(*types.TypeParam)
		return isTP
	})
	if len(payload) < 2 {
		c.R.Errorf("%s: the node type has %d payload (type-parameter) fields, expected key and value", rule, len(payload))
	}
	isZero := func(v ssa.Value) bool {
		if ir.IsZeroConst(v) {
			return true
		}
		if u, ok := v.(*ssa.UnOp); ok && u.Op == token.MUL {
			if a, ok := u.X.(*ssa.Alloc); ok && len(ir.StoresTo(a)) == 0 {
				return true
			}
		}
		return false
	}
	var mutations []ssa.Instruction
	ir.Instrs(fn, func(in ssa.Instruction) {
		if st, ok := in.(*ssa.Store); ok {
			if fa, ok := st.Addr.(*ssa.FieldAddr); ok && namedOf(fa.X.Type()) == r.node && same(ir.Resolve(fa.X), recv) {
				mutations = append(mutations, in)
			}
		}
	})
	for _, p := range payload {
		p := p
		zeroStore := func(x ssa.Instruction) bool {
			st, ok := x.(*ssa.Store)
			if !ok {
				return false
			}
			fa, ok := st.Addr.(*ssa.FieldAddr)
			return ok && ir.FieldOf(fa) == p && same(ir.Resolve(fa.X), recv) && isZero(st.Val)
		}
		bad := ""
		var at ssa.Instruction
		for _, m := range mutations {
			if zeroStore(m) {
				continue
			}
			before, e1 := (ir.Query{Fn: fn, Block: zeroStore, Target: func(x ssa.Instruction) bool { return x == m }}).Find()
			after, e2 := (ir.Query{Fn: fn, From: m, Block: zeroStore, Target: ir.IsExit}).Find()
			if e1 != nil || e2 != nil {
				c.Undecided(rule, fn, "unlink clears "+p.Name(), m, "path query exceeded its bound")
				return
			}
			if before != nil && after != nil {
				bad = "path " + before.String(c.P) + " then " + after.String(c.P)
				at = m
				break
			}
		}
		c.Decide(rule, fn, "unlink zeroes the node's payload field of type "+p.Type().String(), at, bad == "",
			"the unlink routine changes the node on a path that never overwrites its "+p.Type().String()+"-typed payload field with the zero value: the removed entry stays reachable through the recycled node after all iterators were closed (and First()/Next() at the end of the list report a removed key): "+bad)
	}
}
