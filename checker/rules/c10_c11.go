package rules

import (
	"strings"
	"go/token"
	"go/types"

	"golang.org/x/tools/go/ssa"

	"verif/checker/ir"
)

func init() {
	register(&Check{
		ID: "C10", Title: "Ordered map: iteration stays correct under any mutation history",
		Pkgs:      []string{"container/iterable"},
		Run:       runC10,
		Technique: "static analysis: result-use (contradiction) rule, guard dominance and must-pass-through path queries on go/ssa of container/iterable",
		Explanation: "R1: the result of the node unlink routine ('new head or nil') reaches, at every call site, a nil-test whose non-nil edge stores it into the map's head field (when the routine reports (head, changed) instead, the store sits on the true edge of that flag, and R9 also decides that the flag is true exactly together with the successor and false together with nil). " +
			"R2: a node is handed back to the pool only on an edge where its reference count is tested to be zero (or <=0) and after the unlink routine was applied to it on every path. " +
			"R3: Add pairs the list append with the index store, Remove pairs the unlink with the index delete. " +
			"R4: Iterator() increments the reference count of the node it starts from and stores that node in the iterator; Close() calls the release routine exactly once and clears the pointer. " +
			"R5: in the advance routine every new cursor value gets a reference (+1) on its incoming path and the old cursor loses one (-1) before, also between two consecutive steps. R6: payload is read only from live nodes (from the index, from a skip-removed routine, or tested not to carry the removed mark on every path); R7: cursor routines get only iterator cursors (as argument, or - routines of the iterator itself - from the receiver's cursor); R8: links are written only by the list primitives (node methods, methods of a dedicated list type, the unlink and the append routine); R9: the unlink routine reports nil or its own successor as new head (or, when it re-targets the head itself, writes its own successor and only where the node is known to be the head); R10: release drops its reference before testing the count. The private routines (unlink, append, release, advance) are resolved by what they do (neighbour rewiring, payload fill, reference give-back, loop that moves a reference), wherever they live - also written out in place in the API method. R11: the unlink routine overwrites every payload field of the node (key and value) with its zero value on every path that changes the node. R12: the pointer surgery of the unlink routine: what a neighbour receives is the node's own link of the same name (or nil where the node is known to have no neighbour there), read before the node's own links are cleared; a path that rewires one neighbour rewires the other one too. R13: the key and the value of an Add are stored only into the node the map's tail field designates (read before the field is re-targeted, possibly handed to the append routine at every call) - the end sentinel the iterators at the end are parked on becomes the new entry - never into a node reached through a link or taken from elsewhere. R14: where the unlink routine recognises the head by its nil back link, the head field is assigned only the new head that routine reported, a node allocated in place whose back link is never set, or a node whose back link is cut in the same step. R3 pairs the two steps of Remove per path, in either order (an index delete is matched by an unlink before or behind it). The unlink routine may be split into a function that decides what happens to the node and a private helper of it that does the pointer surgery and whose result the function returns unchanged: the role then goes to the outer function (the one the call sites call), and the verdict is taken on the helper-inlined normal form, where the routine is one body again. R9 reads \"successor\" as the link towards the tail (the link of the filled sentinel into which the append routine hangs the fresh one): the predecessor reported as new head is a violation. R15: the unlink routine cuts links (the node's own and its neighbours') only where the node's reference count is known to be zero - by a test in the routine or at every call of it - so a removed node an iterator is parked on stays linked until the iterator has left it. R16: every decrement of a node's reference count in the package (release, advance, any other function - a census, not a list of methods) is followed on every path to an exit by a call of the unlink routine on that node, or by an edge on which the node is known not to carry the removed mark or its count (read after the decrement) is known not to be zero; no summary kept elsewhere excuses the path. R17: the two sides of the node pool agree on every field of the node other than the payload (R11) and the reference counter (R2): either the function that takes a node from the pool (or the routine it hands the node to) writes the field on every path before it is read, or every pool.Put of the package - a census over all sites - resets it (zero store to the field or to the whole node, a governing test that it is zero, or - for a link - the unlink routine applied before, which clears its own links wherever it rewires a neighbour). R2 for an unlink routine that recycles the node itself (it marks a pinned node, or rewires the neighbours, re-targets the head and hands the node to the pool; the callers are one call): at the Put inside the routine \"unlinked before\" means that every path from its entry to the Put has rewired a neighbour of the node (R12 decides both sides), the count test is the same clause as before; every call of the routine is a recycle event of its caller, decided by what holds inside the routine on every path to its Put, plus: the caller does not dereference the node behind the call.",
		NotDecided: "order and liveness of what an iterator returns over all histories (a value statement).",
	})
	register(&Check{
		ID: "C11", Title: "Ordered map and LRU cache retain nothing beyond live entries",
		Pkgs:      []string{"container/iterable", "container/lru"},
		Run:       runC11,
		Technique: "static analysis: typestate (acquire/close on all paths) over go/ssa for every iterable.Iterator obtained inside library code, plus the C10 head-propagation rule",
		Explanation: "R1: every value of an iterable.Iterator type obtained by a call of Map.Iterator in non-test library code, and neither returned nor stored into a field, is closed (defer or explicit) on every path to a normal exit. " +
			"R2 (=C10.R1): the unlink result is propagated to the head at every call site, otherwise a stuck head pins every removed node behind it. R3: cursor routines are applied only to iterator cursors. M1-M10: the reference counting and list rules of C10. M16: whoever takes a reference off a node tests it: every reference-count decrement in the package is followed on all paths by the unlink routine on that node or by an edge on which the node is known to be not removed or still referenced - a removed entry left linked with count zero is retained for good. R4: every insert of the LRU cache is followed by the capacity test in the same critical section (C09.R4). R5: the unlink routine overwrites every payload field of the node (key and value) with its zero value on every path that changes the node - a recycled node keeps nothing of the removed entry reachable. R6: what the creator's epilogue removes from a table of the cache (the in-flight table, any further built-in map of the cache struct) on one outcome of the creation it removes - or sees absent - on every outcome. R7: an iterator of the package that owns several source iterators closes every one of them on every path of its Close. R8: a value the cache read from its recency list is put back (the move to the most-recent end) only inside the critical section that read it - between the lookup and the re-insert the mutex is never released (a shared lock that is given up counts): an entry that was evicted, removed or cleared in the gap would be resurrected without a capacity test, one entry above the capacity per occurrence. R9: the creator removes its in-flight entry under the very key value it registered it under (the same evaluation of the key mapping, also seen through the parameters of a private helper) - a key that is derived a second time after the create function ran can differ, and then the registered entry stays in the table for ever, one per call.",
		NotDecided: "the numeric retention bound and the cost growth; leaks through iterators that user code forgets to close.",
	})
}

// mapRoles resolves the roles of the ordered map from its exported API and types, and - for the private routines - from
// what they do (which fields they write), not from their receiver, name or signature.
type mapRoles struct {
	Map, node             *types.Named
	head, vals, refCnt    *types.Var
	pool                  *types.Var
	unlink, release, next *ssa.Function
	putVal                *ssa.Function
	iterFn, addFn, remFn  *ssa.Function
	iterT                 *types.Named
	itPtr                 *types.Var
	closeFn               *ssa.Function

	// unlinkSubj is the index (in unlink.Params) of the node the unlink routine takes out of the list: the receiver when
	// the routine is a method of the node, the node parameter when it is a method of the list/map.
	unlinkSubj int
	// unlinkOwnsHead: the unlink routine has no "new head or nil" result; it re-targets the head field itself.
	unlinkOwnsHead bool
	// unlinkStoresHead: the unlink routine writes the head field.
	unlinkStoresHead bool
	// state / deleted: the node field and the constant the unlink routine marks a still referenced node with.
	state      *types.Var
	deleted    int64
	hasDeleted bool
	// unlinkInner: the private helper the unlink routine delegates the pointer surgery to (liftUnlinkV, v_map.go); nil
	// when the routine is one body.
	unlinkInner     *ssa.Function
	unlinkInnerSubj int
}

// isNodePtr reports whether t is a pointer to the node type.
func (r *mapRoles) isNodePtr(t types.Type) bool {
	_, isPtr := t.(*types.Pointer)
	return isPtr && namedOf(t) == r.node
}

// isLink reports whether f is a list link: a node-pointer field of the node.
func (r *mapRoles) isLink(f *types.Var) bool {
	if f == nil {
		return false
	}
	for _, l := range fieldsWhere(r.node, func(f *types.Var) bool { return r.isNodePtr(f.Type()) }) {
		if l == f {
			return true
		}
	}
	return false
}

// payloadFields are the fields of the node that hold the entry: a field whose type is a type parameter (key, value), or a
// struct held by value that has such fields (the entry kept as one value).
func (r *mapRoles) payloadFields() []*types.Var {
	var res []*types.Var
	for _, l := range r.payloadLeavesD() {
		res = appendUniq(res, l.path[0])
	}
	return res
}

func (r *mapRoles) isPayload(f *types.Var) bool {
	for _, p := range r.payloadFields() {
		if p == f {
			return true
		}
	}
	return false
}

// partOfMap reports whether the address/value x is the map itself or a struct nested by value in it (an embedded list
// type): the chain of field addresses from x ends at a value of the Map type.
func (r *mapRoles) partOfMap(x ssa.Value) bool {
	for i := 0; i < 8 && x != nil; i++ {
		if namedOf(x.Type()) == r.Map {
			return true
		}
		x = ir.Resolve(x)
		if namedOf(x.Type()) == r.Map {
			return true
		}
		fa, ok := x.(*ssa.FieldAddr)
		if !ok {
			return false
		}
		x = fa.X
	}
	return false
}

// linkLoadOf reports whether v is a load of a link field of the node value `of`; returns the link.
func (r *mapRoles) linkLoadOf(v ssa.Value, of ssa.Value) (*types.Var, bool) {
	u, ok := ir.Resolve(v).(*ssa.UnOp)
	if !ok || u.Op != token.MUL {
		return nil, false
	}
	fa, ok := u.X.(*ssa.FieldAddr)
	if !ok || !r.isLink(ir.FieldOf(fa)) || !same(fa.X, of) {
		return nil, false
	}
	return ir.FieldOf(fa), true
}

// refDelta decodes in as a change of the reference counter of a node by d: the read-modify-write store itself, or the
// call of a straight-line helper (one block) whose only write to a counter is that change on one of its parameters
// ("pin"/"unpin" one-liners). It returns the node.
func (r *mapRoles) refDelta(in ssa.Instruction, d int64) (ssa.Value, bool) {
	return refDeltaOn(in, r.refCnt, d)
}

func refDeltaOn(in ssa.Instruction, cnt *types.Var, d int64) (ssa.Value, bool) {
	if cnt == nil {
		return nil, false
	}
	if b, ok := isFieldDelta(in, cnt, d); ok {
		return b, true
	}
	call, ok := in.(*ssa.Call)
	if !ok {
		return nil, false
	}
	cal := ir.StaticCallee(call)
	if cal == nil || len(cal.Blocks) != 1 {
		return nil, false
	}
	idx, n := -1, 0
	for _, x := range cal.Blocks[0].Instrs {
		if b, _, isSt := storeToField(x, cnt); isSt {
			n++
			if bb, isD := isFieldDelta(x, cnt, d); isD {
				if prm, isP := ir.Resolve(bb).(*ssa.Parameter); isP {
					for i, p := range cal.Params {
						if p == prm {
							idx = i
						}
					}
				}
			}
			_ = b
		}
	}
	if n != 1 || idx < 0 || idx >= len(call.Call.Args) {
		return nil, false
	}
	return call.Call.Args[idx], true
}

func resolveMapRoles(c *Ctx) *mapRoles {
	r := &mapRoles{}
	r.Map = c.P.LookupType("container/iterable", "Map")
	if r.Map == nil {
		c.Fatalf("role Map: exported type iterable.Map not found")
	}
	// index field: the only map-typed field; node type = pointee of its element type
	r.vals = c.oneField("map.index", r.Map, func(f *types.Var) bool {
		_, ok := f.Type().Underlying().(*types.Map)
		return ok
	})
	r.node = namedOf(r.vals.Type().Underlying().(*types.Map).Elem())
	if r.node == nil {
		c.Fatalf("role node: element type of the index is not a pointer to a named type")
	}
	c.Role("map.node", r.node.Obj().Name(), r.node.Obj().Pos())
	// the recycling pool: the sync.Pool the map holds by value - directly, or inside a typed wrapper struct of this package
	// (a pool of nodes with get/put methods); the recycle events themselves are the (*sync.Pool).Put calls (R2)
	r.pool = c.oneFieldDeep("map.pool", r.Map, func(f *types.Var) bool { return ir.IsNamed(f.Type(), "sync", "Pool") })
	r.iterFn = c.RequireFn(c.P.MethodOf(r.Map, "Iterator"), "Map.Iterator")
	r.addFn = c.RequireFn(c.P.MethodOf(r.Map, "Add"), "Map.Add")
	r.remFn = c.RequireFn(c.P.MethodOf(r.Map, "Remove"), "Map.Remove")
	pkgFns := c.P.FuncsOf("container/iterable")
	// head = the node-pointer field of Map - or of a struct nested by value in Map (an extracted list type) - that
	// Iterator() reads; refCnt = the int field of node it increments
	isNodePtr := r.isNodePtr
	intFields := fieldsWhere(r.node, func(f *types.Var) bool { return types.Identical(f.Type(), types.Typ[types.Int]) })
	var headCands, cntCands []*types.Var
	ir.Instrs(r.iterFn, func(in ssa.Instruction) {
		if fa, ok := in.(*ssa.FieldAddr); ok {
			f := ir.FieldOf(fa)
			if f != nil && isNodePtr(f.Type()) && r.partOfMap(fa.X) {
				headCands = appendUniq(headCands, f)
			}
		}
		for _, f := range intFields {
			if _, ok := refDeltaOn(in, f, 1); ok {
				cntCands = appendUniq(cntCands, f)
			}
		}
	})
	if len(headCands) != 1 {
		c.Fatalf("role map.head: Iterator() reads %d node-pointer fields of Map, expected 1", len(headCands))
	}
	r.head = headCands[0]
	c.Role("map.head", r.head.Name(), r.head.Pos())
	if len(cntCands) != 1 {
		// R4 reports the missing increment; fall back to the int field that is counted down somewhere in the package
		r.refCnt = nil
	} else {
		r.refCnt = cntCands[0]
	}
	// unlink = the routine that takes one of its node parameters (receiver included) out of the list: it rewires a
	// neighbour, i.e. it writes a link of a node it reached through a link of that parameter
	type unlinkCand struct {
		fn   *ssa.Function
		subj int
	}
	var ucands []unlinkCand
	for _, fn := range pkgFns {
		subj := -1
		ir.Instrs(fn, func(in ssa.Instruction) {
			st, ok := in.(*ssa.Store)
			if !ok {
				return
			}
			fa, ok := st.Addr.(*ssa.FieldAddr)
			if !ok || !r.isLink(ir.FieldOf(fa)) {
				return
			}
			for i, p := range fn.Params {
				if !isNodePtr(p.Type()) {
					continue
				}
				if _, viaLink := r.linkLoadOf(fa.X, p); viaLink && subj < 0 {
					subj = i
				}
			}
		})
		if subj >= 0 {
			ucands = append(ucands, unlinkCand{fn, subj})
		}
	}
	if len(ucands) != 1 {
		var names []string
		for _, u := range ucands {
			names = append(names, u.fn.Name())
		}
		c.Fatalf("role %q: expected exactly one routine that rewires the neighbours of a node it is given, found %d %v", "node.unlink", len(ucands), names)
	}
	r.unlink, r.unlinkSubj = ucands[0].fn, ucands[0].subj
	// a routine that is split into "policy" and "pointer surgery": the role goes to the outermost function (v_map.go)
	for i := 0; i < 3; i++ {
		outer, outerSubj, lifted := liftUnlinkV(r, r.unlink, r.unlinkSubj, pkgFns)
		if !lifted {
			break
		}
		if r.unlinkInner == nil {
			r.unlinkInner, r.unlinkInnerSubj = r.unlink, r.unlinkSubj
		}
		r.unlink, r.unlinkSubj = outer, outerSubj
	}
	c.Role("node.unlink", relName(r.unlink), r.unlink.Pos())
	c.Saw(r.unlink)
	{
		_, rs := sigOf(r.unlink)
		reportsHead := false
		for _, t := range rs {
			if isNodePtr(t) {
				reportsHead = true
			}
		}
		storesHead := false
		for _, ufn := range []*ssa.Function{r.unlink, r.unlinkInner} {
			if ufn == nil {
				continue
			}
			ir.Instrs(ufn, func(in ssa.Instruction) {
				if _, _, ok := storeToField(in, r.head); ok {
					storesHead = true
				}
			})
		}
		r.unlinkOwnsHead = !reportsHead
		r.unlinkStoresHead = storesHead
		// the mark of a removed but still referenced node: the constant the unlink routine stores into a field of its node
		// that is neither a link, nor the payload, nor a counter it counts up or down
		subj := r.unlink.Params[r.unlinkSubj]
		ir.Instrs(r.unlink, func(in ssa.Instruction) {
			st, ok := in.(*ssa.Store)
			if !ok {
				return
			}
			fa, ok := st.Addr.(*ssa.FieldAddr)
			if !ok || !same(fa.X, subj) {
				return
			}
			f := ir.FieldOf(fa)
			if f == nil || r.isLink(f) || r.isPayload(f) {
				return
			}
			if k, isC := ir.ConstInt(st.Val); isC {
				if r.hasDeleted && (r.state != f || r.deleted != k) {
					r.state = nil // ambiguous: the state facts are not used
					return
				}
				r.state, r.deleted, r.hasDeleted = f, k, true
			}
		})
		if r.state == nil {
			r.hasDeleted = false
		}
	}
	// append = the routine that fills a node: it stores its own parameters into the payload fields
	var acands []*ssa.Function
	for _, fn := range pkgFns {
		fills := false
		ir.Instrs(fn, func(in ssa.Instruction) {
			if r.isFill(fn, in) {
				fills = true
			}
		})
		if fills {
			acands = append(acands, fn)
		}
	}
	if len(acands) != 1 {
		var names []string
		for _, m := range acands {
			names = append(names, m.Name())
		}
		c.Fatalf("role %q: expected exactly one routine that stores its parameters into the payload of a node, found %d %v", "node.append", len(acands), names)
	}
	r.putVal = acands[0]
	c.Role("node.append", relName(r.putVal), r.putVal.Pos())
	c.Saw(r.putVal)
	// iterator type: the concrete type Iterator() returns
	for _, ret := range ir.Returns(r.iterFn) {
		if mi, ok := ret.Results[0].(*ssa.MakeInterface); ok {
			r.iterT = namedOf(mi.X.Type())
		}
	}
	if r.iterT == nil {
		c.Fatalf("role map.iterator: Iterator() does not return a concrete named type")
	}
	c.Role("map.iterator", r.iterT.Obj().Name(), r.iterT.Obj().Pos())
	r.itPtr = c.oneField("iterator.cursor", r.iterT, func(f *types.Var) bool { return isNodePtr(f.Type()) })
	r.closeFn = c.RequireFn(c.P.MethodOf(r.iterT, "Close"), "iterator.Close")
	if r.refCnt == nil {
		for _, f := range intFields {
			found := false
			for _, fn := range pkgFns {
				ir.Instrs(fn, func(in ssa.Instruction) {
					if _, ok := refDeltaOn(in, f, -1); ok {
						found = true
					}
				})
			}
			if found {
				cntCands = appendUniq(cntCands, f)
			}
		}
		if len(cntCands) != 1 {
			c.Fatalf("role node.refCnt: cannot identify the reference counter field")
		}
		r.refCnt = cntCands[0]
	}
	// release = the Map method taking a node that the iterator's Close hands its cursor to; when Close gives the
	// reference back itself (the routine written out in place), Close is the release routine
	for _, call := range ir.Calls(r.closeFn) {
		if cal := ir.StaticCallee(call); cal != nil && cal.Signature.Recv() != nil && namedOf(cal.Signature.Recv().Type()) == r.Map {
			ps, _ := sigOf(cal)
			if len(ps) == 1 && namedOf(ps[0]) == r.node {
				r.release = cal
			}
		}
	}
	if r.release == nil {
		// a method of the iterator itself that gives a reference back (it takes the node from the receiver's cursor)
		for _, call := range ir.Calls(r.closeFn) {
			cal := ir.StaticCallee(call)
			if cal == nil || cal.Signature.Recv() == nil || namedOf(cal.Signature.Recv().Type()) != r.iterT || len(cal.Params) != 1 {
				continue
			}
			ir.Instrs(cal, func(in ssa.Instruction) {
				if _, ok := r.refDelta(in, -1); ok {
					r.release = cal
				}
			})
		}
	}
	if r.release == nil {
		// written out in place: Close is the release routine (R4 and R10 decide whether it does release, and what)
		r.release = r.closeFn
	}
	c.Role("map.release", relName(r.release), r.release.Pos())
	c.Saw(r.release)
	// advance = the routine that walks the list moving the reference: the Map method node -> node with a loop; or, when
	// the stepping lives elsewhere (a method of the iterator working on its own cursor), the one routine with a loop that
	// gives a reference back
	advCands := c.methodsWhere(r.Map, func(m *ssa.Function) bool {
		ps, rs := sigOf(m)
		if !(len(ps) == 1 && namedOf(ps[0]) == r.node && len(rs) == 1 && namedOf(rs[0]) == r.node) {
			return false
		}
		return hasLoop(m)
	})
	if len(advCands) == 0 {
		for _, fn := range pkgFns {
			if !hasLoop(fn) || len(fn.Blocks) == 0 {
				continue
			}
			drops := false
			ir.Instrs(fn, func(in ssa.Instruction) {
				if _, ok := r.refDelta(in, -1); ok {
					drops = true
				}
			})
			if drops {
				advCands = append(advCands, fn)
			}
		}
	}
	if len(advCands) != 1 {
		var names []string
		for _, m := range advCands {
			names = append(names, m.Name())
		}
		c.Fatalf("role %q: expected exactly one matching method of %s, found %d %v", "map.advance", r.Map.Obj().Name(), len(advCands), names)
	}
	r.next = advCands[0]
	c.Role("map.advance", relName(r.next), r.next.Pos())
	c.Saw(r.next)
	c.Role("node.refCnt", r.refCnt.Name(), r.refCnt.Pos())
	return r
}

// isFill reports whether in stores a parameter of fn into a payload field of a node (the entry is written).
func (r *mapRoles) isFill(fn *ssa.Function, in ssa.Instruction) bool {
	st, ok := in.(*ssa.Store)
	if !ok {
		return false
	}
	_, path, ok := r.nodeFieldPathD(st.Addr)
	if !ok || !r.isPayload(path[0]) {
		return false
	}
	return madeOfParamsD(fn, st.Val, 0)
}

func appendUniq(s []*types.Var, f *types.Var) []*types.Var {
	for _, x := range s {
		if x == f {
			return s
		}
	}
	return append(s, f)
}

// headPropagation is C10.R1 / C11.R2. Two protocols keep the head on the oldest linked node:
//   - the unlink routine reports "new head or nil" and every call site stores a non-nil result into the head field;
//   - the unlink routine has access to the list and re-targets the head field itself; then every call site hands it the
//     list of the map, and inside the routine the head is written only where the unlinked node is known to be the head
//     (it has no predecessor, or it is compared equal to the head).
func headPropagation(c *Ctx, rule string, r *mapRoles) {
	if c.unlinkSplitV(r) && r.unlinkOwnsHead {
		return // a split routine that re-targets the head itself: decided on the normal form only
	}
	for _, fn := range c.P.FuncsOf("container/iterable") {
		for _, call := range callsTo(fn, r.unlink) {
			if r.unlinkOwnsHead {
				ok := true
				detail := ""
				if !r.unlinkStoresHead {
					ok = false
					detail = "the unlink routine neither reports a new head to its caller nor re-targets the head field itself: after the head was unlinked the head field keeps pointing to it"
				}
				for i, p := range r.unlink.Params {
					if i == r.unlinkSubj || i >= len(call.Call.Args) {
						continue
					}
					holdsHead := false
					ir.Instrs(r.unlink, func(in ssa.Instruction) {
						if b, _, isSt := storeToField(in, r.head); isSt && same(b, p) {
							holdsHead = true
						}
					})
					if holdsHead && !r.partOfMap(call.Call.Args[i]) {
						ok = false
						detail = "the unlink routine re-targets the head of the list it is given, and this call site does not give it the list of the map"
					}
				}
				c.Decide(rule, fn, "unlink-result->head", call, ok, detail)
				continue
			}
			ok, detail := r.headResultStoredD(call)
			c.Decide(rule, fn, "unlink-result->head", call, ok, detail)
		}
	}
	c.floorThroughHelpersFA10(rule, 3, r) // x_fa10_w.go: direct call sites, else routines that unlink through a helper
}

func runC10(c *Ctx) {
	mapRules(c, "C10.R")
	c.unlinkClearsPayload(resolveMapRoles(c), "C10.R11")
}

// mapRules runs the structural rules of the ordered map under the rule-id prefix pfx (C10.R, C08.M).
func mapRules(c *Ctx, pfx string) {
	r := resolveMapRoles(c)
	// rs: the roles as the rules about the pointer surgery see them (v_map.go: the inner function of a split unlink routine)
	rs := r
	if c.unlinkSplitV(r) {
		if r.unlinkOwnsHead {
			return
		}
		rs = r.surgeryViewV()
	}
	headPropagation(c, pfx+"1", r)

	// R2 recycle only dead nodes
	for _, fn := range c.P.FuncsOf("container/iterable") {
		ir.Instrs(fn, func(in ssa.Instruction) {
			call, ok := in.(*ssa.Call)
			if !ok || ir.CalleeFullName(call) != "(*sync.Pool).Put" {
				return
			}
			arg := ir.Resolve(call.Call.Args[1])
			if namedOf(arg.Type()) != r.node {
				return
			}
			guarded := c.refZeroGuarded(r, fn, call.Block(), arg, 0)
			if !guarded {
				c.Decide(pfx+"2", fn, "pool.Put(node)", call, false, "the node is recycled on a path where its reference count is not tested to be zero (neither here nor at every call site of this helper): an iterator may still point to it")
				return
			}
			c.NoPath(pfx+"2", "pool.Put(node)", call, ir.Query{Fn: fn,
				Block: func(x ssa.Instruction) bool {
					cl, ok := x.(*ssa.Call)
					if ok && ir.StaticCallee(cl) == r.unlink && r.unlinkSubj < len(cl.Call.Args) && same(cl.Call.Args[r.unlinkSubj], arg) {
						return true
					}
					return r.rewiresNeighbourU(fn, x, arg) // the Put inside the unlink routine itself (v_map_u.go)
				},
				Target: func(x ssa.Instruction) bool { return x == ssa.Instruction(call) },
			}, "the node is recycled without having been unlinked")
		})
	}
	c.recycleThroughUnlinkU(r, pfx+"2") // the calls of an unlink routine that recycles the node itself (v_map_u.go)
	c.R.Floor(pfx+"2", 3)

	// R3 index and list in pairs
	{
		fn := r.addFn
		isIdxStore := func(x ssa.Instruction) bool {
			mu, ok := x.(*ssa.MapUpdate)
			if !ok {
				return false
			}
			_, isVals := loadOfField(mu.Map, r.vals)
			return isVals
		}
		// the append events of Add: the calls of the append routine; when Add fills the node itself (the routine written
		// out in place), the stores of its parameters into the payload
		var puts []ssa.Instruction
		for _, pc := range callsTo(fn, r.putVal) {
			puts = append(puts, pc)
		}
		if fn == r.putVal {
			ir.Instrs(fn, func(x ssa.Instruction) {
				if r.isFill(fn, x) {
					puts = append(puts, x)
				}
			})
		}
		if len(puts) == 0 {
			c.Decide(pfx+"3", fn, "append+index", nil, false, "Add does not call the list append routine")
		}
		for _, pc := range puts {
			c.NoPath(pfx+"3", "append+index", pc, ir.Query{Fn: fn, From: pc, Block: isIdxStore, Target: ir.IsExit},
				"an entry is appended to the list but not stored into the index")
		}
		// Remove pairs the unlink with the index delete, in either order (v_map.go)
		c.removePairsV(r, pfx+"3")
	}
	c.R.Floor(pfx+"3", 3)

	// R4 iterator accounting
	{
		fn := r.iterFn
		var incBase ssa.Value
		ir.Instrs(fn, func(in ssa.Instruction) {
			if b, ok := r.refDelta(in, 1); ok {
				incBase = b
			}
		})
		ok := false
		detail := "Iterator() does not increment the reference count of its start node"
		if incBase != nil {
			detail = "the node whose count is incremented is not the one stored in the iterator"
			ir.Instrs(fn, func(in ssa.Instruction) {
				if _, v, isSt := storeToField(in, r.itPtr); isSt {
					if samePath(v, incBase) || same(v, incBase) || same(peelIdentity(v), incBase) || samePath(peelIdentity(v), incBase) {
						ok = true
					}
				}
			})
		}
		c.Decide(pfx+"4", fn, "refcount+1 on start node", nil, ok, detail)

		cf := r.closeFn
		// the release events of Close: the calls of the release routine; when Close is the release routine (written out in
		// place), the places where it gives a reference back
		inPlace := r.release == cf
		isRel := func(x ssa.Instruction) bool {
			if inPlace {
				_, ok := r.refDelta(x, -1)
				return ok
			}
			return isCallTo(x, r.release)
		}
		c.NoPath(pfx+"4", "Close releases", nil, ir.Query{Fn: cf, Block: isRel, Target: ir.IsExit}, "Close can return without releasing the cursor")
		twice := false
		ir.Instrs(cf, func(rc ssa.Instruction) {
			if !isRel(rc) {
				return
			}
			if _, isDefer := rc.(*ssa.Defer); isDefer {
				return
			}
			if _, isGo := rc.(*ssa.Go); isGo {
				return
			}
			if w, _ := (ir.Query{Fn: cf, From: rc, Target: isRel}).Find(); w != nil {
				twice = true
			}
			// argument is the cursor
			var released []ssa.Value
			if inPlace {
				b, _ := r.refDelta(rc, -1)
				released = append(released, b)
			} else if args := rc.(ssa.CallInstruction).Common().Args; len(args) > 1 {
				released = append(released, args[1])
			} else {
				// a release routine of the iterator itself: the nodes it gives a reference back on
				ir.Instrs(r.release, func(y ssa.Instruction) {
					if b, ok := r.refDelta(y, -1); ok {
						released = append(released, b)
					}
				})
			}
			isCur := len(released) > 0
			for _, v := range released {
				if v == nil {
					isCur = false
					continue
				}
				if _, ok := loadOfField(v, r.itPtr); !ok {
					isCur = false
				}
			}
			if !isCur {
				c.Decide(pfx+"4", cf, "Close releases the cursor", rc, false, "the released node is not the iterator's cursor")
			}
		})
		c.Decide(pfx+"4", cf, "Close releases once", nil, !twice, "the release routine can run twice in one Close")
		c.NoPath(pfx+"4", "Close clears cursor", nil, ir.Query{Fn: cf,
			Block: func(x ssa.Instruction) bool {
				_, v, ok := storeToField(x, r.itPtr)
				return ok && ir.IsNilConst(v)
			}, Target: ir.IsExit}, "Close can return with the cursor still set")
	}

	// R5 moves are bracketed: every cursor value returned/continued by the advance routine other than the
	// parameter got +1, and every path from entry to such a +1 passes a -1 on the previous cursor.
	{
		fn := r.next
		incs, decs := 0, 0
		ir.Instrs(fn, func(in ssa.Instruction) {
			if _, ok := r.refDeltaDeep(in, 1); ok {
				incs++
				c.NoPath(pfx+"5", "ref+1 preceded by ref-1", in, ir.Query{Fn: fn,
					Block:  func(x ssa.Instruction) bool { _, ok := r.refDeltaDeep(x, -1); return ok },
					Target: func(x ssa.Instruction) bool { return x == in }},
					"the cursor moves to the next node without giving up the reference on the previous one")
			}
			if _, ok := r.refDeltaDeep(in, -1); ok {
				decs++
			}
		})
		// every path from a -1 to an exit or to the next -1 passes a +1 (the new cursor is referenced)
		ir.Instrs(fn, func(in ssa.Instruction) {
			if _, ok := r.refDeltaDeep(in, -1); ok {
				c.NoPath(pfx+"5", "ref-1 followed by ref+1", in, ir.Query{Fn: fn, From: in,
					Block: func(x ssa.Instruction) bool { _, ok := r.refDeltaDeep(x, 1); return ok },
					Target: func(x ssa.Instruction) bool {
						if ir.IsExit(x) {
							return true
						}
						_, ok := r.refDeltaDeep(x, -1)
						return ok
					}},
					"the cursor gives up its reference and the node it moves to is not referenced")
			}
		})
		// between two references taken there is always one given back
		ir.Instrs(fn, func(in ssa.Instruction) {
			if _, ok := r.refDeltaDeep(in, 1); !ok {
				return
			}
			c.NoPath(pfx+"5", "ref+1 to ref+1 passes ref-1", in, ir.Query{Fn: fn, From: in,
				Block:  func(x ssa.Instruction) bool { _, ok := r.refDeltaDeep(x, -1); return ok },
				Target: func(x ssa.Instruction) bool { _, ok := r.refDeltaDeep(x, 1); return ok }},
				"the cursor takes a reference on a further node without giving back the one it held on the node it leaves: that node keeps a phantom reference and is never unlinked")
		})
		if incs == 0 || decs == 0 {
			c.Decide(pfx+"5", fn, "advance keeps reference counts", nil, false, "the advance routine has no reference count increment/decrement")
		}
	}
	c.R.Floor(pfx+"5", 2)
	c.payloadAndCursorDiscipline(r, pfx+"6", pfx+"7")
	c.linkCensus(r, pfx+"8")
	c.unlinkSurgery(rs, pfx+"12")
	c.mapRulesV(rs, pfx) // R13, R14 (v_lru_map.go)
	c.unlinkOnlyUnpinnedV(rs, pfx+"15") // v_map.go
	// R9 the unlink routine reports as new head nil or its own successor; when it re-targets the head itself, it writes
	// its own successor, and only where the unlinked node is known to be the head
	unlinked := ssa.Value(nil)
	if rs.unlinkSubj < len(rs.unlink.Params) {
		unlinked = rs.unlink.Params[rs.unlinkSubj]
	}
	succLink := c.succLinkV(r) // the link towards the tail (v_map.go); nil = not resolved, either link is accepted
	isSuccessor := func(o ssa.Value) bool {
		base, isNext := ssa.Value(nil), false
		if u, isU := ir.Resolve(o).(*ssa.UnOp); isU {
			if fa, isFA := u.X.(*ssa.FieldAddr); isFA && namedOf(fa.X.Type()) == rs.node && (succLink == nil || ir.FieldOf(fa) == succLink) {
				base, isNext = fa.X, true
			}
		}
		return isNext && unlinked != nil && ir.Resolve(base) == unlinked
	}
	if !rs.unlinkOwnsHead {
		for _, ret := range ir.Returns(rs.unlink) {
			ok := true
			hi, _ := rs.unlinkResultIdxD()
			if hi < 0 || hi >= len(ret.Results) {
				continue
			}
			for _, o := range phiClosure(ir.Resolve(ret.Results[hi])) {
				if ir.IsNilConst(o) {
					continue
				}
				if !isSuccessor(o) {
					ok = false
				}
			}
			c.Decide(pfx+"9", rs.unlink, "new head is nil or the unlinked node's successor", ret, ok, "the unlink routine reports another node than its own successor as new head: the skipped node stays linked without predecessor while head points past it, a later unlink of the head goes through the middle branch and head dangles")
		}
		c.unlinkFlagAgreesD(rs, pfx+"9", isSuccessor)
	} else {
		subj := unlinked
		ir.Instrs(rs.unlink, func(in ssa.Instruction) {
			_, val, isSt := storeToField(in, rs.head)
			if !isSt {
				return
			}
			ok := true
			for _, o := range phiClosure(ir.Resolve(val)) {
				if !isSuccessor(o) {
					ok = false
				}
			}
			c.Decide(pfx+"9", rs.unlink, "new head is nil or the unlinked node's successor", in, ok, "the unlink routine makes another node than its own successor the new head: the skipped node stays linked without predecessor while head points past it, a later unlink of the head goes through the middle branch and head dangles")
			guarded := hasFactCmp(in.Block(), func(cm ir.Cmp) bool {
				if cm.Op != token.EQL {
					return false
				}
				for _, xy := range [][2]ssa.Value{{cm.X, cm.Y}, {cm.Y, cm.X}} {
					// the node has no predecessor
					if _, isLink := rs.linkLoadOf(xy[0], subj); isLink && ir.IsNilConst(xy[1]) {
						return true
					}
					// the node is the head
					if _, isHead := loadOfField(xy[0], rs.head); isHead && same(xy[1], subj) {
						return true
					}
				}
				return false
			})
			c.Decide(pfx+"9", rs.unlink, "head re-targeted only when the unlinked node is the head", in, guarded,
				"the unlink routine writes the head field on a path where the node it unlinks is not known to be the head (no test that it has no predecessor / equals the head)")
		})
	}
	// R10 release drops its own reference before it tests whether the node is free
	{
		fn := r.release
		var dec ssa.Instruction
		ir.Instrs(fn, func(in ssa.Instruction) {
			if _, ok := r.refDelta(in, -1); ok {
				dec = in
			}
		})
		if dec == nil {
			c.Decide(pfx+"10", fn, "release gives the reference back", nil, false, "the release routine does not decrement the reference count")
		} else {
			ir.Instrs(fn, func(in ssa.Instruction) {
				bo, ok := in.(*ssa.BinOp)
				if !ok {
					return
				}
				if _, isCmp := ir.AsCmp(bo); !isCmp {
					return
				}
				if _, isCnt := loadOfField(bo.X, r.refCnt); !isCnt {
					return
				}
				if _, isC := ir.ConstInt(bo.Y); !isC {
					return
				}
				ld, _ := ir.Resolve(bo.X).(ssa.Instruction)
				c.Decide(pfx+"10", fn, "reference count tested after the own reference was dropped", in, ld != nil && ir.Dominates(dec, ld), "the release routine tests the reference count before it has dropped the closing iterator's own reference: the unlink branch is never taken and the removed node stays linked")
			})
		}
	}
	c.refDropCensusG(r, pfx+"16") // v_map_g.go
	c.pooledNodeStateG(r, pfx+"17") // v_map_g2.go
}

func runC11(c *Ctx) {
	r := resolveMapRoles(c)
	headPropagation(c, "C11.R2", r)

	iterIface := c.P.LookupType("container/iterable", "Iterator")
	if iterIface == nil {
		c.Fatalf("role Iterator: exported interface iterable.Iterator not found")
	}
	isIterType := func(t types.Type) bool { return namedOf(t) == iterIface }
	closeOf := func(v ssa.Value) func(ssa.Instruction) bool {
		return func(x ssa.Instruction) bool {
			ci, ok := x.(ssa.CallInstruction)
			if !ok {
				return false
			}
			cc := ci.Common()
			if cc.IsInvoke() && cc.Method.Name() == "Close" && same(cc.Value, v) {
				return true
			}
			return false
		}
	}
	for _, rel := range []string{"container/iterable", "container/lru"} {
		for _, fn := range c.P.FuncsOf(rel) {
			ir.Instrs(fn, func(in ssa.Instruction) {
				call, ok := in.(*ssa.Call)
				if !ok || !isIterType(call.Type()) {
					return
				}
				// only iterators created by the map (they pin list nodes)
				if cal := ir.StaticCallee(call); cal != r.iterFn {
					return
				}
				// escaping values are the caller's responsibility
				escapes := false
				if refs := call.Referrers(); refs != nil {
					for _, ref := range *refs {
						switch x := ref.(type) {
						case *ssa.Return:
							escapes = true
						case *ssa.Store:
							if x.Val == ssa.Value(call) {
								if _, isAlloc := x.Addr.(*ssa.Alloc); !isAlloc {
									escapes = true
								}
							}
						case *ssa.ChangeType:
							// the synthetic generic wrappers return the value after a changetype
							if rr := x.Referrers(); rr != nil {
								for _, y := range *rr {
									if _, ok := y.(*ssa.Return); ok {
										escapes = true
									}
								}
							}
						}
					}
				}
				if escapes {
					return
				}
				c.NoPath("C11.R1", "iterator closed on all paths", call, ir.Query{Fn: fn, From: call, Block: closeOf(call), Target: ir.IsExit},
					"an iterator obtained from the ordered map is never closed on this path: the node it points to stays pinned in the list")
			})
		}
	}
	c.R.Floor("C11.R1", 1)
	c.payloadAndCursorDiscipline(r, "", "C11.R3")
	// M: nothing is retained only if the reference counts balance and the list stays consistent (rules of C10)
	mapRules(c, "C11.M")
	c.unlinkClearsPayload(r, "C11.R5")
	// R4: the cache holds at most its capacity: the capacity rule of C09
	lruCapacityRule(c, resolveLRURoles(c), "C11.R4")
	c.lruAuxTables(resolveLRURoles(c), "C11.R6")
	c.compositeCloseClosesAll("C11.R7")
	c.lruReinsertInSection(resolveLRURoles(c), "C11.R8")
	c.lruFlightKey(resolveLRURoles(c), "C11.R9")
}

// lruAuxTables (C11.R6): the tables the cache keeps besides the entries themselves (the in-flight table, any further
// built-in map of the cache struct) hold an entry only while the operation it belongs to runs. What the creator's
// epilogue takes out on one outcome of the creation it takes out - or sees absent - on every outcome: an entry that is
// removed only when the creation succeeded stays for ever when it failed, one key per such history step.
func (c *Ctx) lruAuxTables(r *lruRoles, rule string) {
	n := 0
	for _, fn := range r.bodies {
		var create *ssa.Call
		ir.Instrs(fn, func(in ssa.Instruction) {
			if call, ok := in.(*ssa.Call); ok && !call.Call.IsInvoke() {
				if _, isCreate := loadOfField(call.Call.Value, r.create); isCreate {
					create = call
				}
			}
		})
		if create == nil {
			continue
		}
		// (the tables of the cache object, also when they are grouped in a struct it holds by value)
		for _, f := range stateMapFieldsC(r.ecache) {
			isDel := func(x ssa.Instruction) bool {
				cc := builtinCall(x, "delete")
				if cc == nil {
					return false
				}
				_, ok := loadOfField(cc.Args[0], f)
				return ok
			}
			var dels []ssa.Instruction
			ir.Instrs(fn, func(x ssa.Instruction) {
				if isDel(x) {
					dels = append(dels, x)
				}
			})
			reach := false
			for _, d := range dels {
				if w, _ := (ir.Query{Fn: fn, From: create, Target: func(x ssa.Instruction) bool { return x == d }}).Find(); w != nil {
					reach = true
				}
			}
			if !reach {
				continue
			}
			n++
			absent := func(from, to *ssa.BasicBlock) bool {
				ef := ir.EdgeFact(from, to)
				if ef == nil {
					return false
				}
				ff := ef.StripNot()
				ex, isEx := ff.Cond.(*ssa.Extract)
				if !isEx || ex.Index != 1 || ff.True {
					return false
				}
				lk, isLk := ex.Tuple.(*ssa.Lookup)
				if !isLk {
					return false
				}
				_, ok := loadOfField(lk.X, f)
				return ok
			}
			c.NoPath(rule, "entry of "+f.Name()+" removed on every outcome of the creation", create, ir.Query{Fn: fn, From: create, Block: isDel, BlockEdge: absent,
				Target: func(x ssa.Instruction) bool { return ir.IsExit(x) || x == ssa.Instruction(create) }},
				"after the create function returned, the entry of the cache's table '"+f.Name()+"' is removed on some outcomes only: on the others it stays although its operation is over - the table grows with the history (one key per failed or overtaken creation), and whoever consults it later acts on a stale mark")
		}
	}
	if n == 0 {
		// the clean-up of the in-flight table is not in the function that calls the create function (delegated to a helper
		// or a closure): the rules of the in-flight table (C09.R2, shared as C11.R4) decide it where it is
		c.Decide(rule, r.getOrCreate, "creator epilogue cleans the cache's tables", nil, true, "")
	}
}

// compositeCloseClosesAll (C11.R7): an iterator of this package that owns other iterators (fields of the Iterator
// interface type, directly or in embedded-by-value structs) closes every one of them on every path of its Close, also
// when an earlier Close reported an error - a source that is a map iterator pins a list node until it is closed.
func (c *Ctx) compositeCloseClosesAll(rule string) {
	iterIface := c.P.LookupType("container/iterable", "Iterator")
	n := 0
	for _, fn := range c.P.FuncsOf("container/iterable") {
		if fn.Name() != "Close" || fn.Signature.Recv() == nil || len(fn.Blocks) == 0 || fn.Parent() != nil {
			continue
		}
		// Close calls on values loaded from fields of the receiver
		type site struct {
			in   ssa.Instruction
			path string
		}
		var sites []site
		ir.Instrs(fn, func(in ssa.Instruction) {
			ci, ok := in.(ssa.CallInstruction)
			if !ok {
				return
			}
			cc := ci.Common()
			if !cc.IsInvoke() || cc.Method.Name() != "Close" || namedOf(cc.Value.Type()) != iterIface {
				return
			}
			p := ir.Path(cc.Value)
			if strings.HasPrefix(p, "recv.") {
				sites = append(sites, site{in, p})
			}
		})
		// ... and calls of a helper method of the part that holds the source, which closes it (v_mixer_close.go)
		for _, hs := range c.closeSitesThroughHelpers(fn, iterIface, 0) {
			sites = append(sites, site{hs.in, hs.path})
		}
		paths := map[string]bool{}
		for _, s := range sites {
			paths[s.path] = true
		}
		if len(paths) < 2 {
			// the sources kept in an array/slice and closed in a loop: the loop must run over all of them - no exit from
			// inside the loop body (return, break) besides the exhausted range
			for _, s := range sites {
				blk := s.in.Block()
				// the innermost natural loop around the call
				var header *ssa.BasicBlock
				body := map[*ssa.BasicBlock]bool{}
				for d := blk; d != nil && header == nil; d = d.Idom() {
					var work []*ssa.BasicBlock
					for _, p := range d.Preds {
						if d.Dominates(p) {
							work = append(work, p)
						}
					}
					if len(work) == 0 {
						continue
					}
					nat := map[*ssa.BasicBlock]bool{d: true}
					for len(work) > 0 {
						x := work[len(work)-1]
						work = work[:len(work)-1]
						if nat[x] {
							continue
						}
						nat[x] = true
						work = append(work, x.Preds...)
					}
					if nat[blk] {
						header, body = d, nat
					}
				}
				if header == nil {
					continue // a single source
				}
				n++
				early := false
				for x := range body {
					if len(x.Succs) == 0 {
						early = true
					}
					if x == header {
						continue
					}
					for _, sc := range x.Succs {
						if !body[sc] {
							early = true
						}
					}
				}
				c.Decide(rule, fn, "Close closes every source of the loop", s.in, !early,
					"the loop that closes the sources can be left before all of them are closed (an earlier Close failed): a map iterator behind a later one keeps its list node pinned for ever")
			}
			continue
		}
		for p := range paths {
			p := p
			n++
			isClose := func(x ssa.Instruction) bool {
				for _, s := range sites {
					if s.in == x && s.path == p {
						return true
					}
				}
				return false
			}
			c.NoPath(rule, "Close closes "+strings.TrimPrefix(p, "recv."), nil, ir.Query{Fn: fn, Block: isClose, Target: ir.IsExit},
				"Close of the composite iterator can return without closing "+strings.TrimPrefix(p, "recv.")+" (an earlier Close failed): a map iterator behind it keeps its list node pinned for ever although the user closed everything it was given")
		}
	}
	if n == 0 {
		c.Decide(rule, nil, "composite iterators close every source", nil, false, "no iterator owning two sources found (the mixer changed shape)")
	}
}

// hasLoop reports whether fn's CFG has a back edge.
func hasLoop(fn *ssa.Function) bool {
	for _, b := range fn.Blocks {
		for _, s := range b.Succs {
			if s.Dominates(b) {
				return true
			}
		}
	}
	return false
}

// refZeroGuarded reports whether, at block b of fn, the reference count of node is known to be zero (or <=0):
// by a local guard fact, or - when node is a parameter of a private helper - at every static call site.
func (c *Ctx) refZeroGuarded(r *mapRoles, fn *ssa.Function, b *ssa.BasicBlock, node ssa.Value, depth int) bool {
	local := hasFactCmp(b, func(cm ir.Cmp) bool {
		if base, isCnt := loadOfField(cm.X, r.refCnt); isCnt && same(base, node) {
			if z, isC := ir.ConstInt(cm.Y); isC && z == 0 && (cm.Op == token.EQL || cm.Op == token.LEQ) {
				return true
			}
		}
		return false
	})
	if local {
		return true
	}
	prm, isParam := ir.Resolve(node).(*ssa.Parameter)
	if !isParam || depth >= 3 || (fn.Object() != nil && fn.Object().Exported()) {
		return false
	}
	idx := -1
	for i, p := range fn.Params {
		if p == prm {
			idx = i
		}
	}
	sites := 0
	for _, caller := range c.P.FuncsOf("container/iterable") {
		for _, call := range callsTo(caller, fn) {
			sites++
			if idx < 0 || idx >= len(call.Call.Args) || !c.refZeroGuarded(r, caller, call.Block(), call.Call.Args[idx], depth+1) {
				return false
			}
		}
	}
	return sites > 0
}

// payloadAndCursorDiscipline is C10.R6 / C10.R7 (R7 shared with C11.R3).
func (c *Ctx) payloadAndCursorDiscipline(r *mapRoles, ruleRead, ruleCursor string) {
	// live-cursor routines: Map methods (node) -> node
	live := map[*ssa.Function]bool{}
	for _, m := range c.P.MethodsOf(r.Map) {
		if r.liveResultIdxD(m) >= 0 {
			live[m] = true
		}
	}
	cursorRoutine := map[*ssa.Function]bool{r.release: true, r.next: true}
	for m := range live {
		cursorRoutine[m] = true
	}
	leaves := r.payloadLeavesD()
	// notDeleted decodes a comparison that is known to hold as "the state of node n is not the removed mark".
	notDeleted := func(cm ir.Cmp) (ssa.Value, bool) {
		if !r.hasDeleted {
			return nil, false
		}
		for _, xy := range [][2]ssa.Value{{cm.X, cm.Y}, {cm.Y, cm.X}} {
			n, isState := loadOfField(xy[0], r.state)
			k, isC := ir.ConstInt(xy[1])
			if !isState || !isC {
				continue
			}
			if (cm.Op == token.NEQ && k == r.deleted) || (cm.Op == token.EQL && k != r.deleted) {
				return n, true
			}
		}
		return nil, false
	}
	// liveCursorMethod: the advance routine when it is a method of the iterator that works on the iterator's own cursor:
	// it leaves its result in the cursor on every path (the counterpart of "cursor = advance(cursor)").
	liveCursorMethod := map[*ssa.Function]bool{}
	if fn := r.next; fn != nil && fn.Signature.Recv() != nil && namedOf(fn.Signature.Recv().Type()) == r.iterT && len(fn.Params) == 1 {
		w, err := (ir.Query{Fn: fn, Block: func(x ssa.Instruction) bool {
			b, v, ok := storeToField(x, r.itPtr)
			return ok && same(b, fn.Params[0]) && !ir.IsNilConst(v)
		}, Target: ir.IsExit}).Find()
		if w == nil && err == nil {
			liveCursorMethod[fn] = true
		}
	}
	// a node value is "live" (not a removed entry) if it stems from the index, from a live-cursor routine, if it is tested
	// not to carry the removed mark (a guard fact at the point of use, or on the edge on which a phi selects it), or if it
	// is the iterator cursor and every path to the point of use ends with one of: the cursor assigned a live value, the
	// iterator's own advance routine, the test that the cursor does not carry the removed mark
	var liveNode func(fn *ssa.Function, facts []ir.Fact, v ssa.Value, depth int) bool
	liveNode = func(fn *ssa.Function, facts []ir.Fact, v ssa.Value, depth int) bool {
		if depth > 4 {
			return false
		}
		v = ir.Resolve(v)
		for _, f := range facts {
			if cm, ok := f.Cmp(); ok {
				if n, ok := notDeleted(cm); ok && same(n, v) {
					return true
				}
			}
		}
		switch x := v.(type) {
		case *ssa.Extract:
			if lk, ok := x.Tuple.(*ssa.Lookup); ok {
				_, isIdx := loadOfField(lk.X, r.vals)
				return isIdx
			}
			// the node result of a live-cursor routine that reports more than the node ("node, has := settle(cursor)")
			if call, ok := x.Tuple.(*ssa.Call); ok {
				cal := ir.StaticCallee(call)
				return live[cal] && x.Index == r.liveResultIdxD(cal)
			}
		case *ssa.Lookup:
			_, isIdx := loadOfField(x.X, r.vals)
			return isIdx
		case *ssa.Call:
			return live[ir.StaticCallee(x)]
		case *ssa.Phi:
			for i, e := range x.Edges {
				var efacts []ir.Fact
				if i < len(x.Block().Preds) {
					pred := x.Block().Preds[i]
					efacts = append(efacts, ir.Facts(pred)...)
					if ef := ir.EdgeFact(pred, x.Block()); ef != nil {
						efacts = append(efacts, *ef)
					}
				}
				if !liveNode(fn, efacts, e, depth+1) {
					return false
				}
			}
			return true
		case *ssa.UnOp:
			if x.Op != token.MUL {
				return false
			}
			if base, isCur := fieldAddrOf(x.X, r.itPtr); isCur {
				// nearest store to the same cursor before the load, in the same block
				var last *ssa.Store
				for _, in := range x.Block().Instrs {
					if in == ssa.Instruction(x) {
						break
					}
					if b2, val, ok := storeToField(in, r.itPtr); ok && same(b2, base) {
						last = in.(*ssa.Store)
						_ = val
					}
				}
				if last != nil {
					return liveNode(fn, ir.Facts(last.Block()), last.Val, depth+1)
				}
				// path form
				establishes := func(in ssa.Instruction) bool {
					if b2, val, ok := storeToField(in, r.itPtr); ok && same(b2, base) {
						return liveNode(fn, ir.Facts(in.Block()), val, depth+1)
					}
					if call, ok := in.(*ssa.Call); ok && liveCursorMethod[ir.StaticCallee(call)] && len(call.Call.Args) == 1 && same(call.Call.Args[0], base) {
						return true
					}
					return false
				}
				tested := func(f ir.Fact) bool {
					cm, ok := f.Cmp()
					if !ok {
						return false
					}
					n, ok := notDeleted(cm)
					if !ok {
						return false
					}
					b2, isCur := loadOfField(n, r.itPtr)
					return isCur && same(b2, base)
				}
				target := func(in ssa.Instruction) bool { return in == ssa.Instruction(x) }
				if w, err := (ir.Query{Fn: fn, Block: establishes, BlockFact: tested, Target: target}).Find(); w != nil || err != nil {
					return false
				}
				// nothing that moves the cursor elsewhere lies between such a point and the use
				clean := true
				ir.Instrs(fn, func(in ssa.Instruction) {
					if !clean || establishes(in) {
						return
					}
					moves := false
					if b2, _, ok := storeToField(in, r.itPtr); ok && same(b2, base) {
						moves = true
					}
					if call, ok := in.(ssa.CallInstruction); ok {
						for _, a := range call.Common().Args {
							if same(a, base) {
								moves = true
							}
						}
					}
					if !moves {
						return
					}
					if w, err := (ir.Query{Fn: fn, From: in, Block: establishes, BlockFact: tested, Target: target}).Find(); w != nil || err != nil {
						clean = false
					}
				})
				return clean
			}
		}
		return false
	}
	// ownCursor: a cursor routine that is a method of the iterator and takes no node works on the iterator's own cursor:
	// every node it gives a reference back on is the receiver's cursor or a node it took a reference on itself.
	ownCursor := func(fn *ssa.Function) bool {
		if fn == nil || fn.Signature.Recv() == nil || namedOf(fn.Signature.Recv().Type()) != r.iterT || len(fn.Params) != 1 {
			return false
		}
		ok, n := true, 0
		ir.Instrs(fn, func(in ssa.Instruction) {
			base, isDec := r.refDelta(in, -1)
			if !isDec {
				return
			}
			n++
			for _, o := range phiClosure(ir.Resolve(base)) {
				o = ir.Resolve(o)
				if b2, isCur := loadOfField(o, r.itPtr); isCur && same(b2, fn.Params[0]) {
					continue
				}
				taken := false
				ir.Instrs(fn, func(y ssa.Instruction) {
					if b3, isInc := r.refDelta(y, 1); isInc && same(b3, o) {
						taken = true
					}
				})
				if !taken {
					ok = false
				}
			}
		})
		return ok && n > 0
	}
	nReads, nCursor := 0, 0
	for _, fn := range c.P.FuncsOf("container/iterable") {
		recv := fn.Signature.Recv()
		if recv == nil {
			continue
		}
		rt := namedOf(recv.Type())
		if rt != r.Map && rt != r.iterT {
			continue
		}
		ir.Instrs(fn, func(in ssa.Instruction) {
			// R6: payload reads
			if u, ok := in.(*ssa.UnOp); ok && u.Op == token.MUL {
				if base, path, ok := r.nodeFieldPathD(u.X); ok && r.isPayload(path[0]) {
					// one obligation per payload value (key, value) the load reads: a load of the whole entry reads both
					isLive, decided := false, false
					for _, l := range leaves {
						if !l.under(path) {
							continue
						}
						if !decided {
							isLive, decided = liveNode(fn, ir.Facts(in.Block()), base, 0), true
						}
						nReads++
						if ruleRead == "" {
							continue // decided under the rule id of the caller that asked for it (C11.M6), not twice
						}
						c.Decide(ruleRead, fn, "payload read from a live node", in, isLive,
							"an entry's key/value is read from a node that was obtained neither through the index nor through the skip-removed routine: it can be a removed entry")
					}
				}
			}
			// R7: cursor routines receive only cursors
			if call, ok := in.(*ssa.Call); ok && ruleCursor != "" {
				cal := ir.StaticCallee(call)
				if !cursorRoutine[cal] {
					return
				}
				if len(call.Call.Args) < 2 {
					// a cursor routine of the iterator itself: it takes its node from the receiver's cursor
					if cal.Signature.Recv() != nil && namedOf(cal.Signature.Recv().Type()) == r.iterT {
						nCursor++
						// ... of an iterator that holds its reference: the caller's own receiver, or one obtained from Iterator()
						holder := false
						if len(call.Call.Args) == 1 {
							it := ir.Resolve(call.Call.Args[0])
							if rt == r.iterT && len(fn.Params) > 0 && it == ssa.Value(fn.Params[0]) {
								holder = true
							}
							if ta, isTA := it.(*ssa.TypeAssert); isTA {
								it = ir.Resolve(ta.X)
							}
							if mk, isCall := it.(*ssa.Call); isCall && ir.StaticCallee(mk) == r.iterFn {
								holder = true
							}
						}
						c.Decide(ruleCursor, fn, "cursor routine applied to an iterator cursor", in, holder && ownCursor(cal),
							"a routine of the iterator that moves/releases a reference is applied to an iterator that holds no reference (neither the caller itself nor one obtained from Iterator()), or it gives back a reference on a node that is neither the iterator's cursor nor a node it referenced itself: reference counts get out of balance and removed nodes stay linked or are recycled while in use")
					}
					return
				}
				nCursor++
				var argOK func(v ssa.Value, depth int) bool
				argOK = func(v ssa.Value, depth int) bool {
					switch a := ir.Resolve(v).(type) {
					case *ssa.Parameter:
						return cursorRoutine[fn] // the routines pass their own cursor on
					case *ssa.Phi:
						if cursorRoutine[fn] {
							return true
						}
						if depth > 3 {
							return false
						}
						for _, e := range a.Edges {
							if _, isPrm := ir.Resolve(e).(*ssa.Parameter); isPrm || !argOK(e, depth+1) {
								return false
							}
						}
						return len(a.Edges) > 0
					case *ssa.UnOp:
						if a.Op == token.MUL {
							_, ok := fieldAddrOf(a.X, r.itPtr)
							return ok
						}
					case *ssa.Call:
						return live[ir.StaticCallee(a)]
					case *ssa.Extract:
						if mk, isCall := a.Tuple.(*ssa.Call); isCall {
							cal := ir.StaticCallee(mk)
							return live[cal] && a.Index == r.liveResultIdxD(cal)
						}
					}
					return false
				}
				okArg := argOK(call.Call.Args[1], 0)
				c.Decide(ruleCursor, fn, "cursor routine applied to an iterator cursor", in, okArg,
					"a routine that moves/releases a reference is applied to a node on which the caller holds no reference (not an iterator cursor): reference counts get out of balance and removed nodes stay linked or are recycled while in use")
			}
			// R7, in place: an API method of the iterator that gives a reference back itself does so on the cursor
			if ruleCursor != "" && rt == r.iterT && fn.Object() != nil && fn.Object().Exported() {
				if base, isDec := r.refDelta(in, -1); isDec {
					if _, isStore := in.(*ssa.Store); isStore {
						nCursor++
						_, isCur := loadOfField(base, r.itPtr)
						c.Decide(ruleCursor, fn, "cursor routine applied to an iterator cursor", in, isCur,
							"a reference is given back on a node that is not the iterator's cursor: reference counts get out of balance and removed nodes stay linked or are recycled while in use")
					}
				}
			}
		})
	}
	if ruleRead != "" {
		c.R.Floor(ruleRead, 3)
	}
	if ruleCursor != "" {
		c.R.Floor(ruleCursor, 4)
	}
	_ = nReads
	_ = nCursor
}

// linkCensus is C10.R8: the list links (node-pointer fields of the node) are written only by the list primitives: the
// node's own methods, the methods of a dedicated list type (the struct that holds the head, when that is not the Map
// itself), and the two routines resolved as the unlink and the append routine (wherever they live); list surgery
// elsewhere (a bulk clear, a fast path) bypasses the head/sentinel bookkeeping.
func (c *Ctx) linkCensus(r *mapRoles, rule string) {
	links := fieldsWhere(r.node, func(f *types.Var) bool { return namedOf(f.Type()) == r.node })
	isLink := func(f *types.Var) bool {
		for _, l := range links {
			if l == f {
				return true
			}
		}
		return false
	}
	// the list type: the named struct that declares the head field
	var listT *types.Named
	for _, t := range c.P.NamedTypes("container/iterable") {
		if len(fieldsWhere(t, func(f *types.Var) bool { return f.Origin() == r.head })) == 1 && t.Origin() != r.Map {
			listT = t.Origin()
		}
	}
	n := 0
	for _, fn := range c.P.FuncsOf("container/iterable") {
		own := fn.Signature.Recv() != nil && namedOf(fn.Signature.Recv().Type()) == r.node
		if fn.Signature.Recv() != nil && listT != nil && namedOf(fn.Signature.Recv().Type()) == listT {
			own = true
		}
		if fn == r.unlink || fn == r.putVal || (r.unlinkInner != nil && fn == r.unlinkInner) {
			own = true
		}
		ir.Instrs(fn, func(in ssa.Instruction) {
			st, ok := in.(*ssa.Store)
			if !ok {
				return
			}
			fa, ok := st.Addr.(*ssa.FieldAddr)
			if !ok || !isLink(ir.FieldOf(fa)) {
				return
			}
			// stores into a node that is being constructed in this function are initialisation
			if _, fresh := ir.Resolve(fa.X).(*ssa.Alloc); fresh {
				return
			}
			n++
			c.Decide(rule, fn, "list link written by a node method", in, own, "a prev/next link is rewired outside the node's own methods: the head/sentinel bookkeeping (head is the node without predecessor) is bypassed")
		})
	}
	c.R.Floor(rule, 4)
}

// unlinkClearsPayload (C11.R5 / C10.R11): a node that is taken out of the map keeps nothing of the entry it carried: on
// every path of the unlink routine that changes the node (writes a link, the state, or a payload field) every payload
// field - the fields whose type is a type parameter of the node: key and value - is overwritten with its zero value.
// A field left behind stays reachable through the recycled node (the pool, or the terminal node a recycled node becomes):
// the removed entry's key is retained after every iterator was closed, and First()/Next() at the end of the list report
// it (with ok=false) instead of the zero key.
func (c *Ctx) unlinkClearsPayload(r *mapRoles, rule string) {
	c.unlinkSplitV(r) // a split routine: the call of the inner function changes the node (v_map.go)
	fn := r.unlink
	if fn == nil || len(fn.Params) == 0 {
		c.Fatalf("role unlink routine not resolved")
	}
	if r.unlinkSubj >= len(fn.Params) {
		c.Fatalf("role unlink routine not resolved")
	}
	recv := fn.Params[r.unlinkSubj]
	// the payload values of the node: key and value, as loose fields of the node or inside an entry struct it holds by value
	payload := r.payloadLeavesD()
	if len(payload) < 2 {
		c.R.Errorf("%s: the node type has %d payload (type-parameter) fields, expected key and value", rule, len(payload))
	}
	isZero := func(v ssa.Value) bool { return zeroValued(v, 0) }
	// the stores into the node (any field, also a field of a struct the node holds by value)
	var mutations []ssa.Instruction
	ir.Instrs(fn, func(in ssa.Instruction) {
		if st, ok := in.(*ssa.Store); ok {
			if base, _, ok := r.nodeFieldPathD(st.Addr); ok && same(ir.Resolve(base), recv) {
				mutations = append(mutations, in)
			}
		}
	})
	for _, x := range r.innerUnlinkCallsV(recv) {
		mutations = append(mutations, x)
	}
	for _, p := range payload {
		p := p
		// the value is overwritten with zero: itself, or a struct around it as a whole
		zeroStore := func(x ssa.Instruction) bool {
			st, ok := x.(*ssa.Store)
			if !ok {
				return r.innerUnlinkZeroesV(x, recv, p)
			}
			base, path, ok := r.nodeFieldPathD(st.Addr)
			return ok && p.under(path) && same(ir.Resolve(base), recv) && isZero(st.Val)
		}
		bad := ""
		var at ssa.Instruction
		for _, m := range mutations {
			if zeroStore(m) {
				continue
			}
			before, e1 := (ir.Query{Fn: fn, Block: zeroStore, Target: func(x ssa.Instruction) bool { return x == m }}).Find()
			after, e2 := (ir.Query{Fn: fn, From: m, Block: zeroStore, Target: ir.IsExit}).Find()
			if e1 != nil || e2 != nil {
				c.Undecided(rule, fn, "unlink clears "+p.last().Name(), m, "path query exceeded its bound")
				return
			}
			if before != nil && after != nil {
				bad = "path " + before.String(c.P) + " then " + after.String(c.P)
				at = m
				break
			}
		}
		c.Decide(rule, fn, "unlink zeroes the node's payload field of type "+p.last().Type().String(), at, bad == "",
			"the unlink routine changes the node on a path that never overwrites its "+p.last().Type().String()+"-typed payload field with the zero value: the removed entry stays reachable through the recycled node after all iterators were closed (and First()/Next() at the end of the list report a removed key): "+bad)
	}
}

// unlinkSurgery (R12): the pointer surgery of the unlink routine of the doubly linked list.
//   - what a neighbour receives is the node's own link of the same name (node.A.B = node.B), or nil where the node is
//     known to have no neighbour on that side;
//   - that link is read before the node's own links are cleared;
//   - a path that rewires one neighbour rewires the other one too, unless the node is known to have none there.
// Each clause is necessary for "the list is the entries in insertion order": a successor whose back link is nil looks
// like the head, a later unlink of it moves the head past everything in front of it.
func (c *Ctx) unlinkSurgery(r *mapRoles, rule string) {
	fn := r.unlink
	if fn == nil || r.unlinkSubj >= len(fn.Params) {
		c.Undecided(rule, fn, "unlink rewires both neighbours", nil, "unlink routine not resolved")
		return
	}
	node := ssa.Value(fn.Params[r.unlinkSubj])
	isNode := func(v ssa.Value) bool { return ir.Resolve(v) == node || v == node }
	// own link address: &node.A
	ownLink := func(addr ssa.Value) *types.Var {
		fa, ok := addr.(*ssa.FieldAddr)
		if !ok || !isNode(fa.X) || !r.isLink(ir.FieldOf(fa)) {
			return nil
		}
		return ir.FieldOf(fa)
	}
	// neighbour link address: &(node.A).B  -> (A, B)
	nbrLink := func(addr ssa.Value) (via, field *types.Var) {
		fa, ok := addr.(*ssa.FieldAddr)
		if !ok || !r.isLink(ir.FieldOf(fa)) {
			return nil, nil
		}
		for _, o := range ir.Origins(fa.X) {
			if ld, isLd := o.(*ssa.UnOp); isLd && ld.Op == token.MUL {
				if a := ownLink(ld.X); a != nil {
					return a, ir.FieldOf(fa)
				}
			}
		}
		return nil, nil
	}
	type nstore struct {
		st         *ssa.Store
		via, field *types.Var
	}
	var nbr []nstore
	var own []*ssa.Store
	ir.Instrs(fn, func(in ssa.Instruction) {
		st, ok := in.(*ssa.Store)
		if !ok {
			return
		}
		if a, b := nbrLink(st.Addr); a != nil {
			nbr = append(nbr, nstore{st, a, b})
			return
		}
		if ownLink(st.Addr) != nil {
			own = append(own, st)
		}
	})
	if len(nbr) == 0 {
		c.Decide(rule, fn, "unlink rewires both neighbours", nil, false, "the unlink routine writes no link of a neighbour")
		return
	}
	noNeighbour := func(b *ssa.BasicBlock, link *types.Var) bool {
		return hasFactCmp(b, func(cm ir.Cmp) bool {
			if cm.Op != token.EQL {
				return false
			}
			x, y := cm.X, cm.Y
			if ir.IsNilConst(x) {
				x, y = y, x
			}
			if !ir.IsNilConst(y) {
				return false
			}
			for _, o := range ir.Origins(x) {
				if ld, isLd := o.(*ssa.UnOp); isLd && ld.Op == token.MUL && ownLink(ld.X) == link {
					return true
				}
			}
			return false
		})
	}
	for _, ns := range nbr {
		ns := ns
		// value: node's own link of the same name, read before the node's links are cleared; or nil where no neighbour
		okVal, detail := false, "a neighbour's link "+ns.field.Name()+" does not receive the unlinked node's own "+ns.field.Name()
		if ir.IsNilConst(ns.st.Val) {
			okVal = noNeighbour(ns.st.Block(), ns.field)
			detail = "a neighbour's link " + ns.field.Name() + " is cut (nil) although the unlinked node may have a neighbour on that side: everything behind it drops out of the list"
		} else {
			for _, o := range ir.Origins(ns.st.Val) {
				ld, isLd := o.(*ssa.UnOp)
				if !isLd || ld.Op != token.MUL || ownLink(ld.X) != ns.field {
					continue
				}
				okVal = true
				for _, os := range own {
					if ownLink(os.Addr) != ns.field {
						continue
					}
					if w, _ := (ir.Query{Fn: fn, From: os, Target: func(x ssa.Instruction) bool { return x == ssa.Instruction(ld) }}).Find(); w != nil {
						okVal = false
						detail = "the unlinked node's own link " + ns.field.Name() + " is overwritten before it is handed to the neighbour: the neighbour receives the cleared link"
					}
				}
			}
		}
		c.Decide(rule, fn, "neighbour receives the node's own link", ns.st, okVal, detail+" - the neighbour then looks like an end of the list; a later unlink moves the head past live entries (they stay in the index, are never iterated, evicted or cleared)")
		// pairing
		var other *types.Var
		for _, l := range fieldsWhere(r.node, func(f *types.Var) bool { return r.isNodePtr(f.Type()) }) {
			if l != ns.via {
				other = l
			}
		}
		if other == nil {
			continue
		}
		isOther := func(x ssa.Instruction) bool {
			st, ok := x.(*ssa.Store)
			if !ok {
				return false
			}
			a, _ := nbrLink(st.Addr)
			return a == other
		}
		paired := noNeighbour(ns.st.Block(), other)
		if !paired {
			for _, o := range nbr {
				if o.via == other && ir.Dominates(o.st, ns.st) {
					paired = true
				}
			}
		}
		if !paired {
			// ... or leaves over an edge on which the node is known to have no neighbour on the other side
			noOther := func(from, to *ssa.BasicBlock) bool {
				ef := ir.EdgeFact(from, to)
				if ef == nil {
					return false
				}
				cm, isCmp := ef.Cmp()
				if !isCmp || cm.Op != token.EQL {
					return false
				}
				x, y := cm.X, cm.Y
				if ir.IsNilConst(x) {
					x, y = y, x
				}
				if !ir.IsNilConst(y) {
					return false
				}
				for _, o := range ir.Origins(x) {
					if ld, isLd := o.(*ssa.UnOp); isLd && ld.Op == token.MUL && ownLink(ld.X) == other {
						return true
					}
				}
				return false
			}
			w, err := (ir.Query{Fn: fn, From: ns.st, Block: isOther, BlockEdge: noOther, Target: ir.IsExit}).Find()
			paired = err == nil && w == nil
			if !paired {
				// ... or the other side was settled on every way that leads here: each path from the entry to this store has
				// rewired the other neighbour or has taken an edge on which the node is known to have none there (the path
				// form of "a store on the other side dominates this one": the two sides may sit in the two arms of one test
				// with the common part written once behind them)
				w, err = (ir.Query{Fn: fn, Block: isOther, BlockEdge: noOther, Target: func(x ssa.Instruction) bool { return x == ssa.Instruction(ns.st) }}).Find()
				paired = err == nil && w == nil
			}
		}
		c.Decide(rule, fn, "both neighbours are rewired", ns.st, paired,
			"the unlink routine rewires the neighbour on one side and can leave without rewiring the one on the other side: that neighbour keeps pointing at the unlinked node")
	}
	// an arm that cuts the node's own link without ever touching the neighbour behind it has no neighbour store to hang
	// the clauses above on: every store that overwrites the own link A lies on paths that rewire the neighbour via A
	// (before or behind the store) or pass an edge on which the node is known to have no neighbour on that side
	for _, os := range own {
		os := os
		a := ownLink(os.Addr)
		if a == nil {
			continue
		}
		isVia := func(x ssa.Instruction) bool {
			st, ok := x.(*ssa.Store)
			if !ok {
				return false
			}
			via, _ := nbrLink(st.Addr)
			return via == a
		}
		noNbr := func(from, to *ssa.BasicBlock) bool {
			ef := ir.EdgeFact(from, to)
			if ef == nil {
				return false
			}
			cm, isCmp := ef.Cmp()
			if !isCmp || cm.Op != token.EQL {
				return false
			}
			x, y := cm.X, cm.Y
			if ir.IsNilConst(x) {
				x, y = y, x
			}
			if !ir.IsNilConst(y) {
				return false
			}
			for _, o := range ir.Origins(x) {
				if ld, isLd := o.(*ssa.UnOp); isLd && ld.Op == token.MUL && ownLink(ld.X) == a {
					return true
				}
			}
			return false
		}
		before, e1 := (ir.Query{Fn: fn, Block: isVia, BlockEdge: noNbr, Target: func(x ssa.Instruction) bool { return x == ssa.Instruction(os) }}).Find()
		after, e2 := (ir.Query{Fn: fn, From: os, Block: isVia, BlockEdge: noNbr, Target: ir.IsExit}).Find()
		ok := e1 == nil && e2 == nil && (before == nil || after == nil)
		c.Decide(rule, fn, "own link "+a.Name()+" cut only with the neighbour behind it rewired", os, ok,
			"the unlink routine overwrites the node's own link "+a.Name()+" on a path that never rewires the neighbour on that side: the neighbour keeps its link to the unlinked (recycled) node, the list is corrupted from there on")
	}
}
