package rules

// Helpers introduced while hardening the block allocator rules (C17) against a second round of refactorings. They are
// independent of the allocator: guard facts that are known through the outcome of a call of a private function
// ((value, ok) / (value, error) helpers), "the error of a helper is handed out by its caller", the struct types that
// carry part of the state of a type (embedded / wrapped value types), loop exits that lead only to failure.

import (
	"go/constant"
	"go/token"
	"go/types"

	"golang.org/x/tools/go/ssa"

	"verif/checker/ir"
)

// ---------------------------------------------------------------------------
// facts through the outcome of a call

// yhOutcome describes what a guard fact says about the result of a static call: result Index of Call is a boolean known
// to be Truth, or an error known to be nil (Truth) / non-nil (!Truth).
type yhOutcome struct {
	Call  *ssa.Call
	Index int
	IsErr bool
	Truth bool
}

// yhOutcomeOf decodes fact f as a statement about a result of a call of a function with a body (static callee, not an
// interface method), or returns false.
func yhOutcomeOf(f ir.Fact) (yhOutcome, bool) {
	resultOf := func(v ssa.Value) (*ssa.Call, int, bool) {
		switch x := ir.Resolve(v).(type) {
		case *ssa.Extract:
			if call, ok := x.Tuple.(*ssa.Call); ok {
				return call, x.Index, true
			}
		case *ssa.Call:
			if x.Call.Signature().Results().Len() == 1 {
				return x, 0, true
			}
		}
		return nil, 0, false
	}
	usable := func(call *ssa.Call) bool {
		if call.Call.IsInvoke() {
			return false
		}
		cal := ir.StaticCallee(call)
		return cal != nil && len(cal.Blocks) > 0 && cal.TypeParams().Len() == 0
	}
	ff := f.StripNot()
	if call, idx, ok := resultOf(ff.Cond); ok && usable(call) {
		if b, isB := ff.Cond.Type().Underlying().(*types.Basic); isB && b.Info()&types.IsBoolean != 0 {
			return yhOutcome{call, idx, false, ff.True}, true
		}
	}
	if cm, ok := f.Cmp(); ok && (cm.Op == token.EQL || cm.Op == token.NEQ) {
		x, y := cm.X, cm.Y
		if ir.IsNilConst(x) {
			x, y = y, x
		}
		if ir.IsNilConst(y) && ir.IsErrorType(x.Type()) {
			if call, idx, ok := resultOf(x); ok && usable(call) {
				return yhOutcome{call, idx, true, cm.Op == token.EQL}, true
			}
		}
	}
	return yhOutcome{}, false
}

// yhExitPoints is ir.ExitPoints, except that a return is not split over the phi nodes of a loop header: the operands of
// such a phi are the values of different iterations, not alternatives that reach the return, and the facts at the
// predecessors of the header (the previous iteration's tests) say nothing about the iteration that returns. Such a return
// stays one exit point located at its own block.
func yhExitPoints(fn *ssa.Function) []ir.ExitPoint {
	isLoopHeader := func(b *ssa.BasicBlock) bool {
		for _, p := range b.Preds {
			if b.Dominates(p) {
				return true
			}
		}
		return false
	}
	eps := ir.ExitPoints(fn)
	bad := map[*ssa.Return]bool{}
	for _, ep := range eps {
		if ep.Edge != nil && isLoopHeader(ep.Edge) {
			bad[ep.Ret] = true
		}
	}
	for _, ret := range ir.Returns(fn) {
		for _, v := range ret.Results {
			if p, ok := v.(*ssa.Phi); ok && isLoopHeader(p.Block()) {
				bad[ret] = true
			}
		}
	}
	if len(bad) == 0 {
		return eps
	}
	var res []ir.ExitPoint
	done := map[*ssa.Return]bool{}
	for _, ep := range eps {
		if !bad[ep.Ret] {
			res = append(res, ep)
			continue
		}
		if done[ep.Ret] {
			continue
		}
		done[ep.Ret] = true
		vals := make([]ssa.Value, len(ep.Ret.Results))
		for i := range vals {
			vals[i] = ir.ResultValue(ep.Ret, i)
		}
		res = append(res, ir.ExitPoint{Ret: ep.Ret, Results: vals, Block: ep.Ret.Block()})
	}
	return res
}

// yhExitFacts are the guard facts at an exit point (those of its block and of the edge that selects it), expanded
// through flags like xcFacts.
func yhExitFacts(ep ir.ExitPoint) []ir.Fact {
	fs := append([]ir.Fact{}, xcFacts(ep.Block)...)
	if ep.Edge != nil {
		// the block the edge leads into has ep.Block as a predecessor; when it is the only one, its facts are the facts of the edge
		if len(ep.Edge.Preds) == 1 {
			fs = append(fs, xcFacts(ep.Edge)...)
		} else {
			fs = append(fs, ep.Facts()...)
		}
	}
	return fs
}

// yhConsistentExits lists the exit points of the callee of o.Call that can produce the outcome o: an exit that returns
// the opposite constant (or a provably nil / non-nil error on the other side) is excluded, every other exit - also one
// whose result is not understood - is kept.
func yhConsistentExits(o yhOutcome) []ir.ExitPoint {
	cal := ir.StaticCallee(o.Call)
	var res []ir.ExitPoint
	for _, ep := range yhExitPoints(cal) {
		r := ep.Result(o.Index)
		if r == nil {
			res = append(res, ep)
			continue
		}
		if o.IsErr {
			switch xcErrAt(r, ep.Block, ep.Edge) {
			case ir.ErrNil:
				if !o.Truth {
					continue
				}
			case ir.ErrNonNil:
				if o.Truth {
					continue
				}
			}
			res = append(res, ep)
			continue
		}
		if k, isC := ir.Resolve(r).(*ssa.Const); isC && k.Value != nil && k.Value.Kind() == constant.Bool {
			if constant.BoolVal(k.Value) != o.Truth {
				continue
			}
		}
		res = append(res, ep)
	}
	return res
}

// yhHolds reports whether a comparison satisfying pred is known to hold whenever block b is executed: it is among the
// guard facts of b (xcFacts), or b is guarded by a fact about the outcome of a call of a function of the program -
// "ok" of a (value, ok) helper is true, the error of a (value, error) helper is nil - and the comparison holds at every
// exit point of that function that can produce this outcome (facts there are about the values of that invocation: the
// rule predicates of this file are structural - "some x&m == 0", "a Size() compared with a bound" - or name a value of
// the callee, so they mean the same as they would after inlining the helper).
func yhHolds(b *ssa.BasicBlock, pred func(ir.Cmp) bool) bool {
	return yhHoldsFacts(xcFacts(b), pred, 0)
}

func yhHoldsFacts(fs []ir.Fact, pred func(ir.Cmp) bool, depth int) bool {
	for _, f := range fs {
		if cm, ok := f.Cmp(); ok && pred(cm) {
			return true
		}
	}
	if depth >= 3 {
		return false
	}
	for _, f := range fs {
		o, ok := yhOutcomeOf(f)
		if !ok {
			continue
		}
		exits := yhConsistentExits(o)
		if len(exits) == 0 {
			continue
		}
		all := true
		for _, ep := range exits {
			if !yhHoldsFacts(yhExitFacts(ep), pred, depth+1) {
				all = false
				break
			}
		}
		if all {
			return true
		}
	}
	return false
}

// yhHoldsThroughCall is the second half of yhHolds restricted to one call: block b is guarded by a fact about the outcome
// of this call, and the comparison holds at every exit point of the callee that can produce that outcome.
func yhHoldsThroughCall(b *ssa.BasicBlock, call *ssa.Call, pred func(ir.Cmp) bool) bool {
	for _, f := range xcFacts(b) {
		o, ok := yhOutcomeOf(f)
		if !ok || o.Call != call {
			continue
		}
		exits := yhConsistentExits(o)
		all := len(exits) > 0
		for _, ep := range exits {
			if !yhHoldsFacts(yhExitFacts(ep), pred, 1) {
				all = false
				break
			}
		}
		if all {
			return true
		}
	}
	return false
}

// ---------------------------------------------------------------------------
// the error of a helper is handed out

// yhErrorHandedOut reports whether a non-nil error returned by helper is returned as it is by api: every static call of
// helper sits in api (or in a function whose own error is handed out by api in the same sense, a few levels), and no
// path from the call to a return with another error value exists except over an edge on which the helper's error is
// known to be nil.
func yhErrorHandedOut(helper, api *ssa.Function, all []*ssa.Function, depth int) bool {
	if helper == api {
		return true
	}
	if depth > 3 || ir.ErrResultIndex(helper) < 0 {
		return false
	}
	hidx := ir.ErrResultIndex(helper)
	sites := 0
	for _, g := range all {
		for _, in := range ir.Calls(g) {
			if ir.StaticCallee(in) != helper {
				continue
			}
			call, plain := in.(*ssa.Call)
			if !plain {
				return false // go / defer: the error is dropped
			}
			sites++
			gidx := ir.ErrResultIndex(g)
			if gidx < 0 {
				return false
			}
			isErr := func(v ssa.Value) bool {
				switch x := ir.Resolve(v).(type) {
				case *ssa.Extract:
					return x.Tuple == ssa.Value(call) && x.Index == hidx
				case *ssa.Call:
					return x == call && helper.Signature.Results().Len() == 1
				}
				return false
			}
			q := ir.Query{Fn: g, From: call,
				BlockFact: func(f ir.Fact) bool {
					cm, ok := f.Cmp()
					if !ok || cm.Op != token.EQL {
						return false
					}
					return (isErr(cm.X) && ir.IsNilConst(cm.Y)) || (isErr(cm.Y) && ir.IsNilConst(cm.X))
				},
				Target: func(x ssa.Instruction) bool {
					ret, ok := x.(*ssa.Return)
					return ok && !isErr(ir.ResultValue(ret, gidx))
				}}
			if w, err := q.Find(); err != nil || w != nil {
				return false
			}
			if !yhErrorHandedOut(g, api, all, depth+1) {
				return false
			}
		}
	}
	return sites > 0
}

// ---------------------------------------------------------------------------
// state carriers

// yhCarriers returns t and the struct types declared in t's package that hold part of t's state by value: the types of
// its fields (embedded or named), transitively. A method of such a type invoked on the field is a method on t's state
// ("layout" / "geometry" value types split off a larger struct).
func yhCarriers(t *types.Named) map[*types.Named]bool {
	res := map[*types.Named]bool{}
	var walk func(n *types.Named, depth int)
	walk = func(n *types.Named, depth int) {
		if n == nil || res[n] || depth > 3 {
			return
		}
		res[n] = true
		st, ok := n.Underlying().(*types.Struct)
		if !ok {
			return
		}
		for i := 0; i < st.NumFields(); i++ {
			ft := st.Field(i).Type()
			if _, isPtr := ft.(*types.Pointer); isPtr {
				continue
			}
			fn, isNamed := ft.(*types.Named)
			if !isNamed || fn.Obj().Pkg() == nil || fn.Obj().Pkg() != t.Obj().Pkg() {
				continue
			}
			if _, isStruct := fn.Underlying().(*types.Struct); isStruct {
				walk(fn.Origin(), depth+1)
			}
		}
	}
	walk(t, 0)
	return res
}

// yhRecvIn reports whether fn is a method whose receiver type is one of the carriers.
func yhRecvIn(fn *ssa.Function, carriers map[*types.Named]bool) bool {
	if fn.Signature.Recv() == nil {
		return false
	}
	n := namedOf(fn.Signature.Recv().Type())
	return n != nil && carriers[n]
}

// ---------------------------------------------------------------------------
// results of helpers

// yhResultIsProduct reports whether v is a product, or the result of a call of a function of the package every return of
// which hands back a product (a helper that names the expression).
func yhResultIsProduct(v ssa.Value, depth int) bool {
	for _, o := range ir.Origins(v) {
		if bo, isBo := o.(*ssa.BinOp); isBo && bo.Op == token.MUL {
			return true
		}
		call, isCall := o.(*ssa.Call)
		if !isCall || depth > 2 || call.Call.IsInvoke() {
			continue
		}
		cal := ir.StaticCallee(call)
		if cal == nil || len(cal.Blocks) == 0 || cal.Signature.Results().Len() != 1 {
			continue
		}
		rets := ir.Returns(cal)
		all := len(rets) > 0
		for _, ret := range rets {
			if !yhResultIsProduct(ret.Results[0], depth+1) {
				all = false
			}
		}
		if all {
			return true
		}
	}
	return false
}

// ---------------------------------------------------------------------------
// loop exits

// yhLeadsOnlyToFailure reports whether every way of leaving fn that starts with the CFG edge from -> to ends in an exit
// point whose error is provably non-nil (exit points: a return of a merged error counts per alternative, so "res = err;
// break" in front of a single "return res" is the same as "return err"). Plain reachability over the CFG, no pruning:
// an infeasible path can only make the answer "no".
func yhLeadsOnlyToFailure(fn *ssa.Function, from, to *ssa.BasicBlock) bool {
	idx := ir.ErrResultIndex(fn)
	if idx < 0 {
		return false
	}
	type edge struct{ a, b *ssa.BasicBlock }
	// an alternative is entered over an edge (merged results), by entering a block (a store to a result cell) or by
	// reaching the return itself; true = it fails
	edges := map[edge]bool{}
	blocks := map[*ssa.BasicBlock]bool{}
	note := func(m map[edge]bool, k edge, fails bool) {
		if old, dup := m[k]; dup && !old {
			return
		}
		m[k] = fails
	}
	for _, ep := range yhExitPoints(fn) {
		fails := xcErrAt(ep.Result(idx), ep.Block, ep.Edge) == ir.ErrNonNil
		switch {
		case ep.Edge != nil:
			note(edges, edge{ep.Block, ep.Edge}, fails)
		default:
			if old, dup := blocks[ep.Block]; !dup || old {
				blocks[ep.Block] = fails
			}
		}
	}
	seen := map[*ssa.BasicBlock]bool{}
	var walk func(a, b *ssa.BasicBlock) bool
	walk = func(a, b *ssa.BasicBlock) bool {
		if fails, isAlt := edges[edge{a, b}]; isAlt {
			return fails
		}
		if fails, isAlt := blocks[b]; isAlt {
			return fails
		}
		if seen[b] {
			return true
		}
		seen[b] = true
		if len(b.Succs) == 0 {
			// a return that is not an exit point of its own cannot be classified; a panic is not a normal exit
			_, isRet := b.Instrs[len(b.Instrs)-1].(*ssa.Return)
			return !isRet
		}
		for _, s := range b.Succs {
			if !walk(b, s) {
				return false
			}
		}
		return true
	}
	return walk(from, to)
}
