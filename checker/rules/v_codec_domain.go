package rules

// C15.S13 - the decoders of byte strings and strings do not judge the decoded value.
//
// MarshalBytes / MarshalString / WriteBytes / WriteString accept EVERY byte slice and every Go string (a Go string is an
// arbitrary byte sequence) and only fail for lack of room. decode(encode(x)) = x for every value therefore needs the
// matching decoders to accept every body: they may fail because the input ends too early (the length header cannot be
// read, the body is shorter than announced) but not because of what the body contains - a decoder that validates the
// body (UTF-8, printable, no NUL, a checksum) returns an error for values the encoders have produced with the predicted
// size, and a concatenation that holds such a value no longer decodes back to the item sequence.
//
// Clause, for every exported Unmarshal function whose value result is a byte slice or a string (through thin wrappers to
// the function that holds the code): let the *body* be what the non-failing exits return as the value - followed back
// through the zero-copy conversions, copies, phis and local variables to the window cut from the input, the made copy
// or the value result of the decoder it delegates to - and everything computed from it (elements, sub-slices,
// conversions, results of calls it is handed to), its length and capacity excepted. No exit that can report an error
// is controlled (branch facts of the exit, short-circuit operands included) by a condition computed from the body.
//
// The rule says nothing about the rejections that depend on lengths (C15.S8/S9, C16.R3 look at those).

import (
	"go/types"

	"golang.org/x/tools/go/ssa"

	"verif/checker/ir"
)

// bodyRootsV follows a returned value back to where the body comes from.
func bodyRootsV(v ssa.Value, seen map[ssa.Value]bool, roots map[ssa.Value]bool, depth int) {
	v = ir.Resolve(v)
	if v == nil || seen[v] || depth > 10 {
		return
	}
	seen[v] = true
	switch x := v.(type) {
	case *ssa.Const, *ssa.Parameter, *ssa.Global:
		return
	case *ssa.Phi:
		for _, e := range x.Edges {
			bodyRootsV(e, seen, roots, depth+1)
		}
		return
	case *ssa.Convert:
		if isByteSeqB(x.Type()) && isByteSeqB(x.X.Type()) {
			roots[v] = true
			bodyRootsV(x.X, seen, roots, depth+1)
			return
		}
	case *ssa.ChangeType:
		bodyRootsV(x.X, seen, roots, depth+1)
		return
	case *ssa.Call:
		// a conversion / copy helper: one byte-sequence argument in, one byte sequence out
		if _, isB := x.Call.Value.(*ssa.Builtin); !isB && !x.Call.IsInvoke() && x.Call.Signature().Results().Len() == 1 {
			n := 0
			var arg ssa.Value
			for _, a := range x.Call.Args {
				if isByteSeqLikeV(a.Type()) {
					n++
					arg = a
				}
			}
			if n == 1 {
				roots[v] = true
				bodyRootsV(arg, seen, roots, depth+1)
				return
			}
		}
	}
	roots[v] = true
}

func isByteSeqLikeV(t types.Type) bool {
	if isByteSeqB(t) {
		return true
	}
	if sl, ok := t.Underlying().(*types.Slice); ok {
		_, isTP := sl.Elem().(*types.TypeParam)
		return isTP
	}
	return false
}

// taintFromV: everything computed from the roots (len and cap excepted), within the functions the roots live in.
func taintFromV(roots map[ssa.Value]bool) map[ssa.Value]bool {
	tainted := map[ssa.Value]bool{}
	var work []ssa.Value
	for r := range roots {
		tainted[r] = true
		work = append(work, r)
	}
	for len(work) > 0 {
		v := work[len(work)-1]
		work = work[:len(work)-1]
		refs := v.Referrers()
		if refs == nil {
			continue
		}
		for _, r := range *refs {
			if call, ok := r.(*ssa.Call); ok {
				if b, isB := call.Call.Value.(*ssa.Builtin); isB && (b.Name() == "len" || b.Name() == "cap") {
					continue
				}
			}
			if st, ok := r.(*ssa.Store); ok {
				if st.Val == v {
					if a, isAl := st.Addr.(*ssa.Alloc); isAl && !tainted[a] {
						tainted[a] = true
						work = append(work, a)
					}
				}
				continue
			}
			rv, ok := r.(ssa.Value)
			if !ok || tainted[rv] {
				continue
			}
			tainted[rv] = true
			work = append(work, rv)
		}
	}
	return tainted
}

// decodersAcceptEveryBody is C15.S13.
func (c *Ctx) decodersAcceptEveryBody() {
	const construct = "no rejection depends on the content of the decoded body"
	n := 0
	for _, d := range xbinaryFuncs(c, "Unmarshal") {
		rs := d.Signature.Results()
		if rs.Len() != 3 || !isByteSeqB(rs.At(1).Type()) || ir.ErrResultIndex(d) < 0 {
			continue
		}
		n++
		fn := implOfB(d)
		c.Saw(fn)
		exits := exitsOfB(fn)
		roots := map[ssa.Value]bool{}
		seen := map[ssa.Value]bool{}
		for _, ep := range exits {
			if exitClassB(fn, ep) == ir.ErrNonNil {
				continue
			}
			bodyRootsV(ep.Result(1), seen, roots, 0)
		}
		if len(roots) == 0 {
			c.Undecided("C15.S13", d, construct, nil, "no exit of "+fn.Name()+" returns a decoded value the rule can follow back")
			continue
		}
		tainted := taintFromV(roots)
		var bad ssa.Value
		var badRet *ssa.Return
		for _, ep := range exits {
			if exitClassB(fn, ep) == ir.ErrNil {
				continue
			}
			for _, f := range ep.Facts {
				cond := f.StripNot().Cond
				if tainted[cond] && bad == nil {
					bad, badRet = cond, ep.Ret
				}
			}
		}
		if bad == nil {
			c.Decide("C15.S13", d, construct, nil, true, "")
			continue
		}
		at, _ := bad.(ssa.Instruction)
		c.Decide("C15.S13", d, construct, at, false,
			d.Name()+" can return an error (return at "+c.P.InstrPos(badRet)+") depending on a condition computed from the decoded body ("+c.P.InstrPos(at)+
				"), while the encoders accept every byte slice / string: for the values the condition rejects, encoding succeeds with the predicted size and decode(encode(x)) fails, and a concatenation that holds such a value does not decode back")
	}
	c.R.Floor("C15.S13", 2)
}
