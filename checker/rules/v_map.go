package rules

import (
	"fmt"
	"go/types"

	"golang.org/x/tools/go/ssa"

	"verif/checker/ir"
)

// removePairsV is the Remove half of C10.R3 (C08.M3, C09.M3, C11.M3): an execution of Remove either takes the entry out of
// both the list and the index, or out of neither - an entry that is only unlinked stays reachable by key (Get returns a
// removed value, Len counts it, a second Remove unlinks a recycled node), an entry that only leaves the index stays in
// the iteration order for ever. What is decided is the pairing per path, not the order of the two steps: the map is not
// safe for concurrent use, nothing observes the state between them. Obligation per unlink call "unlink+index-delete":
// no path of Remove passes the call and no delete from the index (neither before nor behind it); per index delete
// "index-delete-after-unlink": no path passes the delete and no unlink call. The two halves of such a path (entry to the
// construct, construct to an exit) are searched separately; when both exist the obligation is violated (their
// concatenation is taken to be feasible - an over-approximation towards an alarm). In a Remove with a loop "before" would
// mix iterations, there the partner is required behind the unlink / before the delete as the straight-line form has it.
func (c *Ctx) removePairsV(r *mapRoles, rule string) {
	fn := r.remFn
	isIdxDel := func(x ssa.Instruction) bool {
		cc := builtinCall(x, "delete")
		if cc == nil {
			return false
		}
		_, isVals := loadOfField(cc.Args[0], r.vals)
		return isVals
	}
	isUnlink := func(y ssa.Instruction) bool { return isCallTo(y, r.unlink) }
	loops := hasLoop(fn)
	// reachesWithout: a path entry -> at that passes no partner exists (undecided counts as "exists")
	reachesWithout := func(at ssa.Instruction, partner func(ssa.Instruction) bool) bool {
		w, err := (ir.Query{Fn: fn, Block: partner, Target: func(x ssa.Instruction) bool { return x == at }}).Find()
		return w != nil || err != nil
	}
	leavesWithout := func(at ssa.Instruction, partner func(ssa.Instruction) bool) bool {
		w, err := (ir.Query{Fn: fn, From: at, Block: partner, Target: ir.IsExit}).Find()
		return w != nil || err != nil
	}
	uns := callsTo(fn, r.unlink)
	if len(uns) == 0 {
		c.Decide(rule, fn, "unlink+index-delete", nil, false, "Remove does not call the unlink routine")
	}
	for _, uc := range uns {
		if !loops && !reachesWithout(uc, isIdxDel) {
			// every path to the unlink call has already taken the entry out of the index
			c.Decide(rule, fn, "unlink+index-delete", uc, true, "")
			continue
		}
		c.NoPath(rule, "unlink+index-delete", uc, ir.Query{Fn: fn, From: uc, Block: isIdxDel, Target: ir.IsExit},
			"an entry is unlinked but stays in the index")
	}
	ir.Instrs(fn, func(x ssa.Instruction) {
		if !isIdxDel(x) {
			return
		}
		if !loops && !leavesWithout(x, isUnlink) {
			// every path from the index delete to an exit unlinks the entry
			c.Decide(rule, fn, "index-delete-after-unlink", x, true, "")
			return
		}
		c.NoPath(rule, "index-delete-after-unlink", x, ir.Query{Fn: fn,
			Block:  isUnlink,
			Target: func(y ssa.Instruction) bool { return y == x }},
			"an entry is deleted from the index without being unlinked from the list")
	})
}

// ---------------------------------------------------------------------------
// the unlink routine as a chain of functions

// liftUnlinkV resolves the unlink role when the routine is split: the function that rewires the neighbours (inner) is a
// private helper of one other function (outer) that hands it its own node and returns what the helper reports unchanged
// ("delete: still pinned -> mark only; otherwise return n.unlink()"). To the rest of the package the outer function is
// the unlink routine - it is the one the call sites call, whose result they must store into the head (R1), that must
// precede a recycle (R2), that marks a pinned node and clears the payload (R11) - so the role goes to the outermost
// function of such a chain and the helper stays unclaimed. The rules read the routine as one body; they decide a split
// routine on the helper-inlined normal form, where the unclaimed helper is part of the outer body again (see
// unlinkSplitV). Conditions (all decided on the SSA, otherwise there is no lifting and the helper keeps the role):
//   - every static call of the helper in the package sits in one other function, and the helper is not used as a value;
//   - every such call passes a node parameter of the outer function (always the same one) as the node to unlink;
//   - both functions have the same result types, and the results of every such call flow to a return of the outer function
//     only, at their own result position (directly, through the extracts of a tuple, or merged by phis).
func liftUnlinkV(r *mapRoles, inner *ssa.Function, subj int, pkgFns []*ssa.Function) (outer *ssa.Function, outerSubj int, ok bool) {
	if inner == nil || subj < 0 || subj >= len(inner.Params) {
		return nil, 0, false
	}
	var calls []*ssa.Call
	escapes := false
	for _, fn := range pkgFns {
		ir.Instrs(fn, func(in ssa.Instruction) {
			if ci, isCall := in.(ssa.CallInstruction); isCall && ir.StaticCallee(ci) == inner {
				call, plain := in.(*ssa.Call)
				if !plain {
					escapes = true // deferred or started as a goroutine: not a plain delegation
					return
				}
				calls = append(calls, call)
				for _, a := range call.Call.Args {
					if f, isFn := a.(*ssa.Function); isFn && f == inner {
						escapes = true
					}
				}
				return
			}
			for _, op := range in.Operands(nil) {
				if op == nil || *op == nil {
					continue
				}
				switch x := (*op).(type) {
				case *ssa.Function:
					if x == inner {
						escapes = true
					}
				case *ssa.MakeClosure:
					if f, isFn := x.Fn.(*ssa.Function); isFn && (f == inner || f.Origin() == inner) {
						escapes = true
					}
				}
			}
		})
	}
	if escapes || len(calls) == 0 {
		return nil, 0, false
	}
	outer = calls[0].Parent()
	if outer == nil || outer == inner {
		return nil, 0, false
	}
	// the same result list (the methods of a generic type each have type parameters of their own: node pointers are
	// compared by their named type)
	ro, ri := outer.Signature.Results(), inner.Signature.Results()
	if ro.Len() != ri.Len() {
		return nil, 0, false
	}
	for i := 0; i < ro.Len(); i++ {
		to, ti := ro.At(i).Type(), ri.At(i).Type()
		if !(r.isNodePtr(to) && r.isNodePtr(ti)) && !types.Identical(to, ti) {
			return nil, 0, false
		}
	}
	outerSubj = -1
	for _, call := range calls {
		if call.Parent() != outer || subj >= len(call.Call.Args) {
			return nil, 0, false
		}
		prm, isParam := ir.Resolve(call.Call.Args[subj]).(*ssa.Parameter)
		if !isParam || !r.isNodePtr(prm.Type()) {
			return nil, 0, false
		}
		idx := -1
		for i, p := range outer.Params {
			if p == prm {
				idx = i
			}
		}
		if idx < 0 || (outerSubj >= 0 && outerSubj != idx) {
			return nil, 0, false
		}
		outerSubj = idx
		if !onlyReturnedAtV(call, -1, map[ssa.Value]bool{}) {
			return nil, 0, false
		}
	}
	return outer, outerSubj, true
}

// onlyReturnedAtV reports whether every use of v is a return of its function with v at result position idx (idx < 0: v
// is the whole result of a call - the only result, or a tuple whose components are extracted), possibly merged by phis
// on the way.
func onlyReturnedAtV(v ssa.Value, idx int, seen map[ssa.Value]bool) bool {
	if seen[v] {
		return true
	}
	seen[v] = true
	refs := v.Referrers()
	if refs == nil || len(*refs) == 0 {
		return false // the result is dropped
	}
	for _, ref := range *refs {
		switch x := ref.(type) {
		case *ssa.Return:
			for i, res := range x.Results {
				want := idx
				if want < 0 {
					want = 0
				}
				if res == v && (i != want || (idx < 0 && len(x.Results) != 1)) {
					return false
				}
			}
		case *ssa.Extract:
			if idx >= 0 || x.Tuple != v || !onlyReturnedAtV(x, x.Index, seen) {
				return false
			}
		case *ssa.Phi:
			if !onlyReturnedAtV(x, idx, seen) {
				return false
			}
		case *ssa.DebugRef:
		default:
			return false
		}
	}
	return true
}

// unlinkSplitV reports (once per run, as a CHECK-ERROR = "not established", never as a violation) that the unlink
// routine delegates the pointer surgery to a helper of its own. The rules of the ordered map read the routine as one
// body (what it reports, which payload it clears on which path, which neighbour receives what): on the program as
// written they would see half of it in each function. The verdict is taken on the helper-inlined normal form, in which
// the helper - it is not claimed as a role - is part of the routine again; when that form does not exist the message
// stands. Callers skip their rules when it returns true.
func (c *Ctx) unlinkSplitV(r *mapRoles) bool {
	if r == nil || r.unlinkInner == nil {
		return false
	}
	msg := fmt.Sprintf("role %q: %s hands the node to its private helper %s and returns what it reports: the rules read the unlink routine as one body and decide it on the helper-inlined normal form only", "node.unlink", ir.FnName(r.unlink), ir.FnName(r.unlinkInner))
	for _, e := range c.R.Errors {
		if e == msg {
			return true
		}
	}
	c.R.Errorf("%s", msg)
	return true
}

// surgeryViewV is the role set the rules about the pointer surgery (R9, R12, R14: what the routine reports, what the
// neighbours receive, how it recognises the head) run on when the unlink routine is split: the inner function and the
// node it is given. The rules about the call sites (R1, R2, R3) keep the outer function.
func (r *mapRoles) surgeryViewV() *mapRoles {
	if r.unlinkInner == nil {
		return r
	}
	v := *r
	v.unlink, v.unlinkSubj = r.unlinkInner, r.unlinkInnerSubj
	return &v
}

// isInnerUnlinkCallV: x is a call, in the outer function of a split unlink routine, of the inner function on the node
// the routine unlinks.
func (r *mapRoles) isInnerUnlinkCallV(x ssa.Instruction, node ssa.Value) bool {
	call, ok := x.(*ssa.Call)
	if !ok || r.unlinkInner == nil || ir.StaticCallee(call) != r.unlinkInner {
		return false
	}
	return r.unlinkInnerSubj < len(call.Call.Args) && same(call.Call.Args[r.unlinkInnerSubj], node)
}

// innerUnlinkCallsV lists those calls: to R11 each of them is a place where the node changes (its links are cut).
func (r *mapRoles) innerUnlinkCallsV(node ssa.Value) []ssa.Instruction {
	var res []ssa.Instruction
	if r.unlinkInner == nil || r.unlink == nil {
		return nil
	}
	ir.Instrs(r.unlink, func(x ssa.Instruction) {
		if r.isInnerUnlinkCallV(x, node) {
			res = append(res, x)
		}
	})
	return res
}

// innerUnlinkZeroesV: x is such a call and the inner function overwrites the payload value p of its node with the zero
// value on every path from its entry to a return (then the call counts as the zero store of R11).
func (r *mapRoles) innerUnlinkZeroesV(x ssa.Instruction, node ssa.Value, p payloadLeafD) bool {
	if !r.isInnerUnlinkCallV(x, node) || r.unlinkInnerSubj >= len(r.unlinkInner.Params) {
		return false
	}
	subj := r.unlinkInner.Params[r.unlinkInnerSubj]
	zero := func(y ssa.Instruction) bool {
		st, ok := y.(*ssa.Store)
		if !ok {
			return false
		}
		base, path, ok := r.nodeFieldPathD(st.Addr)
		return ok && p.under(path) && same(ir.Resolve(base), subj) && zeroValued(st.Val, 0)
	}
	w, err := (ir.Query{Fn: r.unlinkInner, Block: zero, Target: ir.IsExit}).Find()
	return w == nil && err == nil
}

// succLinkV resolves which of the node's links is the successor link, independently of the unlink routine: the link of
// the node that receives the new entry (the filled sentinel) into which the append routine - or Add, when the routine is
// written out in place - stores another node (the fresh sentinel hung behind it). nil when that is not exactly one link
// (then R9 accepts either link, as it did before this clause existed).
//
// R9 uses it: "the unlink routine reports nil or its own successor" means the link towards the tail. The predecessor
// reported as the new head (the two links mixed up in one arm) makes the head point into the middle of the list or at
// a node that is about to be recycled: everything in front of it is never iterated again.
func (c *Ctx) succLinkV(r *mapRoles) *types.Var {
	var cands []*types.Var
	for _, fn := range []*ssa.Function{r.putVal, r.addFn} {
		if fn == nil {
			continue
		}
		var filled []ssa.Value
		ir.Instrs(fn, func(in ssa.Instruction) {
			if !r.isFill(fn, in) {
				return
			}
			if base, _, ok := r.nodeFieldPathD(in.(*ssa.Store).Addr); ok {
				filled = append(filled, ir.Resolve(base))
			}
		})
		ir.Instrs(fn, func(in ssa.Instruction) {
			st, ok := in.(*ssa.Store)
			if !ok || ir.IsNilConst(st.Val) {
				return
			}
			fa, ok := st.Addr.(*ssa.FieldAddr)
			if !ok || !r.isLink(ir.FieldOf(fa)) {
				return
			}
			for _, f := range filled {
				if ir.Resolve(fa.X) == f && ir.Resolve(st.Val) != f {
					cands = appendUniq(cands, ir.FieldOf(fa))
				}
			}
		})
	}
	if len(cands) != 1 {
		return nil
	}
	return cands[0]
}

// unlinkOnlyUnpinnedV (R15). A removed node that an iterator is still parked on stays in the list, marked as removed,
// until the last iterator has left it: the iterator steps on through the node's own successor link, and the advance and
// release routines unlink the node later. So the unlink routine may cut links - the node's own and those of its
// neighbours - only where the node's reference count is known to be zero (a test of the count against 0 that governs
// the store: "== 0" / "<= 0" taken, "!= 0" / "> 0" not taken), in the routine itself or, when the node is a parameter
// of a private function, at every call of it (the callers test, or the outer function of a split routine does). A
// pinned node whose links are cut sends the iterator parked on it through a nil successor: Next() dereferences nil,
// or - with the neighbours rewired around it - the node is unlinked a second time when the iterator leaves it and the
// list is corrupted.
//
// Over-approximation: the fact is about the count as it was read by the test; a routine that changes the count between
// the test and the surgery is not modelled (none does: the count moves only in the cursor routines).
func (c *Ctx) unlinkOnlyUnpinnedV(r *mapRoles, rule string) {
	const what = "links cut only where the node is unreferenced"
	fn := r.unlink
	if fn == nil || r.unlinkSubj >= len(fn.Params) || r.refCnt == nil {
		c.Undecided(rule, fn, what, nil, "unlink routine or reference counter not resolved")
		return
	}
	subj := ssa.Value(fn.Params[r.unlinkSubj])
	n := 0
	ir.Instrs(fn, func(in ssa.Instruction) {
		st, ok := in.(*ssa.Store)
		if !ok {
			return
		}
		fa, ok := st.Addr.(*ssa.FieldAddr)
		if !ok || !r.isLink(ir.FieldOf(fa)) {
			return
		}
		// a link of the node itself, or of a node reached through a link of it
		own := same(fa.X, subj)
		nbr := false
		for _, o := range ir.Origins(fa.X) {
			if _, viaLink := r.linkLoadOf(o, subj); viaLink {
				nbr = true
			}
		}
		if !own && !nbr {
			return
		}
		n++
		c.Decide(rule, fn, what, in, c.refZeroGuarded(r, fn, in.Block(), subj, 0),
			"the unlink routine rewires a link on a path where the node's reference count is not known to be zero (neither a test in the routine nor one at every call of it): an iterator parked on the removed node loses its way on (nil successor: Next() panics) or the node is unlinked twice")
	})
	if n == 0 {
		c.Decide(rule, fn, what, nil, false, "the unlink routine writes no link")
	}
}
