package rules

import (
	"go/token"
	"go/types"

	"golang.org/x/tools/go/ssa"

	"verif/checker/ir"
)

// Timer rules, round g: R7 extended to a queue that is replaced as a whole.
//
// The index invariant of R1 - a future's index is its position in the heap, or negative outside it - is what Cancel
// relies on (R2: heap.Remove(h, fu.idx) only when idx >= 0). R1 decides it for Swap/Push/Pop, R7 for writes THROUGH the
// queue (its slice and elements are written only by those methods, so every removal goes through Pop, which resets the
// index). Both say nothing about the place that HOLDS the queue: the field of the control block with the heap (pointer
// or value), the control block itself, the package variable it hangs on. A store there makes every queued future leave
// the queue at once without Pop: the futures keep the positions they had in the old queue, a later Cancel of one of them
// passes the 'still queued' test and removes whatever sits at that position of the new queue - another caller's future.
//
// Clause (timerQueueReplaced): outside package init, the heap methods and objects still under construction, the holder of
// the queue is stored to only
//   - when the queue is known to be empty there (len(queue) == 0 / Len() == 0 as a guard fact: nothing is dropped), or
//   - behind a loop that runs over the whole queue's slice (range index from 0 in steps of 1 up to len, no other way out)
//     and on every iteration stores a negative constant into the index of the element of that iteration.

// tmQueueHolderStore: st replaces the queue as a whole - it stores into the control block's heap field, overwrites a
// control block, or re-points a package variable that holds one.
func (r *timerRoles) tmQueueHolderStore(st *ssa.Store) bool {
	if fa, ok := st.Addr.(*ssa.FieldAddr); ok && ir.FieldOf(fa) == r.heapF {
		return true
	}
	pt, ok := st.Addr.Type().Underlying().(*types.Pointer)
	if !ok {
		return false
	}
	if n, isNamed := pt.Elem().(*types.Named); isNamed && n.Origin() == r.ctrl {
		return true // *cc = callControl{...}
	}
	if _, isGlobal := st.Addr.(*ssa.Global); isGlobal && namedOf(pt.Elem()) == r.ctrl {
		return true // cc = newControl()
	}
	return false
}

// tmQueueKnownEmpty: a guard fact of block b says that nothing is queued.
func (r *timerRoles) tmQueueKnownEmpty(b *ssa.BasicBlock) bool {
	return tmGuardHolds(b, func(cm ir.Cmp) bool {
		x, y, op := cm.X, cm.Y, cm.Op
		if _, isC := ir.ConstInt(x); isC {
			x, y, op = y, x, ir.SwapOp(op)
		}
		k, isC := ir.ConstInt(y)
		if !isC || !r.tmQueueLen(x) {
			return false
		}
		switch op {
		case token.EQL, token.LEQ:
			return k == 0
		case token.LSS:
			return k == 1
		}
		return false
	})
}

// tmAllIndexesReset: before block at is entered, a loop over the whole queue has given every queued future a negative
// index. The loop is recognised by its shape only: header `if i < len(s)` with s the queue's slice, i counting from 0 in
// steps of 1 (the range index of go/ssa: phi[-1, i]+1, or a classic phi[0, i+1]), the header's exit edge the only way
// out of the loop and dominating `at`, and - in a block that every iteration passes - a store of a negative constant
// into the index field of s[i].
func (r *timerRoles) tmAllIndexesReset(fn *ssa.Function, at *ssa.BasicBlock) bool {
	found := false
	ir.Instrs(fn, func(in ssa.Instruction) {
		if found {
			return
		}
		base, val, isSt := storeToField(in, r.fIdx)
		if !isSt {
			return
		}
		if k, isC := ir.ConstInt(val); !isC || k >= 0 {
			return
		}
		ld, ok := ir.Resolve(base).(*ssa.UnOp)
		if !ok || ld.Op != token.MUL {
			return
		}
		ia, ok := ld.X.(*ssa.IndexAddr)
		if !ok || !r.tmQueueSlice(ia.X) {
			return
		}
		// the loop header: a dominator of the store that tests ia.Index < len(ia.X)
		for h := in.Block().Idom(); h != nil; h = h.Idom() {
			if len(h.Succs) != 2 || len(h.Instrs) == 0 {
				continue
			}
			iff, isIf := h.Instrs[len(h.Instrs)-1].(*ssa.If)
			if !isIf {
				continue
			}
			cmp, isCmp := iff.Cond.(*ssa.BinOp)
			if !isCmp || cmp.Op != token.LSS || cmp.X != ia.Index {
				continue
			}
			lc, isCall := cmp.Y.(*ssa.Call)
			if !isCall {
				continue
			}
			if cc := builtinCall(lc, "len"); cc == nil || len(cc.Args) != 1 || !(same(cc.Args[0], ia.X) || r.tmQueueSlice(cc.Args[0])) {
				continue
			}
			body, done := h.Succs[0], h.Succs[1]
			if !body.Dominates(in.Block()) || len(done.Preds) != 1 || !done.Dominates(at) {
				continue
			}
			if !tmCountsFromZero(ia.Index, h) {
				continue
			}
			// every iteration passes the store: its block dominates every block that jumps back to the header
			every := true
			back := 0
			for _, p := range h.Preds {
				if h.Dominates(p) {
					back++
					if !in.Block().Dominates(p) {
						every = false
					}
				}
			}
			if every && back > 0 {
				found = true
				return
			}
		}
	})
	return found
}

// tmCountsFromZero: v, tested in loop header h, takes the values 0, 1, 2, ... on successive iterations: v = p + 1 with
// p = phi[-1 from outside, v from inside], or v = phi[0 from outside, v + 1 from inside].
func tmCountsFromZero(v ssa.Value, h *ssa.BasicBlock) bool {
	plusOne := func(x ssa.Value) (ssa.Value, bool) {
		bo, ok := x.(*ssa.BinOp)
		if !ok || bo.Op != token.ADD {
			return nil, false
		}
		if k, isC := ir.ConstInt(bo.Y); isC && k == 1 {
			return bo.X, true
		}
		if k, isC := ir.ConstInt(bo.X); isC && k == 1 {
			return bo.Y, true
		}
		return nil, false
	}
	check := func(p *ssa.Phi, start int64, next func(e ssa.Value) bool) bool {
		if p.Block() != h {
			return false
		}
		in, out := 0, 0
		for j, e := range p.Edges {
			if h.Dominates(h.Preds[j]) {
				in++
				if !next(e) {
					return false
				}
			} else {
				out++
				if k, isC := ir.ConstInt(e); !isC || k != start {
					return false
				}
			}
		}
		return in > 0 && out > 0
	}
	if x, ok := plusOne(v); ok {
		if p, isPhi := x.(*ssa.Phi); isPhi {
			return check(p, -1, func(e ssa.Value) bool { return e == v })
		}
		return false
	}
	if p, isPhi := v.(*ssa.Phi); isPhi {
		return check(p, 0, func(e ssa.Value) bool { x, ok := plusOne(e); return ok && x == ssa.Value(p) })
	}
	return false
}

// timerQueueReplaced is the obligation described at the top of this file, under rule id `rule` (C12.R7, C13.Q7, C05.T7,
// C01.T7). It produces obligations only for stores that replace the queue outside init and construction; a tree without
// such a store has none.
func (c *Ctx) timerQueueReplaced(r *timerRoles, rule string) {
	heapSet := map[*ssa.Function]bool{}
	for _, m := range r.heapMethods {
		heapSet[m] = true
	}
	for _, fn := range r.all {
		if isPkgInit(fn) || heapSet[fn] {
			continue
		}
		fn := fn
		ir.Instrs(fn, func(in ssa.Instruction) {
			st, ok := in.(*ssa.Store)
			if !ok || !r.tmQueueHolderStore(st) {
				return
			}
			if tmUnderConstruction(tmRootObject(st.Addr), in) {
				return
			}
			ok = r.tmQueueKnownEmpty(st.Block()) || r.tmAllIndexesReset(fn, st.Block())
			c.Decide(rule, fn, "queue replaced only after every queued future got a negative index", in, ok,
				"the queue is replaced as a whole while futures may be queued and without giving each of them a negative index first: the dropped futures keep the positions of the old queue, a later Cancel of one of them passes the 'still queued' test and removes the future that sits at that position of the new queue - a call scheduled afterwards never starts")
		})
	}
}
