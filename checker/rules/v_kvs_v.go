package rules

import (
	"go/token"
	"go/types"

	"golang.org/x/tools/go/ssa"

	"verif/checker/ir"
)

// Generalisations of the redis kvs rules for benign round v (C06-v2): the encode + SET of a write moved into one helper
// that is handed the command target (client or transaction pipeline) and the operation's record; after the normal form
// has inlined it, the encoding of CasByVersion's record sits in the pipeline literal while its version is assigned in
// the enclosing transaction literal, and the key of the SET is mapped again instead of being the watched variable.

// cellAddrInV: the value through which function f reaches the local cell (the cell itself in its own function, the free
// variable bound to it - through any number of enclosing literals - in a literal), or nil.
func cellAddrInV(f *ssa.Function, cell *ssa.Alloc) ssa.Value {
	if f == cell.Parent() {
		return cell
	}
	for _, fv := range f.FreeVars {
		b := ssa.Value(fv)
		for i := 0; i < 8; i++ {
			x, ok := b.(*ssa.FreeVar)
			if !ok {
				break
			}
			b = ir.BindingOf(x)
		}
		if b == ssa.Value(cell) {
			return fv
		}
	}
	return nil
}

// freshVersionThroughLiteralsV: the record in `cell` is used at `at` inside a function literal, and its Version was
// assigned by the generator in an ENCLOSING function (literal) before the literal was created: walking outwards from
// at's function, a function on the chain that writes the record's Version at all must do so with a generator's result by a
// store that dominates the point where the next inner literal is made (or `at` itself), with no other write to the
// Version or the record between the two; functions on the chain that do not touch the Version are passed through. The
// literal then sees the fresh version exactly as straight-line code would (it is created after the assignment and nothing
// on the chain writes the field again).
func freshVersionThroughLiteralsV(cell *ssa.Alloc, at ssa.Instruction, verField *types.Var, newID *ssa.Function) bool {
	f := at.Parent()
	target := at
	for depth := 0; f != nil && depth < 4; depth++ {
		addr := cellAddrInV(f, cell)
		if addr == nil {
			return false
		}
		var fresh, others []ssa.Instruction
		ir.Instrs(f, func(in ssa.Instruction) {
			st, ok := in.(*ssa.Store)
			if !ok {
				return
			}
			if st.Addr == addr {
				if f != cell.Parent() || ir.Dominates(target, in) || !ir.Dominates(in, target) {
					others = append(others, in)
				}
				return
			}
			if fa, isFA := st.Addr.(*ssa.FieldAddr); isFA && (fa.X == addr || ir.Resolve(fa.X) == addr) && ir.FieldOf(fa) == verField {
				if versionGeneratorV(st.Val, verField, newID, 0) != nil {
					fresh = append(fresh, in)
				} else {
					others = append(others, in)
				}
			}
		})
		if len(fresh)+len(others) > 0 {
			for _, s := range fresh {
				if !ir.Dominates(s, target) {
					continue
				}
				clean := true
				for _, o := range append(append([]ssa.Instruction{}, others...), fresh...) {
					if o == s {
						continue
					}
					w1, _ := (ir.Query{Fn: f, From: s, Block: func(x ssa.Instruction) bool { return x == target }, Target: func(x ssa.Instruction) bool { return x == o }}).Find()
					w2, _ := (ir.Query{Fn: f, From: o, Block: func(x ssa.Instruction) bool { return x == s }, Target: func(x ssa.Instruction) bool { return x == target }}).Find()
					if w1 != nil && w2 != nil {
						clean = false
					}
				}
				// one generated version per write: no way from the use round to the use again without a new generator call
				if clean {
					if w, _ := (ir.Query{Fn: f, From: target, Block: func(x ssa.Instruction) bool { return x == s }, Target: func(x ssa.Instruction) bool { return x == target }}).Find(); w != nil {
						clean = false
					}
				}
				if clean {
					return true
				}
			}
			return false
		}
		// nothing written here: the literal is made by the enclosing function
		par := f.Parent()
		if par == nil {
			return false
		}
		var mc ssa.Instruction
		n := 0
		ir.Instrs(par, func(in ssa.Instruction) {
			if m, ok := in.(*ssa.MakeClosure); ok && m.Fn == ssa.Value(f) {
				mc = m
				n++
			}
		})
		if n != 1 {
			return false
		}
		f, target = par, mc
	}
	return false
}

// sameMappedKeyV: both values are the key mapping applied to the Key field of one and the same local record (reached
// directly or as a captured variable), and nothing in the functions involved assigns that field: the same redis key,
// computed twice.
func (r *redisRoles) sameMappedKeyV(a, b ssa.Value) bool {
	keyCell := func(v ssa.Value) *ssa.Alloc {
		call, ok := ir.Resolve(v).(*ssa.Call)
		if !ok || ir.StaticCallee(call) != r.mapKey || len(call.Call.Args) != 1 {
			return nil
		}
		u, ok := ir.Resolve(call.Call.Args[0]).(*ssa.UnOp)
		if !ok || u.Op != token.MUL {
			return nil
		}
		fa, ok := u.X.(*ssa.FieldAddr)
		if !ok || ir.FieldOf(fa) != r.recKey {
			return nil
		}
		base := ir.Resolve(fa.X)
		for i := 0; i < 8; i++ {
			fv, isFV := base.(*ssa.FreeVar)
			if !isFV {
				break
			}
			base = ir.BindingOf(fv)
			if ld, isLd := base.(*ssa.UnOp); isLd && ld.Op == token.MUL {
				base = ir.Resolve(ld)
			}
		}
		// a pointer parameter / local that holds the address of the record
		if ld, isLd := base.(*ssa.UnOp); isLd && ld.Op == token.MUL {
			base = ir.Resolve(ld)
		}
		al, _ := base.(*ssa.Alloc)
		return al
	}
	ca, cb := keyCell(a), keyCell(b)
	if ca == nil || ca != cb {
		return false
	}
	// the Key of that record is never assigned after the cell was initialised
	written := false
	var scan func(f *ssa.Function)
	scan = func(f *ssa.Function) {
		addr := cellAddrInV(f, ca)
		if addr != nil {
			ir.Instrs(f, func(in ssa.Instruction) {
				if st, ok := in.(*ssa.Store); ok {
					if fa, isFA := st.Addr.(*ssa.FieldAddr); isFA && (fa.X == addr || ir.Resolve(fa.X) == addr) && ir.FieldOf(fa) == r.recKey {
						written = true
					}
				}
			})
		}
		for _, an := range f.AnonFuncs {
			scan(an)
		}
	}
	scan(ca.Parent())
	return !written
}

// cellThroughLiteralsV: v is (a load of) a variable captured through one or more nested function literals: the local
// cell it is bound to in the outermost function, or nil.
func cellThroughLiteralsV(v ssa.Value) *ssa.Alloc {
	if u, ok := v.(*ssa.UnOp); ok && u.Op == token.MUL {
		v = u.X
	}
	for i := 0; i < 8; i++ {
		fv, ok := v.(*ssa.FreeVar)
		if !ok {
			break
		}
		v = ir.BindingOf(fv)
	}
	al, _ := v.(*ssa.Alloc)
	return al
}
