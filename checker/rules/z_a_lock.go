package rules

import (
	"go/token"
	"sort"
	"strings"

	"golang.org/x/tools/go/ssa"

	"verif/checker/ir"
)

// ---------------------------------------------------------------------------
// lock rules added after seeded round e (C01.L3/L4, C04.R10, C05.L11/L12)

// renewalReachZA: the functions that run when a renewal timer fires - the renewal routine, the function literals inside
// it, and the functions of the package it calls (depth 3), the Locker's entry points excepted.
func (r *lockRoles) renewalReachZA() []*ssa.Function {
	seen := map[*ssa.Function]bool{}
	var res []*ssa.Function
	var visit func(fn *ssa.Function, depth int)
	visit = func(fn *ssa.Function, depth int) {
		if fn == nil || seen[fn] || depth > 3 || len(fn.Blocks) == 0 {
			return
		}
		seen[fn] = true
		res = append(res, fn)
		for _, an := range fn.AnonFuncs {
			visit(an, depth)
		}
		for _, cc := range ir.Calls(fn) {
			cal := calleeYA(cc)
			if cal == nil || cal.Pkg != r.renewal.Pkg {
				continue
			}
			if cal == r.tryLock || cal == r.lock || cal == r.lockCtx || cal == r.unlock || cal == r.newLocker || cal == r.shutdown {
				continue
			}
			visit(cal, depth+1)
		}
	}
	visit(r.renewal, 0)
	return res
}

// timerCancelRecvZA: in cancels a timer of the timeout package (Future.Cancel through the interface, or the concrete
// method); returns the timer that is cancelled, nil otherwise.
func timerCancelRecvZA(in ssa.Instruction) ssa.Value {
	call, ok := in.(ssa.CallInstruction)
	if !ok {
		return nil
	}
	cc := call.Common()
	if cc.IsInvoke() {
		if cc.Method.Name() == "Cancel" && cc.Method.Pkg() != nil && strings.HasSuffix(cc.Method.Pkg().Path(), "/timeout") {
			return cc.Value
		}
		return nil
	}
	if cal := ir.StaticCallee(call); cal != nil && cal.Name() == "Cancel" && cal.Pkg != nil && strings.HasSuffix(cal.Pkg.Pkg.Path(), "/timeout") && len(cc.Args) > 0 {
		return cc.Args[0]
	}
	return nil
}

// readFromTimerSlotZA: some way of producing v reads the Locker's timer slot (atomic Load / Swap of the slot field) -
// directly, through a function of the package that returns what it read, or through a parameter one of the package's
// call sites feeds with such a value.
func (r *lockRoles) readFromTimerSlotZA(v ssa.Value, depth int, seen map[ssa.Value]bool) bool {
	if v == nil || depth > 4 {
		return false
	}
	for _, o := range ir.Origins(v) {
		if seen[o] {
			continue
		}
		seen[o] = true
		switch x := o.(type) {
		case *ssa.TypeAssert:
			if r.readFromTimerSlotZA(x.X, depth, seen) {
				return true
			}
		case *ssa.Extract:
			if r.readFromTimerSlotZA(x.Tuple, depth, seen) {
				return true
			}
		case *ssa.UnOp:
			// the timer in the box a typed slot points to: `*slot.Load()`
			if x.Op == token.MUL && r.readFromTimerSlotZA(x.X, depth, seen) {
				return true
			}
		case *ssa.Call:
			switch slotMethodVV(x) {
			case "Load", "Swap":
				if _, isSlot := fieldAddrOf(x.Call.Args[0], r.timerF); isSlot {
					return true
				}
				continue
			}
			if cal := calleeYA(x); cal != nil && len(cal.Blocks) > 0 && cal.Pkg == r.renewal.Pkg {
				for _, ret := range ir.Returns(cal) {
					for i := range ret.Results {
						if r.readFromTimerSlotZA(ir.ResultValue(ret, i), depth+1, seen) {
							return true
						}
					}
				}
			}
		case *ssa.Parameter:
			fn := x.Parent()
			idx := -1
			for i, p := range fn.Params {
				if p == x {
					idx = i
				}
			}
			if idx < 0 {
				continue
			}
			for _, g := range r.all {
				for _, cc := range ir.Calls(g) {
					if ir.StaticCallee(cc) != fn || cc.Common().IsInvoke() || idx >= len(cc.Common().Args) {
						continue
					}
					if r.readFromTimerSlotZA(cc.Common().Args[idx], depth+1, seen) {
						return true
					}
				}
			}
		}
	}
	return false
}

// renewalCancelsOwnTimer is C05.L11 / C01.L4. The timer slot belongs to the Locker object, not to a tenure: a renewal
// that is still in flight when its tenure ends (its timer has fired, so Unlock's Cancel does not reach it - see C05.L9)
// runs into the next tenure of the same Locker, and what it then finds in the slot is the live renewal timer of that
// tenure. Whatever runs on the timer's goroutine (the renewal routine and what it calls) therefore never cancels a timer
// it has read from the slot; the only timer it may cancel is one it has armed itself in this run.
func (c *Ctx) renewalCancelsOwnTimer(r *lockRoles, rule string) {
	const construct = "renewal cancels only a timer it armed itself"
	n := 0
	for _, fn := range r.renewalReachZA() {
		fn := fn
		ir.Instrs(fn, func(in ssa.Instruction) {
			recv := timerCancelRecvZA(in)
			if recv == nil {
				return
			}
			n++
			bad := r.readFromTimerSlotZA(recv, 0, map[ssa.Value]bool{})
			c.Decide(rule, fn, construct, in, !bad,
				"the lease renewal cancels a timer it has read from the Locker's timer slot. The slot is per Locker object, not per tenure: a renewal of a finished tenure that is still in flight (its timer had fired before Unlock cancelled) finds the renewal timer of the NEXT tenure there, and cancels it when its own compare-and-set fails on the version - the new holder's record is never renewed, lapses after one lease while the lock is held, and another caller acquires")
		})
	}
	if n == 0 {
		c.Decide(rule, r.renewal, construct, nil, true, "")
	}
}

// ---------------------------------------------------------------------------

// createLikeCallZA: in is Storage.Create, or a call of a private Locker method that acquires (all of its possible
// success exits lie behind a successful Create - acquiringSummaries); the `err == nil` outcome of such a call means
// "the lock record was created by this attempt".
func (r *lockRoles) createLikeCallZA(in ssa.Instruction) *ssa.Call {
	if cr := r.storageCall(in, "Create"); cr != nil {
		return cr
	}
	if call, ok := in.(*ssa.Call); ok {
		if cal := ir.StaticCallee(call); cal != nil && r.acquiring[cal] && errOf(call) != nil {
			return call
		}
	}
	return nil
}

// failsOnPathZA: the return x of fn reports failure on the path val describes.
func failsOnPathZA(fn *ssa.Function, x ssa.Instruction, val *ir.Valuation) bool {
	ret, ok := x.(*ssa.Return)
	if !ok || !ir.IsReturn(x) {
		return false
	}
	return !possibleSuccessExit(fn, ret) || exitFailsOnPathYA(fn, ret, val)
}

// createdRecordNotLeftBehind is C04.R10: an attempt whose Create succeeded owns a record in the storage. It either
// reports success (the caller's Unlock deletes the record) or deletes the record before it reports failure; on no path
// from the success outcome of the Create does it reach a failing exit with the record still there - nobody would hold
// the lock, yet every other Locker is kept out until the lease runs out ("without leaving anything behind").
func (c *Ctx) createdRecordNotLeftBehind(r *lockRoles, rule string) {
	const construct = "an attempt that created the lock record keeps the lock or deletes the record"
	c.acquiringSummaries(r, false)
	del := ir.NewEffects(c.P, func(x ssa.Instruction) bool { return r.storageCall(x, "Delete") != nil })
	n := 0
	for _, fn := range r.lockerFns {
		fn := fn
		if fn == r.renewal || fn == r.unlock {
			continue
		}
		ir.Instrs(fn, func(in ssa.Instruction) {
			cr := r.createLikeCallZA(in)
			if cr == nil {
				return
			}
			ev := errOf(cr)
			if ev == nil {
				return
			}
			n++
			var heldCAS []ssa.Value
			ir.Instrs(fn, func(x ssa.Instruction) {
				if op, addr, args, ok := ir.AtomicCall(x); ok && op == "CompareAndSwap" && len(args) == 2 {
					o, _ := ir.ConstInt(args[0])
					nn, _ := ir.ConstInt(args[1])
					if _, isFlag := fieldAddrOf(addr, r.heldF); isFlag && o == 1 && nn == 0 {
						if v, isV := x.(ssa.Value); isV {
							heldCAS = append(heldCAS, v)
						}
					}
				}
			})
			endedCtxDelete := false
			q := ir.PathQuery{Fn: fn, From: in,
				Stop: func(x ssa.Instruction) bool {
					// a Delete issued right here is looked at in Target (under which context it runs: v_lock_g2.go)
					return (del.Is(x) && r.storageCall(x, "Delete") == nil) || r.createLikeCallZA(x) != nil
				},
				Target: func(x ssa.Instruction, val *ir.Valuation) bool {
					if dc := r.storageCall(x, "Delete"); dc != nil {
						if r.underEndedContextVG(dc, val) {
							endedCtxDelete = true
						} else {
							val.Mark("record deleted")
						}
						return false
					}
					if val.Marked("record deleted") || !failsOnPathZA(fn, x, val) {
						return false
					}
					if isNil, known := val.KnownIsNil(ev); !known || !isNil {
						return false
					}
					// the "not held" edge of the holder's own compare-and-swap (the invalid-state edge Unlock panics on): the
					// attempt set the flag when it took the token and nothing else resets it
					for _, t := range heldCAS {
						if k, ok := val.Known(t); ok && !k {
							return false
						}
					}
					return true
				}}
			what := "after a successful Storage.Create the attempt can still report failure without deleting the record it has just created: nobody holds the lock and no renewal is armed, but the record stays in the storage for a whole lease - other Lockers cannot acquire although every holder has unlocked"
			if w, err := q.Find(); err == nil && w != nil && endedCtxDelete {
				c.Decide(rule, fn, construct, in, false, what+" (the clean-up Delete on the way runs under a context the path has just found ended - ctx.Err() != nil: a storage that honours the context refuses the call; the clean-up has to use a context that is not the ended one, context.Background() / WithoutCancel / a fresh timeout): path "+w.String(c.P))
				return
			}
			c.pathVerdict(rule, fn, construct, in, q, what)
		})
	}
	if n == 0 {
		c.Decide(rule, r.tryLock, construct, nil, false, "no Storage.Create found in the acquiring functions")
	}
}

// ---------------------------------------------------------------------------

// callerContextZA: v (a context.Context inside fn) is the context the caller of the acquisition supplied - a context
// parameter (of a private function: fed with the caller's context at every call site of the package), possibly wrapped
// by context.WithValue, or context.Background()/TODO() (never ends). A context made by WithTimeout / WithDeadline /
// WithCancel or obtained any other way can end for reasons of the library's own.
func (r *lockRoles) callerContextZA(v ssa.Value, depth int) bool {
	if depth > 3 {
		return false
	}
	os := ir.Origins(v)
	if len(os) == 0 {
		return false
	}
	for _, o := range os {
		switch x := o.(type) {
		case *ssa.Parameter:
			if !ir.IsNamed(x.Type(), "context", "Context") {
				return false
			}
			fn := x.Parent()
			if fn.Object() != nil && fn.Object().Exported() {
				continue
			}
			idx := -1
			for i, p := range fn.Params {
				if p == x {
					idx = i
				}
			}
			for _, g := range r.all {
				for _, cc := range ir.Calls(g) {
					if ir.StaticCallee(cc) != fn || cc.Common().IsInvoke() || idx < 0 || idx >= len(cc.Common().Args) {
						continue
					}
					if !r.callerContextZA(cc.Common().Args[idx], depth+1) {
						return false
					}
				}
			}
		case *ssa.Call:
			switch ir.CalleeFullName(x) {
			case "context.Background", "context.TODO":
			case "context.WithValue":
				if !r.callerContextZA(x.Call.Args[0], depth+1) {
					return false
				}
			default:
				return false
			}
		case *ssa.Extract:
			// a deadline / cancellation context an exported entry point builds from its own arguments (v_lock_u.go)
			if !r.entryPointContextVU(x, depth) {
				return false
			}
		default:
			return false
		}
	}
	return true
}

// shutdownSeenZA returns a predicate over path valuations of fn: the path tested the provider's shutdown channel and
// found it closed.
func (r *lockRoles) shutdownSeenZA(fn *ssa.Function) func(val *ir.Valuation) bool {
	type test struct {
		v        ssa.Value
		openWhen bool
	}
	var tests []test
	ir.Instrs(fn, func(in ssa.Instruction) {
		switch x := in.(type) {
		case *ssa.Call:
			if strings.HasSuffix(ir.CalleeFullName(x), "chans.IsOpened") && len(x.Call.Args) == 1 && ir.LoadedField(x.Call.Args[0]) == r.doneF {
				tests = append(tests, test{x, true})
			}
		case *ssa.BinOp:
			if x.Op == token.EQL || x.Op == token.NEQ {
				if r.openFact(ir.Fact{Cond: x, True: true}) {
					tests = append(tests, test{x, true})
				} else if r.openFact(ir.Fact{Cond: x, True: false}) {
					tests = append(tests, test{x, false})
				}
			}
		}
	})
	return func(val *ir.Valuation) bool {
		for _, t := range tests {
			if k, ok := val.Known(t.v); ok && k != t.openWhen {
				return true
			}
		}
		return false
	}
}

// waitEndsForCallerReasons is C05.L12. The storage wait of an acquisition lasts as long as the holder lives - there is no
// bound the library could put on it that does not fire in regular operation. An attempt may therefore be bounded by a
// context of the library's own making only if that context's end never decides the attempt: on every path from the
// return of such a wait to a failing exit (up to the next Create, whose own error is a reason) the attempt has re-read
// the CALLER's context after the wait and found it ended (or returns that very ctx.Err()), or has seen the shutdown.
// A wait under the caller's own context needs nothing of this: all it can report is the caller's ctx.Err().
func (c *Ctx) waitEndsForCallerReasons(r *lockRoles, rule string) {
	const construct = "a waiting attempt gives up only for the caller's reasons"
	n := 0
	fns := append([]*ssa.Function{}, r.lockerFns...)
	sort.SliceStable(fns, func(i, j int) bool { return fns[i].Pos() < fns[j].Pos() })
	for _, fn := range fns {
		fn := fn
		ir.Instrs(fn, func(in ssa.Instruction) {
			w := r.storageCall(in, "WaitForVersionChange")
			if w == nil {
				return
			}
			n++
			if r.callerContextZA(w.Call.Args[0], 0) {
				c.Decide(rule, fn, construct, in, true, "")
				return
			}
			// fresh reads of the caller's context: ctx.Err() on a caller context
			fresh := map[ssa.Value]bool{}
			ir.Instrs(fn, func(x ssa.Instruction) {
				if call, ok := x.(*ssa.Call); ok && call.Call.IsInvoke() && call.Call.Method.Name() == "Err" && len(call.Call.Args) == 0 &&
					ir.IsNamed(call.Call.Value.Type(), "context", "Context") && r.callerContextZA(call.Call.Value, 0) {
					fresh[call] = true
				}
			})
			shutdownSeen := r.shutdownSeenZA(fn)
			rs := fn.Signature.Results()
			q := ir.PathQuery{Fn: fn, From: in,
				Stop: func(x ssa.Instruction) bool {
					return r.createLikeCallZA(x) != nil || r.tokenHelperCall(x) != nil
				},
				Target: func(x ssa.Instruction, val *ir.Valuation) bool {
					if v, ok := x.(ssa.Value); ok && fresh[v] {
						val.Mark("read:" + v.Name())
						return false
					}
					ret, isRet := x.(*ssa.Return)
					if !isRet || !ir.IsReturn(x) {
						return false
					}
					// what this exit reports on this path
					var res ssa.Value
					if rs.Len() > 0 && ir.IsErrorType(rs.At(rs.Len()-1).Type()) {
						res = ir.Resolve(val.Selected(ir.ResultValue(ret, rs.Len()-1)))
					}
					handsOver := res != nil && res == ssa.Value(w) // the error of the bounded wait is handed to the caller
					if isNil, known := val.KnownIsNil(w); handsOver && known && isNil {
						handsOver = false
					}
					if !handsOver && !failsOnPathZA(fn, x, val) {
						return false
					}
					if shutdownSeen(val) {
						return false
					}
					for f := range fresh {
						if !val.Marked("read:" + f.Name()) {
							continue
						}
						if res == f {
							return false // reports the caller's ctx.Err() read after the wait
						}
						if isNil, known := val.KnownIsNil(f); known && !isNil {
							return false // the caller's context was found ended after the wait
						}
					}
					return true
				}}
			c.pathVerdict(rule, fn, construct, in, q,
				"the storage wait runs under a context the library derived itself (own deadline / cancellation) and the attempt can fail behind it without having found the CALLER's context ended or the provider shut down: the internal bound is handed to the caller as its own error - a waiter whose context is alive gives up (Lock panics) exactly when the holder died and its record is about to lapse, instead of acquiring")
		})
	}
	if n == 0 {
		c.Decide(rule, r.lockCtx, construct, nil, true, "")
	}
}
