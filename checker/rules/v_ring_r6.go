package rules

// C14.R6 where the index arithmetic was moved into a private helper.
//
// R6 wants the count a caller passes to Skip (or ReadN's effective count) clamped before it is added to an index. When the
// exported method clamps the request and hands the clamped count to a private helper that does the arithmetic
// (`release(n)`), the helper's parameter is not a request any more: c14.go's internalCount establishes that every call of
// the helper passes a value that is bounded where it derives from a caller's request. The obligation is then recorded at
// those calls - it is the same clause, decided where the request is dealt with - instead of silently producing nothing
// (the floor of R6 would take the refactored tree for one in which the rule lost its anchor). Recorded only when the
// helper really uses the parameter in index arithmetic, i.e. when R6 would have had something to check inside it.

import (
	"go/token"

	"golang.org/x/tools/go/ssa"

	"verif/checker/ir"
)

func (k *c14) requestsClampedAtCallsV(fn *ssa.Function, prm *ssa.Parameter, exempt *ssa.Function,
	derivedOf func(*ssa.Function, *ssa.Parameter) map[ssa.Value]bool,
	mkBounded func(map[ssa.Value]bool) func(ssa.Value) bool,
	intParams func(*ssa.Function) []*ssa.Parameter,
	isLenBuf func(ssa.Value) bool) {
	derived := derivedOf(fn, prm)
	uses := false
	ir.Instrs(fn, func(in ssa.Instruction) {
		bo, ok := in.(*ssa.BinOp)
		if !ok || (bo.Op != token.ADD && bo.Op != token.MUL) {
			return
		}
		for _, o := range []ssa.Value{bo.X, bo.Y} {
			if !derived[o] {
				continue
			}
			other := bo.X
			if o == bo.X {
				other = bo.Y
			}
			_, isR := loadOfField(other, k.rIdx)
			_, isW := loadOfField(other, k.wIdx)
			if isR || isW || isLenBuf(other) {
				uses = true
			}
		}
	})
	if !uses {
		return
	}
	i := c14paramIndex(prm)
	for _, ci := range k.callSites(fn).calls {
		h := ci.Parent()
		args := ci.Common().Args
		if h == nil || i < 0 || i >= len(args) || h == exempt {
			continue // (At is exempt as a caller for the reason it is exempt itself: R3 decides its range check)
		}
		in, _ := ci.(ssa.Instruction)
		for _, q := range intParams(h) {
			d := derivedOf(h, q)
			if d[args[i]] {
				k.Decide("C14.R6", h, "requested count clamped to Len() before index arithmetic", in, mkBounded(d)(args[i]),
					"the caller's count is handed to "+fn.Name()+", which adds it to an index, without being clamped to Len()")
			}
		}
	}
}
