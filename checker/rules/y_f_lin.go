package rules

import (
	"fmt"
	"go/token"
	"go/types"
	"sort"
	"strings"

	"golang.org/x/tools/go/ssa"

	"verif/checker/ir"
)

// Symbolic linear bounds for the ring buffer rules (C14).
//
// An integer SSA value is abstracted to a linear form c + sum(coef * atom) over symbolic atoms:
//   L        len(buf)                                   (L >= 1)
//   Len      the result of Len()                        (0 <= Len <= L-1: one slot always stays empty)
//   f:<x>@b  the content of an index field on entry to block b, or on entry to the function
//            (0 <= . <= L-1: every store to an index is a valid slot or is wrapped before the next use - rule R2
//            itself, an assume/guarantee argument over the methods of the ring)
//   c:<v>    the result of copy(dst, src)               (0 <= . <= len(src), len(src) again a linear form)
//   v:<v>    anything else (parameters, opaque values): no bound unless a branch fact gives one
// Phi nodes are not joined: the evaluation runs once per choice of the incoming edge of every phi block it meets (phis
// of one block take the same edge), with the branch facts of the chosen edges added. A claim is accepted only when it
// is proved under every choice. A load of an index field that follows a store to it in straight-line code stands for the
// stored value. Nothing is executed and no value is computed: the result is an inequality between symbolic forms that
// holds for every L >= 1, decided by substituting the box bounds of the atoms. Anything the evaluation does not
// understand becomes an unbounded atom, which makes the proof fail (never succeed).

type c14lform struct {
	c int64
	t map[string]int64
}

func c14const(c int64) c14lform { return c14lform{c: c} }

func c14atom(key string) c14lform { return c14lform{t: map[string]int64{key: 1}} }

func (a c14lform) add(b c14lform, sign int64) c14lform {
	r := c14lform{c: a.c + sign*b.c, t: map[string]int64{}}
	for k, v := range a.t {
		r.t[k] = v
	}
	for k, v := range b.t {
		r.t[k] += sign * v
		if r.t[k] == 0 {
			delete(r.t, k)
		}
	}
	return r
}

func (a c14lform) scale(m int64) c14lform {
	r := c14lform{c: a.c * m, t: map[string]int64{}}
	if m == 0 {
		return r
	}
	for k, v := range a.t {
		r.t[k] = v * m
	}
	return r
}

func (a c14lform) isZero() bool { return a.c == 0 && len(a.t) == 0 }

func (a c14lform) String() string {
	var ks []string
	for k := range a.t {
		ks = append(ks, k)
	}
	sort.Strings(ks)
	var sb strings.Builder
	fmt.Fprintf(&sb, "%d", a.c)
	for _, k := range ks {
		fmt.Fprintf(&sb, " %+d*%s", a.t[k], k)
	}
	return sb.String()
}

// c14seg describes a slice as a part of the backing array: where it starts and how long it is.
type c14seg struct {
	off, length c14lform
	isNil       bool
}

// c14shared is what the evaluation of one claim under one choice shares between the function it starts in and the helpers
// it evaluates through.
type c14shared struct {
	choice map[interface{}]int // *ssa.BasicBlock (phi block) -> incoming edge taken; *ssa.Call (helper call) -> exit point taken
	need   []c14need           // choices asked for and not made yet (in order of discovery)
	copyUB map[string]c14lform // c:<v> -> len(src)
	extra  []c14lform          // forms known to be >= 0 under the choice: what holds at the chosen exit of a helper
	frozen bool                // do not ask for new choices: an unchosen alternative is an opaque atom
}

type c14need struct {
	key interface{}
	n   int
}

type c14env struct {
	*c14shared
	k    *c14
	fn   *ssa.Function
	busy map[ssa.Value]bool
	noW  map[*types.Var]int // field -> 1: no write to it anywhere in fn, 2: there is one
	// set when fn is a helper evaluated for one call of it
	parent *c14env
	call   *ssa.Call
	bind   map[*ssa.Parameter]c14lform
	depth  int
}

func (k *c14) newEnv(fn *ssa.Function, choice map[interface{}]int) *c14env {
	return &c14env{c14shared: &c14shared{choice: choice, copyUB: map[string]c14lform{}}, k: k, fn: fn, busy: map[ssa.Value]bool{}, noW: map[*types.Var]int{}}
}

func (e *c14env) child(g *ssa.Function, call *ssa.Call) *c14env {
	return &c14env{c14shared: e.c14shared, k: e.k, fn: g, busy: map[ssa.Value]bool{}, noW: map[*types.Var]int{}, parent: e, call: call,
		bind: map[*ssa.Parameter]c14lform{}, depth: e.depth + 1}
}

func (e *c14env) vname(v ssa.Value) string {
	if e.parent != nil {
		return e.fn.Name() + "@" + e.parent.vname(e.call) + "." + v.Name()
	}
	return v.Name()
}

func (e *c14env) opaque(v ssa.Value) c14lform { return c14atom("v:" + e.vname(v)) }

func (e *c14env) needChoice(key interface{}, n int) {
	for _, x := range e.need {
		if x.key == key {
			return
		}
	}
	e.need = append(e.need, c14need{key, n})
}

// phiEdge returns the operand of p selected by the current choice.
func (e *c14env) phiEdge(p *ssa.Phi) (ssa.Value, bool) {
	if i, ok := e.choice[p.Block()]; ok && i < len(p.Edges) {
		return p.Edges[i], true
	}
	if !e.frozen {
		e.needChoice(p.Block(), len(p.Edges))
	}
	return nil, false
}

func (e *c14env) unwritten(f *types.Var) bool {
	if s, ok := e.noW[f]; ok {
		return s == 1
	}
	s := 1
	ir.Instrs(e.fn, func(in ssa.Instruction) {
		if e.k.writesField(in, f) {
			s = 2
		}
	})
	e.noW[f] = s
	return s == 1
}

// fieldLoad abstracts a load of index field f: the value of the store that precedes it in straight-line code, else the
// content of the field on entry to the block where the backward scan ends (a join or the entry).
func (e *c14env) fieldLoad(ld ssa.Instruction, f *types.Var) c14lform {
	if e.unwritten(f) {
		if e.parent != nil {
			return e.parent.fieldLoad(e.call, f) // a helper that does not write the field sees what its caller had at the call
		}
		return c14atom("f:" + f.Name() + "@entry")
	}
	b := ld.Block()
	idx := -1
	for i, in := range b.Instrs {
		if in == ld {
			idx = i
		}
	}
	for hops := 0; hops < 12; hops++ {
		for i := idx - 1; i >= 0; i-- {
			in := b.Instrs[i]
			if _, val, ok := storeToField(in, f); ok {
				return e.lin(val)
			}
			if e.k.writesField(in, f) {
				return c14atom("v:" + e.fn.Name() + "." + b.String() + "#" + fmt.Sprint(i)) // written by a callee: unknown
			}
		}
		if len(b.Preds) != 1 || b.Preds[0] == b {
			// a join that no write to the field can reach from its immediate dominator: the field still holds what it
			// held at the end of the dominator (v_ring_lin.go)
			if d := e.k.unwrittenSinceIdomV(b, f); d != nil {
				b = d
				idx = len(b.Instrs)
				continue
			}
			break
		}
		b = b.Preds[0]
		idx = len(b.Instrs)
	}
	if len(b.Preds) == 1 {
		return c14atom("v:" + e.fn.Name() + "." + b.String() + "#far")
	}
	if e.parent != nil {
		if len(b.Preds) == 0 {
			return e.parent.fieldLoad(e.call, f)
		}
		return c14atom("v:" + e.vname(e.call) + "." + b.String() + "#join")
	}
	// no write to the field can precede the load at all: it still holds what it held on entry
	clean := true
	ir.Instrs(e.fn, func(in ssa.Instruction) {
		if !clean || !e.k.writesField(in, f) {
			return
		}
		if w, err := (ir.Query{Fn: e.fn, From: in, Target: func(x ssa.Instruction) bool { return x == ld }}).Find(); w != nil || err != nil {
			clean = false
		}
	})
	if clean {
		return c14atom("f:" + f.Name() + "@entry")
	}
	return c14atom("f:" + f.Name() + "@b" + fmt.Sprint(b.Index))
}

// lin abstracts an integer value.
func (e *c14env) lin(v ssa.Value) c14lform {
	v = ir.Resolve(v)
	if v == nil {
		return c14atom("v:nil")
	}
	if c, ok := ir.ConstInt(v); ok {
		return c14const(c)
	}
	if e.busy[v] {
		return e.opaque(v)
	}
	if p := v.Parent(); p != nil && p != e.fn {
		// a value of another function (a fact taken from a helper): nothing is known about when it was computed
		return c14atom("x:" + p.Name() + "." + v.Name())
	}
	e.busy[v] = true
	defer delete(e.busy, v)
	k := e.k
	if k.isLenBuf(v) {
		return c14atom("L")
	}
	if k.lenCall(v) {
		// Len() reads both indices: it is the same number at two places only when no index is written in the function
		if e.unwritten(k.rIdx) && e.unwritten(k.wIdx) {
			return c14atom("Len")
		}
		return c14atom("Len:" + v.Name())
	}
	if k.capCall(v) {
		return c14atom("L").add(c14const(1), -1)
	}
	switch x := v.(type) {
	case *ssa.Parameter:
		if f, ok := e.bind[x]; ok {
			return f
		}
		if e.parent == nil && k.countParamV(x) {
			return c14atom("Len:arg:" + x.Name()) // a count every caller proves to lie in [0, Len()] (v_ring_lin.go)
		}
	case *ssa.UnOp:
		if x.Op == token.MUL {
			for _, f := range []*types.Var{k.rIdx, k.wIdx} {
				if _, ok := fieldAddrOf(x.X, f); ok {
					return e.fieldLoad(x, f)
				}
			}
		}
		if x.Op == token.SUB {
			return e.lin(x.X).scale(-1)
		}
	case *ssa.Field:
		// a field of a struct value that holds the indices (a cursor struct passed or copied by value)
		for _, f := range []*types.Var{k.rIdx, k.wIdx} {
			if ir.FieldOf(x) != f {
				continue
			}
			switch sv := ir.Resolve(x.X).(type) {
			case *ssa.Parameter:
				// the copy was made for the call: what the caller had at the call; in the function the evaluation starts in,
				// what the field held on entry
				if e.parent != nil {
					return e.parent.fieldLoad(e.call, f)
				}
				return c14atom("f:" + f.Name() + "@entry")
			case *ssa.UnOp:
				if sv.Op == token.MUL {
					return e.fieldLoad(sv, f) // the copy was made by this load of the whole struct
				}
			}
		}
	case *ssa.BinOp:
		switch x.Op {
		case token.ADD:
			return e.lin(x.X).add(e.lin(x.Y), 1)
		case token.SUB:
			return e.lin(x.X).add(e.lin(x.Y), -1)
		case token.MUL:
			if c, ok := ir.ConstInt(x.X); ok {
				return e.lin(x.Y).scale(c)
			}
			if c, ok := ir.ConstInt(x.Y); ok {
				return e.lin(x.X).scale(c)
			}
		}
	case *ssa.Phi:
		if ed, ok := e.phiEdge(x); ok {
			if e.overBackEdgeV(x) {
				return e.opaque(x) // a loop variable as it arrived from the previous iteration (v_ring_lin.go)
			}
			return e.lin(ed)
		}
	case *ssa.Call:
		if cc := builtinCall(x, "len"); cc != nil {
			if sg, ok := e.seg(cc.Args[0]); ok {
				if sg.isNil {
					return c14const(0)
				}
				return sg.length
			}
			if a := ir.Resolve(cc.Args[0]); a != nil && a.Parent() == e.fn {
				// the length of a slice that is no part of the backing array: one non-negative number per slice value
				return c14atom("n:len:" + e.vname(a))
			}
		}
		if cc := builtinCall(x, "copy"); cc != nil && len(cc.Args) == 2 {
			key := "c:" + e.vname(x)
			// copy moves min(len(dst), len(src)) elements: either length bounds it; the one that is a part of the backing
			// array is the one the rules can say something about
			for _, a := range []ssa.Value{cc.Args[1], cc.Args[0]} {
				if sg, ok := e.seg(a); ok {
					if sg.isNil {
						return c14const(0)
					}
					e.copyUB[key] = sg.length
					break
				}
			}
			return c14atom(key)
		}
		if f, ok := e.helperCall(x); ok {
			return f
		}
	}
	return e.opaque(v)
}

// helperCall abstracts the result of a call of a private int-valued helper of the package: the value returned at one of
// its exit points (a choice, like the edge of a phi), evaluated in the helper with the arguments bound to its parameters
// and the index fields standing for what the caller had at the call. What guards that exit is recorded as known.
func (e *c14env) helperCall(call *ssa.Call) (c14lform, bool) {
	k := e.k
	g := ir.StaticCallee(call)
	if g == nil || !k.inPkg(g) || g == k.lenFn || g == k.capFn || e.depth >= 2 || g.Signature.Results().Len() != 1 {
		return c14lform{}, false
	}
	if b, isB := g.Signature.Results().At(0).Type().Underlying().(*types.Basic); !isB || b.Info()&types.IsInteger == 0 {
		return c14lform{}, false
	}
	if g.Object() != nil && g.Object().Exported() {
		return c14lform{}, false
	}
	eps := ir.ExitPoints(g)
	if len(eps) == 0 || len(eps) > 8 || len(call.Call.Args) != len(g.Params) {
		return c14lform{}, false
	}
	i, chosen := e.choice[call]
	if !chosen || i >= len(eps) {
		if !e.frozen {
			e.needChoice(call, len(eps))
		}
		return c14lform{}, false
	}
	ch := e.child(g, call)
	for j, prm := range g.Params {
		if b, isB := prm.Type().Underlying().(*types.Basic); isB && b.Info()&types.IsInteger != 0 {
			ch.bind[prm] = e.lin(call.Call.Args[j])
		}
	}
	res := ch.lin(eps[i].Results[0])
	wasFrozen := e.frozen
	e.c14shared.frozen = true // the facts of the exit do not open new choices
	e.extra = append(e.extra, ch.factForms(eps[i].Facts())...)
	e.c14shared.frozen = wasFrozen
	return res, true
}

// seg describes slice value v as a part of the backing array.
func (e *c14env) seg(v ssa.Value) (c14seg, bool) {
	v = ir.Resolve(v)
	if v == nil {
		return c14seg{}, false
	}
	if ir.IsNilConst(v) {
		return c14seg{isNil: true}, true
	}
	if p := v.Parent(); p != nil && p != e.fn {
		return c14seg{}, false
	}
	if e.k.isBufLoad(v) {
		return c14seg{off: c14const(0), length: c14atom("L")}, true
	}
	if e.busy[v] {
		return c14seg{}, false
	}
	e.busy[v] = true
	defer delete(e.busy, v)
	switch x := v.(type) {
	case *ssa.Slice:
		base, ok := e.seg(x.X)
		if !ok || base.isNil {
			return c14seg{}, false
		}
		lo := c14const(0)
		if x.Low != nil {
			lo = e.lin(x.Low)
		}
		hi := base.length
		if x.High != nil {
			hi = e.lin(x.High)
		}
		return c14seg{off: base.off.add(lo, 1), length: hi.add(lo, -1)}, true
	case *ssa.Phi:
		if ed, ok := e.phiEdge(x); ok {
			return e.seg(ed)
		}
	}
	return c14seg{}, false
}

// factForms turns the comparisons among fs into forms known to be >= 0.
func (e *c14env) factForms(fs []ir.Fact) []c14lform {
	var res []c14lform
	for _, ft := range fs {
		cm, ok := ft.Cmp()
		if !ok {
			continue
		}
		if b, isB := cm.X.Type().Underlying().(*types.Basic); !isB || b.Info()&types.IsInteger == 0 {
			continue
		}
		a, b := e.lin(cm.X), e.lin(cm.Y)
		switch cm.Op {
		case token.GEQ:
			res = append(res, a.add(b, -1))
		case token.GTR:
			res = append(res, a.add(b, -1).add(c14const(1), -1))
		case token.LEQ:
			res = append(res, b.add(a, -1))
		case token.LSS:
			res = append(res, b.add(a, -1).add(c14const(1), -1))
		case token.EQL:
			res = append(res, a.add(b, -1), b.add(a, -1))
		}
	}
	return res
}

// geq0 decides F >= 0 for every L >= 1 and every value of the atoms inside their bounds, using at most two of the known
// facts (each a form that is >= 0).
func (e *c14env) geq0(raw c14lform, facts []c14lform, depth int) bool {
	f := raw
	// results of copy: between 0 and the length of the source
	for changed, n := true, 0; changed && n < 8; n++ {
		changed = false
		for key, coef := range f.t {
			if !strings.HasPrefix(key, "c:") {
				continue
			}
			g := c14lform{c: f.c, t: map[string]int64{}}
			for k2, v2 := range f.t {
				if k2 != key {
					g.t[k2] = v2
				}
			}
			if coef < 0 {
				ub, ok := e.copyUB[key]
				if !ok {
					continue
				}
				g = g.add(ub.scale(coef), 1)
			}
			f = g
			changed = true
			break
		}
	}
	// box: L stays symbolic, the index atoms and Len lie in [0, L-1]
	alpha, beta := int64(0), f.c
	boxed := true
	for key, coef := range f.t {
		switch {
		case key == "L":
			alpha += coef
		case strings.HasPrefix(key, "f:") || key == "Len" || strings.HasPrefix(key, "Len:"):
			if coef < 0 {
				alpha += coef
				beta -= coef
			}
		case strings.HasPrefix(key, "n:"):
			// a length (v_ring_lin.go): >= 0, no upper bound
			if coef < 0 {
				boxed = false
			}
		default:
			boxed = false
		}
	}
	if boxed && alpha >= 0 && alpha+beta >= 0 {
		return true
	}
	if depth >= 2 {
		return false
	}
	for _, g := range facts {
		if g.isZero() {
			continue
		}
		if e.geq0(raw.add(g, -1), facts, depth+1) {
			return true
		}
	}
	return false
}

// forAllChoices runs prove once per choice of phi edges and helper exits (asked for lazily by the evaluation) and reports
// whether it succeeded under every one of them. prove also gets the branch facts of the chosen phi edges.
func (k *c14) forAllChoices(fn *ssa.Function, prove func(e *c14env, edgeFacts []ir.Fact) bool) bool {
	budget := 96
	var rec func(choice map[interface{}]int) bool
	rec = func(choice map[interface{}]int) bool {
		budget--
		if budget < 0 {
			return false
		}
		e := k.newEnv(fn, choice)
		var efs []ir.Fact
		for key, i := range choice {
			if b, isBlock := key.(*ssa.BasicBlock); isBlock && i < len(b.Preds) {
				efs = append(efs, ir.Facts(b.Preds[i])...)
				efs = append(efs, edgeFacts(b.Preds[i], b)...)
			}
		}
		ok := prove(e, efs)
		if len(e.need) == 0 {
			return ok
		}
		// the evaluation met an alternative without a choice: split on the first one
		nd := e.need[0]
		for i := 0; i < nd.n; i++ {
			c2 := map[interface{}]int{nd.key: i}
			for kb, ki := range choice {
				c2[kb] = ki
			}
			if !rec(c2) {
				return false
			}
		}
		return true
	}
	return rec(map[interface{}]int{})
}

// linBetween proves lo <= v <= hiL*L + hiC at instruction `at` (facts: those that dominate it, expanded through the
// boolean/classifier helpers of the package), under every phi choice.
func (k *c14) linBetween(at ssa.Instruction, v ssa.Value, lo int64, hiL, hiC int64) bool {
	fn := at.Parent()
	if fn == nil {
		return false
	}
	base := k.guardFacts(at.Block())
	return k.forAllChoices(fn, func(e *c14env, efs []ir.Fact) bool {
		f := e.lin(v)
		if len(e.need) > 0 {
			return false // asked for a choice: the caller splits
		}
		e.c14shared.frozen = true
		facts := append(e.factForms(append(append([]ir.Fact{}, base...), k.expandFacts(efs, 0)...)), e.extra...)
		lower := f.add(c14const(lo), -1)
		upper := c14atom("L").scale(hiL).add(c14const(hiC), 1).add(f, -1)
		return e.geq0(lower, facts, 0) && e.geq0(upper, facts, 0)
	})
}

// slotLin: v, about to be stored to an index field at `at`, is provably a valid slot: 0 <= v <= L-1.
func (k *c14) slotLin(at ssa.Instruction, v ssa.Value) bool { return k.linBetween(at, v, 0, 1, -1) }

// belowTwiceLin: 0 <= v <= 2L-1, so that one conditional subtraction of L (taken when v >= L) yields a valid slot.
func (k *c14) belowTwiceLin(at ssa.Instruction, v ssa.Value) bool {
	return k.linBetween(at, v, 0, 2, -1)
}
