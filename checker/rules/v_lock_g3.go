package rules

import (
	"go/types"

	"golang.org/x/tools/go/ssa"

	"verif/checker/ir"
)

// ---------------------------------------------------------------------------
// Round g, seed C04-g1: C04.R11 - a context that ended during the local wait does not acquire.
//
// "A LockWithCtx whose context ends returns the context's error ... without holding anything", with the cancellation
// "injected before, during the local wait and during the storage wait". The local wait is a select over the token, the
// shutdown channel and ctx.Done(): when the context has ended and the token is (or becomes) available, both cases are
// ready and select picks either - taking the token says nothing about the context. So between the return of that wait
// and every success exit the attempt has to look at the context again: on the path
//   - a ctx.Err() of the caller's context (or of one derived from it) was read after the wait and found nil, or
//   - a Storage.Create ran under that context AND the in-memory Create, the storage the property is anchored in, is shown
//     to refuse an ended context (no exit of it that may report success is reached without the `ctx.Err() == nil` edge).
// Each alone is enough, which is why either may be removed without harm and removing both lets a caller whose context
// was over before anything was acquired come back holding the lock. A context that ends after that last look is a
// matter of timing no code can close; the rule asks for the look, not for atomicity.

// ctxErrCallVG: in is `c.Err()` on a context.Context; returns the context value.
func ctxErrCallVG(in ssa.Instruction) (*ssa.Call, ssa.Value) {
	e, ok := in.(*ssa.Call)
	if !ok || !e.Call.IsInvoke() || e.Call.Method.Name() != "Err" || len(e.Call.Args) != 0 || !ir.IsNamed(e.Call.Value.Type(), "context", "Context") {
		return nil, nil
	}
	return e, ir.Resolve(e.Call.Value)
}

// derivedFromVG: the context v is root or derived from it by context.With*.
func derivedFromVG(v, root ssa.Value) bool {
	root = ir.Resolve(root)
	for _, x := range contextRootsVG(v, 0) {
		if x == root {
			return true
		}
	}
	return false
}

// createRefusesEndedContextVG: the storage method fn (Create of the in-memory backend) cannot report success for a
// context that has ended when it looks: every exit that may report success lies behind the `ctx.Err() == nil` edge of a
// test of its own context parameter (an exit handing back ctx.Err() under `ctx.Err() != nil` reports the context).
func createRefusesEndedContextVG(fn *ssa.Function) bool {
	if fn == nil || len(fn.Blocks) == 0 {
		return false
	}
	var ctxP *ssa.Parameter
	for _, p := range fn.Params {
		if ir.IsNamed(p.Type(), "context", "Context") {
			ctxP = p
		}
	}
	if ctxP == nil {
		return false
	}
	isErrOfCtx := func(v ssa.Value) bool {
		call, ok := ir.Resolve(v).(*ssa.Call)
		if !ok {
			return false
		}
		e, cv := ctxErrCallVG(call)
		return e != nil && cv == ssa.Value(ctxP)
	}
	var errCalls []*ssa.Call
	ir.Instrs(fn, func(in ssa.Instruction) {
		if e, cv := ctxErrCallVG(in); e != nil && cv == ssa.Value(ctxP) {
			errCalls = append(errCalls, e)
		}
	})
	rs := fn.Signature.Results()
	// per path (phi operands resolved, named results followed): an exit that may report success although no ctx.Err()
	// of the parameter was found nil on the way
	w, err := ir.PathQuery{Fn: fn, Target: func(x ssa.Instruction, val *ir.Valuation) bool {
		ret, ok := x.(*ssa.Return)
		if !ok || !ir.IsReturn(x) || !possibleSuccessExit(fn, ret) || exitFailsOnPathYA(fn, ret, val) {
			return false
		}
		foundEnded := false
		for _, e := range errCalls {
			if isNil, known := val.KnownIsNil(e); known {
				if isNil {
					return false // the context was alive when Create looked
				}
				foundEnded = true
			}
		}
		// `return "", ctx.Err()` behind `ctx.Err() != nil`: a context stays ended
		if foundEnded && rs.Len() > 0 && isErrOfCtx(val.Selected(ir.ResultValue(ret, rs.Len()-1))) {
			return false
		}
		return true
	}}.Find()
	return err == nil && w == nil
}

// contextObservedAfterLocalWait is C04.R11.
func (c *Ctx) contextObservedAfterLocalWait(r *lockRoles, im *inmemRoles, rule string) {
	const construct = "context looked at between the local wait and success"
	// the token helpers whose wait listens to the caller's context
	waits := map[*ssa.Function]int{} // helper -> index of its context parameter
	for h := range r.tokenHelpers {
		ctxIdx := -1
		for i, p := range h.Params {
			if ir.IsNamed(p.Type(), "context", "Context") {
				ctxIdx = i
			}
		}
		if ctxIdx < 0 {
			continue
		}
		ir.Instrs(h, func(in ssa.Instruction) {
			sel, ok := in.(*ssa.Select)
			if !ok {
				return
			}
			hasTok, hasDone := false, false
			for _, st := range sel.States {
				if st.Dir != types.RecvOnly {
					continue
				}
				if _, isTok := loadOfField(st.Chan, r.tokenF); isTok {
					hasTok = true
				}
				if call, isCall := ir.Resolve(st.Chan).(*ssa.Call); isCall && call.Call.IsInvoke() && call.Call.Method.Name() == "Done" {
					hasDone = true
				}
			}
			if hasTok && hasDone {
				waits[h] = ctxIdx
			}
		})
	}
	storageRefuses := createRefusesEndedContextVG(im.storage["Create"])
	n := 0
	for _, fn := range r.lockerFns {
		fn := fn
		for _, in := range ir.Calls(fn) {
			hc := r.tokenHelperCall(in)
			if hc == nil {
				continue
			}
			ctxIdx, isWait := waits[calleeYA(hc)]
			if !isWait || ctxIdx >= len(hc.Call.Args) {
				continue
			}
			ctxV := hc.Call.Args[ctxIdx]
			n++
			helperErr := errOf(hc)
			reads := map[*ssa.Call]bool{}
			ir.Instrs(fn, func(x ssa.Instruction) {
				if e, cv := ctxErrCallVG(x); e != nil && derivedFromVG(cv, ctxV) {
					reads[e] = true
				}
			})
			q := ir.PathQuery{Fn: fn, From: hc,
				Stop: func(x ssa.Instruction) bool { return x != ssa.Instruction(hc) && r.tokenHelperCall(x) != nil },
				Target: func(x ssa.Instruction, val *ir.Valuation) bool {
					if e, ok := x.(*ssa.Call); ok && reads[e] {
						val.Mark("read:" + e.Name())
						return false
					}
					if cr := r.storageCall(x, "Create"); cr != nil && storageRefuses && derivedFromVG(cr.Call.Args[0], ctxV) {
						val.Mark("create under the context")
						return false
					}
					if hcall, ok := x.(*ssa.Call); ok && storageRefuses && r.createUnderArgVG(hcall, ctxV) {
						val.Mark("create under the context")
						return false
					}
					ret, isRet := x.(*ssa.Return)
					if !isRet || !ir.IsReturn(x) || !possibleSuccessExit(fn, ret) || exitFailsOnPathYA(fn, ret, val) {
						return false
					}
					if helperErr != nil {
						if isNil, known := val.KnownIsNil(helperErr); known && !isNil {
							return false // the token was not taken on this path
						}
					}
					if val.Marked("create under the context") {
						return false
					}
					for e := range reads {
						if !val.Marked("read:" + e.Name()) {
							continue
						}
						if isNil, known := val.KnownIsNil(e); known && isNil {
							return false
						}
					}
					return true
				}}
			what := "the attempt can report success without having looked at the caller's context after the local wait: the wait is a select over the token and ctx.Done(), with an ended context and a free token it may take the token, and then neither a ctx.Err() test nor a storage call that refuses an ended context"
			if !storageRefuses {
				what += " (the in-memory Create does not test its context)"
			}
			what += " stands between the wait and the success return - a LockWithCtx whose context had ended before anything was acquired returns nil and holds the lock"
			c.pathVerdict(rule, fn, construct, hc, q, what)
		}
	}
	if n == 0 {
		c.Decide(rule, r.lockCtx, construct, nil, true, "") // no local wait that listens to a context
	}
}

// createUnderArgVG: call runs an acquiring helper of the Locker (all of its success exits lie behind a successful
// Create) that is handed the context ctxV (or one derived from it) and issues its Create under that parameter.
func (r *lockRoles) createUnderArgVG(call *ssa.Call, ctxV ssa.Value) bool {
	cal := ir.StaticCallee(call)
	if cal == nil || !r.acquiring[cal] {
		return false
	}
	args := call.Call.Args
	for i, a := range args {
		if i >= len(cal.Params) || !ir.IsNamed(a.Type(), "context", "Context") || !derivedFromVG(a, ctxV) {
			continue
		}
		n, all := 0, true
		ir.Instrs(cal, func(x ssa.Instruction) {
			if cr := r.storageCall(x, "Create"); cr != nil {
				n++
				all = all && derivedFromVG(cr.Call.Args[0], cal.Params[i])
			}
		})
		if n > 0 && all {
			return true
		}
	}
	return false
}
