package rules

import (
	"golang.org/x/tools/go/ssa"

	"verif/checker/ir"
)

// Generalisation of R2 ("a node is recycled only when it is dead": C10.R2, C08.M2, C09.M2, C11.M2) for benign round
// "u": the unlink routine that owns the whole job - it marks a pinned node, or rewires the neighbours, re-targets the
// head where the node was the head (R1/R9 in their "routine owns the head" form) AND hands the node to the pool
// itself; its callers shrink to one call. There is then no call of an unlink routine in front of the pool.Put: the Put
// sits inside it.
//
//   - at the Put inside the routine (rewiresNeighbourU): "after the unlink routine was applied to the node" is read as
//     "every path from the entry of the routine to the Put has rewired a neighbour of that node" - a store into a link
//     of a node reached through a link of the routine's subject. That both neighbours are rewired, and with what, is
//     R12's clause on the same function; that the count is zero there is the existing guard clause (a test in the
//     routine, or at every call of it).
//   - at every call of such a routine (recycleThroughUnlinkU): the call is the recycle event the caller used to write
//     out (same obligation key as before the consolidation: <caller>|pool.Put(node)). What holds inside the routine on
//     every path to its Put (count zero, neighbours rewired) holds for the event - that is what inlining the routine
//     would show - and, in addition, the caller lets go of the node: on no path behind the call it dereferences the
//     node it handed over (the pool may hand the node out again at once; a successor read behind the call reads a
//     cleared or re-used node - the advance routine has to read it before).
//
// Over-approximation of the last clause: a caller that touches the node behind the call only when the routine did not
// recycle it (still pinned) is flagged.

// putsInUnlinkU lists the pool.Put calls inside the unlink routine whose argument is the node the routine unlinks.
func (r *mapRoles) putsInUnlinkU() []*ssa.Call {
	rs := r.surgeryViewV()
	fn := rs.unlink
	if fn == nil || rs.unlinkSubj >= len(fn.Params) {
		return nil
	}
	subj := ssa.Value(fn.Params[rs.unlinkSubj])
	var res []*ssa.Call
	ir.Instrs(fn, func(in ssa.Instruction) {
		call, ok := in.(*ssa.Call)
		if !ok || ir.CalleeFullName(call) != "(*sync.Pool).Put" || len(call.Call.Args) < 2 {
			return
		}
		arg := ir.Resolve(call.Call.Args[1])
		if mi, isMI := arg.(*ssa.MakeInterface); isMI {
			arg = ir.Resolve(mi.X)
		}
		if same(arg, subj) {
			res = append(res, call)
		}
	})
	return res
}

// rewiresNeighbourU: x, an instruction of the unlink routine fn, stores into a link of a node reached through a link
// of node, and node is the routine's subject (the pointer surgery written out in the routine).
func (r *mapRoles) rewiresNeighbourU(fn *ssa.Function, x ssa.Instruction, node ssa.Value) bool {
	rs := r.surgeryViewV()
	if fn == nil || fn != rs.unlink || rs.unlinkSubj >= len(fn.Params) || !same(node, fn.Params[rs.unlinkSubj]) {
		return false
	}
	st, ok := x.(*ssa.Store)
	if !ok {
		return false
	}
	fa, ok := st.Addr.(*ssa.FieldAddr)
	if !ok || !r.isLink(ir.FieldOf(fa)) {
		return false
	}
	for _, o := range ir.Origins(fa.X) {
		if _, viaLink := r.linkLoadOf(o, node); viaLink {
			return true
		}
	}
	return false
}

// recycleThroughUnlinkU records the R2 obligation of every call of an unlink routine that recycles the node itself.
func (c *Ctx) recycleThroughUnlinkU(r *mapRoles, rule string) {
	puts := r.putsInUnlinkU()
	if len(puts) == 0 || r.unlinkInner != nil {
		return // the Put is the callers' (the shape R2 was written for), or a split routine (decided on the normal form)
	}
	fn := r.unlink
	subj := ssa.Value(fn.Params[r.unlinkSubj])
	inside, why := true, ""
	for _, put := range puts {
		if !c.refZeroGuarded(r, fn, put.Block(), subj, 0) {
			inside, why = false, "inside the routine the node is handed to the pool on a path where its reference count is not tested to be zero"
		}
		w, err := (ir.Query{Fn: fn,
			Block:  func(x ssa.Instruction) bool { return r.rewiresNeighbourU(fn, x, subj) },
			Target: func(x ssa.Instruction) bool { return x == ssa.Instruction(put) }}).Find()
		if w != nil || err != nil {
			inside, why = false, "inside the routine the node is handed to the pool on a path that has not rewired its neighbours"
		}
	}
	for _, caller := range c.mapFnsV() {
		for _, call := range callsTo(caller, fn) {
			if r.unlinkSubj >= len(call.Call.Args) {
				continue
			}
			node := call.Call.Args[r.unlinkSubj]
			ok, detail := inside, why
			if ok {
				touched := func(x ssa.Instruction) bool {
					for _, op := range x.Operands(nil) {
						if op == nil || *op == nil || !same(*op, node) {
							continue
						}
						switch x.(type) {
						case *ssa.FieldAddr, *ssa.UnOp, *ssa.Store, *ssa.Call, *ssa.Field:
							return true
						}
					}
					return false
				}
				// a path that runs through the definition of the value again (the loop variable of the advance routine)
				// carries another node from there on
				def, _ := ir.Resolve(node).(ssa.Instruction)
				redefined := func(x ssa.Instruction) bool { return def != nil && x == def }
				if w, err := (ir.Query{Fn: caller, From: call, Block: redefined, Target: touched}).Find(); w != nil || err != nil {
					ok = false
					detail = "the node is handed to the routine that unlinks and recycles it, and is used again behind the call: the pool may have handed it out again, its links are cleared"
					if w != nil {
						detail += ": path " + w.String(c.P)
					}
				}
			}
			c.Decide(rule, caller, "pool.Put(node)", call, ok, detail)
		}
	}
}
