package rules

import (
	"go/token"
	"go/types"

	"golang.org/x/tools/go/ssa"

	"verif/checker/ir"
)

// Timer rules added after seeded round e (c12_c13.go registers them):
//   C12.R8        a future handed out by Call is queued when Call returns
//   C13.R10/C05.U10  the worker waits only with a time bound

// tmPickWorker resolves the role "worker" when more than one function of the package is started with go: the worker is
// the one that takes futures out of the heap (heap.Pop in its own body or in a function it reaches through plain calls).
// Another goroutine of the package (a hand-off, a janitor) is then a subject of the rules, not a reason to give up.
func (r *timerRoles) tmPickWorker(cands []*ssa.Function) *ssa.Function {
	if len(cands) == 1 {
		return cands[0]
	}
	var res []*ssa.Function
	for _, cand := range cands {
		pops := false
		rr := *r
		rr.worker = cand
		for _, body := range rr.workerBodies() {
			ir.Instrs(body, func(in ssa.Instruction) {
				if heapCall(in, "Pop") != nil {
					pops = true
				}
			})
		}
		if pops {
			res = append(res, cand)
		}
	}
	if len(res) == 1 {
		return res[0]
	}
	if len(res) > 1 {
		// several goroutines pop the heap: the pool worker is the one that listens to the wake channel (v_timer_g.go)
		return r.tmPickPoolWorker(res)
	}
	return nil
}

// ---------------------------------------------------------------------------
// C12.R8

// tmMayPush: fn contains a heap.Push, in its own body or behind plain (or deferred) static calls of the package.
func (r *timerRoles) tmMayPush(fn *ssa.Function, seen map[*ssa.Function]bool) bool {
	if fn == nil || len(fn.Blocks) == 0 || seen[fn] || len(seen) > 32 {
		return false
	}
	seen[fn] = true
	found := false
	ir.Instrs(fn, func(in ssa.Instruction) {
		if found {
			return
		}
		if heapCall(in, "Push") != nil {
			found = true
			return
		}
		if cal := tmSyncCallee(in); cal != nil && cal.Pkg == r.callFn.Pkg && r.tmMayPush(cal, seen) {
			found = true
		}
	})
	return found
}

// tmSyncCallee: the static callee of a call that runs in the activation of the caller before the caller returns: a plain
// call or a deferred one. A go statement is not.
func tmSyncCallee(in ssa.Instruction) *ssa.Function {
	switch x := in.(type) {
	case *ssa.Call:
		return ir.StaticCallee(x)
	case *ssa.Defer:
		return ir.StaticCallee(x)
	}
	return nil
}

// tmCancelCanDoNothing: the cancel routine has a path from its entry to a return on which it neither removes the future
// from the heap nor withdraws its callback (a store to the callback field): the "not queued, nothing to do" exit. Only
// then does Cancel depend on every handed-out future being queued already.
func (r *timerRoles) tmCancelCanDoNothing() bool {
	acts := func(in ssa.Instruction) bool {
		if heapCall(in, "Remove") != nil {
			return true
		}
		_, _, isSt := storeToField(in, r.fF)
		return isSt
	}
	for _, fn := range []*ssa.Function{r.cancelM, r.cancel} {
		if fn == nil {
			continue
		}
		// in the method a call of the cancel routine stands for what that routine does (decided on the routine itself);
		// a method that can return without reaching the routine has done nothing
		stop := func(in ssa.Instruction) bool {
			return acts(in) || (fn != r.cancel && isCallTo(in, r.cancel))
		}
		if w, err := (ir.Query{Fn: fn, Block: stop, Target: ir.IsExit}).Find(); err != nil || w != nil {
			return true
		}
	}
	return false
}

// timerCallQueues is C12.R8: when Call returns a future with a callback, that future is in the heap. Cancel treats a
// negative index as "fired or cancelled already" and does nothing; that reading is right only if the index of a handed-out
// future is negative for no other reason - in particular not because the insertion is still to come (handed to a
// goroutine, parked in a side list, skipped on a busy path). So on every path of Call on which the callback is not nil,
// and on every path of each function the future is handed to on the way, heap.Push of that very future is executed in the
// caller's own activation. The requirement falls away when Cancel has no do-nothing exit (it withdraws the callback on
// every path: a future inserted later then fires nothing).
func (c *Ctx) timerCallQueues(r *timerRoles, rule string) {
	required := r.tmCancelCanDoNothing()
	what := "Call can return a future that is not in the heap (yet): a Cancel that comes first finds a negative index, takes the future for fired or cancelled and returns without doing anything; the future is queued afterwards and its function is started although Cancel returned before it was due"
	isFuture := func(v ssa.Value) bool { return v != nil && namedOf(v.Type()) == r.futureT }
	// the values Call hands out
	handed := map[ssa.Value]bool{}
	for _, ret := range ir.Returns(r.callFn) {
		if v := ir.Resolve(ir.ResultValue(ret, 0)); isFuture(v) {
			handed[v] = true
		}
	}
	visited := map[*ssa.Function]map[int]bool{}
	var visit func(fn *ssa.Function, isGiven func(ssa.Value) bool, key int, depth int)
	visit = func(fn *ssa.Function, isGiven func(ssa.Value) bool, key int, depth int) {
		if visited[fn] == nil {
			visited[fn] = map[int]bool{}
		}
		if visited[fn][key] || depth > 4 {
			return
		}
		visited[fn][key] = true
		type next struct {
			fn  *ssa.Function
			idx int
		}
		var nexts []next
		queues := func(in ssa.Instruction) bool {
			if call := heapCall(in, "Push"); call != nil && len(call.Call.Args) == 2 {
				return isGiven(ir.Resolve(call.Call.Args[1]))
			}
			cal := tmSyncCallee(in)
			if cal == nil || cal.Pkg != r.callFn.Pkg || len(cal.Blocks) == 0 {
				return false
			}
			args := in.(ssa.CallInstruction).Common().Args
			for k, a := range args {
				if k < len(cal.Params) && isFuture(a) && isGiven(ir.Resolve(a)) && r.tmMayPush(cal, map[*ssa.Function]bool{}) {
					nexts = append(nexts, next{cal, k})
					return true
				}
			}
			return false
		}
		// every queueing statement of fn, wherever it stands (the search below stops at the first path it finds)
		isQueueing := map[ssa.Instruction]bool{}
		ir.Instrs(fn, func(in ssa.Instruction) {
			if queues(in) {
				isQueueing[in] = true
			}
		})
		q := ir.Query{Fn: fn, Block: func(in ssa.Instruction) bool { return isQueueing[in] }, Target: ir.IsExit}
		if fn == r.callFn {
			// a future without a callback is not queued: nothing to start, nothing to cancel
			q.BlockFact = func(f ir.Fact) bool {
				cm, ok := f.Cmp()
				if !ok || cm.Op != token.EQL {
					return false
				}
				x, y := cm.X, cm.Y
				if ir.IsNilConst(x) {
					x, y = y, x
				}
				return ir.IsNilConst(y) && types.Identical(x.Type().Underlying(), r.fF.Type().Underlying())
			}
		}
		w, err := q.Find()
		construct := "the future is queued on every path before the return"
		if fn == r.callFn {
			construct = "a future with a callback is queued when Call returns"
		}
		switch {
		case !required:
			c.Decide(rule, fn, construct, nil, true, "")
		case err != nil:
			c.Undecided(rule, fn, construct, nil, err.Error())
		case w != nil:
			c.Decide(rule, fn, construct, w.End, false, what+": path "+w.String(c.P))
		default:
			c.Decide(rule, fn, construct, nil, true, "")
		}
		seenNext := map[next]bool{}
		for _, n := range nexts {
			if seenNext[n] {
				continue
			}
			seenNext[n] = true
			prm := n.fn.Params[n.idx]
			visit(n.fn, func(v ssa.Value) bool { return v == ssa.Value(prm) }, n.idx, depth+1)
		}
	}
	visit(r.callFn, func(v ssa.Value) bool { return handed[v] }, -1, 0)
	c.R.Floor(rule, 1)
}

// ---------------------------------------------------------------------------
// C13.R10

func tmIsTimerChan(v ssa.Value) bool {
	ch, ok := v.Type().Underlying().(*types.Chan)
	return ok && ir.IsNamed(ch.Elem(), "time", "Time")
}

// timerBoundedWaits is C13.R10: a worker that is counted in the pool either works or sleeps towards a deadline. Every
// place where the worker (its body, the functions it reaches through plain calls, and function literals that run as
// plain calls of those) can wait on a channel is therefore bounded in time: a blocking select has a case that receives
// from a timer, and a receive outside a select is a receive from a timer (the tick of a timer that already fired). A bare
// receive from any other channel - the wake channel under a "there is a token" test, say - blocks for good once another
// worker has taken the token in between; the blocked worker is still counted, so the others retire around it and a
// pending future is not started until some later Call or Cancel pokes the channel.
func (c *Ctx) timerBoundedWaits(r *timerRoles, rule string) {
	var bodies []*ssa.Function
	seen := map[*ssa.Function]bool{}
	var addBody func(fn *ssa.Function)
	addBody = func(fn *ssa.Function) {
		if seen[fn] {
			return
		}
		seen[fn] = true
		bodies = append(bodies, fn)
		for _, lc := range tmLocalClosures(fn) {
			addBody(lc.Fn)
		}
	}
	for _, fn := range r.workerBodies() {
		addBody(fn)
	}
	n := 0
	what := "the worker can block without a time bound while it is counted in the pool: it watches no deadline, the other workers see a colleague and retire, and a pending future is not started until a later Call or Cancel happens to wake somebody"
	for _, fn := range bodies {
		fn := fn
		// obligations are located in the worker or the named function, not in a literal
		where := fn
		for where.Parent() != nil {
			where = where.Parent()
		}
		ir.Instrs(fn, func(in ssa.Instruction) {
			switch x := in.(type) {
			case *ssa.Select:
				if !x.Blocking {
					return
				}
				n++
				timed := false
				for _, st := range x.States {
					if st.Dir == types.RecvOnly && tmIsTimerChan(st.Chan) {
						timed = true
					}
				}
				c.Decide(rule, where, "blocking select of the worker has a timer case", in, timed, what)
			case *ssa.UnOp:
				if x.Op != token.ARROW {
					return
				}
				n++
				c.Decide(rule, where, "receive outside a select only from a timer", in, tmIsTimerChan(x.X), what)
			}
		})
	}
	if n == 0 {
		c.Decide(rule, r.worker, "worker waits only with a time bound", nil, true, "")
	}
}
