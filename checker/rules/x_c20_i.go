package rules

import (
	"golang.org/x/tools/go/ssa"

	"verif/checker/ir"
)

// prefixCutRoot is C20.R17: an archive entry name obtained by CUTTING the walk root off the walked path as a literal
// prefix (strings.TrimPrefix / strings.CutPrefix / path[len(root):]) needs a root that is literally a prefix of every
// walked path. filepath.Walk builds the paths with filepath.Join(root, name), and Join cleans its result: for the
// cleaned root "." (what "", "." and "./" clean to) the paths are handed out as "a.txt", ".env", ".cfg/x" - WITHOUT
// the root in front. Cleaning the root (R6) is therefore not enough for a cut: with root "." TrimPrefix eats the
// leading dot of every top-level dot-name (".env" -> "env"), a slice by len(root) eats the first byte of every name,
// i.e. the relative path is not reproduced by the round trip. The only derivation that excludes "." is an absolute
// root (filepath.Abs in the derivation of the value the closure captures); filepath.Rel(root, path) does not cut and
// is not concerned, neither is a comparison of the root with filepath.Dir(path) (Dir("a.txt") is ".").
//
// Decided only for cuts whose result reaches the name argument of (*zip.Writer).Create, or is returned (a helper
// that makes the name). A function that itself compares the root with the constant "." is taken to treat that case
// separately and is reported undecided rather than judged; so is a root held in a parameter / receiver field (its
// provenance is not followed here).
func (z *zipSel) prefixCutRoot(r *selRoles, rule string) {
	fn := r.fn
	type cut struct {
		d  *selInput
		at ssa.Instruction
		v  ssa.Value
	}
	var cuts []cut
	ir.Instrs(fn, func(in ssa.Instruction) {
		switch x := in.(type) {
		case *ssa.Slice:
			if x.Low == nil || !z.onPath(r, x.X) {
				return
			}
			if call, ok := peelLocal(x.Low).(*ssa.Call); ok {
				if b := builtinCall(call, "len"); b != nil {
					if d := r.dirInputOf(b.Args[0]); d != nil {
						cuts = append(cuts, cut{d, in, x})
					}
				}
			}
		case *ssa.Call:
			switch ir.CalleeFullName(x) {
			case "strings.TrimPrefix", "strings.CutPrefix":
				if len(x.Call.Args) == 2 && z.onPath(r, x.Call.Args[0]) {
					if d := r.dirInputOf(x.Call.Args[1]); d != nil {
						cuts = append(cuts, cut{d, in, x})
					}
				}
			}
		}
	})
	if len(cuts) == 0 {
		return
	}
	// where a name ends up: the name argument of an archive create, or a result of the function
	var ends []ssa.Value
	ir.Instrs(fn, func(in ssa.Instruction) {
		switch x := in.(type) {
		case *ssa.Return:
			for _, res := range x.Results {
				if isStringType(res.Type()) {
					ends = append(ends, res)
				}
			}
		case ssa.CallInstruction:
			if ir.CalleeFullName(x) == "(*archive/zip.Writer).Create" {
				if args := ir.MethodArgs(x); len(args) > 0 {
					ends = append(ends, args[0])
				}
			}
		}
	})
	done := map[string]bool{}
	for _, ct := range cuts {
		ct := ct
		reaches := false
		for _, e := range ends {
			if selDep(e, func(v ssa.Value) bool { return v == ct.v }, map[ssa.Value]bool{}, 0) {
				reaches = true
				break
			}
		}
		if !reaches {
			continue
		}
		k := ir.FnName(fn) + "|" + ct.d.key()
		if done[k] {
			continue
		}
		done[k] = true
		construct := "the directory cut off the walked path as a literal prefix cannot be \".\""
		// the function handles "." itself: not judged
		dotTested := false
		ir.Instrs(fn, func(in ssa.Instruction) {
			if b, ok := in.(*ssa.BinOp); ok {
				for _, pair := range [][2]ssa.Value{{b.X, b.Y}, {b.Y, b.X}} {
					if ct.d.isRead(pair[0]) && isStringConst(pair[1], ".") {
						dotTested = true
					}
				}
			}
		})
		switch {
		case dotTested:
			z.c.Undecided(rule, fn, construct, ct.at, "the function compares the directory with \".\" itself; whether that makes the prefix cut right for the current directory is not decided")
		case ct.d.fv == nil:
			z.c.Undecided(rule, fn, construct, ct.at, "the directory is a parameter / receiver field; whether it is always absolute is not followed")
		default:
			z.c.Decide(rule, fn, construct, ct.at, z.c.absoluteCell(fn, ct.d.fv),
				"the entry name is the walked path with the captured directory string cut off as a literal prefix, and that string does not derive from filepath.Abs: for the current directory (\".\", \"\" or \"./\", all cleaned to \".\") filepath.Walk hands out \"a.txt\", \".env\", \".cfg/x\" without the root in front, so the cut removes the first character of top-level names (\".env\" is archived as \"env\") and the round trip does not reproduce the relative paths")
		}
	}
}

// absoluteCell: the captured variable fv of closure fn holds, when the closure is made, a value whose derivation
// contains filepath.Abs (same walk as cleanedCell, with the set of calls narrowed to the one that excludes ".").
func (c *Ctx) absoluteCell(fn *ssa.Function, fv *ssa.FreeVar) bool {
	b := ir.BindingOf(fv)
	for i := 0; i < 4; i++ {
		pfv, nested := b.(*ssa.FreeVar)
		if !nested {
			break
		}
		fn = pfv.Parent()
		b = ir.BindingOf(pfv)
	}
	cell, ok := b.(*ssa.Alloc)
	if !ok {
		return false
	}
	abs := map[string]bool{"path/filepath.Abs": true}
	var site ssa.Instruction
	ir.Instrs(cell.Parent(), func(in ssa.Instruction) {
		if mc, ok := in.(*ssa.MakeClosure); ok && mc.Fn == ssa.Value(fn) {
			site = in
		}
	})
	if site == nil {
		return false
	}
	var last *ssa.Store
	for _, st := range ir.StoresTo(cell) {
		if !ir.Dominates(st, site) {
			for _, st2 := range ir.StoresTo(cell) {
				if !derivesFromCleaning(st2.Val, cell, abs, 0) {
					return false
				}
			}
			return true
		}
		if last == nil || ir.Dominates(last, st) {
			last = st
		}
	}
	if last == nil {
		return false
	}
	return derivesFromCleaning(last.Val, cell, abs, 0)
}
