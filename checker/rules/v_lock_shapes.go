package rules

import (
	"go/token"
	"go/types"

	"golang.org/x/tools/go/ssa"

	"verif/checker/ir"
)

// ---------------------------------------------------------------------------
// Shapes the lock rules accept besides the ones of the present tree (false alarms of benign round t):
//   C05.L7         the timer read from the slot with a comma-ok assertion / nil test: the "no timer in the slot" edge
//   C01.L1/C05.L1  the expiration kept in a per-call cell the record points to, refreshed before every attempt

// slotLoadVL: v is what an atomic Load (or Swap) of the Locker's timer slot returned.
func (r *lockRoles) slotLoadVL(v ssa.Value) bool {
	ld, ok := v.(*ssa.Call)
	if !ok || len(ld.Call.Args) == 0 {
		return false
	}
	switch slotMethodVV(ld) {
	case "Load", "Swap":
		_, isSlot := fieldAddrOf(ld.Call.Args[0], r.timerF)
		return isSlot
	}
	return false
}

// slotAssertVL: v is the value of a type assertion on the content of the timer slot - `x.(T)` or the first result of
// `x.(T)` in its comma-ok form. Returns the assertion.
func (r *lockRoles) slotAssertVL(v ssa.Value) *ssa.TypeAssert {
	if ex, ok := v.(*ssa.Extract); ok && ex.Index == 0 {
		v = ex.Tuple
	}
	ta, ok := v.(*ssa.TypeAssert)
	if !ok || !r.slotLoadVL(ta.X) {
		return nil
	}
	return ta
}

// cancelsSlotTimerVL: in cancels (Future.Cancel through the interface) a timer that was read from the Locker's timer slot.
func (r *lockRoles) cancelsSlotTimerVL(in ssa.Instruction) bool {
	call, ok := in.(*ssa.Call)
	if !ok || !call.Call.IsInvoke() || call.Call.Method.Name() != "Cancel" {
		return false
	}
	for _, o := range ir.Origins(call.Call.Value) {
		if r.slotAssertVL(o) != nil || r.derefOfSlotLoadVV(o) {
			return true
		}
	}
	return false
}

// armedTimerTypeVL: the static type of what the package stores into the slot - the result type of timeout.Call.
func (r *lockRoles) armedTimerTypeVL() types.Type {
	var res types.Type
	for _, fn := range r.all {
		ir.Instrs(fn, func(in ssa.Instruction) {
			if tc := timeoutCallZA(in); tc != nil && res == nil {
				res = tc.Type()
			}
		})
	}
	return res
}

// slotHoldsNoTimerVL: the fact says that the timer slot held no timer when it was read: the comma-ok flag of an
// assertion of the slot's content is false, the asserted value or the loaded content itself is nil. The assertion must be
// one that every armed timer passes (asserted type = the type timeout.Call returns, or an interface that type
// implements): then the edge is taken only when nothing was ever stored - every acquisition stores its timer (C05.L2) -
// so there is no renewal to cancel on it. An assertion to some concrete type can fail on a live timer and is not accepted.
func (r *lockRoles) slotHoldsNoTimerVL(f ir.Fact) bool {
	passesEveryTimer := func(ta *ssa.TypeAssert) bool {
		armed := r.armedTimerTypeVL()
		if armed == nil {
			return false
		}
		if types.Identical(ta.AssertedType, armed) {
			return true
		}
		it, isI := ta.AssertedType.Underlying().(*types.Interface)
		return isI && types.Implements(armed, it)
	}
	ff := f.StripNot()
	if ex, ok := ff.Cond.(*ssa.Extract); ok && ex.Index == 1 && !ff.True {
		if ta, isTA := ex.Tuple.(*ssa.TypeAssert); isTA && ta.CommaOk && r.slotLoadVL(ta.X) && passesEveryTimer(ta) {
			return true
		}
	}
	if cm, ok := f.Cmp(); ok && cm.Op == token.EQL {
		x, y := cm.X, cm.Y
		if ir.IsNilConst(x) {
			x, y = y, x
		}
		if !ir.IsNilConst(y) {
			return false
		}
		x = ir.Resolve(x)
		if r.slotLoadVL(x) {
			return true // nothing was ever stored
		}
		if ta := r.slotAssertVL(x); ta != nil && ta.CommaOk && passesEveryTimer(ta) {
			return true
		}
	}
	return false
}

// ---------------------------------------------------------------------------

// isNowPlusLeaseVL: v is time.Now().Add(lease), lease read from the provider's lease field; returns the time.Now() call.
func (r *lockRoles) isNowPlusLeaseVL(v ssa.Value) *ssa.Call {
	add, ok := ir.Resolve(v).(*ssa.Call)
	if !ok || ir.CalleeFullName(add) != "(time.Time).Add" || len(add.Call.Args) != 2 {
		return nil
	}
	now, ok := ir.Resolve(add.Call.Args[0]).(*ssa.Call)
	if !ok || ir.CalleeFullName(now) != "time.Now" || r.leaseReadVG(add.Call.Args[1]) == nil {
		return nil
	}
	return now
}

// leaseCellVL decides C01.L1 / C05.L1 for the shape "the record points to a cell of the call, the cell is refreshed for
// every attempt": the ExpiresAt of the record handed to `call` is the address of one local time.Time cell p that nobody
// else gets hold of, every store into p is `p = time.Now().Add(lease)` written as one straight piece of code (clock read,
// addition and store in one block, nothing that takes time in between), and such a refresh lies
//   - on every path from the entry to the call (the cell is never sent as the zero time),
//   - on every path from the call back to the call (every attempt counts its lease from its own moment), and
//   - on every path from anything that can take time - another storage call, the wait for the local token, a blocking
//     channel operation, a sleep - to the call (an expiration computed before the wait behind another holder is the stale
//     one of seed C01-c1: the record is born nearly expired and lapses under the holder).
//
// shape: the ExpiresAt is such a cell at all; lease: every store is now+lease; fresh: the three path conditions hold.
func (c *Ctx) leaseCellVL(r *lockRoles, fn *ssa.Function, call *ssa.Call, cell *ssa.Alloc) (shape, lease, fresh bool, why string) {
	var p *ssa.Alloc
	stores := fieldStores(cell, r.recExpires)
	if len(stores) == 0 {
		return false, false, false, ""
	}
	for _, st := range stores {
		a, ok := ir.Resolve(st.Val).(*ssa.Alloc)
		if !ok || (p != nil && a != p) || !ir.IsNamed(a.Type().(*types.Pointer).Elem(), "time", "Time") || a.Parent() != fn {
			return false, false, false, ""
		}
		p = a
	}
	if p.Referrers() == nil {
		return false, false, false, ""
	}
	// who touches the cell: its refreshing stores, the stores that put its address into the record, loads
	var refresh []*ssa.Store
	for _, ref := range *p.Referrers() {
		switch x := ref.(type) {
		case *ssa.Store:
			if x.Addr == ssa.Value(p) {
				refresh = append(refresh, x)
				continue
			}
			if fa, ok := x.Addr.(*ssa.FieldAddr); ok && ir.FieldOf(fa) == r.recExpires && x.Val == ssa.Value(p) {
				continue
			}
			return true, false, false, "the cell the record's ExpiresAt points to is handed to other code"
		case *ssa.UnOp, *ssa.DebugRef:
		default:
			return true, false, false, "the cell the record's ExpiresAt points to is handed to other code"
		}
	}
	if len(refresh) == 0 {
		return true, false, false, "the cell the record's ExpiresAt points to is never assigned"
	}
	isRefresh := map[ssa.Instruction]bool{}
	for _, st := range refresh {
		now := r.isNowPlusLeaseVL(st.Val)
		if now == nil {
			return true, false, false, "the cell the record's ExpiresAt points to is assigned something else than time.Now().Add(lease)"
		}
		if now.Block() != st.Block() {
			return true, true, false, "the clock is read in another place than where the expiration is assigned"
		}
		between := false
		for _, x := range st.Block().Instrs {
			if x == ssa.Instruction(now) {
				between = true
				continue
			}
			if x == ssa.Instruction(st) {
				break
			}
			if between && r.takesTimeVL(x) {
				return true, true, false, "something that takes time lies between the clock read and the assignment of the expiration"
			}
		}
		isRefresh[st] = true
	}
	blk := func(x ssa.Instruction) bool { return isRefresh[x] }
	at := func(x ssa.Instruction) bool { return x == ssa.Instruction(call) }
	if w, err := (ir.Query{Fn: fn, Block: blk, Target: at}).Find(); err != nil || w != nil {
		return true, true, false, "the record can be written before its expiration was assigned at all"
	}
	if w, err := (ir.Query{Fn: fn, From: call, Block: blk, Target: at}).Find(); err != nil || w != nil {
		return true, true, false, "a later attempt re-uses the expiration of an earlier one"
	}
	bad := ""
	ir.Instrs(fn, func(x ssa.Instruction) {
		if bad != "" || x == ssa.Instruction(call) || !r.takesTimeVL(x) {
			return
		}
		if w, err := (ir.Query{Fn: fn, From: x, Block: blk, Target: at}).Find(); err != nil || w != nil {
			bad = "the expiration is computed before " + c.P.InstrPos(x) + ", which can take time (a wait behind another holder), and not again before the record is written"
		}
	})
	if bad != "" {
		return true, true, false, bad
	}
	return true, true, true, ""
}

// takesTimeVL: in can take an unbounded time - a storage call, the wait for the local token, a blocking channel
// operation, a sleep.
func (r *lockRoles) takesTimeVL(in ssa.Instruction) bool {
	if r.storageCall(in, "") != nil || r.tokenHelperCall(in) != nil || r.tokenRecv(in) {
		return true
	}
	return blockingKindVB(in) != ""
}
