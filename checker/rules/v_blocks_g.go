package rules

// Block allocator rules of round g (C17.R15, C17.R16).
//
// R15 "ErrExhausted exactly when nothing is free" - the part of it that concerns summaries. ArrangeBlock may answer
// ErrExhausted because its scan of the headers found no free bit, or because a summary kept in the allocator says so
// (a flag, the free counter, the free hint). A summary is a sound reason only if a free can never leave it saying
// "full": in the functions that carry out FreeBlock every path from the recording of the release (the clear-bit store)
// to an exit passes a store that puts the summary back to "not full", or an edge on which the summary itself is known
// to say "not full" already. A reset that sits behind a further condition (a comparison of something else, e.g. the
// hint) relies on an invariant between two pieces of state that nothing enforces - a reopened full storage has the
// flag raised and the hint at 0 - and then ArrangeBlock fails while blocks are free.
//
// R16 the header slice is obtained in the critical section that uses it, as soon as the allocator can re-size its
// storage. R3 holds the header bytes to "touched only under the lock"; that is enough while the memory behind a slice
// returned by Buffer() never moves. Buffer.Grow moves it (a new array, an unmap + remap): once some function of the
// allocator calls it, a slice fetched before Lock() may point into the old memory when the lock is finally taken, and
// the bit is cleared/set there - the allocation state no longer lives in the buffer.

import (
	"go/token"
	"go/types"

	"golang.org/x/tools/go/ssa"

	"verif/checker/ir"
)

type vbgEnv struct {
	blocks                  *types.Named
	bufIface                *types.Named
	arrange, free, recount  *ssa.Function
	arrangeGroup, freeGroup []*ssa.Function
	ctorGroup               []*ssa.Function
	pkgFns                  []*ssa.Function
	roleFns                 map[*ssa.Function]bool
	mutex, hint, avail, bts *types.Var
	isHdrSlice              func(ssa.Value) bool
	isClearBit              func(ssa.Instruction) bool
	atomicAdd               func(ssa.Instruction, int64) bool
}

func (c *Ctx) vbgRules(e *vbgEnv) {
	c.vbgExhaustedReason("C17.R15", e)
	c.vbgSliceInSection("C17.R16", e)
}

// ---------------------------------------------------------------------------
// R15

// vbgFieldWrite: in writes field f of the allocator (plain store, or a store/add/swap of sync/atomic in either style).
func vbgFieldWrite(in ssa.Instruction) *types.Var {
	if st, ok := in.(*ssa.Store); ok {
		if fa, isFA := st.Addr.(*ssa.FieldAddr); isFA {
			return ir.FieldOf(fa)
		}
		return nil
	}
	if op, addr, _, ok := ir.AtomicCall(in); ok && op != "Load" {
		if fa, isFA := addr.(*ssa.FieldAddr); isFA {
			return ir.FieldOf(fa)
		}
	}
	return nil
}

// vbgFieldRead: v is the value of field f - a load, an atomic Load in either style, or the result of a function of the
// package every return of which is one (an accessor such as Available()).
func vbgFieldRead(v ssa.Value, depth int) *types.Var {
	v = xcStripConv(v)
	if f := ir.LoadedField(v); f != nil {
		return f
	}
	call, ok := v.(*ssa.Call)
	if !ok {
		return nil
	}
	if op, addr, _, isAt := ir.AtomicCall(call); isAt {
		if fa, isFA := addr.(*ssa.FieldAddr); isFA && op == "Load" {
			return ir.FieldOf(fa)
		}
		return nil
	}
	cal := ir.StaticCallee(call)
	if cal == nil || len(cal.Blocks) == 0 || depth > 2 || cal.Signature.Results().Len() != 1 {
		return nil
	}
	var res *types.Var
	for _, ret := range ir.Returns(cal) {
		f := vbgFieldRead(ret.Results[0], depth+1)
		if f == nil || (res != nil && res != f) {
			return nil
		}
		res = f
	}
	return res
}

// vbgDeps collects the fields whose value v is computed from (through arithmetic, comparisons, merges, conversions).
func vbgDeps(v ssa.Value, out map[*types.Var]bool) {
	seen := map[ssa.Value]bool{}
	var rec func(v ssa.Value, d int)
	rec = func(v ssa.Value, d int) {
		if v == nil || d > 10 || seen[v] {
			return
		}
		seen[v] = true
		if f := vbgFieldRead(v, 0); f != nil {
			out[f] = true
			return
		}
		switch x := ir.Resolve(v).(type) {
		case *ssa.BinOp:
			rec(x.X, d+1)
			rec(x.Y, d+1)
		case *ssa.UnOp:
			if x.Op != token.MUL {
				rec(x.X, d+1)
			}
		case *ssa.Convert:
			rec(x.X, d+1)
		case *ssa.Phi:
			for _, e := range x.Edges {
				rec(e, d+1)
			}
		}
	}
	rec(v, 0)
}

// vbgSaysFull describes how an ErrExhausted exit reads a summary: for a flag, the truth value that means "full"; for the
// free counter, a comparison with a constant that is true only when nothing is free.
type vbgSaysFull struct {
	field   *types.Var
	isFlag  bool
	flagVal bool
	ok      bool // the reading is understood
	// positive: the free counter is compared with a constant in a way that also holds while the count is positive
	positive bool
}

func vbgReading(f ir.Fact, field *types.Var, avail *types.Var) vbgSaysFull {
	res := vbgSaysFull{field: field}
	g := f.StripNot()
	if vbgFieldRead(g.Cond, 0) == field {
		if b, isB := g.Cond.Type().Underlying().(*types.Basic); isB && b.Kind() == types.Bool {
			res.isFlag, res.flagVal, res.ok = true, g.True, true
			return res
		}
	}
	cm, isCmp := f.Cmp()
	if !isCmp {
		return res
	}
	for _, c := range []ir.Cmp{cm, {X: cm.Y, Y: cm.X, Op: ir.SwapOp(cm.Op)}} {
		if vbgFieldRead(c.X, 0) != field {
			continue
		}
		if k, isC := c.Y.(*ssa.Const); isC && k.Value != nil {
			if b, isB := k.Type().Underlying().(*types.Basic); isB && b.Kind() == types.Bool {
				// flag == true / flag != false
				val := k.Value.String() == "true"
				if c.Op == token.NEQ {
					val = !val
				} else if c.Op != token.EQL {
					return res
				}
				res.isFlag, res.flagVal, res.ok = true, val, true
				return res
			}
		}
		if field == avail {
			if k, isC := ir.ConstInt(xcStripConv(c.Y)); isC {
				// counter == 0, <= 0, < 1 hold only when nothing is free; any other comparison with a constant also holds for some
				// positive count
				res.ok = (c.Op == token.EQL && k == 0) || (c.Op == token.LEQ && k == 0) || (c.Op == token.LSS && k == 1)
				res.positive = !res.ok && !(c.Op == token.EQL && k < 0) && !(c.Op == token.LEQ && k < 0) && !(c.Op == token.LSS && k < 1)
			}
		}
	}
	return res
}

func (c *Ctx) vbgExhaustedReason(rule string, e *vbgEnv) {
	const construct = "ErrExhausted only after the scan, or on a summary that every free puts back to not-full"
	// fields the three cooperating sites (allocate, free, recount on open) write: candidates for a summary
	mutable := map[*types.Var]bool{}
	sites := append(append([]*ssa.Function{}, e.arrangeGroup...), e.freeGroup...)
	if e.recount != nil {
		sites = append(sites, xcGroup(e.recount, e.roleFns)...)
	}
	for _, fn := range sites {
		ir.Instrs(fn, func(in ssa.Instruction) {
			if f := vbgFieldWrite(in); f != nil {
				mutable[f] = true
			}
		})
	}
	n := 0
	for _, fn := range e.arrangeGroup {
		fn := fn
		eidx := ir.ErrResultIndex(fn)
		if eidx < 0 {
			continue
		}
		// the points at which some other outcome is fixed
		other := map[ssa.Instruction]bool{}
		for _, ep := range ir.ExitPoints(fn) {
			if ev := ep.Result(eidx); ev == nil || !wrapsGlobal(ev, "ErrExhausted") {
				var at ssa.Instruction = ep.Ret
				if ep.Block != ep.Ret.Block() && len(ep.Block.Instrs) > 0 {
					at = ep.Block.Instrs[len(ep.Block.Instrs)-1]
				}
				other[at] = true
			}
		}
		for _, ep := range ir.ExitPoints(fn) {
			ev := ep.Result(eidx)
			if ev == nil || !wrapsGlobal(ev, "ErrExhausted") {
				continue
			}
			n++
			var at ssa.Instruction = ep.Ret
			if ep.Block != ep.Ret.Block() && len(ep.Block.Instrs) > 0 {
				at = ep.Block.Instrs[len(ep.Block.Instrs)-1]
			}
			// the summaries this exit is decided on
			type use struct {
				field *types.Var
				fact  ir.Fact
			}
			var uses []use
			// the branch edges that decide this outcome: edges on the dominator chain of the exit point behind which every
			// exit is an ErrExhausted one (an edge behind which the scan may still succeed is a precondition, not a reason)
			type edge struct{ from, to *ssa.BasicBlock }
			var edges []edge
			for d := ep.Block; d != nil; d = d.Idom() {
				if len(d.Preds) == 1 {
					edges = append(edges, edge{d.Preds[0], d})
				}
			}
			for _, ed := range edges {
				ef := ir.EdgeFact(ed.from, ed.to)
				if ef == nil {
					continue
				}
				w, err := (ir.Query{Fn: fn, FromBlock: ed.to, Target: func(x ssa.Instruction) bool { return other[x] }}).Find()
				if err != nil || w != nil {
					continue
				}
				deps := map[*types.Var]bool{}
				vbgDeps(ef.StripNot().Cond, deps)
				for _, fld := range fieldsWhere(e.blocks, func(v *types.Var) bool { return deps[v.Origin()] }) {
					if mutable[fld] && fld != e.hint {
						uses = append(uses, use{fld, *ef})
					}
				}
			}
			if ep.Edge != nil {
				if ef := ir.EdgeFact(ep.Block, ep.Edge); ef != nil {
					deps := map[*types.Var]bool{}
					vbgDeps(ef.StripNot().Cond, deps)
					for _, fld := range fieldsWhere(e.blocks, func(v *types.Var) bool { return deps[v.Origin()] }) {
						if mutable[fld] && fld != e.hint {
							uses = append(uses, use{fld, *ef})
						}
					}
				}
			}
			// (the free hint is a summary of its own kind - a lower bound of the first free position; R6 and R11 are its rules)
			if len(uses) == 0 {
				c.Decide(rule, fn, construct, at, true, "")
				continue
			}
			verdict, detail := vbgYes, ""
			for _, u := range uses {
				rd := vbgReading(u.fact, u.field, e.avail)
				if rd.positive {
					verdict, detail = vbgNo, "ArrangeBlock returns ErrExhausted on a comparison of the free counter that also holds while the counter is positive: it fails while blocks are free"
					continue
				}
				if !rd.ok {
					if verdict == vbgYes {
						verdict, detail = vbgUndecided, "the ErrExhausted exit is decided on the field "+u.field.Name()+" in a way the rule does not read (neither a flag nor the free counter compared with zero)"
					}
					continue
				}
				ok, why := c.vbgFreeResets(e, rd)
				switch {
				case ok == vbgNo:
					verdict, detail = ok, why
				case ok == vbgUndecided && verdict == vbgYes:
					verdict, detail = ok, why
				}
			}
			switch verdict {
			case vbgYes:
				c.Decide(rule, fn, construct, at, true, "")
			case vbgUndecided:
				c.Undecided(rule, fn, construct, at, detail)
			default:
				c.Decide(rule, fn, construct, at, false, detail)
			}
		}
	}
	if n == 0 {
		c.Decide(rule, e.arrange, construct, nil, false, "no exit of ArrangeBlock returns ErrExhausted")
	}
	c.R.Floor(rule, 1)
}

type vbg3 int

const (
	vbgNo vbg3 = iota
	vbgYes
	vbgUndecided
)

// vbgFreeResets decides, for a summary read as rd by an ErrExhausted exit, whether every path of the functions that carry
// out FreeBlock from the recording of the release to an exit puts the summary back to "not full".
func (c *Ctx) vbgFreeResets(e *vbgEnv, rd vbgSaysFull) (vbg3, string) {
	// the instructions that re-establish "not full"; partial: writes to the summary the rule cannot evaluate
	partial := false
	reset := func(in ssa.Instruction) bool {
		if vbgFieldWrite(in) != rd.field {
			return false
		}
		if !rd.isFlag {
			if e.atomicAdd(in, 1) {
				return true
			}
			return false
		}
		var val ssa.Value
		if st, ok := in.(*ssa.Store); ok {
			val = st.Val
		} else if op, _, args, ok := ir.AtomicCall(in); ok && op == "Store" && len(args) == 1 {
			val = args[0]
		}
		k, isC := val.(*ssa.Const)
		if val == nil || !isC || k.Value == nil {
			return false
		}
		return (k.Value.String() == "true") == !rd.flagVal
	}
	alreadyNotFull := func(f ir.Fact) bool {
		if !rd.isFlag {
			return false
		}
		g := f.StripNot()
		if vbgFieldRead(g.Cond, 0) == rd.field {
			return g.True == !rd.flagVal
		}
		return false
	}
	var holders []*ssa.Function
	for _, fn := range e.freeGroup {
		has := false
		ir.Instrs(fn, func(in ssa.Instruction) {
			if e.isClearBit(in) {
				has = true
			}
			if vbgFieldWrite(in) == rd.field && !reset(in) {
				partial = true
			}
		})
		if has {
			holders = append(holders, fn)
		}
	}
	if len(holders) == 0 {
		return vbgUndecided, "no function that carries out FreeBlock clears a header bit"
	}
	what := "the field " + rd.field.Name()
	// runs: the call in runs function g (static callee, a function value called, a literal handed to a wrapper)
	runs := func(in ssa.Instruction, g *ssa.Function) bool {
		call, ok := in.(*ssa.Call)
		if !ok {
			return false
		}
		if ir.StaticCallee(call) == g || xcFuncValue(call.Call.Value, nil) == g {
			return true
		}
		for _, a := range call.Call.Args {
			if xcFuncValue(a, nil) == g {
				return true
			}
		}
		return false
	}
	var check func(fn *ssa.Function, from ssa.Instruction, depth int) (vbg3, string)
	check = func(fn *ssa.Function, from ssa.Instruction, depth int) (vbg3, string) {
		w, err := (ir.Query{Fn: fn, From: from, Block: reset, BlockFact: alreadyNotFull, Target: ir.IsExit}).Find()
		if err != nil {
			return vbgUndecided, err.Error()
		}
		if w == nil {
			return vbgYes, ""
		}
		path := "path in " + ir.FnName(fn) + " " + w.String(c.P)
		if fn == e.free || depth > 3 {
			return vbgNo, path
		}
		// the reset may follow in the functions that run this one
		found := false
		for _, g := range e.freeGroup {
			var sites []ssa.Instruction
			ir.Instrs(g, func(in ssa.Instruction) {
				if g != fn && runs(in, fn) {
					sites = append(sites, in)
				}
			})
			for _, s := range sites {
				found = true
				if v, p := check(g, s, depth+1); v != vbgYes {
					return v, path + "; then " + p
				}
			}
		}
		if !found {
			return vbgUndecided, "the place that runs " + ir.FnName(fn) + " was not found"
		}
		return vbgYes, ""
	}
	for _, h := range holders {
		var recs []ssa.Instruction
		ir.Instrs(h, func(in ssa.Instruction) {
			if e.isClearBit(in) {
				recs = append(recs, in)
			}
		})
		for _, r := range recs {
			v, p := check(h, r, 0)
			switch {
			case v == vbgNo && partial:
				return vbgUndecided, "ArrangeBlock returns ErrExhausted on " + what + ", FreeBlock writes it in a way the rule does not evaluate, and a path frees a block without a recognised reset: " + p
			case v == vbgNo:
				return vbgNo, "ArrangeBlock returns ErrExhausted because " + what + " says the storage is full, but FreeBlock can free a block and leave it saying so (the reset is missing, or sits behind a condition on something else): " + p + ". From a state in which that condition does not hold - e.g. a reopened storage - ArrangeBlock answers ErrExhausted while blocks are free and Available() > 0"
			case v == vbgUndecided:
				return v, p
			}
		}
	}
	return vbgYes, ""
}

// ---------------------------------------------------------------------------
// R16

func (c *Ctx) vbgSliceInSection(rule string, e *vbgEnv) {
	const census = "storage re-sized by the allocator only with header slices fetched inside the critical section"
	mpath := "recv." + e.mutex.Name()
	locks := newXcLocks(e.pkgFns, mpath)
	// re-sizers: calls of Buffer.Grow on the allocator's storage
	type resize struct {
		fn   *ssa.Function
		call *ssa.Call
	}
	var resizers []resize
	for _, fn := range e.pkgFns {
		fn := fn
		ir.Instrs(fn, func(in ssa.Instruction) {
			call, ok := in.(*ssa.Call)
			if !ok || !call.Call.IsInvoke() || call.Call.Method.Name() != "Grow" || namedOf(call.Call.Value.Type()) != e.bufIface {
				return
			}
			if ir.LoadedField(call.Call.Value) != e.bts {
				return
			}
			resizers = append(resizers, resize{fn, call})
		})
	}
	blocksName := e.blocks.Obj().Name()
	if len(resizers) == 0 {
		c.DecideAt(rule, blocksName, census, e.blocks.Obj().Pos(), true, "")
		return
	}
	for _, r := range resizers {
		c.Decide(rule, r.fn, "storage re-sized under the allocator lock", r.call, locks.Lockset(r.fn).Held(r.call, mpath),
			"the allocator grows its storage (the memory behind every slice Buffer() returned moves) without holding the lock under which the header bytes are read and written")
	}
	const construct = "header slice fetched in the critical section that uses it"
	seen := map[*ssa.Function]bool{}
	for _, fn := range append(append([]*ssa.Function{}, e.arrangeGroup...), e.freeGroup...) {
		if seen[fn] {
			continue
		}
		seen[fn] = true
		fn := fn
		ls := locks.Lockset(fn)
		var releases []ssa.Instruction
		ir.Instrs(fn, func(in ssa.Instruction) {
			if _, isCall := in.(*ssa.Call); !isCall {
				return
			}
			if p, _, rel := ir.LockOp(in); rel && p == mpath {
				releases = append(releases, in)
			}
		})
		// header accesses grouped by the Buffer() call that produced the slice
		byCall := map[*ssa.Call][]*ssa.IndexAddr{}
		var order []*ssa.Call
		ir.Instrs(fn, func(in ssa.Instruction) {
			ia, ok := in.(*ssa.IndexAddr)
			if !ok || !e.isHdrSlice(ia.X) {
				return
			}
			ex, _ := ir.Resolve(ia.X).(*ssa.Extract)
			if ex == nil {
				return
			}
			call, _ := ex.Tuple.(*ssa.Call)
			if call == nil {
				return
			}
			if _, dup := byCall[call]; !dup {
				order = append(order, call)
			}
			byCall[call] = append(byCall[call], ia)
		})
		for _, call := range order {
			if call.Parent() != fn {
				c.Undecided(rule, fn, construct, byCall[call][0], "the header slice is fetched in another function ("+ir.FnName(call.Parent())+"); the rule does not follow the critical section across functions once the storage can be re-sized")
				continue
			}
			ok, detail := true, ""
			if !ls.Held(call, mpath) {
				ok, detail = false, "the slice is fetched from the storage before the lock is taken"
			}
			for _, ia := range byCall[call] {
				if !ok {
					break
				}
				for _, u := range releases {
					// call ... Unlock ... access: the section was left in between
					w1, err1 := (ir.Query{Fn: fn, From: call, Block: func(x ssa.Instruction) bool { return x == ssa.Instruction(ia) }, Target: func(x ssa.Instruction) bool { return x == u }}).Find()
					if err1 != nil || w1 == nil {
						continue
					}
					w2, err2 := (ir.Query{Fn: fn, From: u, Block: func(x ssa.Instruction) bool { return x == ssa.Instruction(call) }, Target: func(x ssa.Instruction) bool { return x == ssa.Instruction(ia) }}).Find()
					if err2 == nil && w2 != nil {
						ok, detail = false, "the lock is released between the fetch of the slice and its use at "+c.P.InstrPos(ia)
						break
					}
				}
			}
			c.Decide(rule, fn, construct, call, ok, detail+": "+ir.FnName(resizers[0].fn)+" re-sizes the storage under the lock (at "+c.P.InstrPos(resizers[0].call)+"), which moves or unmaps the memory behind the slice; an operation that waits for the lock with a slice fetched earlier then reads and writes the header in the old memory - the bit it clears/sets is not the one in the storage (a freed block stays allocated on reopen and is never handed out again, Available() is off by one; on a mapped file the write goes to unmapped memory)")
		}
	}
}
