package rules

// C14.R10 - what a call releases is what it consumes.
//
// "Slots that were consumed no longer reference the consumed values" and "none lost" meet at the zeroing of the backing
// array: R1 demands that some zeroing precedes every advance of the read index; it does not say WHICH slots. Two ways
// to get that wrong keep R1 satisfied: the zeroed range is larger than the consumed one (an end index handed to a
// helper that takes a count: elements that Len still counts come out as zero values - lost), or it does not cover it
// (a "drop everything" path that wipes buf[:Cap()] of the Cap()+1 slots: a consumed value stays referenced).
//
// Clause, for every advance S of the read index (a store of a new value v, the fold by len(buf) and the reset to 0
// excepted) that has zeroing operations attached - zero stores and SliceFill(part, zero) on parts of the backing array,
// in the same function or in a private helper it calls, from which S is reached without passing another advance: with o
// the read index before S, the consumed slots are [o, v) when v >= o and [o, len(buf)) + [0, v) when the index wrapped
// (v < o); in unwrapped coordinates [o, t) with t = v resp. v + len(buf), a released part [lo, hi) standing also for
// [lo+len(buf), hi+len(buf)).
//   - coverage: the parts released on every path chain up from o to t (each starts at or below the point reached, the
//     next point is its end);
//   - no excess: every part that may be released is empty or lies inside [o, t] - unless the call consumes everything
//     (v is the write index), when no live element is left to lose.
// Decided with the symbolic linear bounds of y_f_lin.go, once per choice of phi edges and helper exits, with the branch
// facts of the chosen edges; where it is not known whether v >= o, both cases are proved. An advance whose released
// parts the engine cannot express (a part that is no slice of the backing array it can follow) gets no obligation.
//
// Over-approximations: zeroing of free slots outside the consumed range is reported unless the call consumes everything;
// a released part behind a condition that no phi ties to the path counts for "no excess" but not for coverage.

import (
	"fmt"
	"go/types"
	"sort"
	"strings"

	"golang.org/x/tools/go/ssa"

	"verif/checker/ir"
)

type relOpV struct {
	in  ssa.Instruction // the zeroing instruction
	via *ssa.Call       // the call of the helper it sits in (nil: it is in the function of the advance)
}

// zeroingDirectV: in zeroes slots of the backing array itself (no helper summary); seg gives the slots.
func (k *c14) zeroingDirectV(in ssa.Instruction) bool {
	switch in.(type) {
	case *ssa.Store, *ssa.Call:
		return k.zeroing(in)
	}
	return false
}

func (k *c14) readAdvancesV(fn *ssa.Function) []*ssa.Store {
	var res []*ssa.Store
	ir.Instrs(fn, func(in ssa.Instruction) {
		if _, ok := k.idxStore(in, k.rIdx); ok && !k.isFoldStore(in, k.rIdx) {
			res = append(res, in.(*ssa.Store))
		}
	})
	return res
}

func (k *c14) releasedIsConsumed(scope []*ssa.Function, anchor *ssa.Function) {
	c := k.Ctx
	const construct = "the released slots are the consumed slots"
	n := 0
	for _, fn := range scope {
		advs := k.readAdvancesV(fn)
		for _, S := range advs {
			S := S
			reaches := func(from ssa.Instruction) bool {
				if from.Block() == S.Block() {
					// straight line: before S in the same block
					fi, si := -1, -1
					for i, x := range S.Block().Instrs {
						if x == from {
							fi = i
						}
						if x == ssa.Instruction(S) {
							si = i
						}
					}
					if fi >= 0 && fi < si {
						return true
					}
				}
				w, err := (ir.Query{Fn: fn, From: from, Target: func(x ssa.Instruction) bool { return x == ssa.Instruction(S) },
					Block: func(x ssa.Instruction) bool {
						for _, a := range advs {
							if a != S && x == ssa.Instruction(a) {
								return true
							}
						}
						return false
					}}).Find()
				return w != nil && err == nil
			}
			var ops []relOpV
			ir.Instrs(fn, func(in ssa.Instruction) {
				if in == ssa.Instruction(S) {
					return
				}
				if k.zeroingDirectV(in) {
					if reaches(in) {
						ops = append(ops, relOpV{in: in})
					}
					return
				}
				call, ok := in.(*ssa.Call)
				if !ok {
					return
				}
				g := ir.StaticCallee(call)
				if g == nil || !k.inPkg(g) || g == k.lenFn || g == k.capFn || g == fn || len(k.readAdvancesV(g)) > 0 {
					return
				}
				var inner []ssa.Instruction
				ir.Instrs(g, func(x ssa.Instruction) {
					if k.zeroingDirectV(x) {
						inner = append(inner, x)
					}
				})
				if len(inner) == 0 || !reaches(call) {
					return
				}
				for _, x := range inner {
					ops = append(ops, relOpV{in: x, via: call})
				}
			})
			if len(ops) == 0 {
				continue // nothing attached: R1 decides whether that is acceptable (a bare helper, zeroing in the caller)
			}
			ok, why, understood := k.proveReleaseV(fn, S, ops)
			if !understood {
				continue
			}
			n++
			c.Decide("C14.R10", fn, construct, S, ok,
				"between the previous state of the read index and this advance the buffer releases (zeroes) slots that are not the slots the advance consumes: "+why)
		}
	}
	// (no floor: the clause is decided where the engine can express the released parts; on the unchanged tree these are
	// the advances of Read, ReadN and Skip)
	_ = anchor
	_ = n
}

// proveReleaseV decides the clause for one advance. understood=false: a released part cannot be expressed.
func (k *c14) proveReleaseV(fn *ssa.Function, S *ssa.Store, ops []relOpV) (ok bool, why string, understood bool) {
	base := k.guardFacts(S.Block())
	understood = true
	finished := false
	undecidedParts := false
	L := c14atom("L")
	res := k.forAllChoices(fn, func(e *c14env, efs []ir.Fact) bool {
		o := e.fieldLoad(S, k.rIdx)
		v := e.lin(S.Val)
		wv := e.fieldLoad(S, k.wIdx)
		children := map[*ssa.Call]*c14env{}
		envOf := func(op relOpV) *c14env {
			if op.via == nil {
				return e
			}
			if ch, ok := children[op.via]; ok {
				return ch
			}
			g := ir.StaticCallee(op.via)
			ch := e.child(g, op.via)
			for j, prm := range g.Params {
				if j < len(op.via.Call.Args) {
					if b, isB := prm.Type().Underlying().(*types.Basic); isB && b.Info()&types.IsInteger != 0 {
						ch.bind[prm] = e.lin(op.via.Call.Args[j])
					}
				}
			}
			children[op.via] = ch
			return ch
		}
		type part struct {
			lo, hi c14lform
			status int // 1 released on this path, 0 unknown, -1 not released
			op     relOpV
		}
		var parts []part
		for _, op := range ops {
			env := envOf(op)
			var lo, hi c14lform
			switch x := op.in.(type) {
			case *ssa.Store:
				ia := x.Addr.(*ssa.IndexAddr)
				sg, okS := env.seg(ia.X)
				if !okS || sg.isNil {
					if len(e.need) == 0 {
						understood = false
					}
					return false
				}
				lo = sg.off.add(env.lin(ia.Index), 1)
				hi = lo.add(c14const(1), 1)
			case *ssa.Call:
				sg, okS := env.seg(x.Call.Args[0])
				if !okS {
					if len(e.need) == 0 {
						understood = false
					}
					return false
				}
				if sg.isNil {
					continue
				}
				lo, hi = sg.off, sg.off.add(sg.length, 1)
			}
			parts = append(parts, part{lo: lo, hi: hi, op: op})
		}
		if len(e.need) > 0 {
			return false
		}
		e.c14shared.frozen = true
		// which parts run on the path the choice describes
		chosen := func(f *ssa.Function, b *ssa.BasicBlock) int {
			st := 0
			for key, i := range e.choice {
				pb, isB := key.(*ssa.BasicBlock)
				if !isB || pb.Parent() != f || i >= len(pb.Preds) {
					continue
				}
				if b.Dominates(pb.Preds[i]) {
					return 1
				}
				if !b.Dominates(pb) {
					for _, q := range pb.Preds {
						if b.Dominates(q) {
							st = -1
						}
					}
				}
			}
			return st
		}
		runs := func(f *ssa.Function, b *ssa.BasicBlock, target *ssa.BasicBlock) int {
			if target != nil && (b == target || b.Dominates(target)) {
				return 1
			}
			if target == nil {
				all := true
				for _, ret := range ir.Returns(f) {
					if !b.Dominates(ret.Block()) {
						all = false
					}
				}
				if all {
					return 1
				}
			}
			return chosen(f, b)
		}
		all := append(append([]ir.Fact{}, base...), k.expandFacts(efs, 0)...)
		facts := append(e.factForms(all), e.extra...)
		for key, i := range e.choice {
			pb, isB := key.(*ssa.BasicBlock)
			if !isB || pb.Parent() == fn || i >= len(pb.Preds) {
				continue
			}
			for _, ch := range children {
				if ch.fn == pb.Parent() {
					fs := append(append([]ir.Fact{}, ir.Facts(pb.Preds[i])...), edgeFacts(pb.Preds[i], pb)...)
					facts = append(facts, ch.factForms(fs)...)
				}
			}
		}
		for i := range parts {
			p := &parts[i]
			if p.op.via == nil {
				p.status = runs(fn, p.op.in.Block(), S.Block())
			} else {
				p.status = runs(p.op.via.Parent(), p.op.via.Block(), S.Block())
				if p.status == 1 {
					p.status = runs(p.op.in.Parent(), p.op.in.Block(), nil)
				}
			}
			if p.status == 1 {
				facts = append(facts, envOf(p.op).factForms(k.guardFacts(p.op.in.Block()))...)
			}
		}
		everything := c14sameForm(v, wv)
		_, jump := loadOfField(S.Val, k.wIdx) // r = w, written as such
		prove := func(facts []c14lform, t c14lform) string {
			le := func(a, b c14lform) bool { return e.geq0(b.add(a, -1), facts, 0) }
			// coverage
			cur := o
			used := map[int]bool{}
			for step := 0; step < 6 && !le(t, cur); step++ {
				progressed := false
				for i, p := range parts {
					if p.status != 1 {
						continue
					}
					for _, sh := range []int64{0, 1} {
						if used[2*i+int(sh)] {
							continue // (a part counts once per lap)
						}
						lo, hi := p.lo.add(L.scale(sh), 1), p.hi.add(L.scale(sh), 1)
						if le(lo, cur) && le(cur, hi) {
							cur, used[2*i+int(sh)], progressed = hi, true, true
							break
						}
					}
					if progressed {
						break
					}
				}
				if !progressed {
					for _, p := range parts {
						if p.status == 0 {
							undecidedParts = true // a part that may or may not run on this path: coverage is not decided
						}
					}
					return "the slots from " + relShowV(cur) + " up to " + relShowV(t) + " (read index before: " + relShowV(o) + "; L = len(buf), positions from L on wrap to the start) are consumed but not shown to be released at " + k.P.InstrPos(S)
				}
			}
			if !le(t, cur) {
				return "the released parts do not reach the new read index"
			}
			if everything {
				return ""
			}
			for _, p := range parts {
				le := le
				if p.status == 0 {
					// if it runs, what guards it holds
					fp := append(append([]c14lform{}, facts...), envOf(p.op).factForms(k.guardFacts(p.op.in.Block()))...)
					le = func(a, b c14lform) bool { return e.geq0(b.add(a, -1), fp, 0) }
				}
				if p.status == -1 || le(p.hi, p.lo) {
					continue
				}
				inside := false
				for _, sh := range []int64{0, 1} {
					lo, hi := p.lo.add(L.scale(sh), 1), p.hi.add(L.scale(sh), 1)
					if le(o, lo) && le(hi, t) {
						inside = true
					}
				}
				if !inside {
					return "the part [" + relShowV(p.lo) + ", " + relShowV(p.hi) + ") released at " + k.P.InstrPos(p.op.in) + " is not shown to lie inside the consumed slots [" + relShowV(o) + ", " + relShowV(t) + "): elements that Len() still counts are overwritten with the zero value"
				}
			}
			return ""
		}
		// the engine must have kept track: one name for the read index of this iteration, no opaque intermediate values
		forms := []c14lform{o, v}
		for _, p := range parts {
			forms = append(forms, p.lo, p.hi)
		}
		if !k.trackedFormsV(fn, forms) {
			understood = false
			return false
		}
		finished = true
		var w string
		switch {
		case e.geq0(v.add(o, -1), facts, 0):
			w = prove(facts, v) // a forward advance
		case v.t["L"] == -1 && e.geq0(v.add(L, 1).add(o, -1), facts, 0):
			w = prove(facts, v.add(L, 1)) // the advanced index folded back by len(buf): the unfolded value is the end
		case v.isZero() && len(v.t) == 0:
			w = prove(facts, L) // wrapped to slot 0: the end of the array was reached
		case everything && jump:
			// a jump to the write index: whether it passes the end of the array depends on the data, both cases count
			w = prove(append(append([]c14lform{}, facts...), v.add(o, -1)), v)
			if w == "" {
				w = prove(append(append([]c14lform{}, facts...), o.add(v, -1).add(c14const(1), -1)), v.add(L, 1))
			}
		default:
			understood = false // the direction of the advance is not known to the engine
			return false
		}
		if w != "" {
			if undecidedParts {
				understood = false
				return false
			}
			why = w
			return false
		}
		return true
	})
	if !understood {
		return false, "", false
	}
	if !res && why == "" {
		_ = finished
		return false, "", false // the evaluation ran out of choices: no verdict
	}
	return res, why, true
}

// trackedFormsV: the forms speak about one state of the read index (a single f:<read index>@.. atom) and contain no
// opaque intermediate value (only parameters and loop variables may stand for themselves).
func (k *c14) trackedFormsV(fn *ssa.Function, forms []c14lform) bool {
	names := map[string]bool{}
	if fn.Object() != nil && fn.Object().Exported() {
		// (the parameters of a private helper relate to the indices only through its callers: not followed)
		for _, p := range fn.Params {
			names["v:"+p.Name()] = true
		}
	}
	ir.Instrs(fn, func(in ssa.Instruction) {
		if p, ok := in.(*ssa.Phi); ok {
			names["v:"+p.Name()] = true
		}
	})
	rAtoms := map[string]bool{}
	for _, f := range forms {
		for key := range f.t {
			switch {
			case strings.HasPrefix(key, "f:"+k.rIdx.Name()+"@"):
				rAtoms[key] = true
			case strings.HasPrefix(key, "v:"):
				if !names[key] {
					return false
				}
			case strings.HasPrefix(key, "x:"):
				return false
			}
		}
	}
	return len(rAtoms) <= 1
}

// relShowV renders a form for messages: r, w for the indices, L for len(buf).
func relShowV(f c14lform) string {
	var ks []string
	for key := range f.t {
		ks = append(ks, key)
	}
	sort.Strings(ks)
	var sb strings.Builder
	for _, key := range ks {
		name := key
		if strings.HasPrefix(key, "f:") {
			name = strings.TrimPrefix(key, "f:")
			if i := strings.Index(name, "@"); i >= 0 {
				name = "index " + name[:i]
			}
		} else if i := strings.Index(key, ":"); i >= 0 && !strings.HasPrefix(key, "Len") {
			name = key[i+1:]
		}
		switch c := f.t[key]; {
		case c == 1 && sb.Len() == 0:
			sb.WriteString(name)
		case c == 1:
			sb.WriteString(" + " + name)
		case c == -1:
			sb.WriteString(" - " + name)
		default:
			fmt.Fprintf(&sb, " %+d*%s", c, name)
		}
	}
	if f.c != 0 || sb.Len() == 0 {
		if sb.Len() == 0 {
			fmt.Fprintf(&sb, "%d", f.c)
		} else if f.c > 0 {
			fmt.Fprintf(&sb, " + %d", f.c)
		} else {
			fmt.Fprintf(&sb, " - %d", -f.c)
		}
	}
	return sb.String()
}
