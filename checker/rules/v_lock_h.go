package rules

import (
	"go/token"
	"go/types"

	"golang.org/x/tools/go/ssa"

	"verif/checker/ir"
)

// ---------------------------------------------------------------------------
// Round h.
//   C05.L15   who may delete the lock record: the holder only (seed C05-h2)
//   C04.W8    a parked in-memory waiter whose caller's context has ended returns (seed C04-h1)

// holderOrOwnCreateVH: the instruction at stands where the Locker is known to own the record: behind the true edge of
// the holder's compare-and-swap of the held flag (1 -> 0: Unlock, or the clean-up of an attempt), or behind the success
// edge (err == nil) of a Storage.Create issued by the same function (the record this very attempt has just created).
func (r *lockRoles) holderOrOwnCreateVH(at ssa.Instruction) bool {
	fn := at.Parent()
	var creates []*ssa.Call
	ir.Instrs(fn, func(x ssa.Instruction) {
		if cr := r.createLikeCallZA(x); cr != nil {
			creates = append(creates, cr)
		}
	})
	return ir.HasFact(at.Block(), func(f ir.Fact) bool {
		ff := f.StripNot()
		if call, ok := ff.Cond.(*ssa.Call); ok && ff.True {
			if op, addr, args, isAtomic := ir.AtomicCall(call); isAtomic && op == "CompareAndSwap" && len(args) == 2 {
				o, _ := ir.ConstInt(args[0])
				n, _ := ir.ConstInt(args[1])
				if _, isFlag := fieldAddrOf(addr, r.heldF); isFlag && o == 1 && n == 0 {
					return true
				}
			}
		}
		if cm, ok := f.Cmp(); ok && cm.Op == token.EQL {
			for _, cr := range creates {
				ev := errOf(cr)
				if ev != nil && ((ir.Resolve(cm.X) == ev && ir.IsNilConst(cm.Y)) || (ir.Resolve(cm.Y) == ev && ir.IsNilConst(cm.X))) {
					return true
				}
			}
		}
		return false
	})
}

// deleteOnlyAsHolder is C05.L15. Storage.Delete removes the record by KEY, whoever wrote it. While a caller holds the
// lock the record under the key is the holder's, so any other Locker (or goroutine sharing this one) that issues a Delete
// takes the lease away under the holder: the record is gone, the holder's next renewal finds nothing and stops, and a
// waiting caller acquires. A Locker therefore deletes only where it is known to own the record - behind its own
// held-flag compare-and-swap (Unlock / the clean-up of an attempt that holds the flag), or behind the success edge of
// the Create it issued itself. A Delete behind a FAILED Create ("the outcome is unknown, drop the orphan") is neither:
// the usual reason for a failure is that somebody else holds the lock. A Delete in a private helper is justified where
// the helper is called (every call site, two levels).
func (c *Ctx) deleteOnlyAsHolder(r *lockRoles, rule string) {
	const construct = "record deleted only by its holder or by the attempt that created it"
	what := "the lock record is deleted by key at a point where this Locker is not known to own it (neither behind its held-flag compare-and-swap nor behind the success of its own Create): when another caller holds the lock - the usual reason a Create fails - its record is removed under it, the lease is not kept, the holder's renewal finds nothing and a waiting caller acquires"
	var justified func(at ssa.Instruction, depth int) (bool, ssa.Instruction)
	justified = func(at ssa.Instruction, depth int) (bool, ssa.Instruction) {
		if r.holderOrOwnCreateVH(at) {
			return true, nil
		}
		fn := at.Parent()
		if depth >= 2 || fn.Parent() != nil || fn.Object() == nil || fn.Object().Exported() {
			return false, at
		}
		n := 0
		for _, g := range r.all {
			for _, cc := range ir.Calls(g) {
				if calleeYA(cc) != fn {
					continue
				}
				if _, plain := cc.(*ssa.Call); !plain {
					return false, cc
				}
				n++
				if ok, bad := justified(cc, depth+1); !ok {
					return false, bad
				}
			}
		}
		if n == 0 {
			return false, at
		}
		return true, nil
	}
	n := 0
	for _, fn := range r.all {
		fn := fn
		ir.Instrs(fn, func(in ssa.Instruction) {
			if r.storageCall(in, "Delete") == nil {
				return
			}
			n++
			ok, bad := justified(in, 0)
			detail := what
			if bad != nil && bad != in {
				detail += " (reached through the call at " + c.P.InstrPos(bad) + ")"
			}
			c.Decide(rule, fn, construct, in, ok, detail)
		})
	}
	if n == 0 {
		c.Decide(rule, r.unlock, construct, nil, true, "")
	}
}

// ---------------------------------------------------------------------------

// waiterReturnsOnEndedContext is C04.W8. The lock parks a contender in the storage's WaitForVersionChange under the
// caller's context and relies on that call coming back when the context ends ("a LockWithCtx whose context ends returns
// the context's error", cancellation "during the storage wait"). In the in-memory store the wait is a select with a case
// on the Done() channel of the caller's context - or of a context derived from it, whose Done() also fires for reasons
// of the store's own (a deadline at the record's expiration). From that case the routine must not go back to park again
// unless the path has looked at the CALLER's context (ctx.Err() of the parameter) and found it alive: a derived
// context's DeadlineExceeded taken for "the record expired" while it is the caller's own deadline makes the waiter go
// round for ever - the attempt never returns the context's error.
func (c *Ctx) waiterReturnsOnEndedContext(im *inmemRoles, rule string) {
	const construct = "a parked waiter whose caller's context ended returns"
	fn := im.storage["WaitForVersionChange"]
	if fn == nil {
		return
	}
	var ctxP *ssa.Parameter
	for _, p := range fn.Params {
		if ir.IsNamed(p.Type(), "context", "Context") {
			ctxP = p
		}
	}
	if ctxP == nil {
		c.Decide(rule, fn, construct, nil, false, "the wait takes no context")
		return
	}
	var reads []*ssa.Call
	ir.Instrs(fn, func(x ssa.Instruction) {
		if e, cv := ctxErrCallVG(x); e != nil && cv == ssa.Value(ctxP) {
			reads = append(reads, e)
		}
	})
	n := 0
	ir.Instrs(fn, func(in ssa.Instruction) {
		sel, ok := in.(*ssa.Select)
		if !ok || !sel.Blocking {
			return
		}
		doneIdx := -1
		for i, st := range sel.States {
			if st.Dir != types.RecvOnly {
				continue
			}
			dc, isCall := ir.Resolve(st.Chan).(*ssa.Call)
			if !isCall || !dc.Call.IsInvoke() || dc.Call.Method.Name() != "Done" {
				continue
			}
			for _, o := range ir.Origins(dc.Call.Value) {
				if derivedFromVG(o, ctxP) {
					doneIdx = i
				}
			}
		}
		if doneIdx < 0 {
			return
		}
		n++
		// only the paths that leave the select through the Done() case, and only up to the next parking
		otherCase := func(from, to *ssa.BasicBlock) bool {
			f := ir.EdgeFact(from, to)
			if f == nil {
				return false
			}
			cm, isCmp := f.Cmp()
			if !isCmp || cm.Op != token.EQL {
				return false
			}
			ex, isEx := ir.Resolve(cm.X).(*ssa.Extract)
			k, isC := ir.ConstInt(cm.Y)
			return isEx && isC && ex.Index == 0 && ex.Tuple == ssa.Value(sel) && int(k) != doneIdx
		}
		q := ir.PathQuery{Fn: fn, From: sel, StopEdge: otherCase,
			Stop: func(x ssa.Instruction) bool {
				s2, isSel := x.(*ssa.Select)
				return isSel && s2.Blocking
			},
			Target: func(x ssa.Instruction, val *ir.Valuation) bool {
				if !val.Marked("caller alive") {
					for _, e := range reads {
						if isNil, known := val.KnownIsNil(e); known && isNil {
							val.Mark("caller alive")
						}
					}
				}
				s2, isSel := x.(*ssa.Select)
				if !isSel || !s2.Blocking || val.Marked("caller alive") {
					return false
				}
				// arrived at a parking place again: through the Done() case?
				if k, known := selectCaseOnPath(val, sel); known && k != doneIdx {
					return false
				}
				return true
			}}
		c.pathVerdict(rule, fn, construct, in, q,
			"from the Done() case of the caller's context (or of a context derived from it) the waiter can go back to park again without having found the caller's own context alive: when that case fired because the caller's context ended, WaitForVersionChange does not return - a LockWithCtx whose context has ended keeps waiting (or spins) instead of returning the context's error")
	})
	if n == 0 {
		c.Decide(rule, fn, construct, nil, false, "the parked waiter has no case on the Done() channel of its caller's context")
	}
}
