package rules

// Block allocator rule of round i (C17.R18).
//
// R18 "a call that fails leaves the free counter alone". The property demands, for any concurrent mix of calls, that
// Available equals Count minus the blocks currently allocated and that ArrangeBlock answers ErrExhausted exactly when
// nothing is free. A call of ArrangeBlock / FreeBlock that returns an error allocates and frees nothing, so the set of
// allocated blocks is the same before, during and after it. The counter is read without the lock (Available, and any
// fast path that consults it), hence every intermediate value of it is observable: a failing call that modifies the
// counter - even if it puts the value back before it returns ("reserve, then undo") - lets a concurrent reader see a
// counter that disagrees with the bitmap (negative Available on a full storage), and a concurrent ArrangeBlock that
// decides on the counter fails with ErrExhausted while a block is free.
//
// Decided in the API method itself: from an unconditional atomic modification of the counter (Add, Swap, Store, And,
// Or on the counter word) no path reaches an exit of the method whose error is provably non-nil (a merged result
// counts per alternative). CompareAndSwap is not taken as a modification (a failed attempt changes nothing, and the
// retry loop of a correct lock-free reservation legitimately leads to ErrExhausted); modifications that sit in a helper
// or function literal are not judged here (the exit of the helper is not the outcome of the operation).

import (
	"go/types"

	"golang.org/x/tools/go/ssa"

	"verif/checker/ir"
)

func (c *Ctx) xc17FailedCallKeepsCounter(rule string, avail *types.Var, recount *ssa.Function, apis ...*ssa.Function) {
	for _, api := range apis {
		if api == nil || api == recount || ir.ErrResultIndex(api) < 0 {
			continue
		}
		fails := map[ssa.Instruction]bool{}
		for _, pt := range xcExitOutcomes(api) {
			if pt.Class == ir.ErrNonNil {
				fails[pt.At] = true
			}
		}
		n := 0
		ir.Instrs(api, func(in ssa.Instruction) {
			op, addr, _, ok := ir.AtomicCall(in)
			if !ok {
				return
			}
			switch op {
			case "Add", "Swap", "Store", "And", "Or":
			default:
				return
			}
			if _, isAvail := fieldAddrOf(addr, avail); !isAvail {
				return
			}
			n++
			c.NoPath(rule, "failing call does not modify the free counter", in, ir.Query{Fn: api, From: in,
				Target: func(x ssa.Instruction) bool { return fails[x] }},
				"the operation modifies the free counter and then fails: the call allocates/frees nothing, but the counter is read without the lock, so between the modification and its undo Available disagrees with the bitmap and a concurrent ArrangeBlock can answer ErrExhausted while a block is free")
		})
		if n == 0 {
			c.Decide(rule, api, "failing call does not modify the free counter", nil, true, "")
		}
	}
}
