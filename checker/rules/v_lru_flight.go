package rules

import (
	"go/constant"
	"go/token"
	"go/types"

	"golang.org/x/tools/go/ssa"

	"verif/checker/ir"
)

// Rules of the LRU cache added after seeded round "f":
//
//   C08.R10 (lruMissRunsOwnCreationV): a caller that waited for somebody else's creation looks the key up again (or
//            creates itself) before it returns; a lookup that misses runs the create function or waits
//   C08.R11 (expirableFreshOnlyNotExpiredV): the expiry wrapper hands a cached item out as fresh only on the
//            "not before now" edge of the expiry comparison
//   C09.R2  (lruReleaseInsertSectionV, one more construct): waking the waiters / dropping the in-flight entry and the
//            insert of the created value lie in ONE critical section - decided through private helpers, literals and
//            deferred calls

// isWaitV: a blocking channel receive (a statement/expression, or a receive case of a blocking select).
func isWaitV(in ssa.Instruction) bool {
	switch x := in.(type) {
	case *ssa.UnOp:
		return x.Op == token.ARROW
	case *ssa.Select:
		if !x.Blocking {
			return false
		}
		for _, st := range x.States {
			if st.Dir == types.RecvOnly {
				return true
			}
		}
	}
	return false
}

// lruMissRunsOwnCreationV (C08.R10). "A miss calls the create function once ... a failed creation changes nothing":
// whatever another caller's creation produced, a call of GetOrCreate returns either a value it found resident (a hit,
// R6) or the outcome of ITS OWN call of the create function. The in-flight table only lets a second misser wait
// instead of creating concurrently; when the wait is over the waiter knows nothing - the creation may have failed (then
// the key is absent and this call is a miss that has to create), or the value may already have been evicted. So
//
//	(a) from every wait for an in-flight creation, each path to a return passes a fresh lookup of the recency list or
//	    the caller's own call of the create function - never straight to a return with what the creator left behind
//	    (its error in particular: the create function would not run for this call at all);
//	(b) from the not-found edge of every lookup, each path to a return passes the create call, a wait (then (a)
//	    applies) or another lookup - a miss never returns without a creation of its own.
//
// Lookup and create call may sit in private helpers or literals GetOrCreate runs on every path (mustEffectH).
func (c *Ctx) lruMissRunsOwnCreationV(r *lruRoles, rule string) {
	goc := r.getOrCreate
	lv := r.locks
	lookup := newMustEffectH(lv, func(x ssa.Instruction) bool { return r.itemsCall(x, r.mGet) != nil })
	create := newMustEffectH(lv, func(x ssa.Instruction) bool { return fnValueCall(x, r.create) != nil })
	var waits []ssa.Instruction
	ir.Instrs(goc, func(in ssa.Instruction) {
		if isWaitV(in) {
			waits = append(waits, in)
		}
	})
	if len(waits) == 0 {
		// the wait sits in a helper: which of GetOrCreate's paths have waited cannot be read off GetOrCreate (the normal
		// form inlines the helper); no wait at all: nothing to decide here (C09.R3 wants the wait)
		elsewhere := false
		scope := r.gocScope()
		for _, fn := range lv.reachable(goc) {
			if fn == goc || !scope[fn] {
				continue
			}
			ir.Instrs(fn, func(in ssa.Instruction) {
				if isWaitV(in) {
					elsewhere = true
				}
			})
		}
		if elsewhere {
			c.Undecided(rule, goc, "waiter looks the key up again or creates itself", nil, "the wait for an in-flight creation is performed by a helper of GetOrCreate; the rule needs it in line (normal form)")
		} else {
			c.Decide(rule, goc, "waiter looks the key up again or creates itself", nil, true, "")
		}
	}
	for _, w := range waits {
		c.NoFlow(rule, "waiter looks the key up again or creates itself", w, ir.Flow{Fn: goc, From: w,
			Block:  func(x ssa.Instruction) bool { return lookup.Is(x) || create.Is(x) },
			Target: ir.IsExit},
			"after waiting for another caller's creation GetOrCreate returns without a fresh lookup and without calling the create function itself: when that creation failed this call is a miss, it has to run its own creation - instead it hands out the other caller's outcome (its error) and the key stays absent")
	}
	// (b) a miss creates or waits
	ir.Instrs(goc, func(in ssa.Instruction) {
		get := r.itemsCall(in, r.mGet)
		if get == nil || r.firstRooted(get.Call.Args[1]) {
			return // (a lookup of the oldest key reads the victim of an eviction, not the requested key)
		}
		var foundV ssa.Value
		if refs := get.Referrers(); refs != nil {
			for _, ref := range *refs {
				if ex, ok := ref.(*ssa.Extract); ok && ex.Index == 1 {
					foundV = ex
				}
			}
		}
		if foundV == nil || !branchedOnV(foundV, 0) {
			return // the found result is not branched on: not a lookup that decides hit or miss
		}
		c.NoFlow(rule, "miss runs the create function or waits for the creation in flight", get, ir.Flow{Fn: goc, From: get,
			Assume: []ir.Fact{{Cond: foundV, True: false}},
			Block: func(x ssa.Instruction) bool {
				return create.Is(x) || isWaitV(x) || lookup.Is(x)
			},
			Target: ir.IsExit},
			"a lookup that does not find the key can lead to a return without the create function having been called by this caller and without a wait for a creation in flight: a miss that creates nothing")
	})
}

// expirableFreshOnlyNotExpiredV (C08.R11). The expiry wrapper replaces an item exactly when its expiry lies before the
// clock reading ("expiry replacement": the stale entry leaves the cache - delete callback once - and is created again).
// R5 decides one direction (what is removed is expired); this is the other one: an item the inner cache returned
// successfully is handed out as it is - without Remove and re-creation - only on paths on which the staleness
// comparison "expiry of this item before now" (t.Before(now) / now.After(t), also behind a predicate helper, now a
// time.Now() of the wrapper) was evaluated and came out false. A path that skips the comparison (a short-circuit in
// front of it: zero expiry, a flag of the item, a minimum age ...) declares a class of expired items fresh for ever:
// they stay resident, the delete callback never runs for them, the create function is not called again.
func (c *Ctx) expirableFreshOnlyNotExpiredV(r *lruRoles, rule string) {
	exp := c.P.LookupType("container/lru", "ExpirableCache")
	if exp == nil {
		c.Fatalf("role ExpirableCache not found")
	}
	fn := c.RequireFn(c.P.MethodOf(exp, "GetOrCreate"), "ExpirableCache.GetOrCreate")
	const what = "cached item handed out as fresh only on the not-expired edge"
	isInner := func(call *ssa.Call, name string, role *ssa.Function) bool {
		cal := ir.StaticCallee(call)
		return cal != nil && cal != fn && (cal == role || cal.Name() == name)
	}
	var gocs, rems []*ssa.Call
	for _, ci := range ir.Calls(fn) {
		call, ok := ci.(*ssa.Call)
		if !ok {
			continue
		}
		if isInner(call, "GetOrCreate", r.getOrCreate) {
			gocs = append(gocs, call)
		} else if isInner(call, "Remove", r.remove) {
			rems = append(rems, call)
		}
	}
	if len(gocs) == 0 {
		c.Undecided(rule, fn, what, nil, "the wrapper does not call the inner GetOrCreate itself")
		return
	}
	first := gocs[0]
	for _, g := range gocs {
		if ir.Dominates(g, first) {
			first = g
		}
	}
	// the item under test: the value result of the first inner GetOrCreate
	isItem := func(v ssa.Value) bool {
		for _, o := range ir.Origins(v) {
			o = ir.Resolve(o)
			if ex, ok := o.(*ssa.Extract); ok && ex.Tuple == ssa.Value(first) && ex.Index == 0 {
				return true
			}
		}
		return false
	}
	notExpired := func(f ir.Fact) bool {
		f = f.StripNot()
		if f.True {
			return false
		}
		subj, nowV, ok := staleTestH(f.Cond, 0)
		if !ok || !isItem(subj) {
			return false
		}
		now, isNow := ir.Resolve(nowV).(*ssa.Call)
		return isNow && ir.CalleeFullName(now) == "time.Now"
	}
	isReplace := func(x ssa.Instruction) bool {
		for _, rm := range rems {
			if x == ssa.Instruction(rm) {
				return true
			}
		}
		for _, g := range gocs {
			if g != first && x == ssa.Instruction(g) {
				return true
			}
		}
		return false
	}
	n := 0
	for _, ret := range ir.Returns(fn) {
		ret := ret
		if len(ret.Results) < 2 {
			continue
		}
		// a return that hands out the item of the first lookup ...
		if !isItem(ir.ResultValue(ret, 0)) && !isItem(ret.Results[0]) {
			continue
		}
		// ... on a way on which the lookup did not fail (the error exit returns the zero value the lookup produced)
		var errV ssa.Value
		if refs := first.Referrers(); refs != nil {
			for _, ref := range *refs {
				if ex, ok := ref.(*ssa.Extract); ok && ex.Index == 1 {
					errV = ex
				}
			}
		}
		if errV != nil && ir.ClassifyErr(errV, ret.Block()) == ir.ErrNonNil {
			continue
		}
		n++
		q := ir.Query{Fn: fn, From: first, Block: isReplace, BlockFact: notExpired,
			Target: func(x ssa.Instruction) bool { return x == ssa.Instruction(ret) }}
		q.Assume = errNilFactsV(errV)
		c.NoPath(rule, what, ret, q,
			"the wrapper can return the cached item as fresh on a path on which the comparison of its expiry with the clock was not made (or is not known to have come out 'not before now'): items of that class are never replaced although they are expired - no delete callback, no second creation, resident for ever")
	}
	if n == 0 {
		c.Decide(rule, fn, what, nil, true, "")
	}
}

// branchedOnV: the boolean v (or its negation, or a phi it flows into) is the condition of a branch.
func branchedOnV(v ssa.Value, depth int) bool {
	if v == nil || v.Referrers() == nil || depth > 3 {
		return false
	}
	for _, ref := range *v.Referrers() {
		switch x := ref.(type) {
		case *ssa.If:
			return true
		case *ssa.UnOp:
			if x.Op == token.NOT && branchedOnV(x, depth+1) {
				return true
			}
		case *ssa.Phi:
			if branchedOnV(x, depth+1) {
				return true
			}
		}
	}
	return false
}

// errNilFactsV: the facts "err is nil" in terms of the comparisons of errV with nil that occur in its function (err == nil
// is true, err != nil is false); a path query that assumes them does not take the failure edges of those tests.
func errNilFactsV(errV ssa.Value) []ir.Fact {
	if errV == nil || errV.Referrers() == nil {
		return nil
	}
	var res []ir.Fact
	for _, ref := range *errV.Referrers() {
		bo, ok := ref.(*ssa.BinOp)
		if !ok || !((bo.X == errV && ir.IsNilConst(bo.Y)) || (bo.Y == errV && ir.IsNilConst(bo.X))) {
			continue
		}
		switch bo.Op {
		case token.EQL:
			res = append(res, ir.Fact{Cond: bo, True: true})
		case token.NEQ:
			res = append(res, ir.Fact{Cond: bo, True: false})
		}
	}
	return res
}

// ---------------------------------------------------------------------------
// release of the waiters and insert in one critical section, across helpers (C09.R2)

// The events of one run of GetOrCreate, in program order:
//
//	C  the create function is called, or an in-flight entry is registered   (a new round starts)
//	X  the in-flight channel is closed                                      (waiters are released)
//	D  the in-flight entry is deleted                                       (the key is no longer "being created")
//	Y  a value is inserted into the recency list
//	B  a boundary of a critical section of the cache mutex (Lock/Unlock/..., in place, deferred or inside a helper)
//
// and the automaton
//
//	S0   nothing released             X,D -> SX    Y,B -> S0
//	SX   released, section still open X,D,Y -> SX  B -> SXB    C -> S0
//	SXB  released, section ended      D,Y -> V     X,B -> SXB  C -> S0
//	V    released in one critical section, completed (entry dropped / value inserted) in a later one
//
// Functions are summarised as state transformers and composed at calls (private helpers, literals called in place or
// handed to a wrapper, deferred calls at the exits in reverse order), so a helper that locks for itself, one that
// expects the lock and a deferred epilogue give what their inlined bodies would give. May-analysis over all CFG paths.
const (
	vS0 uint8 = 1 << iota
	vSX
	vSXB
	vV
)

type flightV struct {
	r     *lruRoles
	lv    *lockViewH
	memo  map[*ssa.Function]*[3]uint8
	doing map[*ssa.Function]bool
}

func vMap(m uint8, s0, sx, sxb uint8) uint8 {
	var o uint8
	if m&vS0 != 0 {
		o |= s0
	}
	if m&vSX != 0 {
		o |= sx
	}
	if m&vSXB != 0 {
		o |= sxb
	}
	if m&vV != 0 {
		o |= vV
	}
	return o
}

func vApply(m uint8, t *[3]uint8) uint8 { return vMap(m, t[0], t[1], t[2]) }

// event applies the event of instruction in itself (not of what it calls); ok = false: in is no event.
func (s *flightV) event(in ssa.Instruction, m uint8) (uint8, bool) {
	r := s.r
	if r.isMutexBoundaryZ(in) {
		return vMap(m, vS0, vSXB, vSXB), true
	}
	if fnValueCall(in, r.create) != nil || r.isInflightRegZ(in) {
		return vMap(m, vS0, vS0, vS0), true
	}
	if builtinCall(in, "close") != nil {
		return vMap(m, vSX, vSX, vSXB), true
	}
	if r.isInflightDeregZ(in) {
		return vMap(m, vSX, vSX, vV), true
	}
	if r.itemsCall(in, r.mAdd) != nil {
		return vMap(m, vS0, vSX, vV), true
	}
	return m, false
}

func (s *flightV) callees(ci ssa.CallInstruction) (fns []*ssa.Function, star bool) {
	cc := ci.Common()
	if cc.IsInvoke() {
		return nil, false
	}
	if cal := ir.StaticCallee(ci); cal != nil && s.lv.fns[cal] {
		return []*ssa.Function{cal}, false
	}
	if cc.StaticCallee() == nil {
		return s.lv.literalsOf(cc.Value, 0), false
	}
	for _, a := range cc.Args {
		if mc, isMC := ir.Resolve(a).(*ssa.MakeClosure); isMC {
			if f, isF := mc.Fn.(*ssa.Function); isF && s.lv.fns[f] {
				fns = append(fns, f)
			}
		}
	}
	return fns, len(fns) > 0
}

func (s *flightV) step(in ssa.Instruction, m uint8, deferred bool, at ssa.Instruction, assume map[*ssa.FreeVar]bool) uint8 {
	switch in.(type) {
	case *ssa.Go:
		return m
	case *ssa.Defer:
		if !deferred {
			return m
		}
	}
	if o, ok := s.event(in, m); ok {
		return o
	}
	ci, ok := in.(ssa.CallInstruction)
	if !ok {
		return m
	}
	fns, star := s.callees(ci)
	if len(fns) == 0 {
		return m
	}
	if star {
		for i := 0; i < 8; i++ {
			n := m
			for _, f := range fns {
				n |= vApply(m, s.summary(f, nil))
			}
			if n == m {
				break
			}
			m = n
		}
		return m
	}
	var o uint8
	for _, f := range fns {
		if rootFnH(f) != s.r.getOrCreate && f.Object() != nil && f.Object().Exported() {
			// another operation of the cache (it locks for itself): a boundary
			o |= vMap(m, vS0, vSXB, vSXB)
			continue
		}
		o |= vApply(m, s.summary(f, s.calleeAssume(ci, f, at, assume)))
	}
	return o
}

// calleeAssume: what is known, at the place `at` where the literal lit is invoked through ci, about the boolean variables
// the literal captures: a variable of the enclosing function whose last assignment before `at` (in the same block, or up
// a chain of single predecessors) stores a constant, and that no literal writes; or a variable the caller itself
// captures and knows. This is what makes the idiom
//
//	done := false; defer func() { if !done { cleanup() } }(); ...; done = true; return
//
// read as it runs on a normal return: the deferred clean-up is skipped.
func (s *flightV) calleeAssume(ci ssa.CallInstruction, lit *ssa.Function, at ssa.Instruction, assume map[*ssa.FreeVar]bool) map[*ssa.FreeVar]bool {
	mc, ok := ir.Resolve(ci.Common().Value).(*ssa.MakeClosure)
	if !ok || mc.Fn != ssa.Value(lit) || at == nil {
		return nil
	}
	var res map[*ssa.FreeVar]bool
	set := func(fv *ssa.FreeVar, v bool) {
		if res == nil {
			res = map[*ssa.FreeVar]bool{}
		}
		res[fv] = v
	}
	for i, b := range mc.Bindings {
		if i >= len(lit.FreeVars) {
			break
		}
		switch x := b.(type) {
		case *ssa.FreeVar:
			if v, known := assume[x]; known {
				set(lit.FreeVars[i], v)
			}
		case *ssa.Alloc:
			if v, known := lastConstStoreV(x, at); known {
				set(lit.FreeVars[i], v)
			}
		}
	}
	return res
}

// lastConstStoreV: the boolean constant the cell holds when `at` runs: the last store to it before `at` - in the block of
// `at`, or up a chain of single predecessors - stores a constant, and the cell is written by its own function only.
func lastConstStoreV(cell *ssa.Alloc, at ssa.Instruction) (val, known bool) {
	if cell.Parent() == nil || at.Parent() != cell.Parent() {
		return false, false
	}
	for _, st := range ir.StoresTo(cell) {
		if st.Parent() != cell.Parent() {
			return false, false
		}
	}
	b := at.Block()
	idx := -1
	for i, in := range b.Instrs {
		if in == at {
			idx = i
		}
	}
	if idx < 0 {
		return false, false
	}
	for hops := 0; hops < 4; hops++ {
		for i := idx - 1; i >= 0; i-- {
			st, ok := b.Instrs[i].(*ssa.Store)
			if !ok || st.Addr != ssa.Value(cell) {
				continue
			}
			k, isC := st.Val.(*ssa.Const)
			if !isC || k.Value == nil || k.Value.Kind() != constant.Bool {
				return false, false
			}
			return constant.BoolVal(k.Value), true
		}
		if len(b.Preds) != 1 {
			return false, false
		}
		b = b.Preds[0]
		idx = len(b.Instrs)
	}
	return false, false
}

// condKnownV: the branch condition v is (the negation of) a boolean constant, or of a captured boolean variable whose
// value is assumed.
func condKnownV(v ssa.Value, assume map[*ssa.FreeVar]bool) (val, known bool) {
	// a flag that was a local of an inlined helper is a constant of the SSA form by the time it is tested
	if k, isC := v.(*ssa.Const); isC && k.Value != nil && k.Value.Kind() == constant.Bool {
		return constant.BoolVal(k.Value), true
	}
	u, ok := v.(*ssa.UnOp)
	if !ok {
		return false, false
	}
	switch u.Op {
	case token.NOT:
		x, k := condKnownV(u.X, assume)
		return !x, k
	case token.MUL:
		if fv, isFV := u.X.(*ssa.FreeVar); isFV {
			x, k := assume[fv]
			return x, k
		}
	}
	return false, false
}

func (s *flightV) run(fn *ssa.Function, start uint8, assume map[*ssa.FreeVar]bool, visit func(in ssa.Instruction, before, after uint8)) uint8 {
	if len(fn.Blocks) == 0 {
		return start
	}
	var defers []ssa.Instruction
	ir.Instrs(fn, func(in ssa.Instruction) {
		if _, ok := in.(*ssa.Defer); ok {
			defers = append(defers, in)
		}
	})
	inSet := make([]uint8, len(fn.Blocks))
	inSet[0] = start
	var exit uint8
	transfer := func(b *ssa.BasicBlock, m uint8, record bool) uint8 {
		for _, in := range b.Instrs {
			before := m
			switch in.(type) {
			case *ssa.RunDefers:
				for i := len(defers) - 1; i >= 0; i-- {
					m = s.step(defers[i], m, true, in, assume)
				}
			case *ssa.Return:
				if record {
					exit |= m
				}
			default:
				m = s.step(in, m, false, in, assume)
			}
			if record && visit != nil {
				visit(in, before, m)
			}
		}
		return m
	}
	work := []*ssa.BasicBlock{fn.Blocks[0]}
	for n := 0; len(work) > 0 && n < 10000; n++ {
		b := work[len(work)-1]
		work = work[:len(work)-1]
		out := transfer(b, inSet[b.Index], false)
		if out == 0 {
			continue
		}
		for i, sc := range b.Succs {
			// a branch on a captured flag whose value is known here takes one edge only
			if iff, isIf := b.Instrs[len(b.Instrs)-1].(*ssa.If); isIf && len(b.Succs) == 2 {
				if v, known := condKnownV(iff.Cond, assume); known && ((v && i == 1) || (!v && i == 0)) {
					continue
				}
			}
			if inSet[sc.Index]|out != inSet[sc.Index] {
				inSet[sc.Index] |= out
				work = append(work, sc)
			}
		}
	}
	for _, b := range fn.Blocks {
		if inSet[b.Index] != 0 {
			transfer(b, inSet[b.Index], true)
		}
	}
	return exit
}

// summary: the state transformer of fn; assume (optional) fixes captured boolean flags of a literal for this one
// invocation (such a summary is not memoised).
func (s *flightV) summary(fn *ssa.Function, assume map[*ssa.FreeVar]bool) *[3]uint8 {
	if len(assume) == 0 {
		if t, ok := s.memo[fn]; ok {
			return t
		}
	}
	id := &[3]uint8{vS0, vSX, vSXB}
	if s.doing[fn] || len(fn.Blocks) == 0 {
		return id
	}
	s.doing[fn] = true
	t := &[3]uint8{}
	for i := 0; i < 3; i++ {
		t[i] = s.run(fn, 1<<uint(i), assume, nil)
	}
	delete(s.doing, fn)
	if len(assume) == 0 {
		s.memo[fn] = t
	}
	return t
}

// lruReleaseInsertSectionV (C09.R2). Single flight rests on the key being, at every moment the mutex is free, either
// resident, or registered as in flight, or neither because nothing was created. The creator's epilogue - wake the
// waiters (close), drop the registration (delete), insert the created value (Add) - is therefore ONE critical section.
// When the waiters are released or the registration is dropped in one section and the value is inserted (or the
// registration dropped) in a later one, a waiter or a newcomer gets the mutex in between, finds the key neither
// resident nor in flight, registers and runs the create function a second time although nothing was removed: two values
// for one key, one of them returned but never resident and never handed to the delete callback.
// The intra-procedural clause of R2 ("close, deregister and insert in one critical section") reads the three events
// off the body of GetOrCreate; this one composes them over the private helpers, literals and deferred calls GetOrCreate
// runs (a create() helper whose deferred epilogue locks, releases and unlocks by itself, a finish() helper that locks
// for itself), where the section boundaries are invisible to a rule that looks at one body.
func (c *Ctx) lruReleaseInsertSectionV(r *lruRoles, rule string) {
	s := &flightV{r: r, lv: r.locks, memo: map[*ssa.Function]*[3]uint8{}, doing: map[*ssa.Function]bool{}}
	goc := r.getOrCreate
	var at ssa.Instruction
	end := s.run(goc, vS0, nil, func(in ssa.Instruction, before, after uint8) {
		if _, isRD := in.(*ssa.RunDefers); at == nil && !isRD && before&^vV != 0 && s.step(in, before&^vV, false, in, nil)&vV != 0 {
			at = in
		}
		if _, isRD := in.(*ssa.RunDefers); at == nil && isRD && before&vV == 0 && after&vV != 0 {
			at = in
		}
	})
	bad := end&vV != 0 || at != nil
	c.Decide(rule, goc, "waiters released, entry dropped and value inserted in one critical section (through helpers and deferred calls)", at, !bad,
		"on some path of GetOrCreate the in-flight channel is closed / the in-flight entry is deleted in one critical section of the cache mutex and the created value is inserted (or the entry deleted) only in a later one - possibly inside a helper or a deferred call that locks for itself: in the gap the key is neither resident nor in flight, a released waiter or a newcomer misses, registers and runs the create function a second time; one of the two values is returned but never resident and never passed to the delete callback")
}
