package rules

// C16.R3 / R5 / R6 for decoders built from a shared range helper and for batch decoders.
//
// (1) Bounded results of a private decoder. A private function of the codec that reads a header from its buffer and
// returns, besides the consumed count, further OFFSETS into that buffer (`bytesRange(buf) (from, to int, err error)`)
// does the bounds reasoning once for its callers. A result i of such a function is *bounded* when at every exit that can
// be a success it is provably within [0, len(buf)] of the function's own buffer parameter: the consumed count of a
// decoder it applied to that buffer, a bounded result of one, a constant covered by the length guard, or the end
// offset header + int(length) where an unsigned branch fact says length <= len(buf) - header for the same header call
// (the very fact R3 asks for where a wire length is used). In a caller the extracted bounded result is then not a raw
// wire length any more (R3 has nothing to bound: the callee did it, and R3 checks the callee's own arithmetic) but an
// offset within the buffer that was passed - exactly how the consumed count (result 0) has always been treated. When the
// helper loses its bound the result stops being bounded, the helper's arithmetic is reported by R3 inside it, and the
// callers' uses are reported as wire lengths again.
//
// (2) A running offset. `off := 0; for ... { a, b, err := dec(buf[off:]); ...; off += b }`: the loop variable off is within
// [0, len(buf)] at the loop header by induction - it starts at 0, and what is added on every back edge is a consumed
// count / bounded result of a decoder applied to exactly buf[off:], hence at most len(buf) - off. R6 accepts such a
// variable as the consumed count of a success exit.
//
// (3) A list of values. A result of type [][]byte (a slice of byte sequences) built by append derives from the input
// when every appended element does (R5 for each element) and the list starts empty.

import (
	"go/token"
	"go/types"
	"sync"

	"golang.org/x/tools/go/ssa"

	"verif/checker/ir"
)

type boundedKeyV struct {
	fn  *ssa.Function
	idx int
}

var boundedResultsV sync.Map // boundedKeyV -> bool

// boundedResultV: result idx of the private decoder-like function cal is within [0, len(its buffer)] at every exit that
// can be a success.
func (c *Ctx) boundedResultV(cal *ssa.Function, idx int) bool {
	if cal == nil || len(cal.Blocks) == 0 || !decoderLikeB(cal) || (cal.Object() != nil && cal.Object().Exported()) {
		return false
	}
	rs := cal.Signature.Results()
	if idx <= 0 || idx >= statusIndexB(cal) || idx >= rs.Len() || !isIntTypeB(rs.At(idx).Type()) {
		return false
	}
	key := boundedKeyV{cal, idx}
	if v, ok := boundedResultsV.Load(key); ok {
		return v.(bool)
	}
	boundedResultsV.Store(key, false) // recursion: not bounded
	buf := bufParam(cal, false)
	ok := buf != nil
	n := 0
	var rets []*ssa.Return
	if ok {
		for _, ep := range exitsOfB(cal) {
			switch exitClassB(cal, ep) {
			case ir.ErrNonNil:
				continue
			case ir.ErrUnknown:
				ok = false
			}
			n++
			cx := ctxOfB(ep.Facts)
			if !c.withinOwnBufferV(cx, cx.refine(ep.Result(idx)), buf, cal.Pkg) {
				ok = false
			}
			rets = append(rets, ep.Ret)
		}
	}
	ok = ok && n > 0
	boundedResultsV.Store(key, ok)
	if ok {
		for _, ret := range rets {
			c.Decide("C16.R6", cal, "offset result within the input", ret, true, "")
		}
	}
	return ok
}

// decoderCallOnV: v is result idx (0: the count; other: a bounded result) of a decoder of pkg applied to buf itself.
func (c *Ctx) decoderCallOnV(v ssa.Value, buf ssa.Value, pkg *ssa.Package) *ssa.Call {
	ex, ok := v.(*ssa.Extract)
	if !ok {
		return nil
	}
	call, ok := ex.Tuple.(*ssa.Call)
	if !ok {
		return nil
	}
	cal := ir.StaticCallee(call)
	if cal == nil || cal.Pkg != pkg || !decoderLikeB(cal) || !same(decBufArgB(call), buf) {
		return nil
	}
	if ex.Index == 0 || c.boundedResultV(cal, ex.Index) {
		return call
	}
	return nil
}

func (c *Ctx) withinOwnBufferV(cx *linCtxB, v ssa.Value, buf ssa.Value, pkg *ssa.Package) bool {
	if v == nil {
		return false
	}
	if k, isC := ir.ConstInt(v); isC {
		return k >= 0 && cx.lenAtLeast(buf) >= k
	}
	if c.decoderCallOnV(v, buf, pkg) != nil {
		return true
	}
	bo, ok := v.(*ssa.BinOp)
	if !ok || bo.Op != token.ADD {
		return false
	}
	for _, pair := range [][2]ssa.Value{{bo.X, bo.Y}, {bo.Y, bo.X}} {
		hdr, ln := cx.refine(pair[0]), cx.refine(pair[1])
		ex, isEx := hdr.(*ssa.Extract)
		if !isEx || ex.Index != 0 {
			continue
		}
		call := c.decoderCallOnV(hdr, buf, pkg)
		if call == nil || wireLengthV(ln, pkg) != call {
			continue
		}
		// an unsigned fact: length <= len(buf) - header of the same call
		for _, f := range cx.facts {
			cm, isCmp := f.Cmp()
			if !isCmp {
				continue
			}
			op, x, y := cm.Op, cm.X, cm.Y
			if wireLengthV(x, pkg) != call {
				x, y, op = y, x, ir.SwapOp(op)
			}
			if wireLengthV(x, pkg) != call || !isUnsignedTypeB(x.Type()) || !isUnsignedTypeB(y.Type()) {
				continue
			}
			if _, conv := x.(*ssa.Convert); conv {
				continue // the comparison must be made on the unsigned wire value itself
			}
			if (op == token.LEQ || op == token.LSS || op == token.EQL) && remainingAfterV(cx, y, buf, call) {
				return true
			}
		}
	}
	return false
}

// runningOffsetV: cnt is a loop variable that starts at 0 and to which, on every back edge, the count (or a bounded result)
// of a decoder applied to buf[cnt:] is added.
func (c *Ctx) runningOffsetV(cnt ssa.Value, buf ssa.Value, pkg *ssa.Package) bool {
	p, ok := cnt.(*ssa.Phi)
	if !ok || !isLoopHeaderB(p.Block()) {
		return false
	}
	h := p.Block()
	back := 0
	for i, pred := range h.Preds {
		e := p.Edges[i]
		if !h.Dominates(pred) {
			if k, isC := ir.ConstInt(e); !isC || k != 0 {
				return false
			}
			continue
		}
		back++
		bo, isBin := e.(*ssa.BinOp)
		if !isBin || bo.Op != token.ADD {
			return false
		}
		add := bo.Y
		if bo.X != ssa.Value(p) {
			if bo.Y != ssa.Value(p) {
				return false
			}
			add = bo.X
		}
		ex, isEx := add.(*ssa.Extract)
		if !isEx {
			return false
		}
		call, isCall := ex.Tuple.(*ssa.Call)
		if !isCall {
			return false
		}
		cal := ir.StaticCallee(call)
		if cal == nil || cal.Pkg != pkg || !decoderLikeB(cal) || !(ex.Index == 0 || c.boundedResultV(cal, ex.Index)) {
			return false
		}
		win, isSl := ir.Resolve(decBufArgB(call)).(*ssa.Slice)
		if !isSl || win.High != nil || win.Max != nil || win.Low != ssa.Value(p) || !same(win.X, buf) {
			return false
		}
	}
	return back > 0
}

// appendedFromInputV: v is a list (a slice whose elements are byte sequences) that starts empty and grows by append;
// check is applied to every appended element. handled=false: v is not such a list.
func (c *Ctx) appendedFromInputV(v ssa.Value, check func(elem ssa.Value) (bool, string)) (ok bool, why string, handled bool) {
	sl, isSl := v.Type().Underlying().(*types.Slice)
	if !isSl || !isByteSeqB(sl.Elem()) {
		return false, "", false
	}
	seen := map[ssa.Value]bool{}
	ok, handled = true, true
	var walk func(v ssa.Value, depth int)
	walk = func(v ssa.Value, depth int) {
		v = ir.Resolve(v)
		if v == nil || seen[v] || !ok {
			return
		}
		seen[v] = true
		if depth > 12 {
			ok, why = false, "the list is built too deeply"
			return
		}
		switch x := v.(type) {
		case *ssa.Const:
			if !x.IsNil() {
				ok, why = false, "the list starts from a constant"
			}
		case *ssa.MakeSlice:
			if k, isC := ir.ConstInt(x.Len); !isC || k != 0 {
				ok, why = false, "the list is made with elements that are not read from the input"
			}
		case *ssa.Phi:
			for _, e := range x.Edges {
				walk(e, depth+1)
			}
		case *ssa.Call:
			cc := builtinCall(x, "append")
			if cc == nil || len(cc.Args) != 2 {
				ok, why = false, "the list comes from "+ir.CalleeFullName(x)
				return
			}
			walk(cc.Args[0], depth+1)
			elems := variadicArgs(cc.Args[1])
			if elems == nil {
				walk(cc.Args[1], depth+1) // append(a, b...)
				return
			}
			for _, el := range elems {
				if el == nil {
					ok, why = false, "an appended element is not followed"
					return
				}
				if eok, ewhy := check(el); !eok {
					ok, why = false, ewhy
					return
				}
			}
		default:
			ok, why = false, "unrecognised origin of the list "+v.String()
		}
	}
	walk(v, 0)
	return ok, why, handled
}

// offsetUseV: instruction in uses the R3-watched value v in a way that the bound proved by a private decoder covers:
//   - v is a bounded result of a decoder call whose buffer argument is A: a bound of a slice expression on A, or the
//     operand of v + o where A = X[o:] (no upper bound);
//   - v is a running offset over buf (runningOffsetV): a bound of a slice expression on buf, or an operand of v + r where r
//     is a count / bounded result of a decoder applied to buf[v:].
func (c *Ctx) offsetUseV(in ssa.Instruction, v ssa.Value, buf ssa.Value) bool {
	fn := in.Parent()
	if fn == nil {
		return false
	}
	boundedOn := func(x ssa.Value) (arg ssa.Value, ok bool) {
		ex, isEx := x.(*ssa.Extract)
		if !isEx {
			return nil, false
		}
		call, isCall := ex.Tuple.(*ssa.Call)
		if !isCall {
			return nil, false
		}
		cal := ir.StaticCallee(call)
		if cal == nil || cal.Pkg != fn.Pkg || !(ex.Index == 0 || c.boundedResultV(cal, ex.Index)) || !decoderLikeB(cal) {
			return nil, false
		}
		return decBufArgB(call), true
	}
	windowStart := func(a ssa.Value) ssa.Value {
		if w, ok := ir.Resolve(a).(*ssa.Slice); ok && w.High == nil && w.Max == nil {
			return w.Low
		}
		return nil
	}
	if arg, ok := boundedOn(v); ok && arg != nil {
		switch x := in.(type) {
		case *ssa.Slice:
			return same(x.X, arg) && (x.Low == v || x.High == v)
		case *ssa.BinOp:
			if x.Op != token.ADD {
				return false
			}
			other := x.X
			if other == v {
				other = x.Y
			}
			start := windowStart(arg)
			return start != nil && other == start
		}
		return false
	}
	if c.runningOffsetV(v, buf, fn.Pkg) {
		switch x := in.(type) {
		case *ssa.Slice:
			return same(x.X, buf) && (x.Low == v || x.High == v)
		case *ssa.BinOp:
			if x.Op != token.ADD {
				return false
			}
			other := x.X
			if other == v {
				other = x.Y
			}
			arg, ok := boundedOn(other)
			return ok && arg != nil && windowStart(arg) == v
		}
	}
	return false
}
