package rules

// C16.R8 - every way round a decoder loop advances the input cursor.
//
// "Each Unmarshal function returns" includes that its loops end. A decoder loop walks the input with a cursor: an index
// that the loop carries (a phi of the loop header that is used to index or to cut the buffer), or a window of the
// buffer that shrinks (rest = rest[k:]). The loop can only end through a test of that cursor against the length of the
// input (R2 / S8 look at the test). On a way round the loop - a back edge - on which the cursor arrives unchanged the
// next iteration reads the same byte of the same immutable input; when the other loop-carried values arrive unchanged
// too, the iteration repeats itself exactly and the decoder never returns (a `continue` that bypasses the idx++ at the
// bottom of the loop).
//
// Clause, for every loop of the exported decoders and of the private functions they hand their input to: for every
// cursor of the loop (an integer phi of the header that reaches an index or a slice bound of the buffer, or a phi of
// the header that is a window of the buffer) and every back edge, the operand arriving over that edge is not
// recognisably the value the cursor had at the header: not the phi itself (also through phis merged in the body), not
// the phi plus zero, not the window re-sliced from 0. An operand the rule cannot relate to the phi (a sum with a
// decoded count, a helper result) is not objected to: progress by an unknown amount is R6's business.

import (
	"go/token"
	"go/types"

	"golang.org/x/tools/go/ssa"

	"verif/checker/ir"
)

// unchangedV: v is recognisably equal to the header phi p (the value of the iteration that is ending).
func unchangedV(v ssa.Value, p *ssa.Phi, depth int) bool {
	if depth > 4 || v == nil {
		return false
	}
	if v == ssa.Value(p) {
		return true
	}
	switch x := v.(type) {
	case *ssa.Phi:
		if x.Block() == p.Block() {
			return false
		}
		for _, e := range x.Edges {
			if !unchangedV(e, p, depth+1) {
				return false
			}
		}
		return len(x.Edges) > 0
	case *ssa.BinOp:
		if x.Op == token.ADD || x.Op == token.SUB || x.Op == token.OR || x.Op == token.SHL {
			if k, isC := ir.ConstInt(x.Y); isC && k == 0 {
				return unchangedV(x.X, p, depth+1)
			}
			if k, isC := ir.ConstInt(x.X); isC && k == 0 && (x.Op == token.ADD || x.Op == token.OR) {
				return unchangedV(x.Y, p, depth+1)
			}
		}
	case *ssa.Slice:
		if x.High == nil && x.Max == nil {
			if x.Low == nil {
				return unchangedV(x.X, p, depth+1)
			}
			if k, isC := ir.ConstInt(x.Low); isC && k == 0 {
				return unchangedV(x.X, p, depth+1)
			}
		}
	case *ssa.Convert:
		return unchangedV(x.X, p, depth+1)
	}
	return false
}

// cursorPhisV: the phis of loop header h that walk the buffer buf.
func cursorPhisV(h *ssa.BasicBlock, buf ssa.Value) []*ssa.Phi {
	views := bufViewsG(h.Parent(), buf)
	var res []*ssa.Phi
	for _, in := range h.Instrs {
		p, ok := in.(*ssa.Phi)
		if !ok {
			break
		}
		if _, isSl := p.Type().Underlying().(*types.Slice); isSl {
			if views[p] {
				res = append(res, p)
			}
			continue
		}
		if !isIntTypeB(p.Type()) {
			continue
		}
		// reaches an index / slice bound of a view of the buffer through arithmetic and conversions
		seen := map[ssa.Value]bool{}
		var uses func(v ssa.Value, d int) bool
		uses = func(v ssa.Value, d int) bool {
			if d > 4 || seen[v] || v.Referrers() == nil {
				return false
			}
			seen[v] = true
			for _, r := range *v.Referrers() {
				switch x := r.(type) {
				case *ssa.IndexAddr:
					if x.Index == v && (views[x.X] || same(sliceRoot(x.X), buf)) {
						return true
					}
				case *ssa.Slice:
					if (x.Low == v || x.High == v) && (views[x.X] || same(sliceRoot(x.X), buf)) {
						return true
					}
				case *ssa.BinOp:
					if (x.Op == token.ADD || x.Op == token.SUB) && uses(x, d+1) {
						return true
					}
				case *ssa.Convert:
					if uses(x, d+1) {
						return true
					}
				}
			}
			return false
		}
		if uses(p, 0) {
			res = append(res, p)
		}
	}
	return res
}

// loopsAdvanceCursor is C16.R8 for function fn with input buffer buf.
func (c *Ctx) loopsAdvanceCursor(fn *ssa.Function, buf ssa.Value) int {
	n := 0
	for _, h := range fn.Blocks {
		if !isLoopHeaderB(h) {
			continue
		}
		for _, p := range cursorPhisV(h, buf) {
			n++
			var stuck *ssa.BasicBlock
			for i, pred := range h.Preds {
				if h.Dominates(pred) && unchangedV(p.Edges[i], p, 0) {
					stuck = pred
				}
			}
			var at ssa.Instruction = p
			if stuck != nil && len(stuck.Instrs) > 0 {
				at = stuck.Instrs[len(stuck.Instrs)-1]
			}
			c.Decide("C16.R8", fn, "every way round the loop advances the input cursor", at, stuck == nil,
				"the cursor "+p.Comment+" of this decoder loop arrives unchanged over a back edge (a continue / a branch that bypasses the increment): the next iteration reads the same input byte again and the decoder does not return on such input - it is not total")
		}
	}
	return n
}
