package rules

import (
	"fmt"
	"go/ast"
	"go/constant"
	"go/token"
	"go/types"
	"sort"
	"strings"

	"golang.org/x/tools/go/packages"
	"golang.org/x/tools/go/ssa"

	"verif/checker/ir"
)

func init() {
	register(&Check{
		ID: "C19", Title: "Error classes survive wrapping and the gRPC boundary",
		Pkgs:      []string{"errors"},
		Run:       runC19,
		Technique: "static analysis: exhaustive agreement check of the two hand-written class<->code tables over all classes x all 17 gRPC codes on the type-checked AST, plus call-shape rules on go/ssa",
		Explanation: "R1: with e2c the class->code literal and c2e the code->class literal extended by the fallback FromGRPCError returns on a miss, c2e(e2c(k)) is k for every class k of e2c, and c2e(code) is non-nil for every one of the 17 codes except OK (finite, exhaustive). " +
			"R2: no class maps to codes.OK or codes.Unknown (status.Error(OK) is nil; Unknown means 'not wrapped yet' to GRPCWrap). " +
			"R3: every class variable is initialised from a distinct foreign variable or by fmt.Errorf/errors.New with a constant format that contains no %w, so the classes are pairwise independent values. " +
			"R4: GRPCWrap passes err.Error() of its parameter as the status message, returns an already coded error unchanged, and obtains the code from GRPCStatusCode; EmbedObject and ExtractObject share one marker constant, the former emits it twice around the payload and wraps the error with %w, the latter expects exactly three parts. " +
			"R5: Is consults errors.Is(err,target) and errors.Is(FromGRPCError(err),target). " +
			"R6: GRPCStatusCode falls back, for an uncoded error, to a range over the class->code table testing errors.Is(err, class) and returns that entry's code; FromGRPCError indexes the code->class table with status.Code(err). R7: no map keyed by error is indexed with an error passed in by the caller (an unhashable dynamic type would panic).",
		NotDecided: "the behaviour of fmt, errors, encoding/json and grpc status (trusted); message texts that themselves contain the marker.",
		Trusted:    []string{"fmt.Errorf(\"%w\") / errors.Is chain semantics", "google.golang.org/grpc/status.Code, status.Error, codes constants"},
	})
}

type c19tables struct {
	pk       *packages.Package
	e2c      map[*types.Var]int64 // class -> code
	e2cPos   map[*types.Var]token.Pos
	c2e      map[int64]*types.Var // code -> class (nil value = explicit nil)
	c2eHas   map[int64]bool
	c2ePos   map[int64]token.Pos
	e2cVar   *types.Var
	c2eVar   *types.Var
	codes    map[int64]string // all exported codes.Code constants
	codeType types.Type
}

func runC19(c *Ctx) {
	pk := c.P.Pkg("errors")
	if pk == nil {
		c.Fatalf("package errors not loaded")
	}
	t := &c19tables{pk: pk, e2c: map[*types.Var]int64{}, e2cPos: map[*types.Var]token.Pos{}, c2e: map[int64]*types.Var{}, c2eHas: map[int64]bool{}, c2ePos: map[int64]token.Pos{}, codes: map[int64]string{}}
	// the gRPC code universe
	var codesPkg *types.Package
	for _, imp := range pk.Types.Imports() {
		if imp.Path() == "google.golang.org/grpc/codes" {
			codesPkg = imp
		}
	}
	if codesPkg == nil {
		c.Fatalf("role codes: package errors does not import google.golang.org/grpc/codes")
	}
	codeTN, _ := codesPkg.Scope().Lookup("Code").(*types.TypeName)
	if codeTN == nil {
		c.Fatalf("role codes.Code not found")
	}
	t.codeType = codeTN.Type()
	for _, n := range codesPkg.Scope().Names() {
		if k, ok := codesPkg.Scope().Lookup(n).(*types.Const); ok && k.Exported() && types.Identical(k.Type(), t.codeType) {
			v, _ := constant.Int64Val(k.Val())
			t.codes[v] = n
		}
	}
	if len(t.codes) != 17 {
		c.Fatalf("role codes: expected the 17 gRPC status codes, found %d", len(t.codes))
	}
	errT := types.Universe.Lookup("error").Type()

	// locate the two table literals by their types
	for _, f := range pk.Syntax {
		for _, d := range f.Decls {
			gd, ok := d.(*ast.GenDecl)
			if !ok || gd.Tok != token.VAR {
				continue
			}
			for _, sp := range gd.Specs {
				vs := sp.(*ast.ValueSpec)
				for i, name := range vs.Names {
					obj, _ := pk.TypesInfo.Defs[name].(*types.Var)
					if obj == nil || i >= len(vs.Values) {
						continue
					}
					mt, ok := obj.Type().Underlying().(*types.Map)
					if !ok {
						continue
					}
					cl, ok := ast.Unparen(vs.Values[i]).(*ast.CompositeLit)
					if !ok {
						continue
					}
					switch {
					case types.Identical(mt.Key(), errT) && types.Identical(mt.Elem(), t.codeType):
						if t.e2cVar != nil {
							c.Fatalf("role class->code table is ambiguous")
						}
						t.e2cVar = obj
						c.parseE2C(t, cl)
					case types.Identical(mt.Key(), t.codeType) && types.Identical(mt.Elem(), errT):
						if t.c2eVar != nil {
							c.Fatalf("role code->class table is ambiguous")
						}
						t.c2eVar = obj
						c.parseC2E(t, cl)
					}
				}
			}
		}
	}
	if t.e2cVar == nil || t.c2eVar == nil {
		c.Fatalf("role tables: class->code / code->class map literals not found in package errors")
	}
	c.Role("table.class->code", t.e2cVar.Name(), t.e2cVar.Pos())
	c.Role("table.code->class", t.c2eVar.Name(), t.c2eVar.Pos())

	fromFn := c.RequireFn(c.P.Func("errors", "FromGRPCError"), "errors.FromGRPCError")
	wrapFn := c.RequireFn(c.P.Func("errors", "GRPCWrap"), "errors.GRPCWrap")
	codeFn := c.RequireFn(c.P.Func("errors", "GRPCStatusCode"), "errors.GRPCStatusCode")
	isFn := c.RequireFn(c.P.Func("errors", "Is"), "errors.Is")
	embedFn := c.RequireFn(c.P.Func("errors", "EmbedObject"), "errors.EmbedObject")
	extractFn := c.RequireFn(c.P.Func("errors", "ExtractObject"), "errors.ExtractObject")

	// fallback of FromGRPCError: the class returned on the miss edge of the table lookup
	var fallback *types.Var
	fallbackOK := true
	var lookupOK bool
	ir.Instrs(fromFn, func(in ssa.Instruction) {
		if lk, ok := in.(*ssa.Lookup); ok && lk.CommaOk {
			if g := globalOf(lk.X); g != nil && g.Object() == types.Object(t.c2eVar) {
				if call, ok := lk.Index.(*ssa.Call); ok && ir.CalleeFullName(call) == "google.golang.org/grpc/status.Code" {
					if len(call.Call.Args) == 1 && ir.Path(call.Call.Args[0]) == "p:err" {
						lookupOK = true
					}
				}
			}
		}
	})
	for _, ret := range ir.Returns(fromFn) {
		v := ir.Resolve(ret.Results[0])
		// the hit edge returns the looked-up value; every other return is the fallback
		if ex, ok := v.(*ssa.Extract); ok {
			if _, isLk := ex.Tuple.(*ssa.Lookup); isLk && ex.Index == 0 {
				// must be under the ok edge
				okEdge := ir.HasFact(ret.Block(), func(f ir.Fact) bool {
					f = f.StripNot()
					e2, isEx := f.Cond.(*ssa.Extract)
					return isEx && e2.Tuple == ex.Tuple && e2.Index == 1 && f.True
				})
				if !okEdge {
					fallbackOK = false
				}
				continue
			}
		}
		if g := globalOf(v); g != nil {
			if gv, ok := g.Object().(*types.Var); ok {
				if fallback != nil && fallback != gv {
					fallbackOK = false
				}
				fallback = gv
				continue
			}
		}
		if ir.IsNilConst(v) {
			fallback = nil
			fallbackOK = false
			c.Decide("C19.R1", fromFn, "fallback class", ret, false, "FromGRPCError returns nil for a code that is missing in the table: a non-OK code would map to no class")
			continue
		}
		fallbackOK = false
	}
	c.Decide("C19.R6", fromFn, "lookup c2e[status.Code(err)]", nil, lookupOK, "FromGRPCError does not index the code->class table with status.Code(err)")
	if fallback == nil || !fallbackOK {
		c.Decide("C19.R1", fromFn, "fallback class", nil, false, "the value FromGRPCError returns when the code is not in the table is not a single class variable")
	} else {
		c.Role("fallback class", fallback.Name(), fallback.Pos())
	}
	c2e := func(code int64) *types.Var {
		if t.c2eHas[code] {
			return t.c2e[code]
		}
		return fallback
	}

	// R1a: class -> code -> class
	var classes []*types.Var
	for k := range t.e2c {
		classes = append(classes, k)
	}
	sort.Slice(classes, func(i, j int) bool { return classes[i].Name() < classes[j].Name() })
	for _, k := range classes {
		code := t.e2c[k]
		back := c2e(code)
		ok := back == k
		got := "nil"
		if back != nil {
			got = back.Name()
		}
		c.DecideAt("C19.R1", t.e2cVar.Name(), "class "+k.Name()+" round trip", t.e2cPos[k], ok,
			fmt.Sprintf("class %s maps to code %s, which maps back to %s", k.Name(), t.codes[code], got))
		// R2
		c.DecideAt("C19.R2", t.e2cVar.Name(), "class "+k.Name()+" code not OK/Unknown", t.e2cPos[k],
			t.codes[code] != "OK" && t.codes[code] != "Unknown",
			fmt.Sprintf("class %s maps to %s: status.Error(OK) is nil and Unknown is what GRPCWrap treats as 'not wrapped'", k.Name(), t.codes[code]))
	}
	// R1b: every code maps to a class (non-nil) unless OK; OK maps to nil
	var codeVals []int64
	for v := range t.codes {
		codeVals = append(codeVals, v)
	}
	sort.Slice(codeVals, func(i, j int) bool { return codeVals[i] < codeVals[j] })
	for _, v := range codeVals {
		name := t.codes[v]
		back := c2e(v)
		pos := t.c2eVar.Pos()
		if p, ok := t.c2ePos[v]; ok {
			pos = p
		}
		if name == "OK" {
			c.DecideAt("C19.R1", t.c2eVar.Name(), "code OK -> nil", pos, back == nil, "codes.OK maps to a class: a successful call would look like an error class")
			continue
		}
		c.DecideAt("C19.R1", t.c2eVar.Name(), "code "+name+" -> class", pos, back != nil, "non-OK code "+name+" maps to nil")
		// and if some class claims this code, the code must map back to it (covered by R1a); if two classes share a code, one of them fails R1a
	}
	c.R.Floor("C19.R1", 10+17)
	c.R.Floor("C19.R2", 10)

	// R3: independent classes
	c.classIndependence(t, classes, fallback)

	// R4: GRPCWrap shape
	{
		var statusErr *ssa.Call
		ir.Instrs(wrapFn, func(in ssa.Instruction) {
			if call, ok := in.(*ssa.Call); ok && ir.CalleeFullName(call) == "google.golang.org/grpc/status.Error" {
				statusErr = call
			}
		})
		if statusErr == nil {
			c.Decide("C19.R4", wrapFn, "status.Error(code, err.Error())", nil, false, "GRPCWrap does not build a status error")
		} else {
			msg := ir.Resolve(statusErr.Call.Args[1])
			okMsg := false
			if mc, ok := msg.(*ssa.Call); ok && mc.Call.IsInvoke() && mc.Call.Method.Name() == "Error" && ir.Path(mc.Call.Value) == "p:err" {
				okMsg = true
			}
			c.Decide("C19.R4", wrapFn, "message = err.Error()", statusErr, okMsg, "the status message is not err.Error() of the wrapped error: an embedded object or the text is lost")
			codeArg := ir.Resolve(statusErr.Call.Args[0])
			okCode := false
			if cc, ok := codeArg.(*ssa.Call); ok && ir.StaticCallee(cc) == codeFn && len(cc.Call.Args) == 1 && ir.Path(cc.Call.Args[0]) == "p:err" {
				okCode = true
			}
			c.Decide("C19.R4", wrapFn, "code = GRPCStatusCode(err)", statusErr, okCode, "the status code is not GRPCStatusCode(err)")
			// idempotence: every return that is not the status error returns the parameter, under code != Unknown
			for _, ret := range ir.Returns(wrapFn) {
				v := ir.Resolve(ret.Results[0])
				if v == ssa.Value(statusErr) {
					continue
				}
				okId := ir.Path(v) == "p:err" && hasFactCmp(ret.Block(), func(cm ir.Cmp) bool {
					if cm.Op != token.NEQ {
						return false
					}
					x, y := ir.Resolve(cm.X), ir.Resolve(cm.Y)
					isCode := func(v ssa.Value) bool {
						cl, ok := v.(*ssa.Call)
						return ok && ir.CalleeFullName(cl) == "google.golang.org/grpc/status.Code"
					}
					isUnknown := func(v ssa.Value) bool {
						n, ok := ir.ConstInt(v)
						return ok && t.codes[n] == "Unknown"
					}
					return (isCode(x) && isUnknown(y)) || (isCode(y) && isUnknown(x))
				})
				c.Decide("C19.R4", wrapFn, "already coded error returned unchanged", ret, okId, "GRPCWrap returns something else than its argument for an already coded error (not idempotent)")
			}
		}
		// marker shared by Embed/Extract
		// the marker is the constant ExtractObject splits the message by; EmbedObject must use the same constant
		embedMarker := c.constStringsUsed(embedFn)
		shared := ""
		ir.Instrs(extractFn, func(in ssa.Instruction) {
			if call, ok := in.(*ssa.Call); ok && ir.CalleeFullName(call) == "strings.Split" {
				if cv := ir.ConstVal(call.Call.Args[1]); cv != nil && cv.Kind() == constant.String && embedMarker[constant.StringVal(cv)] {
					shared = constant.StringVal(cv)
				}
			}
		})
		c.Decide("C19.R4", embedFn, "marker shared with ExtractObject", nil, shared != "", "EmbedObject and ExtractObject do not use one common marker constant")
		if shared != "" {
			// Embed: fmt.Errorf("%s%s%s: %w", marker, payload, marker, err)
			okEmbed := false
			ir.Instrs(embedFn, func(in ssa.Instruction) {
				call, ok := in.(*ssa.Call)
				if !ok || ir.CalleeFullName(call) != "fmt.Errorf" {
					return
				}
				format := ir.ConstVal(call.Call.Args[0])
				if format == nil || format.Kind() != constant.String {
					return
				}
				fs := constant.StringVal(format)
				args := variadicArgs(call.Call.Args[1])
				verbs := formatVerbs(fs)
				if len(args) != len(verbs) || len(args) < 4 {
					return
				}
				var markerIdx []int
				wIdx := -1
				for i, a := range args {
					if cv := ir.ConstVal(ir.Resolve(a)); cv != nil && cv.Kind() == constant.String && constant.StringVal(cv) == shared {
						markerIdx = append(markerIdx, i)
					}
					if verbs[i] == 'w' && ir.Path(a) == "p:err" {
						wIdx = i
					}
				}
				if len(markerIdx) == 2 && markerIdx[1]-markerIdx[0] == 2 && wIdx > markerIdx[1] && strings.HasPrefix(fs, "%s%s%s") {
					okEmbed = true
				}
			})
			c.Decide("C19.R4", embedFn, "marker payload marker + %w err", nil, okEmbed, "EmbedObject does not produce <marker><json><marker>: %w err")
			// Extract: strings.Split(err.Error(), marker) and len(parts) != 3
			okSplit, okLen := false, false
			ir.Instrs(extractFn, func(in ssa.Instruction) {
				if call, ok := in.(*ssa.Call); ok && ir.CalleeFullName(call) == "strings.Split" {
					if cv := ir.ConstVal(call.Call.Args[1]); cv != nil && constant.StringVal(cv) == shared {
						okSplit = true
					}
				}
				if b, ok := in.(*ssa.BinOp); ok && (b.Op == token.NEQ || b.Op == token.EQL) {
					if n, isC := ir.ConstInt(b.Y); isC && n == 3 {
						if cl, ok := b.X.(*ssa.Call); ok && builtinCall(cl, "len") != nil {
							okLen = true
						}
					}
				}
			})
			c.Decide("C19.R4", extractFn, "split by marker into exactly 3 parts", nil, okSplit && okLen, "ExtractObject does not split the message by the marker into exactly three parts")
		}
	}

	// R5: Is
	{
		direct, viaCode := false, false
		ir.Instrs(isFn, func(in ssa.Instruction) {
			call, ok := in.(*ssa.Call)
			if !ok || ir.CalleeFullName(call) != "errors.Is" {
				return
			}
			a0, a1 := call.Call.Args[0], call.Call.Args[1]
			if ir.Path(a1) != "p:target" {
				return
			}
			if ir.Path(a0) == "p:err" {
				direct = true
			}
			if fc, ok := ir.Resolve(a0).(*ssa.Call); ok && ir.StaticCallee(fc) == fromFn && ir.Path(fc.Call.Args[0]) == "p:err" {
				viaCode = true
			}
		})
		c.Decide("C19.R5", isFn, "errors.Is(err,target)", nil, direct, "Is does not consult the error chain itself")
		c.Decide("C19.R5", isFn, "errors.Is(FromGRPCError(err),target)", nil, viaCode, "Is does not fall back to the class derived from the gRPC code")
		// the result must be true when either is true: no return of constant false while one of them holds is checked by shape: Is returns only call results or true
		for _, ret := range ir.Returns(isFn) {
			v := ir.Resolve(ret.Results[0])
			if cv := ir.ConstVal(v); cv != nil && cv.Kind() == constant.Bool && !constant.BoolVal(cv) {
				c.Decide("C19.R5", isFn, "no constant false", ret, false, "Is returns a constant false on some path")
			}
		}
	}

	// R6: GRPCStatusCode ranges over e2c with errors.Is
	{
		okRange := false
		ir.Instrs(codeFn, func(in ssa.Instruction) {
			rg, ok := in.(*ssa.Range)
			if !ok {
				return
			}
			if g := globalOf(rg.X); g == nil || g.Object() != types.Object(t.e2cVar) {
				return
			}
			// the loop body calls errors.Is(err, key) and returns value on its true edge
			ir.Instrs(codeFn, func(in2 ssa.Instruction) {
				call, ok := in2.(*ssa.Call)
				if !ok || ir.CalleeFullName(call) != "errors.Is" || ir.Path(call.Call.Args[0]) != "p:err" {
					return
				}
				key := ir.Resolve(call.Call.Args[1])
				if !extractOfNext(key, rg, 1) {
					return
				}
				for _, ret := range ir.Returns(codeFn) {
					if extractOfNext(ir.Resolve(ret.Results[0]), rg, 2) && ir.HasFact(ret.Block(), func(f ir.Fact) bool {
						f = f.StripNot()
						return f.Cond == ssa.Value(call) && f.True
					}) {
						okRange = true
					}
				}
			})
		})
		c.Decide("C19.R6", codeFn, "range class->code with errors.Is", nil, okRange, "GRPCStatusCode does not find the class of a wrapped error by errors.Is over the class->code table")
		// a coded error keeps its code: return status.Code(err) under code != Unknown
		okCoded := false
		for _, ret := range ir.Returns(codeFn) {
			if cl, ok := ir.Resolve(ret.Results[0]).(*ssa.Call); ok && ir.CalleeFullName(cl) == "google.golang.org/grpc/status.Code" && ir.Path(cl.Call.Args[0]) == "p:err" {
				okCoded = true
			}
		}
		c.Decide("C19.R6", codeFn, "coded error keeps its code", nil, okCoded, "GRPCStatusCode does not return status.Code(err) for an already coded error")
	}
}

func extractOfNext(v ssa.Value, rg *ssa.Range, idx int) bool {
	ex, ok := v.(*ssa.Extract)
	if !ok || ex.Index != idx {
		return false
	}
	nx, ok := ex.Tuple.(*ssa.Next)
	return ok && nx.Iter == ssa.Value(rg)
}

func globalOf(v ssa.Value) *ssa.Global {
	v = ir.Resolve(v)
	if u, ok := v.(*ssa.UnOp); ok && u.Op == token.MUL {
		if g, ok := u.X.(*ssa.Global); ok {
			return g
		}
	}
	if g, ok := v.(*ssa.Global); ok {
		return g
	}
	return nil
}

func (c *Ctx) parseE2C(t *c19tables, cl *ast.CompositeLit) {
	for _, el := range cl.Elts {
		kv, ok := el.(*ast.KeyValueExpr)
		if !ok {
			c.Fatalf("class->code table: element without key")
		}
		cls := c.classVar(t, kv.Key)
		code, okc := c.codeConst(t, kv.Value)
		if cls == nil || !okc {
			c.UndecidedAt("C19.R1", "class->code table", "entry", kv.Pos(), "table entry is not <class variable>: <codes constant>")
			continue
		}
		if _, dup := t.e2c[cls]; dup {
			c.DecideAt("C19.R1", "class->code table", "duplicate class "+cls.Name(), kv.Pos(), false, "class listed twice")
		}
		t.e2c[cls] = code
		t.e2cPos[cls] = kv.Pos()
	}
}

func (c *Ctx) parseC2E(t *c19tables, cl *ast.CompositeLit) {
	for _, el := range cl.Elts {
		kv, ok := el.(*ast.KeyValueExpr)
		if !ok {
			c.Fatalf("code->class table: element without key")
		}
		code, okc := c.codeConst(t, kv.Key)
		if !okc {
			c.UndecidedAt("C19.R1", "code->class table", "entry", kv.Pos(), "table key is not a codes constant")
			continue
		}
		t.c2eHas[code] = true
		t.c2ePos[code] = kv.Pos()
		if id, ok := ast.Unparen(kv.Value).(*ast.Ident); ok && id.Name == "nil" && t.pk.TypesInfo.Uses[id] == types.Universe.Lookup("nil") {
			t.c2e[code] = nil
			continue
		}
		cls := c.classVar(t, kv.Value)
		if cls == nil {
			c.UndecidedAt("C19.R1", "code->class table", "entry", kv.Pos(), "table value is not a class variable or nil")
			continue
		}
		t.c2e[code] = cls
	}
}

func (c *Ctx) classVar(t *c19tables, e ast.Expr) *types.Var {
	id, ok := ast.Unparen(e).(*ast.Ident)
	if !ok {
		return nil
	}
	v, _ := t.pk.TypesInfo.Uses[id].(*types.Var)
	if v == nil || v.Pkg() != t.pk.Types || v.Parent() != t.pk.Types.Scope() {
		return nil
	}
	return v
}

func (c *Ctx) codeConst(t *c19tables, e ast.Expr) (int64, bool) {
	tv, ok := t.pk.TypesInfo.Types[e]
	if !ok || tv.Value == nil || !types.Identical(tv.Type, t.codeType) {
		return 0, false
	}
	v, exact := constant.Int64Val(tv.Value)
	return v, exact
}

// classIndependence is C19.R3.
func (c *Ctx) classIndependence(t *c19tables, classes []*types.Var, fallback *types.Var) {
	all := append([]*types.Var{}, classes...)
	// classes named in the code->class table count too
	seen := map[*types.Var]bool{}
	for _, k := range all {
		seen[k] = true
	}
	for _, v := range t.c2e {
		if v != nil && !seen[v] {
			seen[v] = true
			all = append(all, v)
		}
	}
	if fallback != nil && !seen[fallback] {
		all = append(all, fallback)
	}
	sort.Slice(all, func(i, j int) bool { return all[i].Name() < all[j].Name() })
	origin := map[string]*types.Var{}
	for _, f := range t.pk.Syntax {
		for _, d := range f.Decls {
			gd, ok := d.(*ast.GenDecl)
			if !ok || gd.Tok != token.VAR {
				continue
			}
			for _, sp := range gd.Specs {
				vs := sp.(*ast.ValueSpec)
				for i, name := range vs.Names {
					obj, _ := t.pk.TypesInfo.Defs[name].(*types.Var)
					if obj == nil || !seen[obj] && obj != fallback {
						continue
					}
					if i >= len(vs.Values) {
						c.DecideAt("C19.R3", obj.Name(), "initialiser", name.Pos(), false, "class variable without initialiser (nil class)")
						continue
					}
					init := ast.Unparen(vs.Values[i])
					switch x := init.(type) {
					case *ast.SelectorExpr, *ast.Ident:
						var o types.Object
						if se, ok := x.(*ast.SelectorExpr); ok {
							o = t.pk.TypesInfo.Uses[se.Sel]
						} else {
							o = t.pk.TypesInfo.Uses[x.(*ast.Ident)]
						}
						fv, isVar := o.(*types.Var)
						if !isVar {
							c.DecideAt("C19.R3", obj.Name(), "initialiser", name.Pos(), false, "class is not initialised from a variable")
							continue
						}
						key := fv.Pkg().Path() + "." + fv.Name()
						if prev, dup := origin[key]; dup {
							c.DecideAt("C19.R3", obj.Name(), "distinct value", name.Pos(), false, fmt.Sprintf("classes %s and %s are the same value %s: Is() cannot tell them apart", prev.Name(), obj.Name(), key))
							continue
						}
						origin[key] = obj
						c.DecideAt("C19.R3", obj.Name(), "distinct value", name.Pos(), true, "")
					case *ast.CallExpr:
						fnObj := calleeObjAST(t.pk, x)
						full := ""
						if fnObj != nil {
							full = fnObj.FullName()
						}
						if full != "fmt.Errorf" && full != "errors.New" {
							c.DecideAt("C19.R3", obj.Name(), "fresh value", name.Pos(), false, "class is initialised by "+full+", not by fmt.Errorf/errors.New")
							continue
						}
						okFmt := false
						if len(x.Args) >= 1 {
							if tv, ok := t.pk.TypesInfo.Types[x.Args[0]]; ok && tv.Value != nil && tv.Value.Kind() == constant.String {
								if !strings.Contains(constant.StringVal(tv.Value), "%w") && len(x.Args) == 1 {
									okFmt = true
								}
							}
						}
						c.DecideAt("C19.R3", obj.Name(), "fresh value", name.Pos(), okFmt, "class initialiser wraps another error or has a non-constant format: the class would match another class")
					default:
						c.DecideAt("C19.R3", obj.Name(), "initialiser", name.Pos(), false, "unrecognised class initialiser")
					}
				}
			}
		}
	}
	c.R.Floor("C19.R3", 10)

	// R7: no caller-supplied error is used as a map key. The class->code table is a map[error]Code; indexing it with an
	// arbitrary error value hashes the value's dynamic type, and for an unhashable one (an error type that is a slice,
	// a map, or a struct holding one - validation error lists are of this shape) the runtime panics, although the
	// wrapped class is perfectly reachable through errors.Is. Exported functions taking an error index such a map only
	// with package-level class variables (range keys, literals), never with a parameter.
	nIdx := 0
	for _, fn := range c.P.FuncsOf("errors") {
		ir.Instrs(fn, func(in ssa.Instruction) {
			var m, key ssa.Value
			switch x := in.(type) {
			case *ssa.Lookup:
				m, key = x.X, x.Index
			case *ssa.MapUpdate:
				m, key = x.Map, x.Key
			default:
				return
			}
			mt, ok := m.Type().Underlying().(*types.Map)
			if !ok || !ir.IsErrorType(mt.Key()) {
				return
			}
			nIdx++
			fromParam := false
			for _, o := range ir.Origins(key) {
				if _, isP := o.(*ssa.Parameter); isP {
					fromParam = true
				}
			}
			c.Decide("C19.R7", fn, "error-keyed table is not indexed with a caller-supplied error", in, !fromParam,
				"a map keyed by error is indexed with the error passed in by the caller: an error value of an unhashable dynamic type (slice / map / struct with a slice) makes the runtime panic in GRPCWrap / GRPCStatusCode although its class is reachable through errors.Is")
		})
	}
	if nIdx == 0 {
		c.Decide("C19.R7", nil, "error-keyed tables are only ranged over", nil, true, "")
	}
}

func calleeObjAST(pk *packages.Package, call *ast.CallExpr) *types.Func {
	switch f := ast.Unparen(call.Fun).(type) {
	case *ast.SelectorExpr:
		fn, _ := pk.TypesInfo.Uses[f.Sel].(*types.Func)
		return fn
	case *ast.Ident:
		fn, _ := pk.TypesInfo.Uses[f].(*types.Func)
		return fn
	}
	return nil
}

// constStringsUsed returns the string constants referenced in fn.
func (c *Ctx) constStringsUsed(fn *ssa.Function) map[string]bool {
	res := map[string]bool{}
	ir.Instrs(fn, func(in ssa.Instruction) {
		for _, op := range in.Operands(nil) {
			if op == nil || *op == nil {
				continue
			}
			if cv := ir.ConstVal(*op); cv != nil && cv.Kind() == constant.String {
				res[constant.StringVal(cv)] = true
			}
		}
	})
	return res
}

// variadicArgs returns the elements stored into the array behind a variadic slice argument.
func variadicArgs(v ssa.Value) []ssa.Value {
	sl, ok := v.(*ssa.Slice)
	if !ok {
		return nil
	}
	al, ok := sl.X.(*ssa.Alloc)
	if !ok {
		return nil
	}
	arr, ok := al.Type().(*types.Pointer).Elem().Underlying().(*types.Array)
	if !ok {
		return nil
	}
	res := make([]ssa.Value, arr.Len())
	if al.Referrers() == nil {
		return nil
	}
	for _, r := range *al.Referrers() {
		ia, ok := r.(*ssa.IndexAddr)
		if !ok {
			continue
		}
		idx, isC := ir.ConstInt(ia.Index)
		if !isC || ia.Referrers() == nil {
			continue
		}
		for _, rr := range *ia.Referrers() {
			if st, ok := rr.(*ssa.Store); ok && st.Addr == ssa.Value(ia) && int(idx) < len(res) {
				res[idx] = st.Val
			}
		}
	}
	for _, r := range res {
		if r == nil {
			return nil
		}
	}
	return res
}

// formatVerbs lists the verbs of a printf format.
func formatVerbs(f string) []byte {
	var res []byte
	for i := 0; i < len(f); i++ {
		if f[i] != '%' {
			continue
		}
		i++
		for i < len(f) && strings.IndexByte("+-# 0123456789.[]*", f[i]) >= 0 {
			i++
		}
		if i < len(f) && f[i] != '%' {
			res = append(res, f[i])
		}
	}
	return res
}
