package rules

import (
	"fmt"
	"go/ast"
	"go/constant"
	"go/token"
	"go/types"
	"os"
	"sort"
	"strings"

	"golang.org/x/tools/go/packages"
	"golang.org/x/tools/go/ssa"

	"verif/checker/ir"
)

func init() {
	register(&Check{
		ID: "C19", Title: "Error classes survive wrapping and the gRPC boundary",
		Pkgs:      []string{"errors"},
		Run:       runC19,
		Technique: "static analysis: the class<->code mappings are evaluated, not pattern-matched: the package initialiser and the API functions are executed symbolically on go/ssa (rules/x_d.go) in every scenario of the finite space {status.Code(err) = each of the 17 gRPC codes and one code outside of them} x {the chain of err holds one class of the class universe / none}, and the results are compared exhaustively; class independence is decided on the type-checked AST",
		Explanation: "With c2e(k) the value FromGRPCError returns when status.Code(err) is k, and e2c(x) the code GRPCStatusCode returns for an uncoded error whose chain holds exactly the class x (the classes are those GRPCStatusCode tests err against; when a class->code table exists they are its keys): " +
			"R1: c2e(e2c(x)) is x for every class x, c2e(code) is a non-nil class for each of the 17 codes except OK and for a code outside of the 17, c2e(OK) is nil (finite, exhaustive). " +
			"R2: no class maps to codes.OK or codes.Unknown (status.Error(OK) is nil; Unknown means 'not wrapped yet' to GRPCWrap). " +
			"R3: every class variable is initialised from a distinct foreign variable or by fmt.Errorf/errors.New with a constant format that contains no %w, so the classes are pairwise independent values. " +
			"R4: in every scenario GRPCWrap returns its argument unchanged when status.Code(err) is not Unknown and status.Error(GRPCStatusCode(err), err.Error()) otherwise; EmbedObject produces <marker><payload computed from o><marker>...%w err with the marker constant ExtractObject separates the message by; ExtractObject unmarshals the text between the markers exactly when the message holds exactly two markers (Split into 3 parts, or Cut, Cut and no marker in the tail). " +
			"R5: in every scenario Is(err, target) is true exactly when errors.Is(err, target) holds or c2e(status.Code(err)) is target. " +
			"R6: the result of FromGRPCError is a function of status.Code(err) only; GRPCStatusCode returns status.Code(err) when that is not Unknown, and otherwise finds the class by errors.Is(err, class) for every class of the class->code table and returns the code of that entry. R7: no map keyed by error is indexed with an error passed in by the caller (an unhashable dynamic type would panic). R8: on every path of EmbedObject every piece of the message computed from the object is the output of encoding/json.Marshal(Indent) of the object itself (or a JSON-exact strconv integer/bool encoder of the asserted object), printed by %s/%v: the codec ExtractObject's json.Unmarshal inverts, for every dynamic type.",
		NotDecided: "the behaviour of fmt, errors, strings, encoding/json and grpc status (trusted, calls into them are treated as pure functions); message texts that themselves contain the marker.",
		Trusted:    []string{"fmt.Errorf(\"%w\") / errors.Is chain semantics", "google.golang.org/grpc/status.Code, status.Error, codes constants", "strings.Split / strings.Cut / strings.Contains / strings.Index semantics"},
	})
}

const (
	c19StatusCode  = "google.golang.org/grpc/status.Code"
	c19StatusError = "google.golang.org/grpc/status.Error"
	c19OutOfRange  = int64(1) << 20 // a status code that is none of the 17 named ones
)

type c19tables struct {
	pk       *packages.Package
	sp       *ssa.Package
	e2cPos   map[*types.Var]token.Pos // positions of the entries when the table is a literal (reporting only)
	c2ePos   map[int64]token.Pos
	e2cVar   *types.Var
	c2eVar   *types.Var
	codes    map[int64]string // all exported codes.Code constants
	codeType types.Type
	env      *sxEnv
}

// c19scn is one scenario: what the environment answers about the error passed in.
type c19scn struct {
	code  int64       // status.Code(err)
	class *ssa.Global // the one class errors.Is(err, .) finds in the chain of err; nil: none
}

// inScenario runs fn(err, ...) in scenario s. asked collects the classes err was tested against.
func (t *c19tables) inScenario(fn *ssa.Function, s c19scn, asked map[*ssa.Global]bool) ([]*sxPath, error) {
	perr := c19errParam(fn, 0)
	t.env.call = func(name string, args []sxVal) sxVal {
		switch {
		case c19isStatusCode(name, args, perr):
			return sxInt(s.code)
		case name == "errors.Is" && len(args) == 2 && args[0].key() == perr.key():
			if g, ok := args[1].(sxGlob); ok {
				if asked != nil {
					asked[g.g] = true
				}
				return sxBool(g.g == s.class)
			}
		}
		return nil
	}
	t.env.nonNil = func(v sxVal) bool {
		// status.Code(nil) is OK: with any other code the error is not nil
		return v.key() == perr.key() && t.codes[s.code] != "OK"
	}
	defer func() { t.env.call, t.env.nonNil = nil, nil }()
	var args []sxVal
	for _, p := range fn.Params {
		args = append(args, sxParam(p.Name()))
	}
	paths, err := sxExplore(t.env, fn, args)
	if os.Getenv("VERIF_C19_DEBUG") != "" {
		cl := "-"
		if s.class != nil {
			cl = s.class.Name()
		}
		fmt.Fprintf(os.Stderr, "C19 %s code=%d class=%s err=%v\n%s\n", fn.Name(), s.code, cl, err, sxDump(paths))
	}
	return paths, err
}

// c19out is the result of one path of a function run in a scenario.
type c19out struct {
	val      sxVal
	nilParam string // key of the parameter the path found to be nil ("" none)
	path     *sxPath
}

// c19outs returns the results of the paths of a run whose course depends on nothing but the scenario - and on whether
// a parameter is nil, the one thing a scenario leaves open (an error with the code OK may be nil): a function that
// tests its argument for nil first is the same function.
func c19outs(paths []*sxPath, err error) ([]c19out, string) {
	if err != nil {
		return nil, err.Error()
	}
	var res []c19out
	for _, p := range paths {
		o := c19out{path: p}
		for _, d := range p.conds {
			eq := sxIsTerm(d.atom, "==")
			if eq == nil || len(eq.args) != 2 {
				return nil, "the result depends on " + d.atom.key()
			}
			var other sxVal
			switch {
			case sxIsNil(eq.args[0]):
				other = eq.args[1]
			case sxIsNil(eq.args[1]):
				other = eq.args[0]
			}
			pt, _ := other.(*sxTerm)
			if pt == nil || !strings.HasPrefix(pt.op, "param:") {
				return nil, "the result depends on " + d.atom.key()
			}
			if d.taken {
				o.nilParam = pt.key()
			}
		}
		switch {
		case p.panicked:
			return nil, "panics"
		case len(p.ret) != 1:
			return nil, "not a single result"
		}
		o.val = p.ret[0]
		if o.val.key() == o.nilParam {
			o.val = sxNil() // the parameter is nil on this path
		}
		res = append(res, o)
	}
	if len(res) == 0 {
		return nil, "no result"
	}
	return res, ""
}

// c19single returns the one result all the paths agree on.
func c19single(paths []*sxPath, err error) (sxVal, string) {
	outs, why := c19outs(paths, err)
	if why != "" {
		return nil, why
	}
	for _, o := range outs[1:] {
		if o.val.key() != outs[0].val.key() {
			return nil, "no unique result: " + outs[0].val.key() + " / " + o.val.key()
		}
	}
	return outs[0].val, ""
}

func runC19(c *Ctx) {
	pk := c.P.Pkg("errors")
	if pk == nil {
		c.Fatalf("package errors not loaded")
	}
	t := &c19tables{pk: pk, sp: c.P.SSAPkg("errors"), e2cPos: map[*types.Var]token.Pos{}, c2ePos: map[int64]token.Pos{}, codes: map[int64]string{}}
	// the gRPC code universe
	var codesPkg *types.Package
	for _, imp := range pk.Types.Imports() {
		if imp.Path() == "google.golang.org/grpc/codes" {
			codesPkg = imp
		}
	}
	if codesPkg == nil {
		c.Fatalf("role codes: package errors does not import google.golang.org/grpc/codes")
	}
	codeTN, _ := codesPkg.Scope().Lookup("Code").(*types.TypeName)
	if codeTN == nil {
		c.Fatalf("role codes.Code not found")
	}
	t.codeType = codeTN.Type()
	for _, n := range codesPkg.Scope().Names() {
		if k, ok := codesPkg.Scope().Lookup(n).(*types.Const); ok && k.Exported() && types.Identical(k.Type(), t.codeType) {
			v, _ := constant.Int64Val(k.Val())
			t.codes[v] = n
		}
	}
	if len(t.codes) != 17 {
		c.Fatalf("role codes: expected the 17 gRPC status codes, found %d", len(t.codes))
	}
	codeOf := func(name string) int64 {
		for v, n := range t.codes {
			if n == name {
				return v
			}
		}
		c.Fatalf("role codes.%s not found", name)
		return 0
	}
	codeUnknown := codeOf("Unknown")
	errT := types.Universe.Lookup("error").Type()

	// the two tables are package-level variables recognised by their types, whatever builds them (a literal, a builder
	// run by the package initialiser); a mapping that is a function instead of a table has no such variable
	for _, f := range pk.Syntax {
		for _, d := range f.Decls {
			gd, ok := d.(*ast.GenDecl)
			if !ok || gd.Tok != token.VAR {
				continue
			}
			for _, sp := range gd.Specs {
				vs := sp.(*ast.ValueSpec)
				for i, name := range vs.Names {
					obj, _ := pk.TypesInfo.Defs[name].(*types.Var)
					if obj == nil {
						continue
					}
					mt, ok := obj.Type().Underlying().(*types.Map)
					if !ok {
						continue
					}
					var cl *ast.CompositeLit
					if i < len(vs.Values) {
						cl, _ = ast.Unparen(vs.Values[i]).(*ast.CompositeLit)
					}
					switch {
					case types.Identical(mt.Key(), errT) && types.Identical(mt.Elem(), t.codeType):
						if t.e2cVar != nil {
							c.Fatalf("role class->code table is ambiguous")
						}
						t.e2cVar = obj
						if cl != nil {
							c.parseE2C(t, cl)
						}
					case types.Identical(mt.Key(), t.codeType) && types.Identical(mt.Elem(), errT):
						if t.c2eVar != nil {
							c.Fatalf("role code->class table is ambiguous")
						}
						t.c2eVar = obj
						if cl != nil {
							c.parseC2E(t, cl)
						}
					}
				}
			}
		}
	}
	if t.e2cVar != nil {
		c.Role("table.class->code", t.e2cVar.Name(), t.e2cVar.Pos())
	}
	if t.c2eVar != nil {
		c.Role("table.code->class", t.c2eVar.Name(), t.c2eVar.Pos())
	}

	fromFn := c.RequireFn(c.P.Func("errors", "FromGRPCError"), "errors.FromGRPCError")
	wrapFn := c.RequireFn(c.P.Func("errors", "GRPCWrap"), "errors.GRPCWrap")
	codeFn := c.RequireFn(c.P.Func("errors", "GRPCStatusCode"), "errors.GRPCStatusCode")
	isFn := c.RequireFn(c.P.Func("errors", "Is"), "errors.Is")
	embedFn := c.RequireFn(c.P.Func("errors", "EmbedObject"), "errors.EmbedObject")
	extractFn := c.RequireFn(c.P.Func("errors", "ExtractObject"), "errors.ExtractObject")

	// the executor follows the functions of the package (helpers of any depth), everything else is the environment.
	// A package-level variable of type error stands for itself: distinct variables are distinct non-nil values (R3).
	t.env = &sxEnv{
		follow: func(fn *ssa.Function) bool { return fn.Pkg == t.sp },
		token: func(g *ssa.Global) bool {
			return g.Pkg == t.sp && types.Identical(g.Type().(*types.Pointer).Elem(), errT)
		},
	}
	// R7 (part): the keys the package initialiser (and the builders it runs) puts into error-keyed maps
	type initKey struct {
		fn  *ssa.Function
		in  ssa.Instruction
		key sxVal
	}
	var initKeys []initKey
	t.env.onMapKey = func(fn *ssa.Function, in ssa.Instruction, key sxVal) {
		var m ssa.Value
		switch x := in.(type) {
		case *ssa.Lookup:
			m = x.X
		case *ssa.MapUpdate:
			m = x.Map
		}
		if mt, ok := m.Type().Underlying().(*types.Map); ok && ir.IsErrorType(mt.Key()) {
			initKeys = append(initKeys, initKey{fn, in, key})
		}
	}
	t.env.entered = map[*ssa.Function]bool{}
	if err := sxInit(t.env, t.sp); err != nil {
		if err == sxErrInitPanics {
			c.Decide("C19.R1", t.sp.Func("init"), "the tables can be built", nil, false, "the initialiser of package errors panics while it builds the tables")
			return
		}
		c.Fatalf("role tables: the initialiser of package errors could not be evaluated: %v", err)
	}
	initOnly := c19initOnly(c, t.sp, t.env.entered)
	t.env.onMapKey, t.env.entered = nil, nil

	global := func(v *types.Var) *ssa.Global {
		g, _ := t.sp.Members[v.Name()].(*ssa.Global)
		return g
	}
	classOf := func(v sxVal) (*types.Var, bool) { // a class variable, or nil
		if sxIsNil(v) {
			return nil, true
		}
		if g, ok := v.(sxGlob); ok {
			if tv, ok := g.g.Object().(*types.Var); ok {
				return tv, true
			}
		}
		return nil, false
	}

	// ---- c2e: FromGRPCError as a function of status.Code(err)
	var codeVals []int64
	for v := range t.codes {
		codeVals = append(codeVals, v)
	}
	sort.Slice(codeVals, func(i, j int) bool { return codeVals[i] < codeVals[j] })
	c2eVal := map[int64]*types.Var{}
	c2eWhy := map[int64]string{} // undecidable results
	consulted := false
	pureOfCode := true
	pureWhy := ""
	for _, code := range append(append([]int64{}, codeVals...), c19OutOfRange) {
		paths, err := t.inScenario(fromFn, c19scn{code: code}, nil)
		for _, p := range paths {
			for _, cl := range p.calls {
				if c19isStatusCode(cl.name, cl.args, c19errParam(fromFn, 0)) {
					consulted = true
				}
			}
		}
		v, why := c19single(paths, err)
		if why == "" {
			cv, ok := classOf(v)
			if ok {
				c2eVal[code] = cv
				continue
			}
			why = "returns " + v.key() + ", which is neither a class variable nor nil"
		}
		c2eWhy[code] = why
		pureOfCode = false
		if pureWhy == "" {
			pureWhy = why
		}
	}
	c.Decide("C19.R6", fromFn, "lookup c2e[status.Code(err)]", nil, consulted && pureOfCode,
		"the class FromGRPCError returns is not a function of status.Code(err) only: "+pureWhy)
	c2eName := fromFn.Name()
	c2eAt := fromFn.Pos()
	if t.c2eVar != nil {
		c2eName, c2eAt = t.c2eVar.Name(), t.c2eVar.Pos()
	}
	if fb, ok := c2eVal[c19OutOfRange]; ok {
		if fb == nil {
			c.Decide("C19.R1", fromFn, "fallback class", nil, false, "FromGRPCError returns nil for a code that is none of the 17 named ones: a non-OK code would map to no class")
		} else {
			c.Role("fallback class", fb.Name(), fb.Pos())
		}
	} else {
		c.Undecided("C19.R1", fromFn, "fallback class", nil, "FromGRPCError for a code outside of the 17 named ones: "+c2eWhy[c19OutOfRange])
	}

	// ---- e2c: GRPCStatusCode of an uncoded error as a function of the class in its chain
	asked := map[*ssa.Global]bool{}
	defPaths, defErr := t.inScenario(codeFn, c19scn{code: codeUnknown}, asked)
	defCode, defWhy := c19single(defPaths, defErr)
	var classes []*types.Var
	for g := range asked {
		if tv, ok := g.Object().(*types.Var); ok {
			classes = append(classes, tv)
		}
	}
	sort.Slice(classes, func(i, j int) bool { return classes[i].Name() < classes[j].Name() })
	e2cName := codeFn.Name()
	e2cAt := codeFn.Pos()
	if t.e2cVar != nil {
		e2cName, e2cAt = t.e2cVar.Name(), t.e2cVar.Pos()
	}
	e2cVal := map[*types.Var]int64{}
	e2cWhy := map[*types.Var]string{}
	for _, k := range classes {
		v, why := c19single(t.inScenario(codeFn, c19scn{code: codeUnknown, class: global(k)}, nil))
		if why == "" {
			if n, ok := sxAsInt(v); ok {
				e2cVal[k] = n
				continue
			}
			why = "returns " + v.key()
		}
		e2cWhy[k] = why
	}
	codeName := func(v int64) string {
		if n, ok := t.codes[v]; ok {
			return n
		}
		return fmt.Sprintf("Code(%d)", v)
	}

	// R1a: class -> code -> class; R2
	for _, k := range classes {
		pos := e2cAt
		if p, ok := t.e2cPos[k]; ok {
			pos = p
		}
		code, ok := e2cVal[k]
		if !ok {
			c.UndecidedAt("C19.R1", e2cName, "class "+k.Name()+" round trip", pos, "the code GRPCStatusCode gives an uncoded error of class "+k.Name()+" is not determined: "+e2cWhy[k])
			c.UndecidedAt("C19.R2", e2cName, "class "+k.Name()+" code not OK/Unknown", pos, e2cWhy[k])
			continue
		}
		back, known := c2eVal[code]
		if _, named := t.codes[code]; !named {
			back, known = c2eVal[c19OutOfRange]
		}
		if !known {
			c.UndecidedAt("C19.R1", e2cName, "class "+k.Name()+" round trip", pos, "the class of code "+codeName(code)+" is not determined: "+c2eWhy[code])
		} else {
			got := "nil"
			if back != nil {
				got = back.Name()
			}
			c.DecideAt("C19.R1", e2cName, "class "+k.Name()+" round trip", pos, back == k,
				fmt.Sprintf("class %s maps to code %s, which maps back to %s", k.Name(), codeName(code), got))
		}
		c.DecideAt("C19.R2", e2cName, "class "+k.Name()+" code not OK/Unknown", pos,
			t.codes[code] != "OK" && t.codes[code] != "Unknown",
			fmt.Sprintf("class %s maps to %s: status.Error(OK) is nil and Unknown is what GRPCWrap treats as 'not wrapped'", k.Name(), codeName(code)))
	}
	// R1b: every code maps to a class (non-nil) unless OK; OK maps to nil
	for _, v := range codeVals {
		name := t.codes[v]
		pos := c2eAt
		if p, ok := t.c2ePos[v]; ok {
			pos = p
		}
		construct := "code " + name + " -> class"
		if name == "OK" {
			construct = "code OK -> nil"
		}
		back, known := c2eVal[v]
		if !known {
			c.UndecidedAt("C19.R1", c2eName, construct, pos, "the class of code "+name+" is not determined: "+c2eWhy[v])
			continue
		}
		if name == "OK" {
			c.DecideAt("C19.R1", c2eName, construct, pos, back == nil, "codes.OK maps to a class: a successful call would look like an error class")
			continue
		}
		c.DecideAt("C19.R1", c2eName, construct, pos, back != nil, "non-OK code "+name+" maps to nil")
		// and if some class claims this code, the code must map back to it (covered by R1a); if two classes share a code, one of them fails R1a
	}
	c.R.Floor("C19.R1", 10+17)
	c.R.Floor("C19.R2", 10)

	// R3: independent classes (every class the two mappings mention)
	var rangeClasses []*types.Var
	for _, v := range codeVals {
		if k := c2eVal[v]; k != nil {
			rangeClasses = append(rangeClasses, k)
		}
	}
	c.classIndependence(t, classes, rangeClasses, c2eVal[c19OutOfRange])

	// R7 for the functions only the package initialiser runs: their "caller" is the initialiser, the keys are known
	for _, ik := range initKeys {
		if ik.fn.Name() == "init" || !initOnly[ik.fn] {
			continue // the initialiser itself and everything the API reaches is covered by the general rule below
		}
		_, isClass := classOf(ik.key)
		c.Decide("C19.R7", ik.fn, "error-keyed table is built from class variables only", ik.in, isClass && !sxIsNil(ik.key),
			"a builder run by the package initialiser uses "+ik.key.key()+" as the key of a map keyed by error: not a class variable")
	}
	c.errorKeyedMaps(initOnly)

	// R4: GRPCWrap, scenario by scenario
	{
		perr := c19errParam(wrapFn, 0).key()
		okId, whyId := true, ""
		for _, code := range append(append([]int64{}, codeVals...), c19OutOfRange) {
			if code == codeUnknown {
				continue
			}
			outs, why := c19outs(t.inScenario(wrapFn, c19scn{code: code}, nil))
			for _, o := range outs {
				// the argument itself; nil for the nil argument is the argument too
				if o.val.key() != perr && !(sxIsNil(o.val) && o.nilParam == perr) {
					why = "returns " + o.val.key()
				}
			}
			if why != "" && okId {
				okId, whyId = false, fmt.Sprintf("for an error with the code %s GRPCWrap %s", codeName(code), why)
			}
		}
		built, okMsg, okCode := true, true, true
		whyBuilt, whyMsg, whyCode := "", "", ""
		scns := []c19scn{{code: codeUnknown}}
		for _, k := range classes {
			scns = append(scns, c19scn{code: codeUnknown, class: global(k)})
		}
		for _, s := range scns {
			want, wantWhy := defCode, defWhy
			cls := "no class"
			if s.class != nil {
				cls = "class " + s.class.Name()
				if n, ok := e2cVal[s.class.Object().(*types.Var)]; ok {
					want, wantWhy = sxInt(n), ""
				} else {
					want, wantWhy = nil, e2cWhy[s.class.Object().(*types.Var)]
				}
			}
			paths, err := t.inScenario(wrapFn, s, nil)
			if err != nil {
				built, whyBuilt = false, err.Error()
				continue
			}
			for _, p := range paths {
				var res sxVal = sxNil()
				if !p.panicked && len(p.ret) == 1 {
					res = p.ret[0]
				}
				se := sxIsTerm(res, "call:"+c19StatusError)
				if se == nil || len(se.args) != 2 {
					built, whyBuilt = false, fmt.Sprintf("for an uncoded error (%s) GRPCWrap gives %s", cls, p.String())
					continue
				}
				if m := sxIsTerm(se.args[1], "invoke:Error"); m == nil || len(m.args) != 1 || m.args[0].key() != perr {
					okMsg, whyMsg = false, "the message is "+se.args[1].key()
				}
				if want == nil {
					okCode, whyCode = false, "GRPCStatusCode is not determined: "+wantWhy
				} else if se.args[0].key() != want.key() {
					okCode, whyCode = false, fmt.Sprintf("for an uncoded error (%s) the code is %s, GRPCStatusCode gives %s", cls, se.args[0].key(), want.key())
				}
			}
		}
		at := c19callSite(wrapFn, c19StatusError)
		if !built {
			c.Decide("C19.R4", wrapFn, "status.Error(code, err.Error())", at, false, "GRPCWrap does not build a status error for every uncoded error: "+whyBuilt)
		} else {
			c.Decide("C19.R4", wrapFn, "message = err.Error()", at, okMsg, "the status message is not err.Error() of the wrapped error: an embedded object or the text is lost: "+whyMsg)
			c.Decide("C19.R4", wrapFn, "code = GRPCStatusCode(err)", at, okCode, "the status code is not GRPCStatusCode(err): "+whyCode)
		}
		c.Decide("C19.R4", wrapFn, "already coded error returned unchanged", nil, okId, "GRPCWrap returns something else than its argument for an already coded error (not idempotent): "+whyId)
	}

	// R4: the marker protocol of EmbedObject / ExtractObject
	c.embedExtract(t, embedFn, extractFn)
	c.c19codec(t, embedFn) // R8 (x_c19_i.go)

	// R5: Is(err, target) is "the chain of err holds target, or the class of the code of err is target", decided in
	// every scenario {status.Code(err) = each code} x {target = each class} x {errors.Is(err, target) true / false}
	{
		perr, ptarget := c19errParam(isFn, 0).key(), c19errParam(isFn, 1).key()
		seenClass := map[*types.Var]bool{}
		var targets []*types.Var
		for _, k := range append(append(append([]*types.Var{}, classes...), rangeClasses...), c2eVal[c19OutOfRange]) {
			if k != nil && !seenClass[k] {
				seenClass[k] = true
				targets = append(targets, k)
			}
		}
		direct, viaCode := len(targets) > 0, len(targets) > 0
		whyDirect, whyVia := "no class to test with", "no class to test with"
		for _, code := range append(append([]int64{}, codeVals...), c19OutOfRange) {
			byCode, known := c2eVal[code]
			if !known {
				continue // reported by R1 / R6
			}
			for _, target := range targets {
				for _, inChain := range []bool{false, true} {
					tg := global(target)
					t.env.call = func(name string, args []sxVal) sxVal {
						switch {
						case c19isStatusCode(name, args, c19errParam(isFn, 0)):
							return sxInt(code)
						case name == "errors.Is" && len(args) == 2 && args[1].key() == ptarget:
							if args[0].key() == perr {
								return sxBool(inChain)
							}
							if g, ok := args[0].(sxGlob); ok {
								return sxBool(g.g == tg)
							}
							if sxIsNil(args[0]) {
								return sxBool(false)
							}
						}
						return nil
					}
					t.env.nonNil = func(v sxVal) bool {
						return v.key() == ptarget || (v.key() == perr && t.codes[code] != "OK")
					}
					outs, why := c19outs(sxExplore(t.env, isFn, []sxVal{c19errParam(isFn, 0), c19errParam(isFn, 1)}))
					t.env.call, t.env.nonNil = nil, nil
					want := inChain || byCode == target
					for _, o := range outs {
						if o.nilParam == perr && inChain {
							continue // not a scenario: the chain of the nil error holds nothing
						}
						if got, ok := sxAsBool(o.val); !ok {
							why = "gives " + o.val.key()
						} else if got != want {
							why = fmt.Sprintf("is %v", got)
						}
					}
					if why == "" {
						continue
					}
					why = fmt.Sprintf("Is(err, %s) for an error with the code %s whose chain %s %s: %s", target.Name(), codeName(code),
						map[bool]string{true: "holds", false: "does not hold"}[inChain], target.Name(), why)
					if !inChain && byCode == target {
						if viaCode {
							viaCode, whyVia = false, why
						}
					} else if direct {
						direct, whyDirect = false, why
					}
				}
			}
		}
		c.Decide("C19.R5", isFn, "errors.Is(err,target)", nil, direct, "Is is not true exactly when the chain or the code class matches: "+whyDirect)
		c.Decide("C19.R5", isFn, "errors.Is(FromGRPCError(err),target)", nil, viaCode, "Is does not fall back to the class derived from the gRPC code: "+whyVia)
	}

	// R6: GRPCStatusCode
	{
		okRange, whyRange := len(classes) > 0, "GRPCStatusCode never tests errors.Is(err, <class>)"
		if defWhy != "" {
			okRange, whyRange = false, "for an uncoded error of no class: "+defWhy
		}
		for _, k := range classes {
			if _, ok := e2cVal[k]; !ok && okRange {
				okRange, whyRange = false, "for an uncoded error of class "+k.Name()+": "+e2cWhy[k]
			}
		}
		// with a class->code table: every entry is found, and with its code
		rangeDecided := true
		if t.e2cVar != nil && okRange {
			entries, concrete := sxMapEntries(sxGlobalValue(t.env, global(t.e2cVar)))
			if !concrete {
				c.Undecided("C19.R6", codeFn, "range class->code with errors.Is", nil, "the content of the class->code table "+t.e2cVar.Name()+" is not known")
				rangeDecided = false
			}
			for _, e := range entries {
				k, isClass := classOf(e.k)
				code, isCode := sxAsInt(e.v)
				switch {
				case !isClass || k == nil || !isCode:
					okRange, whyRange = false, "table entry "+e.k.key()+": "+e.v.key()+" is not <class variable>: <code>"
				case !asked[global(k)]:
					okRange, whyRange = false, "the class "+k.Name()+" of the table is never tested with errors.Is"
				default:
					if got, ok := e2cVal[k]; ok && got != code {
						okRange, whyRange = false, fmt.Sprintf("an uncoded error of class %s gets the code %s, the table says %s", k.Name(), codeName(got), codeName(code))
					}
				}
			}
			if concrete && len(entries) != len(classes) && okRange {
				okRange, whyRange = false, "GRPCStatusCode tests classes that are not in the class->code table"
			}
		}
		if rangeDecided {
			c.Decide("C19.R6", codeFn, "range class->code with errors.Is", nil, okRange, "GRPCStatusCode does not find the class of a wrapped error by errors.Is over the class->code table: "+whyRange)
		}
		// a coded error keeps its code
		okCoded, whyCoded := true, ""
		for _, code := range append(append([]int64{}, codeVals...), c19OutOfRange) {
			if code == codeUnknown {
				continue
			}
			v, why := c19single(t.inScenario(codeFn, c19scn{code: code}, nil))
			if why == "" {
				if n, ok := sxAsInt(v); !ok || n != code {
					why = "returns " + v.key()
				}
			}
			if why != "" && okCoded {
				okCoded, whyCoded = false, fmt.Sprintf("for an error with the code %s GRPCStatusCode %s", codeName(code), why)
			}
		}
		c.Decide("C19.R6", codeFn, "coded error keeps its code", nil, okCoded, "GRPCStatusCode does not return status.Code(err) for an already coded error: "+whyCoded)
	}
}

// c19isStatusCode: the call is status.Code(err), or its definition status.Convert(err).Code().
func c19isStatusCode(name string, args []sxVal, perr sxVal) bool {
	if len(args) != 1 {
		return false
	}
	if name == c19StatusCode {
		return args[0].key() == perr.key()
	}
	if strings.HasSuffix(name, "/status.Status).Code") {
		cv := sxIsTerm(args[0], "call:google.golang.org/grpc/status.Convert")
		return cv != nil && len(cv.args) == 1 && cv.args[0].key() == perr.key()
	}
	return false
}

// c19errParam returns the symbolic value of the n-th parameter of type error of fn (whatever its name is).
func c19errParam(fn *ssa.Function, n int) sxVal {
	for _, p := range fn.Params {
		if ir.IsErrorType(p.Type()) {
			if n == 0 {
				return sxParam(p.Name())
			}
			n--
		}
	}
	return sxT("no such parameter")
}

// c19callSite returns the first call of the named function in fn (for the position of an obligation), or nil.
func c19callSite(fn *ssa.Function, name string) ssa.Instruction {
	var res ssa.Instruction
	ir.Instrs(fn, func(in ssa.Instruction) {
		if call, ok := in.(*ssa.Call); ok && res == nil && ir.CalleeFullName(call) == name {
			res = call
		}
	})
	return res
}

// c19initOnly returns the functions of the package that run only as part of the package initialiser: their bodies were
// executed when the initialiser was evaluated (ran), they are not reachable by static calls from an exported function
// or method, and they are never used as a value (so nothing can call them later).
func c19initOnly(c *Ctx, sp *ssa.Package, ran map[*ssa.Function]bool) map[*ssa.Function]bool {
	all := c.P.FuncsOf("errors")
	escapes := map[*ssa.Function]bool{}
	callees := map[*ssa.Function][]*ssa.Function{}
	for _, fn := range all {
		ir.Instrs(fn, func(in ssa.Instruction) {
			var callee ssa.Value
			if ci, ok := in.(ssa.CallInstruction); ok && !ci.Common().IsInvoke() {
				callee = ci.Common().Value
			}
			for _, op := range in.Operands(nil) {
				if op == nil || *op == nil {
					continue
				}
				var f *ssa.Function
				switch x := (*op).(type) {
				case *ssa.Function:
					f = x
				case *ssa.MakeClosure:
					f, _ = x.Fn.(*ssa.Function)
				}
				if f == nil {
					continue
				}
				if _, isCall := in.(*ssa.Call); isCall && *op == callee {
					callees[fn] = append(callees[fn], f)
				} else {
					escapes[f] = true
				}
			}
			if mc, ok := in.(*ssa.MakeClosure); ok {
				if f, ok := mc.Fn.(*ssa.Function); ok {
					escapes[f] = true
				}
			}
		})
	}
	reach := map[*ssa.Function]bool{}
	var visit func(fn *ssa.Function)
	visit = func(fn *ssa.Function) {
		if fn == nil || reach[fn] {
			return
		}
		reach[fn] = true
		for _, f := range callees[fn] {
			visit(f)
		}
	}
	for _, fn := range all {
		if fn.Name() != "init" && fn.Parent() == nil && token.IsExported(fn.Name()) {
			visit(fn)
		}
	}
	res := map[*ssa.Function]bool{}
	for _, fn := range all {
		if ran[fn] && !reach[fn] && !escapes[fn] && fn.Name() != "init" {
			res[fn] = true
		}
	}
	return res
}

// embedExtract is the marker part of C19.R4. Both functions are executed symbolically (helpers followed); what they
// do to the message is read from the calls into strings / fmt / encoding/json on the paths.
func (c *Ctx) embedExtract(t *c19tables, embedFn, extractFn *ssa.Function) {
	isConv := func(name string) bool { // zero-copy string<->[]byte conversions of golibs/cast
		i := strings.LastIndex(name, ".")
		return i > 0 && strings.HasSuffix(name[:i], "/cast")
	}
	t.env.call, t.env.nonNil = nil, nil

	// ---- ExtractObject
	marker, okExtract, whyExtract := "", false, ""
	var xargs []sxVal
	for _, p := range extractFn.Params {
		xargs = append(xargs, sxParam(p.Name()))
	}
	var perr, pobj sxVal
	for i, p := range extractFn.Params {
		if ir.IsErrorType(p.Type()) {
			perr = xargs[i]
		} else {
			pobj = xargs[i]
		}
	}
	xpaths, xerr := sxExplore(t.env, extractFn, xargs)
	if os.Getenv("VERIF_C19_DEBUG") != "" {
		fmt.Fprintf(os.Stderr, "C19 ExtractObject err=%v\n%s\n", xerr, sxDump(xpaths))
	}
	switch {
	case xerr != nil:
		whyExtract = xerr.Error()
	case perr == nil || pobj == nil:
		whyExtract = "unexpected signature"
	default:
		msg := sxT("invoke:Error", perr)
		// the paths that reach json.Unmarshal, and the decisions taken before it
		var pre []string
		var um *sxCall
		var umPath *sxPath
		n := 0
		for _, p := range xpaths {
			for i := range p.calls {
				if p.calls[i].name != "encoding/json.Unmarshal" {
					continue
				}
				var ds []string
				for _, d := range p.conds {
					if d.ncalls <= i {
						ds = append(ds, d.String())
					}
				}
				sort.Strings(ds)
				if n > 0 && strings.Join(ds, " && ") != strings.Join(pre, " && ") {
					whyExtract = "json.Unmarshal is reached under different conditions: [" + strings.Join(ds, " && ") + "] and [" + strings.Join(pre, " && ") + "]"
				}
				pre, um, umPath = ds, &p.calls[i], p
				n++
				break
			}
		}
		if n == 0 {
			whyExtract = "json.Unmarshal is never reached"
		}
		if whyExtract == "" {
			// remove the nil test of the error
			var conds []string
			for _, d := range pre {
				if d == "!"+sxT("==", sxNil(), perr).key() || d == "!"+sxT("==", perr, sxNil()).key() {
					continue
				}
				conds = append(conds, d)
			}
			payload := sxStripConv(um.args[0], isConv)
			target := um.args[1]
			sepOf := func(cl sxCall, name string, subject sxVal) (string, bool) {
				if cl.name != name || len(cl.args) != 2 || cl.args[0].key() != subject.key() {
					return "", false
				}
				return sxAsString(cl.args[1])
			}
			matched := false
			for _, cl := range umPath.calls {
				// form A: parts := strings.Split(msg, marker); len(parts) == 3; parts[1]
				if m, ok := sepOf(cl, "strings.Split", msg); ok && m != "" {
					marker = m
					want := []string{sxT("==", sxInt(3), sxT("len", cl.res)).key()}
					if strings.Join(conds, " && ") == strings.Join(want, " && ") &&
						payload.key() == sxT("load", sxT("idx", cl.res, sxInt(1))).key() {
						matched = true
					}
				}
				// form B: _, rest, found := strings.Cut(msg, marker); body, tail, found2 := strings.Cut(rest, marker);
				// found && found2 && no marker in tail; body
				if m, ok := sepOf(cl, "strings.Cut", msg); ok && m != "" {
					marker = m
					rest := sxT("extract#1", cl.res)
					for _, cl2 := range umPath.calls {
						if m2, ok := sepOf(cl2, "strings.Cut", rest); !ok || m2 != m {
							continue
						}
						tail := sxT("extract#1", cl2.res)
						base := []string{sxT("extract#2", cl.res).key(), sxT("extract#2", cl2.res).key()}
						idx := sxT("call:strings.Index", tail, sxStr(m))
						for _, third := range []string{
							"!" + sxT("call:strings.Contains", tail, sxStr(m)).key(),
							sxT("<", idx, sxInt(0)).key(),
							sxT("==", sxInt(-1), idx).key(),
						} {
							want := append(append([]string{}, base...), third)
							sort.Strings(want)
							if strings.Join(conds, " && ") == strings.Join(want, " && ") && payload.key() == sxT("extract#0", cl2.res).key() {
								matched = true
							}
						}
					}
				}
			}
			switch {
			case marker == "":
				whyExtract = "the message err.Error() is not separated by a constant marker (strings.Split / strings.Cut)"
			case !matched:
				whyExtract = "json.Unmarshal(" + um.args[0].key() + ") is reached when [" + strings.Join(conds, " && ") + "]: that is not 'the message holds exactly two markers' with the text between them"
			case target.key() != pobj.key():
				whyExtract = "json.Unmarshal does not fill the object passed in"
			default:
				okExtract = true
			}
		}
	}

	// ---- EmbedObject
	var eargs []sxVal
	var eerr, eobj sxVal
	for _, p := range embedFn.Params {
		a := sxParam(p.Name())
		eargs = append(eargs, a)
		if ir.IsErrorType(p.Type()) {
			eerr = a
		} else {
			eobj = a
		}
	}
	epaths, eerror := sxExplore(t.env, embedFn, eargs)
	if os.Getenv("VERIF_C19_DEBUG") != "" {
		fmt.Fprintf(os.Stderr, "C19 EmbedObject err=%v\n%s\n", eerror, sxDump(epaths))
	}
	shared, okEmbed, whyEmbed := false, false, ""
	nEmbed := 0
	if eerror != nil {
		whyEmbed = eerror.Error()
	} else if eerr == nil || eobj == nil {
		whyEmbed = "unexpected signature"
	} else {
		okEmbed = true
		for _, p := range epaths {
			if p.panicked || len(p.ret) != 1 || p.ret[0].key() == eerr.key() {
				continue // refused inputs, and the object that cannot be marshalled: the error as it is
			}
			nEmbed++
			segs, why := c19message(p.ret[0])
			if why != "" {
				okEmbed, whyEmbed = false, why
				continue
			}
			// every constant piece of the text that holds the marker
			count := 0
			for _, s := range segs {
				if s.val == nil {
					count += strings.Count(s.lit, marker)
				}
			}
			if marker != "" && count > 0 {
				shared = true
			}
			ok := marker != "" && len(segs) >= 4 && count == 2 &&
				segs[0].val == nil && segs[0].lit == marker &&
				segs[1].val != nil && segs[1].verb != 'w' && strings.Contains(sxStripConv(segs[1].val, isConv).key(), eobj.key()) &&
				segs[2].val == nil && strings.HasPrefix(segs[2].lit, marker)
			wrapped := false
			for _, s := range segs[min(3, len(segs)):] {
				if s.val != nil && s.verb == 'w' && s.val.key() == eerr.key() {
					wrapped = true
				}
			}
			if !ok || !wrapped {
				okEmbed, whyEmbed = false, "the message is "+c19segString(segs)
			}
		}
		if nEmbed == 0 {
			okEmbed, whyEmbed = false, "EmbedObject never builds a new error"
		}
	}
	c.Decide("C19.R4", embedFn, "marker shared with ExtractObject", nil, marker != "" && shared,
		"EmbedObject and ExtractObject do not use one common marker constant: "+whyExtract+" "+whyEmbed)
	if marker != "" && shared {
		c.Decide("C19.R4", embedFn, "marker payload marker + %w err", nil, okEmbed, "EmbedObject does not produce <marker><json><marker>: %w err: "+whyEmbed)
		c.Decide("C19.R4", extractFn, "split by marker into exactly 3 parts", nil, okExtract, "ExtractObject does not split the message by the marker into exactly three parts: "+whyExtract)
	}
}

// c19seg is a piece of a formatted message: constant text, or a value printed by a verb.
type c19seg struct {
	lit  string
	val  sxVal
	verb byte
}

func c19segString(segs []c19seg) string {
	var s []string
	for _, g := range segs {
		if g.val == nil {
			s = append(s, fmt.Sprintf("%q", g.lit))
		} else {
			s = append(s, "%"+string(g.verb)+"<"+g.val.key()+">")
		}
	}
	return strings.Join(s, " ")
}

// c19message expands the term fmt.Errorf(format, args...) into the sequence of pieces of the message: the constant
// text of the format, string constants and concatenations printed by %s / %v are spliced in.
func c19message(v sxVal) ([]c19seg, string) {
	call := sxIsTerm(v, "call:fmt.Errorf")
	if call == nil || len(call.args) != 2 {
		return nil, "EmbedObject returns " + v.key() + ", not fmt.Errorf(...)"
	}
	format, ok := sxAsString(call.args[0])
	if !ok {
		return nil, "the format of fmt.Errorf is not a constant"
	}
	args, ok := sxSliceElems(call.args[1])
	if !ok {
		return nil, "the arguments of fmt.Errorf are not a list"
	}
	var segs []c19seg
	lit := func(s string) {
		if s == "" {
			return
		}
		if n := len(segs); n > 0 && segs[n-1].val == nil {
			segs[n-1].lit += s
			return
		}
		segs = append(segs, c19seg{lit: s})
	}
	next := 0
	for i := 0; i < len(format); i++ {
		if format[i] != '%' {
			lit(format[i : i+1])
			continue
		}
		i++
		plain := true
		for i < len(format) && strings.IndexByte("+-# 0123456789.[]*", format[i]) >= 0 {
			plain = false
			i++
		}
		if i >= len(format) {
			return nil, "malformed format"
		}
		if format[i] == '%' {
			lit("%")
			continue
		}
		if next >= len(args) {
			return nil, "more verbs than arguments"
		}
		a := args[next]
		next++
		verb := format[i]
		if plain && (verb == 's' || verb == 'v') {
			for _, piece := range sxConcat(a) {
				if s, ok := sxAsString(piece); ok {
					lit(s)
				} else {
					segs = append(segs, c19seg{val: piece, verb: verb})
				}
			}
			continue
		}
		segs = append(segs, c19seg{val: a, verb: verb})
	}
	if next != len(args) {
		return nil, "more arguments than verbs"
	}
	return segs, ""
}

func extractOfNext(v ssa.Value, rg *ssa.Range, idx int) bool {
	ex, ok := v.(*ssa.Extract)
	if !ok || ex.Index != idx {
		return false
	}
	nx, ok := ex.Tuple.(*ssa.Next)
	return ok && nx.Iter == ssa.Value(rg)
}

func globalOf(v ssa.Value) *ssa.Global {
	v = ir.Resolve(v)
	if u, ok := v.(*ssa.UnOp); ok && u.Op == token.MUL {
		if g, ok := u.X.(*ssa.Global); ok {
			return g
		}
	}
	if g, ok := v.(*ssa.Global); ok {
		return g
	}
	return nil
}

// parseE2C records the positions of the entries of a class->code table that is a literal (for the reports only: the
// content of the table is what the package initialiser builds).
func (c *Ctx) parseE2C(t *c19tables, cl *ast.CompositeLit) {
	for _, el := range cl.Elts {
		kv, ok := el.(*ast.KeyValueExpr)
		if !ok {
			continue
		}
		if cls := c.classVar(t, kv.Key); cls != nil {
			t.e2cPos[cls] = kv.Pos()
		}
	}
}

// parseC2E is parseE2C for the code->class table.
func (c *Ctx) parseC2E(t *c19tables, cl *ast.CompositeLit) {
	for _, el := range cl.Elts {
		kv, ok := el.(*ast.KeyValueExpr)
		if !ok {
			continue
		}
		if code, okc := c.codeConst(t, kv.Key); okc {
			t.c2ePos[code] = kv.Pos()
		}
	}
}

func (c *Ctx) classVar(t *c19tables, e ast.Expr) *types.Var {
	id, ok := ast.Unparen(e).(*ast.Ident)
	if !ok {
		return nil
	}
	v, _ := t.pk.TypesInfo.Uses[id].(*types.Var)
	if v == nil || v.Pkg() != t.pk.Types || v.Parent() != t.pk.Types.Scope() {
		return nil
	}
	return v
}

func (c *Ctx) codeConst(t *c19tables, e ast.Expr) (int64, bool) {
	tv, ok := t.pk.TypesInfo.Types[e]
	if !ok || tv.Value == nil || !types.Identical(tv.Type, t.codeType) {
		return 0, false
	}
	v, exact := constant.Int64Val(tv.Value)
	return v, exact
}

// classIndependence is C19.R3: classes are the classes of the class->code direction, others the classes the
// code->class direction yields, fallback the class of an unlisted code.
func (c *Ctx) classIndependence(t *c19tables, classes, others []*types.Var, fallback *types.Var) {
	all := append([]*types.Var{}, classes...)
	seen := map[*types.Var]bool{}
	for _, k := range all {
		seen[k] = true
	}
	for _, v := range others {
		if v != nil && !seen[v] {
			seen[v] = true
			all = append(all, v)
		}
	}
	if fallback != nil && !seen[fallback] {
		all = append(all, fallback)
	}
	sort.Slice(all, func(i, j int) bool { return all[i].Name() < all[j].Name() })
	origin := map[string]*types.Var{}
	for _, f := range t.pk.Syntax {
		for _, d := range f.Decls {
			gd, ok := d.(*ast.GenDecl)
			if !ok || gd.Tok != token.VAR {
				continue
			}
			for _, sp := range gd.Specs {
				vs := sp.(*ast.ValueSpec)
				for i, name := range vs.Names {
					obj, _ := t.pk.TypesInfo.Defs[name].(*types.Var)
					if obj == nil || !seen[obj] && obj != fallback {
						continue
					}
					if i >= len(vs.Values) {
						c.DecideAt("C19.R3", obj.Name(), "initialiser", name.Pos(), false, "class variable without initialiser (nil class)")
						continue
					}
					init := ast.Unparen(vs.Values[i])
					switch x := init.(type) {
					case *ast.SelectorExpr, *ast.Ident:
						var o types.Object
						if se, ok := x.(*ast.SelectorExpr); ok {
							o = t.pk.TypesInfo.Uses[se.Sel]
						} else {
							o = t.pk.TypesInfo.Uses[x.(*ast.Ident)]
						}
						fv, isVar := o.(*types.Var)
						if !isVar {
							c.DecideAt("C19.R3", obj.Name(), "initialiser", name.Pos(), false, "class is not initialised from a variable")
							continue
						}
						key := fv.Pkg().Path() + "." + fv.Name()
						if prev, dup := origin[key]; dup {
							c.DecideAt("C19.R3", obj.Name(), "distinct value", name.Pos(), false, fmt.Sprintf("classes %s and %s are the same value %s: Is() cannot tell them apart", prev.Name(), obj.Name(), key))
							continue
						}
						origin[key] = obj
						c.DecideAt("C19.R3", obj.Name(), "distinct value", name.Pos(), true, "")
					case *ast.CallExpr:
						fnObj := calleeObjAST(t.pk, x)
						full := ""
						if fnObj != nil {
							full = fnObj.FullName()
						}
						if full != "fmt.Errorf" && full != "errors.New" {
							c.DecideAt("C19.R3", obj.Name(), "fresh value", name.Pos(), false, "class is initialised by "+full+", not by fmt.Errorf/errors.New")
							continue
						}
						okFmt := false
						if len(x.Args) >= 1 {
							if tv, ok := t.pk.TypesInfo.Types[x.Args[0]]; ok && tv.Value != nil && tv.Value.Kind() == constant.String {
								if !strings.Contains(constant.StringVal(tv.Value), "%w") && len(x.Args) == 1 {
									okFmt = true
								}
							}
						}
						c.DecideAt("C19.R3", obj.Name(), "fresh value", name.Pos(), okFmt, "class initialiser wraps another error or has a non-constant format: the class would match another class")
					default:
						c.DecideAt("C19.R3", obj.Name(), "initialiser", name.Pos(), false, "unrecognised class initialiser")
					}
				}
			}
		}
	}
	c.R.Floor("C19.R3", 10)
}

// errorKeyedMaps is C19.R7: no caller-supplied error is used as a map key. The class->code table is a map[error]Code;
// indexing it with an arbitrary error value hashes the value's dynamic type, and for an unhashable one (an error type
// that is a slice, a map, or a struct holding one - validation error lists are of this shape) the runtime panics,
// although the wrapped class is perfectly reachable through errors.Is. Functions taking an error index such a map only
// with package-level class variables (range keys, literals), never with a parameter. Functions that only the package
// initialiser runs (table builders, initOnly) have no caller outside of the package: the keys they use are known and
// were checked when the initialiser was evaluated.
func (c *Ctx) errorKeyedMaps(initOnly map[*ssa.Function]bool) {
	nIdx := 0
	for _, fn := range c.P.FuncsOf("errors") {
		if initOnly[fn] {
			continue
		}
		ir.Instrs(fn, func(in ssa.Instruction) {
			var m, key ssa.Value
			switch x := in.(type) {
			case *ssa.Lookup:
				m, key = x.X, x.Index
			case *ssa.MapUpdate:
				m, key = x.Map, x.Key
			default:
				return
			}
			mt, ok := m.Type().Underlying().(*types.Map)
			if !ok || !ir.IsErrorType(mt.Key()) {
				return
			}
			nIdx++
			fromParam := false
			for _, o := range ir.Origins(key) {
				if _, isP := o.(*ssa.Parameter); isP {
					fromParam = true
				}
			}
			c.Decide("C19.R7", fn, "error-keyed table is not indexed with a caller-supplied error", in, !fromParam,
				"a map keyed by error is indexed with the error passed in by the caller: an error value of an unhashable dynamic type (slice / map / struct with a slice) makes the runtime panic in GRPCWrap / GRPCStatusCode although its class is reachable through errors.Is")
		})
	}
	if nIdx == 0 {
		c.Decide("C19.R7", nil, "error-keyed tables are only ranged over", nil, true, "")
	}
}

func calleeObjAST(pk *packages.Package, call *ast.CallExpr) *types.Func {
	switch f := ast.Unparen(call.Fun).(type) {
	case *ast.SelectorExpr:
		fn, _ := pk.TypesInfo.Uses[f.Sel].(*types.Func)
		return fn
	case *ast.Ident:
		fn, _ := pk.TypesInfo.Uses[f].(*types.Func)
		return fn
	}
	return nil
}

// constStringsUsed returns the string constants referenced in fn.
func (c *Ctx) constStringsUsed(fn *ssa.Function) map[string]bool {
	res := map[string]bool{}
	ir.Instrs(fn, func(in ssa.Instruction) {
		for _, op := range in.Operands(nil) {
			if op == nil || *op == nil {
				continue
			}
			if cv := ir.ConstVal(*op); cv != nil && cv.Kind() == constant.String {
				res[constant.StringVal(cv)] = true
			}
		}
	})
	return res
}

// variadicArgs returns the elements stored into the array behind a variadic slice argument.
func variadicArgs(v ssa.Value) []ssa.Value {
	sl, ok := v.(*ssa.Slice)
	if !ok {
		return nil
	}
	al, ok := sl.X.(*ssa.Alloc)
	if !ok {
		return nil
	}
	arr, ok := al.Type().(*types.Pointer).Elem().Underlying().(*types.Array)
	if !ok {
		return nil
	}
	res := make([]ssa.Value, arr.Len())
	if al.Referrers() == nil {
		return nil
	}
	for _, r := range *al.Referrers() {
		ia, ok := r.(*ssa.IndexAddr)
		if !ok {
			continue
		}
		idx, isC := ir.ConstInt(ia.Index)
		if !isC || ia.Referrers() == nil {
			continue
		}
		for _, rr := range *ia.Referrers() {
			if st, ok := rr.(*ssa.Store); ok && st.Addr == ssa.Value(ia) && int(idx) < len(res) {
				res[idx] = st.Val
			}
		}
	}
	for _, r := range res {
		if r == nil {
			return nil
		}
	}
	return res
}

// formatVerbs lists the verbs of a printf format.
func formatVerbs(f string) []byte {
	var res []byte
	for i := 0; i < len(f); i++ {
		if f[i] != '%' {
			continue
		}
		i++
		for i < len(f) && strings.IndexByte("+-# 0123456789.[]*", f[i]) >= 0 {
			i++
		}
		if i < len(f) && f[i] != '%' {
			res = append(res, f[i])
		}
	}
	return res
}
