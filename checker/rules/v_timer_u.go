package rules

import (
	"go/token"
	"go/types"

	"golang.org/x/tools/go/ssa"

	"verif/checker/ir"
)

// Timer rules, benign round u (false alarms removed by stating the clauses more exactly).

// ---------------------------------------------------------------------------
// R11 / R1: the wake-up routine posts, unless no worker exists
//
// R11 exists for a wake-up routine that decides by itself that nobody needs to be woken (seed C13-f1: "nothing queued").
// The one sound reason not to post is that nobody could hear it: the worker count is zero at that point (read under the
// lock - R6 - so no worker can appear in between). That is the same edge R12 accepts in the cancel routine in front of the
// call; a guard that moved from the callers into the routine is the same program. Any other exit without a post is still
// reported.
//
// R1 ("after Push: start a worker or wake one") counts a call of the wake-up routine as "a worker is told". With a
// routine that stays silent when no worker exists this is only true where a worker is known to exist: the call then
// counts only under the guard fact workers != 0 (the complement of the branch that starts one). For a routine that posts
// on every path nothing changes.

// tmWorkersCmp decodes cm as a comparison of the worker count with a constant (count on the left).
func (r *timerRoles) tmWorkersCmp(cm ir.Cmp) (op token.Token, k int64, ok bool) {
	x, y, op := cm.X, cm.Y, cm.Op
	if ir.LoadedField(y) == r.workers {
		x, y, op = y, x, ir.SwapOp(op)
	}
	if ir.LoadedField(x) != r.workers {
		return op, 0, false
	}
	k, isC := ir.ConstInt(y)
	return op, k, isC
}

// tmNoWorkerEdge: taking the edge from -> to tells that no worker exists (workers == 0, <= 0, < 1).
func (r *timerRoles) tmNoWorkerEdge(from, to *ssa.BasicBlock) bool {
	ef := ir.EdgeFact(from, to)
	if ef == nil {
		return false
	}
	cm, isCmp := ef.Cmp()
	if !isCmp {
		return false
	}
	op, k, ok := r.tmWorkersCmp(cm)
	if !ok {
		return false
	}
	switch op {
	case token.EQL, token.LEQ:
		return k == 0
	case token.LSS:
		return k == 1
	}
	return false
}

// tmIsPost: in sends on the wake channel (plain send or a select case).
func (r *timerRoles) tmIsPost(in ssa.Instruction) bool {
	if sel, isSel := in.(*ssa.Select); isSel {
		for _, st := range sel.States {
			if st.Dir == types.SendOnly {
				if _, isWake := loadOfField(st.Chan, r.wake); isWake {
					return true
				}
			}
		}
	}
	if snd, isSend := in.(*ssa.Send); isSend {
		_, isWake := loadOfField(snd.Chan, r.wake)
		return isWake
	}
	return false
}

// tmNotifyTells: the call `in` of the wake-up routine tells a worker: the routine posts on every path, or it may stay
// silent (only when no worker exists: R11) and the call stands where a worker is known to exist.
func (r *timerRoles) tmNotifyTells(in ssa.Instruction) bool {
	if !isCallTo(in, r.notify) {
		return false
	}
	if w, err := (ir.Query{Fn: r.notify, Block: r.tmIsPost, Target: ir.IsExit}).Find(); err == nil && w == nil {
		return true
	}
	return tmGuardHolds(in.Block(), func(cm ir.Cmp) bool {
		op, k, ok := r.tmWorkersCmp(cm)
		if !ok {
			return false
		}
		switch op {
		case token.NEQ, token.GTR:
			return k == 0
		case token.GEQ:
			return k == 1
		}
		return false
	})
}

// ---------------------------------------------------------------------------
// R12 for a cancel routine that takes a batch of futures
//
// R12 says of THE future the cancel routine is given: found queued, it is taken out with heap.Remove before the routine
// returns, and a worker is told afterwards while one exists. A routine that is given a batch (a slice / variadic
// parameter of futures) and loops over it owes this to every future of the batch:
//   - the loop visits every element: the range index counts from 0 in steps of 1 up to len(batch), and the header's
//     exhausted edge is the only way out of the loop (a `break` would leave the rest of the batch queued);
//   - for the element of an iteration: no path from the loop body to the next iteration or to a return avoids
//     heap.Remove, except over an edge that tells THIS element is not queued (tmNotQueuedCmp about batch[i]);
//   - the wake-up obligation is unchanged (from every heap.Remove to a return: the wake-up routine is called, except over
//     the no-worker edge); it is searched with the constants a path fixes, so that one wake-up behind the loop under a
//     "something was removed" flag the removal itself has set counts for every removal of the loop.

// tmBatchLoop describes the loop of a batch cancel routine.
type tmBatchLoop struct {
	header, body *ssa.BasicBlock
	isElem       func(ssa.Value) bool // v is batch[i] of the current iteration
}

// tmCancelBatchLoop recognises fn as a batch cancel routine: it has no parameter of the future type, exactly one
// parameter that is a slice of futures, and one loop over that parameter of the shape described above.
func (r *timerRoles) tmCancelBatchLoop(fn *ssa.Function) *tmBatchLoop {
	var batch *ssa.Parameter
	for _, p := range fn.Params {
		if _, isPtr := p.Type().Underlying().(*types.Pointer); isPtr && namedOf(p.Type()) == r.futureT {
			return nil
		}
		if r.isHeapSlice(p.Type()) {
			if batch != nil {
				return nil
			}
			batch = p
		}
	}
	if batch == nil {
		return nil
	}
	var res *tmBatchLoop
	n := 0
	for _, h := range fn.Blocks {
		if len(h.Succs) != 2 || len(h.Instrs) == 0 {
			continue
		}
		iff, isIf := h.Instrs[len(h.Instrs)-1].(*ssa.If)
		if !isIf {
			continue
		}
		cmp, isCmp := iff.Cond.(*ssa.BinOp)
		if !isCmp || cmp.Op != token.LSS {
			continue
		}
		lc, isCall := ir.Resolve(cmp.Y).(*ssa.Call)
		if !isCall {
			continue
		}
		cc := builtinCall(lc, "len")
		if cc == nil || len(cc.Args) != 1 || ir.Resolve(cc.Args[0]) != ssa.Value(batch) {
			continue
		}
		isLoop := false
		for _, p := range h.Preds {
			if h.Dominates(p) {
				isLoop = true
			}
		}
		if !isLoop {
			continue
		}
		n++
		idx := cmp.X
		done := h.Succs[1]
		if len(done.Preds) != 1 || !tmCountsFromZero(idx, h) {
			continue
		}
		res = &tmBatchLoop{header: h, body: h.Succs[0], isElem: func(v ssa.Value) bool {
			u, ok := ir.Resolve(v).(*ssa.UnOp)
			if !ok || u.Op != token.MUL {
				return false
			}
			ia, ok := u.X.(*ssa.IndexAddr)
			return ok && ir.Resolve(ia.X) == ssa.Value(batch) && ia.Index == idx
		}}
	}
	if n != 1 {
		return nil
	}
	return res
}

// timerCancelRemoves is the first obligation of R12. For a routine that is given one future it is the query it always
// was (edge: notQueued as the caller defines it). For a batch routine it is asked per element of the batch.
func (c *Ctx) timerCancelRemoves(r *timerRoles, rule string, fn *ssa.Function, isRemove func(ssa.Instruction) bool, notQueued func(from, to *ssa.BasicBlock) bool, what string) {
	const construct = "a queued future is removed from the heap"
	bl := r.tmCancelBatchLoop(fn)
	if bl == nil {
		c.NoPath(rule, construct, nil, ir.Query{Fn: fn, Block: isRemove, BlockEdge: notQueued, Target: ir.IsExit}, what)
		return
	}
	elemNotQueued := func(from, to *ssa.BasicBlock) bool {
		ef := ir.EdgeFact(from, to)
		return ef != nil && r.tmFactsImply([]ir.Fact{*ef}, bl.isElem, r.tmNotQueuedCmp, 0)
	}
	first := bl.header.Instrs[0]
	c.NoPath(rule, construct, nil, ir.Query{Fn: fn, FromBlock: bl.body, Block: isRemove, BlockEdge: elemNotQueued,
		Target: func(x ssa.Instruction) bool { return ir.IsExit(x) || x == first }}, what)
}

// tmNoPathConsts is Ctx.NoPath, except that a path found by the plain search is checked again with the constants the
// path fixes (ir.Query.TrackConsts: phi operands selected by the edge taken, comparisons on known values); a path that
// contradicts a flag it has set itself cannot execute. The second search only drops paths, so finding none is a proof;
// when it cannot decide, the plain result stands.
func (c *Ctx) tmNoPathConsts(rule, construct string, at ssa.Instruction, q ir.Query, what string) bool {
	w, err := q.Find()
	if err == nil && w != nil && !q.TrackConsts {
		q2 := q
		q2.TrackConsts = true
		if w2, err2 := q2.Find(); err2 == nil && w2 == nil {
			c.Decide(rule, q.Fn, construct, at, true, "")
			return true
		}
	}
	switch {
	case err != nil:
		c.Undecided(rule, q.Fn, construct, at, err.Error())
	case w != nil:
		c.Decide(rule, q.Fn, construct, at, false, what+": path "+w.String(c.P))
	default:
		c.Decide(rule, q.Fn, construct, at, true, "")
		return true
	}
	return false
}
