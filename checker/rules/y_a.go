package rules

import (
	"go/types"
	"strings"

	"golang.org/x/tools/go/ssa"

	"verif/checker/ir"
)

// ---------------------------------------------------------------------------
// helpers of the lock rules (C01/C04/C05) added in the second robustness round

// exitFailsOnPathYA: on the path described by val the return ret of fn reports failure to its caller - the error it
// returns is known non-nil on this path, or the boolean it returns is known false (`return err == nil` behind a branch
// that decided err != nil is the same exit as the literal `return false`).
func exitFailsOnPathYA(fn *ssa.Function, ret *ssa.Return, val *ir.Valuation) bool {
	rs := fn.Signature.Results()
	if rs.Len() == 0 {
		return false
	}
	last := rs.At(rs.Len() - 1).Type()
	v := ir.ResultValue(ret, rs.Len()-1)
	if v == nil {
		return false
	}
	switch {
	case ir.IsErrorType(last):
		isNil, known := val.KnownIsNil(v)
		return known && !isNil
	case types.Identical(last, types.Typ[types.Bool]):
		k, known := val.Known(v)
		return known && !k
	}
	return false
}

// calleeYA is ir.StaticCallee that also sees through a method value: calling the bound-method closure `l.m` (go/ssa:
// the synthetic wrapper m$bound with the receiver as its only binding) calls the method m of l.
func calleeYA(call ssa.CallInstruction) *ssa.Function {
	fn := ir.StaticCallee(call)
	if fn == nil {
		return nil
	}
	if strings.HasPrefix(fn.Synthetic, "bound method wrapper") {
		if obj, ok := fn.Object().(*types.Func); ok && obj != nil && fn.Prog != nil {
			if m := fn.Prog.FuncValue(obj); m != nil {
				if o := m.Origin(); o != nil {
					return o
				}
				return m
			}
		}
	}
	return fn
}

// closureFactoryYA: fc calls a function with a body whose every return yields a closure of one and the same function
// literal of that function (`func (l *T) step(ver string) func() { return func() {...} }`). Returns the function and the
// literal, or nil, nil.
func closureFactoryYA(fc *ssa.Call) (fac, cl *ssa.Function) {
	fac = ir.StaticCallee(fc)
	if fac == nil || len(fac.Blocks) == 0 || fac.Signature.Results().Len() != 1 {
		return nil, nil
	}
	rets := ir.Returns(fac)
	if len(rets) == 0 {
		return nil, nil
	}
	for _, ret := range rets {
		mc, ok := ir.Resolve(ir.ResultValue(ret, 0)).(*ssa.MakeClosure)
		if !ok {
			return nil, nil
		}
		f, _ := mc.Fn.(*ssa.Function)
		if f == nil || f.Parent() != fac || (cl != nil && cl != f) {
			return nil, nil
		}
		cl = f
	}
	return fac, cl
}

// renewalOfClosureYA: the renewal routine behind a closure cl that a function of the package builds for timeout.Call.
// The closure is the routine when it talks to the storage itself; otherwise it is a forwarder like a closure written at
// the arming site and the routine is the package function it calls (a Locker method first) - not counting the calls
// that only build the function for the next timeout.Call.
func renewalOfClosureYA(r *lockRoles, cl *ssa.Function) *ssa.Function {
	direct := false
	ir.Instrs(cl, func(in ssa.Instruction) {
		if r.storageCall(in, "") != nil {
			direct = true
		}
	})
	if direct {
		return cl
	}
	var method, other *ssa.Function
	for _, cc := range ir.Calls(cl) {
		cal := ir.StaticCallee(cc)
		if cal == nil || len(cal.Blocks) == 0 || cal.Pkg != cl.Pkg {
			continue
		}
		if v := cc.Value(); v != nil && feedsTimeoutCallYA(v) {
			continue
		}
		if cal.Signature.Recv() != nil && namedOf(cal.Signature.Recv().Type()) == r.locker {
			method = cal
		} else {
			other = cal
		}
	}
	switch {
	case method != nil:
		return method
	case other != nil:
		return other
	}
	return cl
}

// feedsTimeoutCallYA: v is used as the function argument of a timeout.Call.
func feedsTimeoutCallYA(v ssa.Value) bool {
	if v.Referrers() == nil {
		return false
	}
	for _, ref := range *v.Referrers() {
		if tc, ok := ref.(*ssa.Call); ok && strings.HasSuffix(ir.CalleeFullName(tc), "/timeout.Call") && len(tc.Call.Args) > 0 && tc.Call.Args[0] == v {
			return true
		}
	}
	return false
}

// factoryParamYA: v, a value inside the closure the renewal factory returns (or inside the factory), is parameter k of
// the factory - read directly or through the cell the captured parameter lives in, which nothing else writes
// (ir.Resolve follows a captured cell only when it has exactly one store, closures included).
func (r *lockRoles) factoryParamYA(v ssa.Value) (int, bool) {
	if r.renewalFactory == nil {
		return 0, false
	}
	p, ok := ir.Resolve(v).(*ssa.Parameter)
	if !ok || p.Parent() != r.renewalFactory {
		return 0, false
	}
	for i, q := range r.renewalFactory.Params {
		if q == p {
			return i, true
		}
	}
	return 0, false
}
