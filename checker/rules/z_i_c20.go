package rules

import (
	"fmt"
	"go/constant"
	"go/token"
	"go/types"
	"sort"
	"strings"

	"golang.org/x/tools/go/ssa"

	"verif/checker/ir"
)

// Rules added for the seeded round "e" (C20.R9, R10, R11). Each is a necessary condition of the round trip clause
// "ZipFolder followed by UnzipToFolder reproduces every regular file that the filter and the recursive flag select":
//
//   R9   what is opened while one entry is handled is closed before the next entry is handled (the clause quantifies
//        over trees with many files; a handle per entry that lives until the whole archive is done exhausts the
//        descriptors of the process);
//   R10  a walked entry is left out of the archive - the walk callback returns "go on" without reaching the archive
//        write - only for one of the three reasons the clause knows: the entry is no regular file (decided by a test of
//        the file-type bits only), the filter was asked and said no, the recursive flag is off and the directory
//        comparison said "other directory";
//   R11  the directory the archive entry name is made relative to, and the one the directory of a walked file is
//        compared with, is the directory that is walked (filepath.Walk hands out paths that start with ITS root).

// selTop is a function that writes archive entries and carries selection inputs (the walk callback), with its roles
// and the calls through which a file reaches the archive.
type selTop struct {
	fn     *ssa.Function
	roles  *selRoles
	writes []*ssa.Call
}

// ===========================================================================
// C20.R9: a handle opened per entry is released before the next entry

type handleEnv struct {
	inPkg map[*ssa.Function]bool
}

// handleInfo: where the handle (a value with a Close method) is in one function.
type handleInfo struct {
	fn      *ssa.Function
	H       map[ssa.Value]bool  // the handle and its conversions, loads of the locals it is kept in
	cells   map[*ssa.Alloc]bool // locals it is kept in
	escapes bool                // returned, stored into a structure, captured by a closure that is not called in place ...
}

// track follows the handle forward from seeds through conversions, phis and local variables.
func (e *handleEnv) track(fn *ssa.Function, seeds []ssa.Value) *handleInfo {
	hi := &handleInfo{fn: fn, H: map[ssa.Value]bool{}, cells: map[*ssa.Alloc]bool{}}
	for _, s := range seeds {
		hi.H[s] = true
	}
	for changed := true; changed; {
		changed = false
		add := func(v ssa.Value) {
			if !hi.H[v] {
				hi.H[v] = true
				changed = true
			}
		}
		ir.Instrs(fn, func(in ssa.Instruction) {
			switch x := in.(type) {
			case *ssa.ChangeInterface:
				if hi.H[x.X] {
					add(x)
				}
			case *ssa.MakeInterface:
				if hi.H[x.X] {
					add(x)
				}
			case *ssa.ChangeType:
				if hi.H[x.X] {
					add(x)
				}
			case *ssa.TypeAssert:
				if hi.H[x.X] {
					add(x)
				}
			case *ssa.Extract:
				if _, isTA := x.Tuple.(*ssa.TypeAssert); isTA && hi.H[x.Tuple] && x.Index == 0 {
					add(x)
				}
			case *ssa.Phi:
				for _, ed := range x.Edges {
					if hi.H[ed] {
						add(x)
					}
				}
			case *ssa.Store:
				if hi.H[x.Val] {
					if a, ok := x.Addr.(*ssa.Alloc); ok {
						if !hi.cells[a] {
							hi.cells[a] = true
							changed = true
						}
					} else {
						hi.escapes = true
					}
				}
			case *ssa.UnOp:
				if a, ok := x.X.(*ssa.Alloc); ok && x.Op == token.MUL && hi.cells[a] {
					add(x)
				}
			case *ssa.Return:
				for _, r := range x.Results {
					if hi.H[r] {
						hi.escapes = true
					}
				}
			case *ssa.Send:
				if hi.H[x.X] {
					hi.escapes = true
				}
			case *ssa.MapUpdate:
				if hi.H[x.Value] {
					hi.escapes = true
				}
			case *ssa.MakeClosure:
				// a closure that captures a local the handle is kept in: fine while it is only ever called in place
				// (func(){..}() / defer func(){..}()); anything else may keep the handle
				captures := false
				for _, b := range x.Bindings {
					if a, ok := b.(*ssa.Alloc); ok && hi.cells[a] {
						captures = true
					}
				}
				if captures && x.Referrers() != nil {
					for _, r := range *x.Referrers() {
						ci, isCall := r.(ssa.CallInstruction)
						if _, isDbg := r.(*ssa.DebugRef); isDbg {
							continue
						}
						if !isCall || ci.Common().Value != ssa.Value(x) {
							hi.escapes = true
						}
						if _, isGo := r.(*ssa.Go); isGo {
							hi.escapes = true
						}
					}
				}
			}
		})
	}
	return hi
}

// briefCallee: the callee's name without the directories of its package path ((*zip.File).Open).
func briefCallee(call ssa.CallInstruction) string {
	n := ir.CalleeFullName(call)
	for {
		i := strings.Index(n, "/")
		if i < 0 {
			return n
		}
		j := i
		for j > 0 && (n[j-1] == '.' || n[j-1] == '-' || n[j-1] == '_' || n[j-1] >= '0' && n[j-1] <= '9' || n[j-1] >= 'a' && n[j-1] <= 'z' || n[j-1] >= 'A' && n[j-1] <= 'Z') {
			j--
		}
		n = n[:j] + n[i+1:]
	}
}

func commonOf(in ssa.Instruction) *ssa.CallCommon {
	switch x := in.(type) {
	case *ssa.Call:
		return &x.Call
	case *ssa.Defer:
		return &x.Call
	}
	return nil
}

// closes: instruction in (a call or a deferred call) closes the handle - Close on it, a repository function that closes
// the parameter it is handed to, a closure called in place that closes the captured local.
func (e *handleEnv) closes(hi *handleInfo, in ssa.Instruction, depth int) bool {
	cc := commonOf(in)
	if cc == nil || depth > 2 {
		return false
	}
	if cc.IsInvoke() {
		return cc.Method.Name() == "Close" && hi.H[cc.Value]
	}
	if mc, ok := cc.Value.(*ssa.MakeClosure); ok {
		f, _ := mc.Fn.(*ssa.Function)
		if f == nil {
			return false
		}
		for i, b := range mc.Bindings {
			a, isCell := b.(*ssa.Alloc)
			if !isCell || !hi.cells[a] || i >= len(f.FreeVars) {
				continue
			}
			var seeds []ssa.Value
			ir.Instrs(f, func(x ssa.Instruction) {
				if u, ok := x.(*ssa.UnOp); ok && u.Op == token.MUL && u.X == ssa.Value(f.FreeVars[i]) {
					seeds = append(seeds, u)
				}
			})
			if e.closesAnywhere(e.track(f, seeds), depth+1) {
				return true
			}
		}
		return false
	}
	callee := cc.StaticCallee()
	if callee == nil {
		return false
	}
	if callee.Name() == "Close" && callee.Signature.Recv() != nil && len(cc.Args) > 0 && hi.H[cc.Args[0]] {
		return true
	}
	if e.inPkg[callee] && len(callee.Blocks) > 0 {
		for i, a := range cc.Args {
			if hi.H[a] && i < len(callee.Params) {
				if e.closesAnywhere(e.track(callee, []ssa.Value{callee.Params[i]}), depth+1) {
					return true
				}
			}
		}
	}
	return false
}

func (e *handleEnv) closesAnywhere(hi *handleInfo, depth int) bool {
	found := false
	ir.Instrs(hi.fn, func(in ssa.Instruction) {
		if !found && e.closes(hi, in, depth) {
			found = true
		}
	})
	return found
}

func hasCloseMethod(t types.Type) bool {
	ms := types.NewMethodSet(t)
	for i := 0; i < ms.Len(); i++ {
		f, ok := ms.At(i).Obj().(*types.Func)
		if !ok || f.Name() != "Close" {
			continue
		}
		sg := f.Type().(*types.Signature)
		if sg.Params().Len() == 0 && sg.Results().Len() == 1 && ir.IsErrorType(sg.Results().At(0).Type()) {
			return true
		}
	}
	return false
}

func typeFromZip(t types.Type) bool {
	for i := 0; i < 4; i++ {
		switch x := t.(type) {
		case *types.Pointer:
			t = x.Elem()
			continue
		case *types.Slice:
			t = x.Elem()
			continue
		case *types.Named:
			return x.Obj().Pkg() != nil && x.Obj().Pkg().Path() == "archive/zip"
		case *types.Tuple:
			for j := 0; j < x.Len(); j++ {
				if typeFromZip(x.At(j).Type()) {
					return true
				}
			}
			return false
		}
		break
	}
	return false
}

// blocksInLoops: the blocks of fn that lie on a cycle.
func blocksInLoops(fn *ssa.Function) map[*ssa.BasicBlock]bool {
	res := map[*ssa.BasicBlock]bool{}
	for _, b := range fn.Blocks {
		seen := map[*ssa.BasicBlock]bool{}
		var dfs func(x *ssa.BasicBlock) bool
		dfs = func(x *ssa.BasicBlock) bool {
			for _, s := range x.Succs {
				if s == b {
					return true
				}
				if !seen[s] {
					seen[s] = true
					if dfs(s) {
						return true
					}
				}
			}
			return false
		}
		if dfs(b) {
			res[b] = true
		}
	}
	return res
}

// entryHandles is C20.R9. Scope: the zip helpers - the functions of the package that touch archive/zip, what they call
// in the package, their closures. An "entry context" is the body of a loop, or a function that runs once per entry: one
// that is handed over as a value (the walk callback, the body of an iteration helper) or is called from an entry
// context. A value with a Close method obtained there (os.Open, os.Create, (*zip.File).Open, ...) and not handed on
// (returned, stored into a structure) is per-entry state:
//   - inside a loop, no path leads from the successful open round to the same open again without a Close that is
//     CALLED on the way - a deferred Close does not run before the function returns, so it does not count here;
//   - in a function that runs once per entry, every path from the successful open to a return that is not a failure
//     passes a called or a deferred Close.
func (c *Ctx) entryHandles(fns []*ssa.Function, rule string) {
	e := &handleEnv{inPkg: map[*ssa.Function]bool{}}
	for _, fn := range fns {
		e.inPkg[fn] = true
	}
	scope := map[*ssa.Function]bool{}
	for _, fn := range fns {
		hit := false
		for _, p := range fn.Params {
			if typeFromZip(p.Type()) {
				hit = true
			}
		}
		ir.Instrs(fn, func(in ssa.Instruction) {
			if v, ok := in.(ssa.Value); ok && typeFromZip(v.Type()) {
				hit = true
			}
			if ci, ok := in.(ssa.CallInstruction); ok {
				if o := ir.CalleeObj(ci); o != nil && o.Pkg() != nil && o.Pkg().Path() == "archive/zip" {
					hit = true
				}
			}
		})
		if hit {
			scope[fn] = true
		}
	}
	for changed := true; changed; {
		changed = false
		add := func(f *ssa.Function) {
			if f != nil && e.inPkg[f] && len(f.Blocks) > 0 && !scope[f] {
				scope[f] = true
				changed = true
			}
		}
		for _, fn := range fns {
			if !scope[fn] {
				continue
			}
			add(fn.Parent())
			for _, an := range fn.AnonFuncs {
				add(an)
			}
			for _, call := range ir.Calls(fn) {
				add(ir.StaticCallee(call))
				add(call.Common().StaticCallee())
			}
		}
	}
	loops := map[*ssa.Function]map[*ssa.BasicBlock]bool{}
	for fn := range scope {
		loops[fn] = blocksInLoops(fn)
	}
	// functions that run once per entry
	perEntry := map[*ssa.Function]bool{}
	realFn := func(v ssa.Value) *ssa.Function {
		f, _ := v.(*ssa.Function)
		if f == nil {
			return nil
		}
		if f.Synthetic != "" && !e.inPkg[f] {
			// a bound-method / thunk wrapper: the method it forwards to
			var target *ssa.Function
			ir.Instrs(f, func(in ssa.Instruction) {
				if ci, ok := in.(ssa.CallInstruction); ok {
					if cal := ci.Common().StaticCallee(); cal != nil && e.inPkg[cal] {
						target = cal
					}
				}
			})
			return target
		}
		return f
	}
	for fn := range scope {
		ir.Instrs(fn, func(in ssa.Instruction) {
			// a function handed over as a value
			for _, op := range in.Operands(nil) {
				if op == nil || *op == nil {
					continue
				}
				var f *ssa.Function
				switch x := (*op).(type) {
				case *ssa.Function:
					f = realFn(x)
				case *ssa.MakeClosure:
					f = realFn(x.Fn)
				}
				if f == nil || !e.inPkg[f] {
					continue
				}
				if cc := commonOf(in); cc != nil && cc.Value == *op {
					continue // called, not handed over
				}
				if _, isMC := in.(*ssa.MakeClosure); isMC {
					continue // the Fn operand of its own MakeClosure
				}
				if _, isSt := in.(*ssa.Store); isSt {
					continue // kept in a local variable: judged by where it is called
				}
				perEntry[f] = true
			}
		})
	}
	calleesOf := func(ci ssa.CallInstruction) []*ssa.Function {
		var res []*ssa.Function
		if f := ci.Common().StaticCallee(); f != nil {
			res = append(res, f)
		} else if f := ir.StaticCallee(ci); f != nil {
			res = append(res, f)
		} else if ld, ok := ci.Common().Value.(*ssa.UnOp); ok && ld.Op == token.MUL && !ci.Common().IsInvoke() {
			// a closure kept in a local variable
			if a, isCell := ld.X.(*ssa.Alloc); isCell {
				for _, st := range ir.StoresTo(a) {
					if mc, isMC := st.Val.(*ssa.MakeClosure); isMC {
						if f, _ := mc.Fn.(*ssa.Function); f != nil {
							res = append(res, f)
						}
					}
				}
			}
		}
		return res
	}
	for changed := true; changed; {
		changed = false
		for fn := range scope {
			for _, ci := range ir.Calls(fn) {
				in := ci.(ssa.Instruction)
				if _, isDefer := in.(*ssa.Defer); isDefer {
					continue
				}
				if !perEntry[fn] && !loops[fn][in.Block()] {
					continue
				}
				for _, f := range calleesOf(ci) {
					if e.inPkg[f] && scope[f] && !perEntry[f] {
						perEntry[f] = true
						changed = true
					}
				}
			}
		}
	}
	var order []*ssa.Function
	for _, fn := range fns {
		if scope[fn] {
			order = append(order, fn)
		}
	}
	n := 0
	for _, fn := range order {
		errIdx := ir.ErrResultIndex(fn)
		for _, ci := range ir.Calls(fn) {
			open, ok := ci.(*ssa.Call)
			if !ok {
				continue
			}
			inLoop := loops[fn][open.Block()]
			if !inLoop && !perEntry[fn] {
				continue
			}
			var h, errv ssa.Value
			if tup, isTup := open.Type().(*types.Tuple); isTup {
				if tup.Len() == 0 || !hasCloseMethod(tup.At(0).Type()) || open.Referrers() == nil {
					continue
				}
				for _, r := range *open.Referrers() {
					if ex, isEx := r.(*ssa.Extract); isEx {
						if ex.Index == 0 {
							h = ex
						} else if ir.IsErrorType(ex.Type()) {
							errv = ex
						}
					}
				}
			} else if hasCloseMethod(open.Type()) {
				h = open
			}
			if h == nil {
				continue
			}
			hi := e.track(fn, []ssa.Value{h})
			if hi.escapes {
				continue
			}
			n++
			c.Saw(fn)
			q := ir.PathQuery{Fn: fn, From: open,
				Stop: func(in ssa.Instruction) bool {
					if in == ssa.Instruction(open) {
						return true
					}
					_, isCall := in.(*ssa.Call)
					return isCall && e.closes(hi, in, 0)
				},
				Target: func(in ssa.Instruction, val *ir.Valuation) bool {
					if errv != nil {
						if isNil, known := val.KnownIsNil(errv); known && !isNil {
							val.Mark("open failed")
						}
					}
					if val.Marked("open failed") {
						return false
					}
					if _, isDefer := in.(*ssa.Defer); isDefer && e.closes(hi, in, 0) {
						val.Mark("close deferred")
						return false
					}
					if in == ssa.Instruction(open) {
						return true // round the loop with the handle open
					}
					ret, isRet := in.(*ssa.Return)
					if !isRet || !perEntry[fn] || val.Marked("close deferred") {
						return false
					}
					if errIdx >= 0 && errIdx < len(ret.Results) {
						if isNil, known := val.KnownIsNil(ret.Results[errIdx]); known && !isNil {
							return false // a failing exit: the operation is given up
						}
					}
					return true
				}}
			w, err := q.Find()
			construct := "what " + briefCallee(open) + " opens for one entry is closed before the next entry is handled"
			switch {
			case err != nil:
				c.Undecided(rule, fn, construct, open, err.Error())
			case w == nil:
				c.Decide(rule, fn, construct, open, true, "")
			case w.End == ssa.Instruction(open):
				c.Decide(rule, fn, construct, open, false,
					"the loop goes round to the next entry without a Close having been called on what "+ir.CalleeFullName(open)+" opened for this one (a deferred Close runs when the function returns, not when the iteration ends): every entry of the archive keeps its handle until the whole archive is done, and a tree with more files than the process may hold open descriptors (RLIMIT_NOFILE) is not reproduced: path "+w.String(c.P))
			default:
				c.Decide(rule, fn, construct, open, false,
					"the function runs once per entry and returns without a failure on a path on which what "+ir.CalleeFullName(open)+" opened is neither closed nor has a deferred Close: one handle leaks per entry, a tree with many files exhausts the descriptors of the process: path "+w.String(c.P))
			}
		}
	}
	c.R.Floor(rule, 1)
}

// ===========================================================================
// C20.R10: an entry is left out only for a reason the property knows

// kindTest is a boolean of one function that looks at the file-type bits of a walked entry only; nonRegular is the
// truth value with which it says "this is not a regular file".
type kindTest struct {
	cond       ssa.Value
	nonRegular bool
}

// fsConst looks a constant of io/fs up through the imports of the analysed package (fallback: the documented value).
func (z *zipSel) fsConst(name string, fallback uint64) uint64 {
	for _, fn := range z.fns {
		if fn.Pkg == nil || fn.Pkg.Pkg == nil {
			continue
		}
		seen := map[*types.Package]bool{}
		work := []*types.Package{fn.Pkg.Pkg}
		for len(work) > 0 {
			p := work[0]
			work = work[1:]
			if seen[p] {
				continue
			}
			seen[p] = true
			if p.Path() == "io/fs" {
				if cst, ok := p.Scope().Lookup(name).(*types.Const); ok {
					if v, exact := constant.Uint64Val(constant.ToInt(cst.Val())); exact {
						return v
					}
				}
			}
			work = append(work, p.Imports()...)
		}
		break
	}
	return fallback
}

func isFsInfoType(t types.Type) bool {
	n, ok := types.Unalias(t).(*types.Named)
	if !ok || n.Obj().Pkg() == nil || n.Obj().Pkg().Path() != "io/fs" {
		return false
	}
	return n.Obj().Name() == "FileInfo" || n.Obj().Name() == "DirEntry"
}

// modeMask: v is (mode of a walked entry) & mask.
func modeMask(v ssa.Value, modeType uint64, depth int) (uint64, bool) {
	if depth > 6 {
		return 0, false
	}
	switch x := v.(type) {
	case *ssa.ChangeType:
		return modeMask(x.X, modeType, depth+1)
	case *ssa.Convert:
		return modeMask(x.X, modeType, depth+1)
	case *ssa.Call:
		if x.Call.IsInvoke() {
			if !isFsInfoType(x.Call.Value.Type()) {
				return 0, false
			}
			switch x.Call.Method.Name() {
			case "Mode":
				return 0xFFFFFFFF, true
			case "Type":
				return modeType, true
			}
			return 0, false
		}
		switch ir.CalleeFullName(x) {
		case "(io/fs.FileMode).Type":
			m, ok := modeMask(x.Call.Args[0], modeType, depth+1)
			return m & modeType, ok
		case "(io/fs.FileMode).Perm":
			m, ok := modeMask(x.Call.Args[0], modeType, depth+1)
			return m & 0777, ok
		}
	case *ssa.BinOp:
		if x.Op != token.AND && x.Op != token.AND_NOT {
			return 0, false
		}
		for _, pr := range [][2]ssa.Value{{x.X, x.Y}, {x.Y, x.X}} {
			k, isConst := ir.ConstInt(pr[1])
			if !isConst {
				continue
			}
			if x.Op == token.AND_NOT && pr[0] != x.X {
				continue
			}
			m, ok := modeMask(pr[0], modeType, depth+1)
			if !ok {
				return 0, false
			}
			if x.Op == token.AND {
				return m & uint64(uint32(k)), true
			}
			return m &^ uint64(uint32(k)), true
		}
	}
	return 0, false
}

// kindTests lists the file-kind tests of fn: IsDir() of the entry's FileInfo / DirEntry or of its mode, IsRegular() of
// its mode, and a comparison with zero of the mode masked with file-TYPE bits only (os.ModeType and its parts). A mask
// that also covers permission or attribute bits (setuid, setgid, sticky, append ...) says nothing about the kind of the
// file: regular files carry those.
func (z *zipSel) kindTests(fn *ssa.Function) []kindTest {
	if res, ok := z.kindCache[fn]; ok {
		return res
	}
	modeType := z.fsConst("ModeType", 0x8f280000)
	var res []kindTest
	ir.Instrs(fn, func(in ssa.Instruction) {
		switch x := in.(type) {
		case *ssa.Call:
			if x.Call.IsInvoke() {
				if x.Call.Method.Name() == "IsDir" && isFsInfoType(x.Call.Value.Type()) {
					res = append(res, kindTest{x, true})
				}
				return
			}
			switch ir.CalleeFullName(x) {
			case "(io/fs.FileMode).IsDir":
				if _, ok := modeMask(x.Call.Args[0], modeType, 0); ok {
					res = append(res, kindTest{x, true})
				}
			case "(io/fs.FileMode).IsRegular":
				if m, ok := modeMask(x.Call.Args[0], modeType, 0); ok && m&modeType == modeType {
					res = append(res, kindTest{x, false})
				}
			}
		case *ssa.BinOp:
			if x.Op != token.EQL && x.Op != token.NEQ {
				return
			}
			for _, pr := range [][2]ssa.Value{{x.X, x.Y}, {x.Y, x.X}} {
				if k, isConst := ir.ConstInt(pr[1]); !isConst || k != 0 {
					continue
				}
				if m, ok := modeMask(pr[0], modeType, 0); ok && m != 0 && m&^modeType == 0 {
					res = append(res, kindTest{x, x.Op == token.NEQ})
				}
			}
		}
	})
	if z.kindCache == nil {
		z.kindCache = map[*ssa.Function][]kindTest{}
	}
	z.kindCache[fn] = res
	return res
}

// licFacts: what a path knows about why the entry is left out.
type licFacts struct {
	kind  bool // a file-kind test said "no regular file"
	filt  bool // the filter was called on the walked path and returned false
	dir   bool // the comparison of the file's directory with the source directory said "other directory"
	flag  bool // the recursive flag is known to be off
	fault bool // the walk reported an error for this entry
	full  bool // a selection predicate of the repository said so, and each of its paths saying so has a reason
}

func (f licFacts) licensed() bool {
	return f.full || f.kind || f.filt || f.fault || (f.dir && f.flag)
}

func (f licFacts) and(g licFacts) licFacts {
	return licFacts{kind: f.kind && g.kind, filt: f.filt && g.filt, dir: f.dir && g.dir, flag: f.flag && g.flag,
		fault: f.fault && g.fault, full: f.licensed() && g.licensed()}
}

func (f licFacts) or(g licFacts) licFacts {
	return licFacts{kind: f.kind || g.kind, filt: f.filt || g.filt, dir: f.dir || g.dir, flag: f.flag || g.flag,
		fault: f.fault || g.fault, full: f.full || g.full}
}

// licSum: what EVERY path of a predicate that returns one truth value knows (nil while being computed).
type licSum struct {
	facts licFacts
	some  bool // at least one such path exists
}

// tableCall: call is the call of an element of a fixed table of functions; the roles of every element.
func (z *zipSel) tableCallElems(r *selRoles, call *ssa.Call) ([]*selRoles, bool) {
	if call.Call.IsInvoke() {
		return nil, false
	}
	slice := ir.ElementOfSlice(call.Call.Value)
	if slice == nil {
		return nil, false
	}
	elems := ir.FuncTable(slice)
	if elems == nil {
		return nil, false
	}
	var res []*selRoles
	for i, el := range elems {
		er := z.elemRolesAny(r, call, el, i)
		if er == nil {
			return nil, false // an element that is not handed the walked path: nothing is known about what it decides
		}
		res = append(res, z.visit(er, 1))
	}
	return res, len(res) > 0
}

// factsOn: what the path (valuation val, in r.fn) knows.
func (z *zipSel) factsOn(r *selRoles, val *ir.Valuation, depth int) licFacts {
	var f licFacts
	fn := r.fn
	for _, kt := range z.kindTests(fn) {
		if k, ok := val.Known(kt.cond); ok && k == kt.nonRegular {
			f.kind = true
		}
	}
	for _, calls := range r.filterCalls {
		for _, fc := range calls {
			if k, ok := val.Known(fc); ok && !k {
				f.filt = true
			}
		}
	}
	for _, dt := range r.dirTests {
		k, ok := val.Known(dt)
		if !ok {
			continue
		}
		if bo, isBin := dt.(*ssa.BinOp); isBin {
			if (bo.Op == token.NEQ) == k {
				f.dir = true
			}
			continue
		}
		f.dir = true
	}
	for _, in := range r.flags {
		if in.fv != nil {
			if k, ok := val.KnownCell(in.fv); ok && !k {
				f.flag = true
			}
			continue
		}
		for rd := range in.reads {
			if k, ok := val.Known(rd); ok && !k {
				f.flag = true
			}
		}
	}
	start := 0
	if fn.Signature.Recv() != nil {
		start = 1
	}
	for i := start; i < len(fn.Params); i++ {
		if p := fn.Params[i]; ir.IsErrorType(p.Type()) {
			if isNil, ok := val.KnownIsNil(p); ok && !isNil {
				f.fault = true
			}
		}
	}
	if depth >= 3 {
		return f
	}
	for _, h := range r.helpers {
		if !isBoolType(h.call.Type()) {
			continue
		}
		if k, ok := val.Known(h.call); ok {
			if s := z.licSummary(h.roles, k, depth+1); s != nil && s.some {
				f = f.or(s.facts)
			}
		}
	}
	isHelper := map[*ssa.Call]bool{}
	for _, h := range r.helpers {
		isHelper[h.call] = true
	}
	ir.Instrs(fn, func(in ssa.Instruction) {
		call, ok := in.(*ssa.Call)
		if !ok || !isBoolType(call.Type()) {
			return
		}
		k, known := val.Known(call)
		if !known {
			return
		}
		// a repository predicate that is handed the entry's FileInfo (not the walked path): what it says about the kind
		if cal := ir.StaticCallee(call); cal != nil && !isHelper[call] && z.inPkg[cal] && len(cal.Blocks) > 0 && cal != fn {
			handed := false
			for _, a := range call.Call.Args {
				if isFsInfoType(a.Type()) {
					handed = true
				}
			}
			if handed {
				if s := z.licSummary(&selRoles{fn: cal, key: ir.FnName(cal) + "(info)", paths: map[ssa.Value]bool{}}, k, depth+1); s != nil && s.some && s.facts.kind {
					f.kind = true
				}
			}
			return
		}
		// an element of a fixed table of predicates: whichever element it was, it said so for a reason
		elems, isTable := z.tableCallElems(r, call)
		if !isTable {
			return
		}
		all := licFacts{kind: true, filt: true, dir: true, flag: true, fault: true, full: true}
		for _, er := range elems {
			s := z.licSummary(er, k, depth+1)
			if s == nil {
				return
			}
			if !s.some {
				continue // this element never says so
			}
			all = all.and(s.facts)
		}
		f = f.or(all)
	})
	return f
}

// licSummary: the facts common to every path of the predicate h that returns truth.
func (z *zipSel) licSummary(h *selRoles, truth bool, depth int) *licSum {
	if z.licSums == nil {
		z.licSums = map[string]*licSum{}
	}
	key := fmt.Sprintf("%s|%t", h.key, truth)
	if s, ok := z.licSums[key]; ok {
		return s // nil: being computed (recursion) - nothing known
	}
	z.licSums[key] = nil
	fn := h.fn
	if fn.Signature.Results().Len() != 1 || fn.Recover != nil || !isBoolType(fn.Signature.Results().At(0).Type()) {
		return nil
	}
	sum := &licSum{facts: licFacts{kind: true, filt: true, dir: true, flag: true, fault: true, full: true}}
	q := ir.PathQuery{Fn: fn, Target: func(in ssa.Instruction, val *ir.Valuation) bool {
		ret, ok := in.(*ssa.Return)
		if !ok || len(ret.Results) != 1 {
			return false
		}
		if k, known := val.Known(ret.Results[0]); known && k != truth {
			return false
		}
		sum.facts = sum.facts.and(z.factsOn(h, val.Assume(ret.Results[0], truth), depth))
		sum.some = true
		return false
	}}
	if _, err := q.Find(); err != nil {
		return nil
	}
	z.licSums[key] = sum
	return sum
}

// skipLicensed is C20.R10: in the function that writes archive entries, every path that ends the handling of a walked
// entry without a failure and without having reached the archive write knows a reason the property allows.
func (z *zipSel) skipLicensed(rule string) {
	for _, top := range z.tops {
		fn, r := top.fn, top.roles
		isWrite := map[ssa.Instruction]bool{}
		for _, w := range top.writes {
			isWrite[w] = true
		}
		errIdx := ir.ErrResultIndex(fn)
		q := ir.PathQuery{Fn: fn,
			Stop: func(in ssa.Instruction) bool { return isWrite[in] },
			Target: func(in ssa.Instruction, val *ir.Valuation) bool {
				ret, ok := in.(*ssa.Return)
				if !ok {
					return false
				}
				if errIdx >= 0 && errIdx < len(ret.Results) {
					if isNil, known := val.KnownIsNil(ret.Results[errIdx]); known && !isNil {
						return false // a failure ends the walk, the archive is given up
					}
				}
				return !z.factsOn(r, val, 0).licensed()
			}}
		z.c.pathVerdict(rule, fn, "an entry is left out only for its kind, by the filter or by the recursive flag", top.writes[0], q,
			"the function that writes the archive entries returns without a failure and without having written the entry on a path that knows none of the reasons the property allows for leaving a file out - a test of the file-TYPE bits said it is no regular file (a mask that also covers permission or attribute bits such as setuid/setgid/sticky does not say that), the filter was asked and said no, the recursive flag is off and the directory comparison said 'other directory': regular files that filter and flag select are silently missing in the archive")
	}
	z.c.R.Floor(rule, 1)
}

// ===========================================================================
// C20.R11: names are made relative to, and directories compared with, the directory that is walked

// dirUse is a place where a directory string meets the walked path.
type dirUse struct {
	fn   *ssa.Function
	v    ssa.Value
	at   ssa.Instruction
	what string
	ctx  []*ssa.Call // the calls through which the walk callback reached fn (outermost first)
}

func (z *zipSel) dirUses(r *selRoles, ctx []*ssa.Call, seen map[string]bool, depth int, res *[]dirUse) {
	if r == nil || depth > 4 {
		return
	}
	key := r.key
	for _, cl := range ctx {
		key += fmt.Sprintf("<%p", cl)
	}
	if seen[key] {
		return
	}
	seen[key] = true
	var found []dirUse
	out := &found
	defer func() {
		for _, u := range found {
			u.ctx = ctx
			*res = append(*res, u)
		}
	}()
	fn := r.fn
	isDirTest := map[ssa.Value]bool{}
	for _, dt := range r.dirTests {
		isDirTest[dt] = true
	}
	ir.Instrs(fn, func(in ssa.Instruction) {
		switch x := in.(type) {
		case *ssa.Call:
			switch ir.CalleeFullName(x) {
			case "path/filepath.Rel":
				if len(x.Call.Args) == 2 && z.onPath(r, x.Call.Args[1]) && !z.onPath(r, x.Call.Args[0]) {
					*out = append(*out, dirUse{fn: fn, v: x.Call.Args[0], at: in, what: "the directory the entry name is made relative to"})
				}
			case "strings.TrimPrefix", "strings.HasPrefix", "strings.CutPrefix":
				if len(x.Call.Args) == 2 && z.onPath(r, x.Call.Args[0]) && !z.onPath(r, x.Call.Args[1]) && r.dirInputOf(x.Call.Args[1]) != nil {
					*out = append(*out, dirUse{fn: fn, v: x.Call.Args[1], at: in, what: "the prefix cut off the walked path"})
				}
			}
		case *ssa.Slice:
			if x.Low == nil || !z.onPath(r, x.X) {
				return
			}
			if call, ok := peelLocal(x.Low).(*ssa.Call); ok {
				if b := builtinCall(call, "len"); b != nil && !z.onPath(r, b.Args[0]) && r.dirInputOf(b.Args[0]) != nil {
					*out = append(*out, dirUse{fn: fn, v: b.Args[0], at: in, what: "the prefix cut off the walked path"})
				}
			}
		case *ssa.BinOp:
			if !isDirTest[x] {
				return
			}
			for _, pr := range [][2]ssa.Value{{x.X, x.Y}, {x.Y, x.X}} {
				if z.onPath(r, pr[0]) && !z.onPath(r, pr[1]) {
					*out = append(*out, dirUse{fn: fn, v: pr[1], at: in, what: "the directory the directory of a walked file is compared with"})
				}
			}
		}
	})
	for _, h := range r.helpers {
		z.dirUses(h.roles, append(append([]*ssa.Call{}, ctx...), h.call), seen, depth+1, res)
	}
	for _, tb := range z.tablesOf(r) {
		for _, er := range tb.elems {
			z.dirUses(er, ctx, seen, depth+1, res)
		}
	}
}

// canonDir gives a directory value a name that does not depend on the function it is seen in: the variable it is kept
// in (a variable assigned once is looked through), the field, the call it results from with its operands; a parameter
// is what every call site of the function passes. Two values with the same name hold the same string.
func (z *zipSel) canonDir(fn *ssa.Function, v ssa.Value, ctx []*ssa.Call, depth int) string {
	if v == nil || depth > 10 {
		return fmt.Sprintf("?%p", v)
	}
	switch x := v.(type) {
	case *ssa.Const:
		if x.Value != nil {
			return "const:" + x.Value.ExactString()
		}
		return "const:nil"
	case *ssa.ChangeType:
		return z.canonDir(fn, x.X, ctx, depth+1)
	case *ssa.Convert:
		if isStringType(x.Type()) && isStringType(x.X.Type()) {
			return z.canonDir(fn, x.X, ctx, depth+1)
		}
	case *ssa.Extract:
		return fmt.Sprintf("%s#%d", z.canonDir(fn, x.Tuple, ctx, depth+1), x.Index)
	case *ssa.Call:
		name := ir.CalleeFullName(x)
		if name == "" {
			break
		}
		var as []string
		for _, a := range x.Call.Args {
			as = append(as, z.canonDir(fn, a, ctx, depth+1))
		}
		return name + "(" + strings.Join(as, ",") + ")"
	case *ssa.BinOp:
		return fmt.Sprintf("(%s%s%s)", z.canonDir(fn, x.X, ctx, depth+1), x.Op, z.canonDir(fn, x.Y, ctx, depth+1))
	case *ssa.Phi:
		var es []string
		for _, ed := range x.Edges {
			es = append(es, z.canonDir(fn, ed, ctx, depth+1))
		}
		sort.Strings(es)
		return "phi(" + strings.Join(es, "|") + ")"
	case *ssa.Parameter:
		idx := -1
		for i, p := range x.Parent().Params {
			if p == x {
				idx = i
			}
		}
		// the call through which the walk callback reached this function decides; without one, every call site
		if n := len(ctx); n > 0 && idx >= 0 {
			last := ctx[n-1]
			if cal := ir.StaticCallee(last); cal == x.Parent() && idx < len(last.Call.Args) {
				return z.canonDir(last.Parent(), last.Call.Args[idx], ctx[:n-1], depth+1)
			}
		}
		var names []string
		seen := map[string]bool{}
		for _, g := range z.fns {
			for _, call := range callsTo(g, x.Parent()) {
				if idx >= 0 && idx < len(call.Call.Args) {
					if n := z.canonDir(g, call.Call.Args[idx], nil, depth+1); !seen[n] {
						seen[n] = true
						names = append(names, n)
					}
				}
			}
		}
		if len(names) == 1 {
			return names[0]
		}
		sort.Strings(names)
		return "param:" + ir.FnName(x.Parent()) + "." + x.Name() + "{" + strings.Join(names, "|") + "}"
	case *ssa.Field:
		if f := ir.FieldOf(x); f != nil {
			return z.canonField(f, depth)
		}
	case *ssa.UnOp:
		if x.Op != token.MUL {
			break
		}
		switch a := x.X.(type) {
		case *ssa.Alloc:
			return z.canonCell(a, depth)
		case *ssa.FreeVar:
			b := ir.BindingOf(a)
			for i := 0; i < 4; i++ {
				pfv, nested := b.(*ssa.FreeVar)
				if !nested {
					break
				}
				b = ir.BindingOf(pfv)
			}
			if cell, ok := b.(*ssa.Alloc); ok {
				return z.canonCell(cell, depth)
			}
		case *ssa.FieldAddr:
			if f := ir.FieldOf(a); f != nil {
				return z.canonField(f, depth)
			}
		case *ssa.Global:
			return "global:" + a.String()
		}
	}
	return "value:" + ir.FnName(fn) + "." + v.Name()
}

func (z *zipSel) canonCell(a *ssa.Alloc, depth int) string {
	sts := ir.StoresTo(a)
	if len(sts) == 1 {
		return z.canonDir(a.Parent(), sts[0].Val, nil, depth+1)
	}
	return "var:" + ir.FnName(a.Parent()) + "." + a.Name() + "(" + a.Comment + ")"
}

func (z *zipSel) canonField(f *types.Var, depth int) string {
	sts := z.fieldStores(f)
	if len(sts) == 1 {
		return z.canonDir(sts[0].Parent(), sts[0].Val, nil, depth+1)
	}
	return "field:" + f.Name()
}

// walkedFunction: the repository function a value handed to filepath.Walk as walk function runs.
func (z *zipSel) walkedFunction(v ssa.Value) *ssa.Function {
	for i := 0; i < 6 && v != nil; i++ {
		switch x := v.(type) {
		case *ssa.ChangeType:
			v = x.X
		case *ssa.MakeInterface:
			v = x.X
		case *ssa.MakeClosure:
			v = x.Fn
		case *ssa.UnOp:
			a, ok := x.X.(*ssa.Alloc)
			if !ok || x.Op != token.MUL {
				return nil
			}
			sts := ir.StoresTo(a)
			if len(sts) != 1 {
				return nil
			}
			v = sts[0].Val
		case *ssa.Function:
			if z.inPkg[x] {
				return x
			}
			// a bound-method wrapper: the method it forwards to
			var target *ssa.Function
			ir.Instrs(x, func(in ssa.Instruction) {
				if ci, ok := in.(ssa.CallInstruction); ok {
					if cal := ci.Common().StaticCallee(); cal != nil && z.inPkg[cal] {
						target = cal
					}
				}
			})
			return target
		default:
			return nil
		}
	}
	return nil
}

// walkRootAgreement is C20.R11. filepath.Walk hands its callback paths that begin with the root IT was given. In the
// function that writes the archive entries (and the helpers it hands the walked path to) every directory that meets
// the walked path - the base of filepath.Rel, a prefix cut off, the directory the file's directory is compared with -
// has to be that root: the same variable, field or expression, not one that merely holds the same string for most
// inputs (the unresolved spelling of a directory that is walked in its symlink-resolved form, say).
func (z *zipSel) walkRootAgreement(rule string) {
	n := 0
	for _, g := range z.fns {
		for _, ci := range ir.Calls(g) {
			call, ok := ci.(*ssa.Call)
			if !ok {
				continue
			}
			switch ir.CalleeFullName(call) {
			case "path/filepath.Walk", "path/filepath.WalkDir":
			default:
				continue
			}
			if len(call.Call.Args) != 2 {
				continue
			}
			w := z.walkedFunction(call.Call.Args[1])
			if w == nil {
				continue
			}
			var top *selTop
			for _, t := range z.tops {
				if t.fn == w {
					top = t
				}
			}
			if top == nil {
				continue
			}
			root := z.canonDir(g, call.Call.Args[0], nil, 0)
			var uses []dirUse
			z.dirUses(top.roles, nil, map[string]bool{}, 0, &uses)
			for _, u := range uses {
				n++
				got := z.canonDir(u.fn, u.v, u.ctx, 0)
				z.c.Decide(rule, u.fn, u.what+" is the directory that is walked", u.at, got == root,
					fmt.Sprintf("%s is %s, but the paths it meets come from filepath.Walk over %s: when the two differ (a source directory reached through a symbolic link, a relative and an absolute spelling ...) the entry names climb out of the archive root with '..' segments - UnzipToFolder rejects the archive ZipFolder wrote - or the non-recursive guard skips every file", u.what, got, root))
			}
		}
	}
	z.c.R.Floor(rule, 1)
}
