package rules

// Generic helpers introduced for the block allocator rules (C17). They are independent of the allocator: facts through
// boolean flags that are merged from constants, "may be" through phi nodes, the set of functions that implement an API
// method (its closures and the private helpers it calls), success exits as exit points, must-locksets across helper and
// closure boundaries, floors counted in stable units.

import (
	"fmt"
	"go/constant"
	"go/token"
	"go/types"

	"golang.org/x/tools/go/ssa"

	"verif/checker/ir"
)

// ---------------------------------------------------------------------------
// facts

// xcConstSelectedEdge: phi is a boolean flag all of whose incoming values are constants; when exactly one of them equals
// truth, knowing phi == truth tells which edge was taken ("found" set to true at one place, false elsewhere). -1 otherwise.
func xcConstSelectedEdge(phi *ssa.Phi, truth bool) int {
	idx := -1
	for i, e := range phi.Edges {
		k, isC := e.(*ssa.Const)
		if !isC || k.Value == nil || k.Value.Kind() != constant.Bool {
			return -1
		}
		if constant.BoolVal(k.Value) == truth {
			if idx >= 0 {
				return -1
			}
			idx = i
		}
	}
	return idx
}

// xcFacts are the guard facts of block b (ir.Facts: dominating branch edges, expanded through && / ||), expanded further
// through flags: a fact "flag is true" for a flag that is a merge of constants with a single true source brings in the
// facts that hold where that source assigns it (the single-exit spelling of "test; return j, true").
func xcFacts(b *ssa.BasicBlock) []ir.Fact {
	base := ir.Facts(b)
	res := append([]ir.Fact{}, base...)
	seen := map[*ssa.Phi]bool{}
	var expand func(fs []ir.Fact, depth int)
	expand = func(fs []ir.Fact, depth int) {
		if depth > 4 {
			return
		}
		for _, f := range fs {
			ff := f.StripNot()
			phi, ok := ff.Cond.(*ssa.Phi)
			if !ok || seen[phi] {
				continue
			}
			j := xcConstSelectedEdge(phi, ff.True)
			if j < 0 || j >= len(phi.Block().Preds) {
				continue
			}
			seen[phi] = true
			pred := phi.Block().Preds[j]
			more := append([]ir.Fact{}, ir.Facts(pred)...)
			if ef := ir.EdgeFact(pred, phi.Block()); ef != nil {
				more = append(more, *ef)
			}
			res = append(res, more...)
			expand(more, depth+1)
		}
	}
	expand(base, 0)
	return res
}

// xcHasFactCmp is hasFactCmp over xcFacts.
func xcHasFactCmp(b *ssa.BasicBlock, pred func(ir.Cmp) bool) bool {
	for _, f := range xcFacts(b) {
		if cm, ok := f.Cmp(); ok && pred(cm) {
			return true
		}
	}
	return false
}

// xcMayBe reports whether v is target or a merge (phi, a few levels) one of whose alternatives is target: the value of a
// result variable of the single-exit style ("res = segm" on one branch, a dummy on the rejecting one).
func xcMayBe(v ssa.Value, target ssa.Value) bool {
	var rec func(v ssa.Value, d int) bool
	seen := map[ssa.Value]bool{}
	rec = func(v ssa.Value, d int) bool {
		if v == nil || d > 4 || seen[v] {
			return false
		}
		seen[v] = true
		r := ir.Resolve(v)
		if r == target {
			return true
		}
		if p, ok := r.(*ssa.Phi); ok {
			for _, e := range p.Edges {
				if rec(e, d+1) {
					return true
				}
			}
		}
		return false
	}
	return rec(v, 0)
}

// ---------------------------------------------------------------------------
// the functions that implement an API method

// xcGroup returns root followed by the functions that carry out its work: the function literals it creates and the
// functions of its package it calls statically, transitively, except those in stop (functions that are roles of their own)
// and exported ones. The order is the order of first occurrence (deterministic).
func xcGroup(root *ssa.Function, stop map[*ssa.Function]bool) []*ssa.Function {
	var res []*ssa.Function
	seen := map[*ssa.Function]bool{}
	pkg := xcRoot(root).Pkg
	var visit func(fn *ssa.Function, depth int)
	visit = func(fn *ssa.Function, depth int) {
		if fn == nil || seen[fn] || len(fn.Blocks) == 0 || depth > 6 {
			return
		}
		seen[fn] = true
		res = append(res, fn)
		ir.Instrs(fn, func(in ssa.Instruction) {
			switch x := in.(type) {
			case *ssa.MakeClosure:
				if f, ok := x.Fn.(*ssa.Function); ok {
					visit(f, depth+1)
				}
			case ssa.CallInstruction:
				cal := ir.StaticCallee(x)
				if cal == nil || stop[cal] || xcRoot(cal).Pkg != pkg || pkg == nil {
					return
				}
				if cal.Parent() == nil {
					if obj := cal.Object(); obj == nil || obj.Exported() {
						return
					}
				}
				visit(cal, depth+1)
			}
		})
	}
	visit(root, 0)
	return res
}

func xcRoot(f *ssa.Function) *ssa.Function {
	for f != nil && f.Parent() != nil {
		f = f.Parent()
	}
	return f
}

func xcInGroup(g []*ssa.Function, fn *ssa.Function) bool {
	for _, f := range g {
		if f == fn {
			return true
		}
	}
	return false
}

// ---------------------------------------------------------------------------
// floors in stable units

// xcFloorUnits records a floor whose unit is not "one obligation" (e.g. API methods covered by the rule): the number of
// statements a rule matches changes when an expression is computed once instead of twice; the number of operations that
// contain a matching construct does not.
func (c *Ctx) xcFloorUnits(rule string, min, n int, unit string) {
	c.R.Floors[rule] = [2]int{min, n}
	if n < min {
		c.R.Errorf("rule %s matched constructs in %d %s, below its floor of %d: the anchored code changed shape and the rule would pass vacuously", rule, n, unit, min)
	}
}

// ---------------------------------------------------------------------------
// success exits as exit points

// xcErrAt classifies error value v at the exit point alternative (block, edge).
func xcErrAt(v ssa.Value, blk, edge *ssa.BasicBlock) ir.ErrClass {
	if v == nil {
		return ir.ErrUnknown
	}
	r := ir.Resolve(v)
	if ir.IsNilConst(r) {
		return ir.ErrNil
	}
	if edge != nil {
		if ef := ir.EdgeFact(blk, edge); ef != nil {
			if cm, ok := ef.Cmp(); ok {
				x, y := ir.Resolve(cm.X), ir.Resolve(cm.Y)
				if (x == r && ir.IsNilConst(y)) || (y == r && ir.IsNilConst(x)) {
					switch cm.Op {
					case token.NEQ:
						return ir.ErrNonNil
					case token.EQL:
						return ir.ErrNil
					}
				}
			}
		}
	}
	return ir.ClassifyErr(v, blk)
}

// xcPoint is a place in a function where an outcome is fixed: the instruction a path query has to arrive at.
type xcPoint struct {
	At    ssa.Instruction
	Class ir.ErrClass
}

// xcExitOutcomes lists, for a function with an error result, the points at which the returned error is fixed, each with
// its classification. A return whose operand is a merge (single-exit style, result variables) is split into its
// alternatives (ir.ExitPoints); such an alternative is located at the end of the block that selects it.
func xcExitOutcomes(fn *ssa.Function) []xcPoint {
	idx := ir.ErrResultIndex(fn)
	var res []xcPoint
	for _, ep := range ir.ExitPoints(fn) {
		var at ssa.Instruction = ep.Ret
		if ep.Block != ep.Ret.Block() && len(ep.Block.Instrs) > 0 {
			at = ep.Block.Instrs[len(ep.Block.Instrs)-1]
		}
		cl := ir.ErrNil
		if idx >= 0 {
			cl = xcErrAt(ep.Result(idx), ep.Block, ep.Edge)
		}
		res = append(res, xcPoint{at, cl})
	}
	return res
}

// xcStoreOutcomes lists the points at which a function fixes an error it hands to its environment through a captured
// variable (cell is the free variable): the stores to it, a store of a merge split into its alternatives.
func xcStoreOutcomes(fn *ssa.Function, cell ssa.Value) (pts []xcPoint, stores map[ssa.Instruction]bool) {
	stores = map[ssa.Instruction]bool{}
	ir.Instrs(fn, func(in ssa.Instruction) {
		st, ok := in.(*ssa.Store)
		if !ok || st.Addr != cell {
			return
		}
		stores[in] = true
		if phi, isPhi := st.Val.(*ssa.Phi); isPhi && phi.Block() == st.Block() {
			for j, e := range phi.Edges {
				pred := phi.Block().Preds[j]
				at := pred.Instrs[len(pred.Instrs)-1]
				pts = append(pts, xcPoint{at, xcErrAt(e, pred, phi.Block())})
			}
			return
		}
		pts = append(pts, xcPoint{in, xcErrAt(st.Val, st.Block(), nil)})
	})
	return pts, stores
}

// ---------------------------------------------------------------------------
// "surely invokes"

// xcSurelyInvokes reports whether executing instruction in runs function w to completion before in completes: a call of
// w, of a function literal that is w, or of a function that on every path to its exit does so - where a parameter of
// function type stands for the argument bound at the call (withLock(func(){...}) runs the literal).
func xcSurelyInvokes(in ssa.Instruction, w *ssa.Function, env map[*ssa.Parameter]*ssa.Function, depth int) bool {
	call, ok := in.(*ssa.Call)
	if !ok || depth > 4 {
		return false
	}
	cc := call.Common()
	if cc.IsInvoke() {
		return false
	}
	f := xcFuncValue(cc.Value, env)
	if f == nil {
		return false
	}
	if f == w {
		return true
	}
	if len(f.Blocks) == 0 {
		return false
	}
	nenv := map[*ssa.Parameter]*ssa.Function{}
	for i, a := range cc.Args {
		if i < len(f.Params) {
			if g := xcFuncValue(a, env); g != nil {
				nenv[f.Params[i]] = g
			}
		}
	}
	wit, err := ir.Query{Fn: f, Block: func(x ssa.Instruction) bool { return xcSurelyInvokes(x, w, nenv, depth+1) }, Target: ir.IsExit}.Find()
	return wit == nil && err == nil
}

// xcFuncValue resolves a value of function type to the function it denotes, if that is known statically.
func xcFuncValue(v ssa.Value, env map[*ssa.Parameter]*ssa.Function) *ssa.Function {
	switch x := ir.Resolve(v).(type) {
	case *ssa.Function:
		return x
	case *ssa.MakeClosure:
		f, _ := x.Fn.(*ssa.Function)
		return f
	case *ssa.Parameter:
		return env[x]
	}
	return nil
}

// ---------------------------------------------------------------------------
// must-locksets across helpers and closures

// xcLocks computes must-locksets for the functions of one package where a private helper or a function literal may rely on
// its callers holding a mutex: a function is analysed with the mutex held on entry when every place that runs it holds
// it - a static call (on the same receiver), a direct call of the literal, or the literal being passed to a wrapper
// that calls its parameter with the mutex held (withLock).
type xcLocks struct {
	fns   []*ssa.Function // all functions of the package
	mpath string          // "recv.<mutex>"
	ls    map[*ssa.Function]*ir.Lockset
	entry map[*ssa.Function]int // 1 in progress, 2 held, 3 not held
}

func newXcLocks(fns []*ssa.Function, mpath string) *xcLocks {
	return &xcLocks{fns: fns, mpath: mpath, ls: map[*ssa.Function]*ir.Lockset{}, entry: map[*ssa.Function]int{}}
}

// Lockset returns the must-lockset of fn, computed with the entry set its callers guarantee.
func (l *xcLocks) Lockset(fn *ssa.Function) *ir.Lockset {
	if ls, ok := l.ls[fn]; ok {
		return ls
	}
	entry := map[string]bool{}
	if l.HeldAtEntry(fn) {
		entry[l.mpath] = true
	}
	ls := ir.ComputeLockset(fn, entry)
	l.ls[fn] = ls
	return ls
}

// HeldAtEntry reports whether every place that runs fn holds the mutex (of fn's receiver).
func (l *xcLocks) HeldAtEntry(fn *ssa.Function) bool {
	switch l.entry[fn] {
	case 1, 3:
		return false
	case 2:
		return true
	}
	l.entry[fn] = 1
	held := l.heldAtEntry(fn)
	if held {
		l.entry[fn] = 2
	} else {
		l.entry[fn] = 3
	}
	return held
}

func (l *xcLocks) heldAtEntry(fn *ssa.Function) bool {
	if fn.Parent() == nil {
		// a declared function: private, never used as a value, and every static call holds the mutex of the same receiver
		obj := fn.Object()
		if obj == nil || obj.Exported() || fn.Signature.Recv() == nil {
			return false
		}
		sites := 0
		ok := true
		for _, h := range l.fns {
			ir.Instrs(h, func(in ssa.Instruction) {
				if !ok {
					return
				}
				if call, isCall := in.(ssa.CallInstruction); isCall && ir.StaticCallee(call) == fn && !call.Common().IsInvoke() {
					if _, isFn := call.Common().Value.(*ssa.Function); isFn {
						if _, plain := in.(*ssa.Call); !plain {
							ok = false // go / defer
							return
						}
						sites++
						if len(call.Common().Args) == 0 || ir.Path(call.Common().Args[0]) != "recv" || !l.Lockset(h).Held(in, l.mpath) {
							ok = false
						}
						// the function used as a value among the arguments is checked below
					}
				}
				for _, op := range in.Operands(nil) {
					if *op == ssa.Value(fn) {
						if call, isCall := in.(ssa.CallInstruction); isCall && call.Common().Value == ssa.Value(fn) {
							// callee position, unless it also appears among the arguments
							for _, a := range call.Common().Args {
								if a == ssa.Value(fn) {
									ok = false
								}
							}
							continue
						}
						ok = false
					}
				}
			})
		}
		return ok && sites > 0
	}
	// a function literal: every use of the closure value runs it under the mutex
	par := fn.Parent()
	sites := 0
	ok := true
	ir.Instrs(par, func(in ssa.Instruction) {
		mc, isMC := in.(*ssa.MakeClosure)
		if !isMC || mc.Fn != ssa.Value(fn) || !ok {
			return
		}
		if mc.Referrers() == nil {
			return
		}
		for _, r := range *mc.Referrers() {
			if _, isDbg := r.(*ssa.DebugRef); isDbg {
				continue
			}
			call, isCall := r.(*ssa.Call)
			if !isCall || call.Call.IsInvoke() {
				ok = false
				return
			}
			if call.Call.Value == ssa.Value(mc) {
				// called directly
				sites++
				if !l.Lockset(par).Held(call, l.mpath) {
					ok = false
				}
				continue
			}
			// passed to a wrapper
			g := ir.StaticCallee(call)
			if g == nil || len(g.Blocks) == 0 || g.Signature.Recv() == nil || len(call.Call.Args) == 0 || ir.Path(call.Call.Args[0]) != "recv" {
				ok = false
				return
			}
			for i, a := range call.Call.Args {
				if a != ssa.Value(mc) {
					continue
				}
				if i >= len(g.Params) || !l.paramRunUnderLock(g, g.Params[i]) {
					ok = false
					return
				}
				sites++
			}
		}
	})
	return ok && sites > 0
}

// paramRunUnderLock: the only thing g does with its function parameter p is to call it, with the mutex held.
func (l *xcLocks) paramRunUnderLock(g *ssa.Function, p *ssa.Parameter) bool {
	if p.Referrers() == nil {
		return false
	}
	n := 0
	for _, r := range *p.Referrers() {
		if _, isDbg := r.(*ssa.DebugRef); isDbg {
			continue
		}
		call, isCall := r.(*ssa.Call)
		if !isCall || call.Call.Value != ssa.Value(p) {
			return false
		}
		for _, a := range call.Call.Args {
			if a == ssa.Value(p) {
				return false
			}
		}
		if !l.Lockset(g).Held(call, l.mpath) {
			return false
		}
		n++
	}
	return n > 0
}

// ---------------------------------------------------------------------------
// misc

// xcIsAtomicIntType reports whether t is sync/atomic.Int32 / Int64 / Uint32 / Uint64 and returns its width.
func xcAtomicIntWidth(t types.Type) int {
	n, ok := t.(*types.Named)
	if !ok || n.Obj().Pkg() == nil || n.Obj().Pkg().Path() != "sync/atomic" {
		return 0
	}
	switch n.Obj().Name() {
	case "Int32", "Uint32":
		return 32
	case "Int64", "Uint64":
		return 64
	}
	return 0
}

// xcStripConv strips integer conversions.
func xcStripConv(v ssa.Value) ssa.Value {
	for i := 0; i < 8; i++ {
		v = ir.Resolve(v)
		cv, ok := v.(*ssa.Convert)
		if !ok {
			return v
		}
		v = cv.X
	}
	return v
}

func xcFnList(fns []*ssa.Function) string {
	s := ""
	for i, f := range fns {
		if i > 0 {
			s += ", "
		}
		s += ir.FnName(f)
	}
	return fmt.Sprintf("[%s]", s)
}
