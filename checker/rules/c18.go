package rules

import (
	"fmt"
	"go/types"
	"sort"
	"strings"

	"golang.org/x/tools/go/ssa"

	"verif/checker/ai"
	"verif/checker/ir"
)

func init() {
	register(&Check{
		ID: "C18", Title: "Iterator mixer is a faithful two-way merge",
		Pkgs:      []string{"container/iterable"},
		Run:       runC18,
		Technique: "static analysis: path-sensitive typestate analysis by finite abstract interpretation of the go/ssa of Mixer.Init/HasNext/Next/Reset (abstract domain: constants for the control state, opaque tokens for elements; product with a per-source look-ahead automaton), exhaustive over the reachable abstract states; write/read/reset footprints (field access chains over the static call closure) of the iteration methods against those of Reset for every resettable iterator type",
		Explanation: "The control state of the mixer (state byte and look-ahead flags, found by interpreting Init) is propagated through the SSA of HasNext, Next and Reset for every outcome of the environment calls (source HasNext/Next - including a Next that answers (zero, false) after HasNext said true, which the Iterator contract allows when the last element was removed in between: nothing may be emitted for it -, selector, Reset support); elements are opaque tokens, so only the shape of a merge step is decided. On every reachable abstract state: " +
			"T1 a source is asked for its next element only when its look-ahead is empty and it has just reported HasNext (no element lost or fetched twice); " +
			"T2 Next emits exactly a pending look-ahead element of one source and clears that look-ahead; " +
			"T3 with both look-aheads pending the selector is applied to (first head, second head) in this order and the first head is emitted iff it returned true; with one pending that one is emitted only after the other source reported exhaustion; (zero,false) is returned only when both are exhausted; " +
			"T4 HasNext is idempotent (no further environment call) and agrees with the following Next; " +
			"T6 the package's iterator constructors return the same reset capability on every path; " +
			"T5 a successful Reset restores exactly the state Init establishes (every field iteration writes), and fails with an error otherwise. T7: the same merge-step clauses T1-T4 hold from every state reached through a Reset that returned an error (sources that were not reset keep position and look-ahead, sources that were reset restart). T8: Init sets every boolean/integer control field, so a Mixer may be initialised again (the statement speaks of the mixer, not of a Mixer value used once). " +
			"T9: no path of Init/HasNext/Next/Reset calls Close of a source (observed as an environment call on every reachable abstract state): an iterator must not be used after Close, so a source closed before the mixer's own Close cannot be restarted by Reset. " +
			"T10: every type of the package that is an Iterator and a golibs.Reseter whose Reset can return nil (the slice iterator, the Mixer as the input of another mixer) replays: every field, memory reached through a field, or nested iterator that its HasNext/Next (and what they call) modify is written again - or reset through golibs.Reseter - by its Reset; Mixer.Reset relies on exactly this when it takes a nil answer of a source's Reset for a restart. " +
			"T11: the exploration is closed under every exported method of the Mixer that writes a field or advances/resets/closes a source (found by its footprint): such a method is interpreted from every reachable abstract state like Reset (function-typed parameters answered nondeterministically, environment-bounded loops cut when the abstract state repeats), it may discard look-ahead elements, and T1-T4/T9 must hold in it and in every state reachable after it - a selection kept in force across a change of the heads shows up as an element emitted without the selector having been consulted for the current heads, or from an empty look-ahead. " +
			"T12: every failing exit of the Reset of a resettable iterator type of the package is the propagation of an environment error, or guarded by a failed capability assertion, or by a test of a field that only Close can make true (the zero value and all stores outside Close fail the test): an input that was never closed can be reset, also an empty one.",
		NotDecided: "the merged sequence as a value (induction over the inputs); behaviour of ill-behaved sources whose HasNext is not monotone.",
	})
}

type c18model struct {
	pend [2]bool // look-ahead of source k holds an un-emitted element
	done [2]bool // source k reported HasNext()==false
	has  [2]bool // source k reported HasNext()==true and Next was not called since
	dec  int     // selector decision for the current pair of heads: 0 none, 1 first, 2 second
}

func (m c18model) key() string { return fmt.Sprintf("%v%v%v%d", m.pend, m.done, m.has, m.dec) }

func runC18(c *Ctx) {
	mixer := c.P.LookupType("container/iterable", "Mixer")
	if mixer == nil {
		c.Fatalf("role Mixer type not found")
	}
	m := func(name string) *ssa.Function { return c.RequireFn(c.P.MethodOf(mixer, name), "Mixer."+name) }
	initFn, hasNext, next, reset := m("Init"), m("HasNext"), m("Next"), m("Reset")
	// T9 (census part) and T10 do not depend on the interpretation below (v_mixer.go)
	c.noCloseOutsideInterpretation(c18T9, "container/iterable", hasNext, next, reset)
	c.resettableIteratorsReplay(c18T10, "container/iterable", mixer)
	c.resetRefusesOnlyClosed(c18T12, "container/iterable") // v_mixer_h.go
	// T11 (v_mixer_g.go): further exported methods of the Mixer that change its state join the exploration
	ext := c.c18Extensions(mixer, "container/iterable", initFn, hasNext, next, reset)
	pkg := c.P.SSAPkg("container/iterable")
	follow := func(fn *ssa.Function) bool {
		root := fn
		for root.Parent() != nil {
			root = root.Parent()
		}
		return root.Pkg == pkg
	}
	var violations []string
	var curOp string
	curFn := func() *ssa.Function {
		switch {
		case strings.HasSuffix(curOp, "Next") && curOp != "HasNext" && !strings.HasSuffix(curOp, "HasNext"):
			return next
		case curOp == "Reset":
			return reset
		}
		return hasNext
	}
	report := map[string]bool{}
	afterRefusedReset := false // the state being explored has a refused Reset in its history
	fail := func(rule, what, detail string) {
		var inFn *ssa.Function
		if ext.after != "" {
			rule, what, detail, inFn = ext.relabel(rule, what, detail)
		} else if afterRefusedReset {
			// the same clauses, but only reachable through a Reset that returned an error: its own obligation
			what = "after a refused Reset: " + what
			detail = "reachable only after a Reset that returned an error (a source cannot be reset): " + detail
			rule = "C18.T7"
		}
		k := rule + "|" + what
		if !report[k] {
			report[k] = true
			violations = append(violations, k)
			if inFn == nil {
				inFn = curFn()
			}
			c.Decide(rule, inFn, what, nil, false, detail)
		}
	}

	// environment: model variables live in the abstract store so that they fork with the state
	getM := func(st *ai.State) c18model {
		var mm c18model
		rd := func(p string) bool { b, _ := ai.AsBool(st.Mem[p]); return b }
		for k := 0; k < 2; k++ {
			mm.pend[k] = rd(fmt.Sprintf("model.pend%d", k))
			mm.done[k] = rd(fmt.Sprintf("model.done%d", k))
			mm.has[k] = rd(fmt.Sprintf("model.has%d", k))
		}
		d, _ := ai.AsInt(st.Mem["model.dec"])
		mm.dec = int(d)
		return mm
	}
	putM := func(st *ai.State, mm c18model) {
		for k := 0; k < 2; k++ {
			st.Mem[fmt.Sprintf("model.pend%d", k)] = ai.Bool(mm.pend[k])
			st.Mem[fmt.Sprintf("model.done%d", k)] = ai.Bool(mm.done[k])
			st.Mem[fmt.Sprintf("model.has%d", k)] = ai.Bool(mm.has[k])
		}
		st.Mem["model.dec"] = ai.Int(int64(mm.dec))
	}
	srcIdx := func(v ai.Val) int {
		if t, ok := v.(ai.Tok); ok {
			switch t.Name {
			case "it1":
				return 0
			case "it2":
				return 1
			}
		}
		return -1
	}
	elemTok := func(k int) ai.Val { return ai.Tok{Name: fmt.Sprintf("elem@it%d", k+1)} }
	env := &ai.Env{Follow: follow, MaxSteps: 5000}
	env.InitMem = func(path string, t types.Type) ai.Val {
		if strings.HasPrefix(path, "g:") && ir.IsErrorType(t) {
			return ai.Tok{Name: "sentinel " + path} // package-level error sentinels are non-nil
		}
		return nil
	}
	env.Invoke = func(st *ai.State, recv ai.Val, name string, args []ai.Val, res *types.Tuple, choose func() bool) ai.Val {
		mm := getM(st)
		defer func() { putM(st, mm) }()
		if k := srcIdx(recv); k >= 0 {
			switch {
			case name == "HasNext":
				if mm.done[k] {
					return ai.Bool(false)
				}
				if mm.has[k] {
					return ai.Bool(true)
				}
				h := choose()
				if h {
					mm.has[k] = true
				} else {
					mm.done[k] = true
				}
				return ai.Bool(h)
			case name == "Next":
				if mm.pend[k] && ext.mode {
					mm.pend[k] = false // T11: a state-changing method outside the merge step may discard a look-ahead
				}
				if mm.pend[k] {
					fail("C18.T1", "source advanced only with an empty look-ahead", fmt.Sprintf("%s: source %d is asked for its next element while its previous element is still in the look-ahead: that element is lost", curOp, k+1))
				}
				if !mm.has[k] {
					fail("C18.T1", "source advanced only after HasNext", fmt.Sprintf("%s: Next() of source %d is called without a preceding HasNext()==true", curOp, k+1))
					return ai.Tuple{Elems: []ai.Val{elemTok(k), ai.Bool(false)}}
				}
				// the Iterator contract allows HasNext()==true to be followed by Next()==(zero, false): the element was
				// removed in between. Modelled for the case the contract names: it was the last one, the source
				// is exhausted from here on, and nothing may be emitted for it
				if !choose() {
					mm.has[k] = false
					mm.done[k] = true
					return ai.Tuple{Elems: []ai.Val{ai.Const{}, ai.Bool(false)}}
				}
				mm.has[k] = false
				mm.pend[k] = true
				mm.dec = 0
				return ai.Tuple{Elems: []ai.Val{elemTok(k), ai.Bool(true)}}
			case name == "Close":
				// T9 (v_mixer.go): only Init/HasNext/Next/Reset are interpreted here, never the mixer's own Close
				fail(c18T9, c18NoEarlyClose, c18EarlyCloseDetail(curOp, k))
				return ai.Const{}
			case strings.HasPrefix(name, "typeassert:"):
				return ai.Bool(choose())
			case name == "Reset":
				if choose() {
					return ai.Tok{Name: "reset-error"}
				}
				mm.pend[k], mm.done[k], mm.has[k] = false, false, false
				mm.dec = 0
				st.Mem[fmt.Sprintf("model.reset%d", k)] = ai.Bool(true)
				return ai.Const{}
			}
			return nil
		}
		if v := ext.answerParam(recv, name, res, choose); v != nil {
			return v
		}
		if t, ok := recv.(ai.Tok); ok && t.Name == "sf" && name == "call" {
			okArgs := len(args) == 2 && args[0].String() == elemTok(0).String() && args[1].String() == elemTok(1).String()
			if !okArgs {
				var as []string
				for _, a := range args {
					as = append(as, a.String())
				}
				fail("C18.T3", "selector applied to (first head, second head)", fmt.Sprintf("%s: the selector is called with (%s); it must get the head of the first input and the head of the second input in this order (ties and constant selectors decide otherwise)", curOp, strings.Join(as, ", ")))
			}
			if !mm.pend[0] || !mm.pend[1] {
				fail("C18.T3", "selector applied to two pending heads", curOp+": the selector is consulted although not both look-aheads hold an element")
			}
			r := choose()
			if r {
				mm.dec = 1
			} else {
				mm.dec = 2
			}
			return ai.Bool(r)
		}
		// errors / fmt in Reset
		if res != nil && res.Len() == 1 && ir.IsErrorType(res.At(0).Type()) {
			return ai.Tok{Name: "error"}
		}
		if res != nil && res.Len() == 1 {
			if b, ok := res.At(0).Type().Underlying().(*types.Basic); ok && b.Kind() == types.String {
				return ai.Tok{Name: "string"}
			}
		}
		return nil
	}

	recv := ai.Ptr{Path: "M"}
	// Init establishes the reference state
	st0 := &ai.State{Mem: map[string]ai.Val{}}
	putM(st0, c18model{})
	outs, err := ai.Explore(env, initFn, []ai.Val{recv, ai.Tok{Name: "sf"}, ai.Tok{Name: "it1"}, ai.Tok{Name: "it2"}}, st0)
	// Init may consult the environment (a source's reset capability resolved once, v_mixer.go): every outcome is an
	// initial state of its own, and a state remembers which one it descends from ("model.init")
	initStates, initErr := c18InitStates(outs, err)
	if initErr != "" {
		c.Undecided("C18.T5", initFn, "Init establishes the initial state", nil, "cannot interpret Init: "+initErr)
		return
	}
	initState := initStates[0]
	implKey := func(st *ai.State) string {
		var ks []string
		for k, v := range st.Mem {
			if strings.HasPrefix(k, "M.") {
				ks = append(ks, k+"="+v.String())
			}
		}
		sort.Strings(ks)
		return strings.Join(ks, ";")
	}
	stateKey := func(st *ai.State) string {
		return implKey(st) + "||" + getM(st).key() + fmt.Sprint(c18InitOf(st, 64))
	}
	var initImpls []string
	for _, is := range initStates {
		initImpls = append(initImpls, implKey(is))
	}
	initImpls = c18DistinctInits(initStates, initImpls)
	c.Role("mixer.initial-state", strings.Join(initImpls, " | "), mixer.Obj().Pos())
	// T8: Init sets every control field (booleans and integers of the Mixer and of the structs embedded in it by value).
	// A field Init leaves alone keeps the value of the Mixer's previous use: the first merge of a Mixer works (zero
	// value), a Mixer that is initialised again continues in the middle of its previous merge.
	{
		var unset []string
		var walk func(path string, t types.Type, depth int)
		walk = func(path string, t types.Type, depth int) {
			if depth > 3 {
				return
			}
			switch u := t.Underlying().(type) {
			case *types.Struct:
				for i := 0; i < u.NumFields(); i++ {
					walk(path+"."+u.Field(i).Name(), u.Field(i).Type(), depth+1)
				}
			case *types.Basic:
				if u.Info()&(types.IsBoolean|types.IsInteger) != 0 {
					for _, is := range initStates {
						if _, set := is.Mem[path]; !set {
							unset = append(unset, path)
							break
						}
					}
				}
			}
		}
		walk("M", mixer, 0)
		sort.Strings(unset)
		c.Decide("C18.T8", initFn, "Init sets every control field", nil, len(unset) == 0,
			"Init leaves "+strings.Join(unset, ", ")+" as it was: a Mixer that is initialised a second time starts its merge in the control state its previous use ended in (elements are skipped, or zero values are emitted)")
		if len(unset) > 0 {
			return
		}
	}

	// explore the reachable (implementation x model) states
	seen := map[string]*ai.State{}
	work := []*ai.State{initState}
	seen[stateKey(initState)] = initState
	for _, is := range initStates[1:] {
		if _, dup := seen[stateKey(is)]; !dup {
			seen[stateKey(is)] = is
			work = append(work, is)
		}
	}
	nTrans := 0
	fresh := func(st *ai.State) *ai.State { n := st.Clone(); n.Events = nil; return n }
	push := func(st *ai.State) {
		k := stateKey(st)
		if _, ok := seen[k]; !ok && len(seen) < 5000 {
			seen[k] = st
			work = append(work, st)
		}
	}
	for len(work) > 0 || ext.begin(seen, len(violations) == 0, func(st *ai.State) [2]bool { return getM(st).pend }) {
		if len(work) == 0 {
			// second round (T11): every state reached so far again, now with the state-changing methods
			var ks []string
			for k := range seen {
				ks = append(ks, k)
			}
			sort.Strings(ks)
			for _, k := range ks {
				work = append(work, seen[k])
			}
		}
		s := work[0]
		work = work[1:]
		ext.tag(s)
		afterRefusedReset = false
		if b, ok := ai.AsBool(s.Mem["model.refused"]); ok && b {
			afterRefusedReset = true
		}
		// --- HasNext
		curOp = "HasNext"
		hOuts, err := ai.Explore(env, hasNext, []ai.Val{recv}, fresh(s))
		if err != nil {
			c.Undecided("C18.T4", hasNext, "HasNext interpretable", nil, err.Error())
			return
		}
		for _, o := range hOuts {
			nTrans++
			if o.Panic {
				fail("C18.T4", "HasNext does not panic", "HasNext can panic")
				continue
			}
			hv, known := ai.AsBool(o.Ret[0])
			if !known {
				c.Undecided("C18.T4", hasNext, "HasNext result", nil, "HasNext returns a value the abstract interpretation cannot determine: "+o.Ret[0].String())
				return
			}
			mm := getM(o.State)
			if hv && !mm.pend[0] && !mm.pend[1] {
				fail("C18.T4", "HasNext true implies an element is available", "HasNext reports true although neither source delivered an element")
			}
			if !hv && (!mm.done[0] || !mm.done[1] || mm.pend[0] || mm.pend[1]) {
				fail("C18.T3", "end reported only when both inputs are exhausted", "HasNext reports false although a source still has (or may have) elements")
			}
			// idempotence: a second HasNext from here makes no environment call and returns the same
			curOp = "HasNext;HasNext"
			h2, err := ai.Explore(env, hasNext, []ai.Val{recv}, fresh(o.State))
			if err == nil {
				for _, o2 := range h2 {
					if len(o2.State.Events) > 0 || o2.Ret[0].String() != o.Ret[0].String() || stateKey(o2.State) != stateKey(o.State) {
						fail("C18.T4", "HasNext is idempotent", "a repeated HasNext consults the sources/selector again or changes the state: "+eventsString(o2.State.Events))
					}
				}
			}
			// agreement with the following Next
			curOp = "HasNext;Next"
			n2, err := ai.Explore(env, next, []ai.Val{recv}, fresh(o.State))
			if err == nil {
				for _, o2 := range n2 {
					if o2.Panic || len(o2.Ret) != 2 {
						continue
					}
					ok2, k2 := ai.AsBool(o2.Ret[1])
					if k2 && ok2 != hv {
						fail("C18.T4", "HasNext agrees with the following Next", fmt.Sprintf("HasNext returned %v but the following Next returned ok=%v", hv, ok2))
					}
				}
			}
			push(fresh(o.State))
			curOp = "HasNext"
		}
		// --- Next
		curOp = "Next"
		nOuts, err := ai.Explore(env, next, []ai.Val{recv}, fresh(s))
		if err != nil {
			c.Undecided("C18.T2", next, "Next interpretable", nil, err.Error())
			return
		}
		for _, o := range nOuts {
			nTrans++
			if o.Panic {
				fail("C18.T2", "Next does not panic", "Next can panic")
				continue
			}
			okv, known := ai.AsBool(o.Ret[1])
			if !known {
				c.Undecided("C18.T2", next, "Next result", nil, "Next returns an undetermined ok flag")
				return
			}
			mm := getM(o.State)
			if !okv {
				if mm.pend[0] || mm.pend[1] || !mm.done[0] || !mm.done[1] {
					fail("C18.T3", "end reported only when both inputs are exhausted", "Next returns (zero,false) although a source still has (or may have) elements")
				}
				push(fresh(o.State))
				continue
			}
			k := -1
			for i := 0; i < 2; i++ {
				if o.Ret[0].String() == elemTok(i).String() {
					k = i
				}
			}
			if k < 0 {
				fail("C18.T2", "Next emits a look-ahead element", "Next returns ok=true with a value that is not the head of either input: "+o.Ret[0].String())
				continue
			}
			if !mm.pend[k] {
				fail("C18.T2", "Next emits a pending element once", fmt.Sprintf("Next emits the element of source %d although its look-ahead is empty (duplicate or stale element)", k+1))
				continue
			}
			other := 1 - k
			if mm.pend[other] {
				if mm.dec == 0 {
					fail("C18.T3", "selector consulted when both heads are pending", "an element is emitted while both look-aheads are pending and the selector was not consulted for this pair")
				} else if mm.dec != k+1 {
					fail("C18.T3", "first head emitted iff the selector prefers it", fmt.Sprintf("the selector decided for source %d but source %d is emitted", mm.dec, k+1))
				}
			} else if !mm.done[other] {
				fail("C18.T3", "single head emitted only when the other input is exhausted", fmt.Sprintf("source %d's head is emitted while source %d has not reported exhaustion", k+1, other+1))
			}
			mm.pend[k] = false
			mm.dec = 0
			ns := fresh(o.State)
			putM(ns, mm)
			push(ns)
		}
		// --- Reset
		curOp = "Reset"
		rs := fresh(s)
		rs.Mem["model.reset0"], rs.Mem["model.reset1"] = ai.Bool(false), ai.Bool(false)
		rOuts, err := ai.Explore(env, reset, []ai.Val{recv}, rs)
		if err != nil {
			c.Undecided("C18.T5", reset, "Reset interpretable", nil, err.Error())
			return
		}
		for _, o := range rOuts {
			nTrans++
			if o.Panic || len(o.Ret) != 1 {
				continue
			}
			r0, _ := ai.AsBool(o.State.Mem["model.reset0"])
			r1, _ := ai.AsBool(o.State.Mem["model.reset1"])
			isNil := o.Ret[0].String() == "zero"
			if isNil {
				if !r0 || !r1 {
					fail("C18.T5", "Reset succeeds only when both inputs were reset", "Reset returns nil although a source was not reset")
					continue
				}
				initImpl := initImpls[c18InitOf(o.State, len(initImpls))]
				if got := implKey(o.State); got != initImpl {
					fail("C18.T5", "successful Reset restores the Init state", "after a successful Reset the mixer differs from a freshly initialised one: "+diffKeys(initImpl, got))
				}
				ns := fresh(o.State)
				delete(ns.Mem, "model.reset0")
				delete(ns.Mem, "model.reset1")
				push(ns)
				continue
			}
			// T7: a Reset that returned an error (a source without Reset support, or one whose Reset failed) leaves a
			// mixer that goes on merging: sources that were not reset keep their position and their look-ahead,
			// sources that were reset restart; the merge-step clauses T1-T4 are required from that state on as well
			ns := fresh(o.State)
			delete(ns.Mem, "model.reset0")
			delete(ns.Mem, "model.reset1")
			ns.Mem["model.refused"] = ai.Bool(true)
			push(ns)
		}
		// --- T11: the state-changing methods outside the merge step
		if !ext.step(s, env, recv, func(op string) { curOp = op }, fresh, push,
			func(st *ai.State) [2]bool { return getM(st).pend },
			func(st *ai.State, k int) { mm := getM(st); mm.pend[k] = false; mm.dec = 0; putM(st, mm) }, fail) {
			return
		}
	}
	ext.finish()
	c.R.Role("typestate exploration", fmt.Sprintf("%d reachable (implementation x look-ahead automaton) states, %d abstract transitions", len(seen), nTrans))
	if len(seen) >= 5000 {
		c.Undecided("C18.T1", nil, "state space", nil, "abstract state space exceeded 5000 states")
		return
	}
	if len(seen) < 8 {
		c.R.Errorf("C18: only %d abstract states reachable: the exploration is vacuous", len(seen))
	}
	// obligations that held
	for _, ob := range [][2]string{
		{"C18.T1", "source advanced only with an empty look-ahead"}, {"C18.T1", "source advanced only after HasNext"},
		{"C18.T2", "Next emits a look-ahead element"}, {"C18.T2", "Next emits a pending element once"},
		{"C18.T3", "selector applied to (first head, second head)"}, {"C18.T3", "first head emitted iff the selector prefers it"},
		{"C18.T3", "single head emitted only when the other input is exhausted"}, {"C18.T3", "end reported only when both inputs are exhausted"},
		{"C18.T3", "selector consulted when both heads are pending"},
		{"C18.T4", "HasNext is idempotent"}, {"C18.T4", "HasNext agrees with the following Next"}, {"C18.T4", "HasNext true implies an element is available"},
		{"C18.T5", "successful Reset restores the Init state"}, {"C18.T5", "Reset succeeds only when both inputs were reset"},
		{"C18.T7", "after a refused Reset the merge step clauses T1-T4 still hold"},
		{c18T9, c18NoEarlyClose},
	} {
		if ob[0] == "C18.T7" {
			any := false
			for k := range report {
				if strings.HasPrefix(k, "C18.T7|") {
					any = true
				}
			}
			if any {
				continue
			}
		}
		if !report[ob[0]+"|"+ob[1]] {
			fn := hasNext
			switch ob[0] {
			case "C18.T2":
				fn = next
			case "C18.T5", "C18.T7":
				fn = reset
			}
			c.Decide(ob[0], fn, ob[1], nil, true, "")
		}
	}
	c.Saw(initFn, hasNext, next, reset)

	// T6: the package's own iterator constructors hand out the same capabilities on every path (an input that is
	// resettable for one argument and not for another makes Reset fail for inputs that could be reset before)
	reseter := c.P.LookupTypeAny(ir.Module, "Reseter")
	if reseter != nil {
		ri, _ := reseter.Underlying().(*types.Interface)
		n := 0
		for _, fn := range c.P.FuncsOf("container/iterable") {
			if fn.Signature.Recv() != nil || fn.Object() == nil || !fn.Object().Exported() || fn.Parent() != nil {
				continue
			}
			yes, no := 0, 0
			var at ssa.Instruction
			for _, ret := range ir.Returns(fn) {
				for _, rv := range ret.Results {
					for _, o := range phiClosure(rv) {
						mi, ok := o.(*ssa.MakeInterface)
						if !ok || namedOf(mi.Type()) == nil || namedOf(mi.Type()).Obj().Name() != "Iterator" {
							continue
						}
						if types.Implements(mi.X.Type(), ri) {
							yes++
						} else {
							no++
							at = ret
						}
					}
				}
			}
			if yes+no == 0 {
				continue
			}
			n++
			c.Decide("C18.T6", fn, "constructor returns iterators with the same reset capability on every path", at, !(yes > 0 && no > 0),
				"this constructor returns a resettable iterator on some paths and a non-resettable one on others: Mixer.Reset fails (or restarts only one side) for an input that could be reset before")
		}
		_ = n
	}
}

func eventsString(es []ai.Event) string {
	var s []string
	for _, e := range es {
		s = append(s, e.String())
	}
	return strings.Join(s, "; ")
}

func diffKeys(a, b string) string {
	am := map[string]bool{}
	for _, x := range strings.Split(a, ";") {
		am[x] = true
	}
	var d []string
	for _, x := range strings.Split(b, ";") {
		if !am[x] {
			d = append(d, x)
		}
	}
	return strings.Join(d, ", ")
}
