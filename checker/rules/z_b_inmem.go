package rules

import (
	"go/token"
	"go/types"
	"strings"

	"golang.org/x/tools/go/ssa"

	"verif/checker/ir"
)

// Rules of the in-memory kvs.Storage backend added after seeded round e (C06-e1, C07-e1, C07-e2).

// ---------------------------------------------------------------------------
// every exit releases the mutex (C07.W10 / C02.R12)

// inmemExitsUnlocked: a function of the backend that takes the service mutex gives it back on every path to a return:
// no path from an acquisition to a return avoids the Unlock (an Unlock on the path, a `defer Unlock` executed on the path
// or before the acquisition, or a helper that does nothing but release). A single exit that keeps the mutex blocks every
// later operation on the storage for ever - writers cannot wake waiters, waiters cannot return, a cancelled waiter that
// leaves this way "disturbs the others" in the strongest form there is. Decided per acquisition with the path query
// (conditions on the same SSA value and constants assigned to flags are followed), so early returns, unlock-in-both-
// branches and flag-guarded unlocks are all the same to it.
func (c *Ctx) inmemExitsUnlocked(r *inmemRoles, rule string) {
	n := 0
	inPkg := map[*ssa.Function]bool{}
	for _, fn := range r.svcFns {
		inPkg[fn] = true
	}
	mutexPath := func(p string) bool {
		return strings.HasSuffix(p, "."+r.mutex.Name()) || strings.HasSuffix(p, "."+r.mutex.Name()+ir.ReadLockSuffix)
	}
	// releases: a function that unlocks the service mutex and never acquires it (an "unlock" helper, a deferred literal)
	releases := func(cal *ssa.Function) bool {
		if cal == nil || len(cal.Blocks) == 0 {
			return false
		}
		acq := ir.MayReach(cal, func(x ssa.Instruction) bool {
			if _, isDefer := x.(*ssa.Defer); isDefer {
				return false
			}
			return r.isLock(x)
		}, 1)
		rel := ir.MayReach(cal, func(x ssa.Instruction) bool {
			p, _, isRel := ir.LockOp(x)
			return isRel && mutexPath(p)
		}, 1)
		return rel && !acq
	}
	isRelease := func(x ssa.Instruction) bool {
		if r.isUnlock(x) {
			return true
		}
		if d, isDefer := x.(*ssa.Defer); isDefer {
			if p, _, rel := ir.LockOp(d); rel && mutexPath(p) {
				return true
			}
			return releases(ir.StaticCallee(d))
		}
		if call, isCall := x.(*ssa.Call); isCall {
			if cal := ir.StaticCallee(call); cal != nil && (inPkg[cal] || cal.Parent() != nil) && !r.locking[cal] {
				return releases(cal)
			}
		}
		return false
	}
	for _, fn := range r.svcFns {
		var deferred []ssa.Instruction
		ir.Instrs(fn, func(in ssa.Instruction) {
			if _, isDefer := in.(*ssa.Defer); isDefer && isRelease(in) {
				deferred = append(deferred, in)
			}
		})
		ir.Instrs(fn, func(in ssa.Instruction) {
			switch in.(type) {
			case *ssa.Defer, *ssa.Go:
				return
			}
			if !r.isLock(in) {
				return
			}
			n++
			// a release deferred before the acquisition runs at every exit behind it
			for _, d := range deferred {
				if ir.Dominates(d, in) {
					c.Decide(rule, fn, "the mutex taken here is released on every path to a return", in, true, "")
					return
				}
			}
			const construct = "the mutex taken here is released on every path to a return"
			const detail = "the function can return (or try to take the mutex again) with the service mutex still held (a path without Unlock and without a deferred Unlock): every later operation on the storage - Get, Put, the notification of waiters, other waiters giving up - blocks for ever"
			// ... or to a second acquisition (the mutex is not reentrant: the goroutine blocks on itself)
			again := func(x ssa.Instruction) bool {
				switch x.(type) {
				case *ssa.Defer, *ssa.Go:
					return false
				}
				return r.isLock(x)
			}
			w, err := (ir.Query{Fn: fn, From: in, Block: isRelease, Target: func(x ssa.Instruction) bool { return ir.IsExit(x) || again(x) }}).Find()
			if err == nil && w == nil {
				c.Decide(rule, fn, construct, in, true, "")
				return
			}
			// per path: an unlock behind a flag ("locked"), results merged in single-exit style
			pw, perr := (ir.PathQuery{Fn: fn, From: in, FromFacts: true, Stop: isRelease,
				Target: func(x ssa.Instruction, val *ir.Valuation) bool {
					return (again(x) || (ir.IsExit(x) && x.Block() != fn.Recover)) && constComparisonsHoldYB(fn, val)
				}}).Find()
			switch {
			case perr != nil:
				c.Undecided(rule, fn, construct, in, perr.Error())
			case pw != nil:
				c.Decide(rule, fn, construct, in, false, detail+": path "+pw.String(c.P))
			default:
				c.Decide(rule, fn, construct, in, true, "")
			}
		})
	}
	if n < 1 {
		c.R.Errorf("%s found no acquisition of the service mutex (floor 1)", rule)
	}
}

// ---------------------------------------------------------------------------
// who may delete (C06.R9)

// inmemDeleteExamined: a record leaves the table only (a) in the contract's Delete, for a key the operation found under
// this very lock acquisition, or (b) on the expired edge of the expiry decision, taken on a record looked up under this
// very lock acquisition. "Expired" is a statement about ONE stored record at ONE moment under the lock; a delete that
// is separated from the decision (decided on a record seen in an earlier critical section, on a timer that fired, on a
// flag) removes whatever is stored under the key NOW - a record written in between, whose expiration lies in the future
// or which has none. Two obligations per delete site:
//
//	examined: no path from an acquisition of the mutex (function entry for a helper that is called under the lock) to
//	          the delete avoids a lookup of the record table with the same key (direct, through a live-lookup helper,
//	          or the iteration step of a range over the table that yields the key);
//	decided:  no path from the function entry to the delete avoids the expired edge of an expiry decision (in Delete:
//	          the found edge of the lookup).
//
// A delete inside a private helper that is only handed the key (drop(key) = delete + notify) is decided at the call
// sites of the helper.
func (c *Ctx) inmemDeleteExamined(r *inmemRoles, rule string) {
	n := 0
	for _, fn := range r.svcFns {
		ir.Instrs(fn, func(in ssa.Instruction) {
			cc := r.recsDelete(in)
			if cc == nil {
				return
			}
			n++
			okEx, whyEx := r.deleteExamined(fn, in, cc.Args[1], 0)
			c.Decide(rule, fn, "a record is deleted only after it was looked up under this lock acquisition", in, okEx,
				"the record table entry is deleted "+whyEx+": the delete acts on whatever record is stored under the key now, not on the record the decision was taken on - a record written in between (expiration in the future, or none) is dropped")
			okDec, whyDec := r.deleteDecided(fn, in, 0)
			c.Decide(rule, fn, "a record is deleted only on the expired edge of the expiry decision (or by Delete, when found)", in, okDec,
				"the record table entry is deleted "+whyDec+": a record whose expiration lies in the future, or which has none, can be dropped")
		})
	}
	if n < 2 {
		c.R.Errorf("%s matched %d delete sites of the record table, below its floor of 2 (Delete, the purge of an expired record)", rule, n)
	}
}

// staticSites lists the call sites of the private helper fn in the backend; ok is false when fn is not a private helper
// or is used as a value somewhere (then its call sites are not all known).
func (r *inmemRoles) staticSites(fn *ssa.Function) (sites []*ssa.Call, ok bool) {
	if fn.Parent() != nil || !r.isPrivateHelper(fn) {
		return nil, false
	}
	escaped := false
	for _, caller := range r.all {
		ir.Instrs(caller, func(in ssa.Instruction) {
			if call, isCall := in.(*ssa.Call); isCall && ir.StaticCallee(call) == fn {
				if _, direct := call.Call.Value.(*ssa.Function); direct {
					sites = append(sites, call)
					return
				}
			}
			for _, op := range in.Operands(nil) {
				if op != nil && *op == ssa.Value(fn) {
					if ci, isCI := in.(ssa.CallInstruction); isCI && ci.Common().Value == ssa.Value(fn) {
						if _, isCall := in.(*ssa.Call); isCall {
							continue
						}
					}
					escaped = true
				}
			}
		})
	}
	return sites, !escaped && len(sites) > 0
}

// sameKeyZB: two values denote the same storage key (same SSA value, same access path, same field of the same record).
func sameKeyZB(a, b ssa.Value) bool {
	return same(a, b) || samePath(a, b) || sameFieldOfSameCell(a, b)
}

// lookupOfKey: in looks the record table up under key (direct lookup, call of a live-lookup helper with the key among its
// arguments, or the iteration step of a range over the table from which key is extracted).
func (r *inmemRoles) lookupOfKey(in ssa.Instruction, key ssa.Value) bool {
	if lk := r.recsLookup(in); lk != nil {
		return sameKeyZB(lk.Index, key)
	}
	if call, ok := in.(*ssa.Call); ok && r.liveHelpers[ir.StaticCallee(call)] {
		for _, a := range call.Call.Args {
			if types.Identical(a.Type(), key.Type()) && sameKeyZB(a, key) {
				return true
			}
		}
		return false
	}
	if nx, ok := in.(*ssa.Next); ok {
		if rg, isRg := nx.Iter.(*ssa.Range); isRg && r.isRecsVal(rg.X) {
			if ex, isEx := ir.Resolve(key).(*ssa.Extract); isEx && ex.Tuple == ssa.Value(nx) && ex.Index == 1 {
				return true
			}
		}
	}
	return false
}

func paramIndex(fn *ssa.Function, v ssa.Value) int {
	p, ok := ir.Resolve(v).(*ssa.Parameter)
	if !ok {
		return -1
	}
	for i, q := range fn.Params {
		if q == p {
			return i
		}
	}
	return -1
}

// deleteExamined: see inmemDeleteExamined. at is the delete (or, when lifted, the call of the helper that deletes).
func (r *inmemRoles) deleteExamined(fn *ssa.Function, at ssa.Instruction, key ssa.Value, depth int) (bool, string) {
	isLookup := func(x ssa.Instruction) bool { return r.lookupOfKey(x, key) }
	var starts []ssa.Instruction
	ir.Instrs(fn, func(in ssa.Instruction) {
		switch in.(type) {
		case *ssa.Defer, *ssa.Go:
			return
		}
		if r.isLock(in) {
			starts = append(starts, in)
		}
		if call, ok := in.(*ssa.Call); ok {
			if cal := ir.StaticCallee(call); cal != nil && r.locking[cal] && cal != fn {
				starts = append(starts, in) // a locking method ran: its critical section is over
			}
		}
	})
	target := func(x ssa.Instruction) bool { return x == at }
	local := true
	for _, s := range starts {
		if w, err := (ir.Query{Fn: fn, From: s, Block: isLookup, Target: target}).Find(); err != nil || w != nil {
			local = false
		}
	}
	if len(starts) > 0 {
		if local {
			return true, ""
		}
		return false, "on a path from the acquisition of the mutex on which the table was not looked up under this key"
	}
	// no acquisition here: a helper that runs under its callers' lock
	if w, err := (ir.Query{Fn: fn, Block: isLookup, Target: target}).Find(); err == nil && w == nil {
		return true, ""
	}
	idx := paramIndex(fn, key)
	sites, ok := r.staticSites(fn)
	if idx < 0 || !ok || depth >= 2 {
		return false, "without a lookup of the table under this key in the same critical section"
	}
	for _, call := range sites {
		if idx >= len(call.Call.Args) {
			return false, "without a lookup of the table under this key in the same critical section"
		}
		if okS, why := r.deleteExamined(call.Parent(), call, call.Call.Args[idx], depth+1); !okS {
			return false, "through " + fn.Name() + "() " + why
		}
	}
	return true, ""
}

// deleteDecided: see inmemDeleteExamined.
func (r *inmemRoles) deleteDecided(fn *ssa.Function, at ssa.Instruction, depth int) (bool, string) {
	root := fn
	for root.Parent() != nil {
		root = root.Parent()
	}
	isDeleteMethod := root == r.storage["Delete"] || r.removalEntryU(root) // Delete, or a further removal entry point outside the nine contract operations (v_kvs_u.go)
	// the moment of the decision may be a time parameter of this helper (whether it is a fresh clock reading is decided
	// where the helper is called, by the fresh-clock rule)
	nowParam := func(v ssa.Value) bool {
		p, ok := ir.Resolve(v).(*ssa.Parameter)
		return ok && p.Parent() == fn && isTimeZB(p.Type())
	}
	deciding := func(f ir.Fact) bool {
		if r.expiryFactWith(f, nowParam, 0) == expiredEdge {
			return true
		}
		if isDeleteMethod {
			if _, present, ok := r.lookupOutcome(f); ok && present {
				return true
			}
			if r.presenceWitness(f, true, 0, nil) {
				return true
			}
		}
		return false
	}
	q := ir.Query{Fn: fn,
		BlockEdge: func(from, to *ssa.BasicBlock) bool {
			ef := ir.EdgeFact(from, to)
			return ef != nil && deciding(*ef)
		},
		BlockFact: deciding,
		Target:    func(x ssa.Instruction) bool { return x == at }}
	if w, err := q.Find(); err == nil && w == nil {
		return true, ""
	}
	// per path (a flag "expired" assigned in the branches and tested in front of the delete)
	pw, perr := (ir.PathQuery{Fn: fn,
		StopEdge: func(from, to *ssa.BasicBlock) bool {
			ef := ir.EdgeFact(from, to)
			return ef != nil && deciding(*ef)
		},
		Target: func(x ssa.Instruction, _ *ir.Valuation) bool { return x == at }}).Find()
	if perr == nil && pw == nil {
		return true, ""
	}
	sites, ok := r.staticSites(fn)
	if !ok || depth >= 2 {
		if isDeleteMethod {
			return false, "on a path on which the key was not found"
		}
		return false, "on a path that does not pass the expired edge of an expiry decision"
	}
	for _, call := range sites {
		if okS, why := r.deleteDecided(call.Parent(), call, depth+1); !okS {
			return false, "through " + fn.Name() + "() " + why
		}
	}
	return true, ""
}

// ---------------------------------------------------------------------------
// fresh clock (C07.W11 / C06.R10)

// inmemFreshClock: the moment an expiry decision compares the record's expiration with is a clock reading the goroutine
// took after it last parked. A waiter sleeps across the very event it is waiting for; when it is woken by the expiry
// timer (or by anything else) and decides "expired?" against a moment it read BEFORE it went to sleep, the record still
// looks alive: the waiter registers again, its timer fires at once, and it spins without ever reporting ErrNotExist and
// without purging the record. Structurally: for every expiry decision (a time comparison of a record's ExpiresAt, a call
// of an expiry predicate or of a helper that hands its time parameter to one) the moment operand must stem from clock
// reads (time.Now(), or any call that yields a time.Time without being given one), and no path from a park (blocking
// select, channel receive or send, time.Sleep) to the decision avoids the clock read. Moments handed down through
// parameters of private helpers are followed to the call sites. A moment that is no clock reading of the function at all
// (a field, a global) is a stored moment and is reported.
//
// from: when non-nil only the decisions in functions reachable from it through static calls are obligations (C07: the waiter).
func (c *Ctx) inmemFreshClock(r *inmemRoles, rule string, from *ssa.Function) {
	fc := &freshClockZB{r: r, params: map[*ssa.Function]map[int]bool{}, busy: map[*ssa.Function]bool{}}
	scope := map[*ssa.Function]bool{}
	if from != nil {
		var walk func(fn *ssa.Function, d int)
		walk = func(fn *ssa.Function, d int) {
			if fn == nil || scope[fn] || d > 4 || len(fn.Blocks) == 0 {
				return
			}
			scope[fn] = true
			for _, a := range fn.AnonFuncs {
				walk(a, d+1)
			}
			ir.Instrs(fn, func(in ssa.Instruction) {
				if ci, ok := in.(ssa.CallInstruction); ok {
					if cal := ir.StaticCallee(ci); cal != nil && cal.Pkg != nil && strings.HasPrefix(cal.Pkg.Pkg.Path(), ir.Module) {
						walk(cal, d+1)
					}
				}
			})
		}
		walk(from, 0)
	}
	n := 0
	for _, fn := range r.svcFns {
		if from != nil && !scope[fn] {
			continue
		}
		for _, u := range fc.uses(fn) {
			if paramIndex(fn, u.t) >= 0 {
				if _, ok := r.staticSites(fn); ok {
					continue // decided at the call sites of the helper
				}
			}
			n++
			ok, why := fc.fresh(fn, u.at, u.t, 0)
			c.Decide(rule, fn, "expiry decided against a clock reading taken after the last park", u.at, ok,
				"the expiration of a record is compared with "+why+": a waiter that slept across the expiration still sees the record alive, registers again and spins - it never returns ErrNotExist and the expired record is never purged")
		}
	}
	if n == 0 {
		c.R.Errorf("%s found no expiry decision in the in-memory backend (floor 1)", rule)
	}
}

type clockUseZB struct {
	at ssa.Instruction // the decision (a time comparison, or the call that hands the moment on)
	t  ssa.Value       // the moment
}

type freshClockZB struct {
	r      *inmemRoles
	params map[*ssa.Function]map[int]bool // function -> indices of the time parameters that reach an expiry decision
	busy   map[*ssa.Function]bool
}

func isTimeZB(t types.Type) bool { return ir.IsNamed(t, "time", "Time") && !isPointerZB(t) }

func isPointerZB(t types.Type) bool { _, ok := t.Underlying().(*types.Pointer); return ok }

// expiryOperand: v is the expiration of a record - *rec.ExpiresAt, or the target of a *time.Time parameter.
func (fc *freshClockZB) expiryOperand(v ssa.Value) bool {
	u, ok := ir.Resolve(v).(*ssa.UnOp)
	if !ok || u.Op != token.MUL {
		return false
	}
	if ir.LoadedField(u.X) == fc.r.recExpires {
		return true
	}
	if p, isP := ir.Resolve(u.X).(*ssa.Parameter); isP && isPointerZB(p.Type()) && ir.IsNamed(p.Type(), "time", "Time") {
		return true
	}
	return false
}

// uses lists the expiry decisions of fn with their moment operand.
func (fc *freshClockZB) uses(fn *ssa.Function) []clockUseZB {
	var res []clockUseZB
	ir.Instrs(fn, func(in ssa.Instruction) {
		call, ok := in.(*ssa.Call)
		if !ok {
			return
		}
		switch ir.CalleeFullName(call) {
		case "(time.Time).Before", "(time.Time).After", "(time.Time).Compare", "(time.Time).Sub", "(time.Time).Equal":
			if len(call.Call.Args) == 2 {
				a, b := call.Call.Args[0], call.Call.Args[1]
				switch {
				case fc.expiryOperand(a) && !fc.expiryOperand(b):
					res = append(res, clockUseZB{in, b})
				case fc.expiryOperand(b) && !fc.expiryOperand(a):
					res = append(res, clockUseZB{in, a})
				}
			}
			return
		}
		cal := ir.StaticCallee(call)
		if cal == nil || len(cal.Blocks) == 0 || call.Call.IsInvoke() || len(call.Call.Args) != len(cal.Params) {
			return
		}
		for i := range fc.timeParams(cal) {
			res = append(res, clockUseZB{in, call.Call.Args[i]})
		}
	})
	return res
}

// timeParams: the time.Time parameters of fn that are the moment of an expiry decision in fn or further down.
func (fc *freshClockZB) timeParams(fn *ssa.Function) map[int]bool {
	if m, ok := fc.params[fn]; ok {
		return m
	}
	if fc.busy[fn] || fn.Pkg == nil || !strings.HasPrefix(fn.Pkg.Pkg.Path(), ir.Module) {
		return nil
	}
	hasTime := false
	for _, p := range fn.Params {
		if isTimeZB(p.Type()) {
			hasTime = true
		}
	}
	if !hasTime {
		fc.params[fn] = nil
		return nil
	}
	fc.busy[fn] = true
	m := map[int]bool{}
	for _, u := range fc.uses(fn) {
		var visit func(v ssa.Value, d int)
		visit = func(v ssa.Value, d int) {
			if d > 6 {
				return
			}
			v = ir.Resolve(v)
			if i := paramIndex(fn, v); i >= 0 {
				m[i] = true
				return
			}
			switch x := v.(type) {
			case *ssa.Phi:
				for _, e := range x.Edges {
					visit(e, d+1)
				}
			case *ssa.Call:
				for _, a := range x.Call.Args {
					if isTimeZB(a.Type()) {
						visit(a, d+1)
					}
				}
			}
		}
		visit(u.t, 0)
	}
	delete(fc.busy, fn)
	fc.params[fn] = m
	return m
}

// clockMoment: v is a reading of the clock that reached this place through a parameter: a time.Time parameter of a
// private helper of the backend to which every call site passes time.Now() (or such a parameter of its own, or a phi of
// those). Nothing but provenance is decided here.
func (r *inmemRoles) clockMoment(v ssa.Value, depth int) bool {
	if depth > 3 || v == nil || !isTimeZB(v.Type()) {
		return false
	}
	switch x := ir.Resolve(v).(type) {
	case *ssa.Call:
		return depth > 0 && ir.CalleeFullName(x) == "time.Now"
	case *ssa.Phi:
		for _, e := range x.Edges {
			if e != ssa.Value(x) && !r.clockMoment(e, depth+1) {
				return false
			}
		}
		return depth > 0 && len(x.Edges) > 0
	case *ssa.Parameter:
		fn := x.Parent()
		idx := paramIndex(fn, x)
		sites, ok := r.staticSites(fn)
		if idx < 0 || !ok {
			return false
		}
		for _, call := range sites {
			if idx >= len(call.Call.Args) || !r.clockMoment(call.Call.Args[idx], depth+1) {
				return false
			}
		}
		return true
	}
	return false
}

// notAClockZB: a call into package time that builds a moment from data (time.Unix, time.Date, time.Parse ...) is no
// reading of the clock.
func notAClockZB(call *ssa.Call) bool {
	n := ir.CalleeFullName(call)
	return strings.HasPrefix(n, "time.") && n != "time.Now"
}

func isParkZB(in ssa.Instruction) bool {
	switch x := in.(type) {
	case *ssa.Select:
		return x.Blocking
	case *ssa.Send:
		return true
	case *ssa.UnOp:
		return x.Op == token.ARROW
	case *ssa.Call:
		switch ir.CalleeFullName(x) {
		case "time.Sleep", "(*sync.WaitGroup).Wait", "(*sync.Cond).Wait":
			return true
		}
	}
	return false
}

// fresh: the moment t used at instruction at of fn is a clock reading no park lies behind.
func (fc *freshClockZB) fresh(fn *ssa.Function, at ssa.Instruction, t ssa.Value, depth int) (bool, string) {
	if depth > 3 {
		return false, "a moment whose origin could not be followed"
	}
	var clocks []ssa.Instruction
	bad := ""
	var lifted []int
	seenPhi := map[*ssa.Phi]bool{}
	var visit func(v ssa.Value, d int)
	visit = func(v ssa.Value, d int) {
		if d > 12 {
			bad = "a moment whose origin could not be followed"
			return
		}
		v = ir.Resolve(v)
		if p, isPhi := v.(*ssa.Phi); isPhi {
			if seenPhi[p] {
				return
			}
			seenPhi[p] = true
		}
		switch x := v.(type) {
		case *ssa.Call:
			hasTimeArg := false
			if ir.CalleeFullName(x) != "time.Now" {
				for _, a := range x.Call.Args {
					if isTimeZB(a.Type()) {
						hasTimeArg = true
						visit(a, d+1)
					}
				}
				if x.Call.IsInvoke() && isTimeZB(x.Call.Value.Type()) {
					hasTimeArg = true
					visit(x.Call.Value, d+1)
				}
			}
			if !hasTimeArg {
				if notAClockZB(x) {
					bad = "a constructed moment (not a clock reading)"
					return
				}
				clocks = append(clocks, x)
			}
		case *ssa.Phi:
			for _, e := range x.Edges {
				visit(e, d+1)
			}
		case *ssa.Parameter:
			if i := paramIndex(fn, x); i >= 0 {
				lifted = append(lifted, i)
			} else {
				bad = "a moment that is not a clock reading of this operation"
			}
		default:
			bad = "a stored moment (not a clock reading of this operation)"
		}
	}
	visit(t, 0)
	if bad != "" {
		return false, bad
	}
	// the clock reads of this function are alternatives of one moment (merged by a phi): a park is harmless when every
	// way from it to the decision passes one of them. A reading captured from an enclosing function is judged there.
	var own []ssa.Instruction
	for _, cl := range clocks {
		if cl.Parent() == fn {
			own = append(own, cl)
		}
	}
	type probe struct {
		in     *ssa.Function
		reads  []ssa.Instruction
		target ssa.Instruction
	}
	var probes []probe
	if len(own) > 0 {
		probes = append(probes, probe{fn, own, at})
	}
	for _, cl := range clocks {
		if cl.Parent() == fn {
			continue
		}
		// the clock was read by the enclosing function and captured: the literal is the use
		var target ssa.Instruction
		for f := fn; f != nil && target == nil; f = f.Parent() {
			if f.Parent() == cl.Parent() {
				ir.Instrs(cl.Parent(), func(x ssa.Instruction) {
					if mc, ok := x.(*ssa.MakeClosure); ok && mc.Fn == ssa.Value(f) {
						target = mc
					}
				})
			}
		}
		if target == nil {
			return false, "a moment read in another function"
		}
		probes = append(probes, probe{cl.Parent(), []ssa.Instruction{cl}, target})
	}
	for _, pr := range probes {
		stale := false
		ir.Instrs(pr.in, func(p ssa.Instruction) {
			if stale || !isParkZB(p) {
				return
			}
			w, err := (ir.Query{Fn: pr.in, From: p, Block: func(x ssa.Instruction) bool { return containsInstr(pr.reads, x) },
				Target: func(x ssa.Instruction) bool { return x == pr.target }}).Find()
			if err != nil || w != nil {
				stale = true
			}
		})
		if stale {
			return false, "a clock reading taken before the goroutine parked (the clock is not read again between the wake-up and the decision)"
		}
	}
	for _, i := range lifted {
		sites, ok := fc.r.staticSites(fn)
		if !ok {
			return false, "a moment handed in from outside the backend"
		}
		for _, call := range sites {
			if i >= len(call.Call.Args) {
				return false, "a moment whose origin could not be followed"
			}
			if okS, why := fc.fresh(call.Parent(), call, call.Call.Args[i], depth+1); !okS {
				return false, why
			}
		}
	}
	return true, ""
}
