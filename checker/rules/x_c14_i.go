package rules

// C14.R13 - a neighbour slot of an index is only touched under a range test on that index.
//
// The read and the write index wrap eagerly: after every call each of them is a valid slot, and EVERY slot
// 0..len(buf)-1 is a legal value of each index in every fill state (empty, partly filled, full) - that is what "every
// wrap-around position of the indices" in the property means. An element access buf[index - k] (k > 0) therefore
// leaves the array from below in the legal states index < k, and buf[index + k] leaves it from above in the states
// index >= len(buf) - k: the call panics with "index out of range" instead of behaving like the queue ("Write fails
// with ErrExhausted exactly when Len equals Cap" - a full buffer whose write index has just wrapped to 0 panics in
// `buf[w-1]`; a capacity-0 buffer is always in that state). Fill-state tests (Len() == Cap(), Len() == 0) say nothing
// about where the indices stand, so they do not make such an access safe.
//
// Clause, for every element access (IndexAddr on the backing array) in the methods of the ring and the private helpers
// they run, whose index is - through conversions - `load(index field) - k` or `load(index field) + k` with a non-zero
// constant k (a negative k is the other direction): the access is dominated by a branch fact that compares a by-value
// read of the SAME index field
//   - downwards (effective k > 0 subtracted): index >= k, index > k-1, or for k == 1 index != 0 / index > 0;
//   - upwards: any comparison of the index (or index + constant) with len(buf) or an expression of it.
// A dominating comparison that reads the same index field but has another form gives no verdict (undecided), no
// comparison on that index at all is a violation.
//
// Not in scope (silent): an index that is folded afterwards (`(w-1+len(buf)) % len(buf)`, a phi that replaces -1 by
// len(buf)-1, At's `r+idx-d`) - the index of the access is then not the bare neighbour expression, and R5/R9 deal with
// folds. Over-approximation: a neighbour access that is safe for a reason other than a dominating range test on the
// index (e.g. a test made in the caller of a private helper) is reported.

import (
	"fmt"
	"go/token"
	"go/types"

	"golang.org/x/tools/go/ssa"

	"verif/checker/ir"
)

// c14neighbour decodes idx as load(index field) -/+ constant: the field, the load and the signed offset (negative:
// below the index).
func (k *c14) c14neighbour(idx ssa.Value) (f *types.Var, ld ssa.Value, off int64, ok bool) {
	bo, isBO := c14strip(idx).(*ssa.BinOp)
	if !isBO || (bo.Op != token.ADD && bo.Op != token.SUB) {
		return nil, nil, 0, false
	}
	x, y := c14strip(bo.X), c14strip(bo.Y)
	if kk, isC := ir.ConstInt(y); isC {
		if f = k.idxFieldOf(x); f != nil && kk != 0 {
			if bo.Op == token.SUB {
				kk = -kk
			}
			return f, x, kk, true
		}
	}
	if kk, isC := ir.ConstInt(x); isC && bo.Op == token.ADD {
		if f = k.idxFieldOf(y); f != nil && kk != 0 {
			return f, y, kk, true
		}
	}
	return nil, nil, 0, false
}

// c14mentions: v is made (through arithmetic and conversions, not phis) of a by-value read of index field f.
func (k *c14) c14mentions(v ssa.Value, f *types.Var, depth int) bool {
	v = c14strip(v)
	if v == nil || depth > 4 {
		return false
	}
	if _, ok := loadOfField(v, f); ok {
		return true
	}
	if bo, ok := v.(*ssa.BinOp); ok {
		return k.c14mentions(bo.X, f, depth+1) || k.c14mentions(bo.Y, f, depth+1)
	}
	return false
}

func (k *c14) c14mentionsLenBuf(v ssa.Value, depth int) bool {
	v = c14strip(v)
	if v == nil || depth > 4 {
		return false
	}
	if k.isLenBuf(v) {
		return true
	}
	if bo, ok := v.(*ssa.BinOp); ok {
		return k.c14mentionsLenBuf(bo.X, depth+1) || k.c14mentionsLenBuf(bo.Y, depth+1)
	}
	return false
}

// neighbourSlotsGuarded is C14.R13.
func (k *c14) neighbourSlotsGuarded(scope []*ssa.Function, anchor *ssa.Function) {
	c := k.Ctx
	const construct = "neighbour slot of an index accessed under a range test on the index"
	n := 0
	for _, fn := range scope {
		ir.Instrs(fn, func(in ssa.Instruction) {
			ia, ok := in.(*ssa.IndexAddr)
			if !ok || !k.bufDerived(ia.X) {
				return
			}
			f, _, off, ok := k.c14neighbour(ia.Index)
			if !ok {
				return
			}
			n++
			proved, tested := false, false
			for _, fact := range ir.Facts(ia.Block()) {
				cm, isCmp := fact.Cmp()
				if !isCmp {
					continue
				}
				op, a, b := cm.Op, cm.X, cm.Y
				if !k.c14mentions(a, f, 0) && k.c14mentions(b, f, 0) {
					a, b = b, a
					op = ir.SwapOp(op)
				}
				if !k.c14mentions(a, f, 0) {
					continue
				}
				tested = true
				if off < 0 {
					// index - m with m = -off: needs index >= m
					m := -off
					if _, bare := loadOfField(c14strip(a), f); !bare {
						continue
					}
					kk, isC := ir.ConstInt(c14strip(b))
					if !isC {
						continue
					}
					switch {
					case op == token.GEQ && kk >= m, op == token.GTR && kk >= m-1, op == token.NEQ && kk == 0 && m == 1:
						proved = true
					}
				} else if k.c14mentionsLenBuf(b, 0) && (op == token.LSS || op == token.LEQ || op == token.NEQ) {
					// index + m tested against the end of the array (the exact bound is the business of the fold rules)
					proved = true
				}
			}
			dir := "below"
			if off > 0 {
				dir = "behind"
			}
			detail := fmt.Sprintf("%s accesses the slot %d %s the %s index without a test on that index: every slot is a legal position of the index (it wraps eagerly), so at the edge of the array the access is out of range and the call panics instead of behaving like the queue", fn.Name(), abs64(off), dir, f.Name())
			switch {
			case proved:
				c.Decide("C14.R13", fn, construct, in, true, "")
			case tested:
				c.Undecided("C14.R13", fn, construct, in, "the neighbour-slot access is dominated by a test on the index whose form this rule does not follow")
			default:
				c.Decide("C14.R13", fn, construct, in, false, detail)
			}
		})
	}
	if n == 0 {
		c.Decide("C14.R13", anchor, construct, nil, true, "")
	}
}

func abs64(v int64) int64 {
	if v < 0 {
		return -v
	}
	return v
}
