package rules

import (
	"go/token"
	"go/types"
	"strings"

	"golang.org/x/tools/go/ssa"

	"verif/checker/ir"
)

// ---------------------------------------------------------------------------
// Benign round v: the Locker's timer slot kept in a typed atomic.Pointer[timeout.Future] (one fresh box per armed timer)
// instead of an atomic.Value. The slot is the same word: Load / Store / Swap / CompareAndSwap are the methods of either
// type; what is stored is the address of a box that holds the timer, and the timer read from the slot is one more
// dereference away.

// slotMethodVV: call is a method of sync/atomic.Value or sync/atomic.Pointer[T]; returns its name ("" otherwise).
func slotMethodVV(call *ssa.Call) string {
	name := ir.CalleeFullName(call)
	if !strings.HasPrefix(name, "(*sync/atomic.Value).") && !strings.HasPrefix(name, "(*sync/atomic.Pointer[") {
		return ""
	}
	i := strings.LastIndex(name, ").")
	if i < 0 {
		return ""
	}
	switch m := name[i+2:]; m {
	case "Load", "Store", "Swap", "CompareAndSwap":
		return m
	}
	return ""
}

// isSlotTypeVV: t is sync/atomic.Value or an instance of sync/atomic.Pointer.
func isSlotTypeVV(t types.Type) bool {
	return ir.IsNamed(t, "sync/atomic", "Value") || strings.HasPrefix(types.TypeString(t, nil), "sync/atomic.Pointer[")
}

// storedTimersVV: the values a slot argument stands for - the argument itself, or, when it is the address of a box
// (`f := timeout.Call(...); slot.Store(&f)`), what is stored into the box.
func storedTimersVV(arg ssa.Value) []ssa.Value {
	var res []ssa.Value
	for _, o := range ir.Origins(arg) {
		if box, ok := o.(*ssa.Alloc); ok {
			for _, st := range ir.StoresTo(box) {
				res = append(res, ir.Origins(st.Val)...)
			}
			continue
		}
		res = append(res, o)
	}
	return res
}

// timeoutCallOfVV: arg (what is handed to the slot) is the result of one timeout.Call, directly or boxed.
func timeoutCallOfVV(arg ssa.Value) *ssa.Call {
	var res *ssa.Call
	for _, o := range storedTimersVV(arg) {
		tc, ok := o.(*ssa.Call)
		if !ok || timeoutCallZA(tc) == nil || (res != nil && res != tc) {
			return nil
		}
		res = tc
	}
	return res
}

// derefOfSlotLoadVV: v is `*slot.Load()` - the timer in the box the typed slot points to.
func (r *lockRoles) derefOfSlotLoadVV(v ssa.Value) bool {
	u, ok := v.(*ssa.UnOp)
	return ok && u.Op == token.MUL && r.slotLoadVL(ir.Resolve(u.X))
}
