package rules

import (
	"fmt"
	"go/token"
	"go/types"
	"sort"
	"strings"

	"golang.org/x/tools/go/ssa"

	"verif/checker/ir"
)

// ===========================================================================
// C20.R13: every regular entry that passes the containment test is created and gets its content
//
// What it decides. In every function of the package that holds archive entries (values of type *zip.File it obtains -
// from an iterator, from the entry list - or is handed as a parameter) and creates files named by entry names (os.Create,
// os.OpenFile with write flags, os.WriteFile; also through repository functions, see below), two must-pass-through
// statements, asked per path with the branch conditions the path decided:
//
//   create  no path leads from the point an entry is obtained (from the function entry, when the entry is a parameter)
//           to the point the next entry is obtained, or to a return that is not a failure, without passing a creating
//           call whose file name derives from an entry name;
//   copy    the same for a call that moves the entry's content into the created file: io.Copy / CopyBuffer / CopyN from
//           a reader derived from (*zip.File).Open into a writer derived from the created file, ReadFrom / WriteTo
//           between the two, a Write on the created file, os.WriteFile of what io.ReadAll read from the reader;
//
// except on paths that know one of the reasons the property has for leaving an entry out: a test of the entry's kind
// said it is no regular file (IsDir of its FileInfo or mode, !IsRegular, mode & type-bits != 0, the name ends with a
// slash), the containment test is known to have failed on the name (such an entry must not be written), or there is no
// entry (the value is known nil). A call of a repository function counts as "creates" / "copies" when every path of
// THAT function from its entry to a return that is not a failure passes one, with the caller's names, readers and files
// mapped onto its parameters (the same question, asked of the callee; depth 2).
//
// Why it is necessary. "ZipFolder followed by UnzipToFolder reproduces every regular file - relative path and content":
// a regular entry the extraction passes by without create(-truncate) and copy is a file that is missing afterwards, or -
// when something of that name was already there - a file that keeps its old content while UnzipToFolder reports success.
// "It looks up to date", "it exists already", "it is empty" are not among the reasons the property knows.
//
// Not decided: that the copy is complete (an io.CopyN with a wrong limit), that the created file is the one the content
// goes to when several are open. Over-approximations: an extraction that deliberately leaves entries out for other
// reasons (empty names, a caller-supplied filter) is flagged; a field that caches the current entry and is read twice
// counts as two entries.

type writeSum struct {
	create, copy       bool   // every path to a return that is no failure passes one
	mayCreate, mayCopy bool   // some path does
	createGap, copyGap string // otherwise: a path that does not
}

// writeCtx: the value classes of one function.
type writeCtx struct {
	fn      *ssa.Function
	names   map[ssa.Value]bool // derived from entry names
	readers map[ssa.Value]bool // derived from the content reader of an entry
	handles map[ssa.Value]bool // derived from a file created under an entry name
	data    map[ssa.Value]bool // bytes read from a reader
	creates map[ssa.Instruction]bool
	copies  map[ssa.Instruction]bool
	// calls of repository functions that create / copy on some of their paths only, with the path that does not
	createGaps map[ssa.Instruction]string
	copyGaps   map[ssa.Instruction]string
	// licences
	kinds  []kindTest
	ev     contEvidence
	ctors  []ctorCall
	absent []ssa.Value // entry values (to ask "known nil")
	// parameters that are a constant in every execution under the property's entry point (v_zip_u.go)
	bound map[*ssa.Parameter]*ssa.Const
}

// flowSet closes seeds under the value-preserving instructions (phi, interface and type conversions, extraction of the
// first element of a marked tuple, locals, wrapper structs that hold the value in a field) and under the calls callMarks
// accepts.
func flowSet(fn *ssa.Function, seeds map[ssa.Value]bool, callMarks func(c *ssa.Call, set map[ssa.Value]bool) bool) map[ssa.Value]bool {
	set := map[ssa.Value]bool{}
	for k := range seeds {
		set[k] = true
	}
	for changed := true; changed; {
		changed = false
		mark := func(v ssa.Value) {
			if !set[v] {
				set[v] = true
				changed = true
			}
		}
		ir.Instrs(fn, func(in ssa.Instruction) {
			switch x := in.(type) {
			case *ssa.Phi:
				for _, e := range x.Edges {
					if set[e] {
						mark(x)
					}
				}
			case *ssa.Extract:
				if set[x.Tuple] && x.Index == 0 {
					mark(x)
				}
			case *ssa.MakeInterface:
				if set[x.X] {
					mark(x)
				}
			case *ssa.ChangeInterface:
				if set[x.X] {
					mark(x)
				}
			case *ssa.ChangeType:
				if set[x.X] {
					mark(x)
				}
			case *ssa.TypeAssert:
				if set[x.X] {
					mark(x)
				}
			case *ssa.Store:
				if !set[x.Val] {
					return
				}
				// a local, or a wrapper: a struct (composite literal) one of whose fields - possibly of a nested struct
				// or array - is given the value, e.g. struct{ io.Writer }{w} to hide the other methods of w. The struct
				// cell stands for the value it wraps, whether it is used by value (load) or by address (&T{w}).
				addr := x.Addr
				for i := 0; i < 4; i++ {
					switch y := addr.(type) {
					case *ssa.FieldAddr:
						addr = y.X
						continue
					case *ssa.IndexAddr:
						addr = y.X
						continue
					}
					break
				}
				if a, ok := addr.(*ssa.Alloc); ok {
					mark(a)
				}
			case *ssa.UnOp:
				if x.Op == token.MUL {
					if a, ok := x.X.(*ssa.Alloc); ok && set[a] {
						mark(x)
					}
				}
			case *ssa.Field:
				// the wrapped value taken out of a wrapper again (embedded interface field)
				if set[x.X] && types.IsInterface(x.Type()) {
					mark(x)
				}
			case *ssa.Call:
				if callMarks(x, set) {
					mark(x)
				}
			}
		})
	}
	return set
}

// firstResult: the type of the (first) result of a call.
func firstResult(c *ssa.Call) types.Type {
	if tp, ok := c.Type().(*types.Tuple); ok {
		if tp.Len() == 0 {
			return nil
		}
		return tp.At(0).Type()
	}
	return c.Type()
}

func anyArgIn(c ssa.CallInstruction, set map[ssa.Value]bool) bool {
	cc := c.Common()
	if cc.IsInvoke() && set[cc.Value] {
		return true
	}
	for _, a := range cc.Args {
		if set[a] {
			return true
		}
	}
	return false
}

func (h *zipHard) inPkgCallee(call ssa.CallInstruction, self *ssa.Function) *ssa.Function {
	cal := ir.StaticCallee(call)
	if cal == nil || !h.env.inPkg[cal] || len(cal.Blocks) == 0 || cal == self {
		return nil
	}
	return cal
}

// fileCreate: call creates (or opens for writing) the file named by its first argument.
func (h *zipHard) fileCreate(call ssa.CallInstruction) bool {
	switch ir.CalleeFullName(call) {
	case "os.Create", "os.WriteFile", "io/ioutil.WriteFile":
		return true
	case "os.OpenFile":
		return !h.readOnlyOpen(call)
	}
	return false
}

// buildWrite classifies the values of fn. seedNames / seedReaders / seedHandles are parameters of fn that carry such
// values from a caller.
func (h *zipHard) buildWrite(fn *ssa.Function, seedNames, seedReaders, seedHandles map[ssa.Value]bool, depth int) *writeCtx {
	w := &writeCtx{fn: fn, creates: map[ssa.Instruction]bool{}, copies: map[ssa.Instruction]bool{},
		createGaps: map[ssa.Instruction]string{}, copyGaps: map[ssa.Instruction]string{}}
	src := h.sourcesOf(fn)
	for k := range seedNames {
		src[k] = true
	}
	w.names = h.env.derives(fn, src)
	w.readers = flowSet(fn, seedReaders, func(c *ssa.Call, set map[ssa.Value]bool) bool {
		switch ir.CalleeFullName(c) {
		case "(*archive/zip.File).Open", "(*archive/zip.File).OpenRaw":
			return true
		}
		if !hasMethodNamed(firstResult(c), "Read") {
			return false
		}
		if anyArgIn(c, set) {
			return true // a wrapper: bufio.NewReader(r), io.LimitReader(r, n)
		}
		if h.inPkgCallee(c, nil) != nil {
			for _, a := range c.Call.Args {
				if isZipFilePtr(a.Type()) {
					return true // a repository function that opens the entry
				}
			}
		}
		return false
	})
	w.handles = flowSet(fn, seedHandles, func(c *ssa.Call, set map[ssa.Value]bool) bool {
		if h.fileCreate(c) && len(c.Call.Args) > 0 && w.names[c.Call.Args[0]] {
			return true
		}
		if !hasMethodNamed(firstResult(c), "Write") {
			return false
		}
		if anyArgIn(c, set) {
			return true // bufio.NewWriter(f)
		}
		if h.inPkgCallee(c, nil) != nil && anyArgIn(c, w.names) {
			return true // a repository function that creates the file and hands it out
		}
		return false
	})
	w.data = flowSet(fn, nil, func(c *ssa.Call, set map[ssa.Value]bool) bool {
		switch ir.CalleeFullName(c) {
		case "io.ReadAll", "io/ioutil.ReadAll":
			return len(c.Call.Args) == 1 && w.readers[c.Call.Args[0]]
		}
		return false
	})
	for _, call := range ir.Calls(fn) {
		cc, ok := call.(*ssa.Call)
		if !ok {
			continue
		}
		args := cc.Call.Args
		name := ir.CalleeFullName(cc)
		if h.fileCreate(cc) && len(args) > 0 && w.names[args[0]] {
			w.creates[cc] = true
			if (name == "os.WriteFile" || name == "io/ioutil.WriteFile") && len(args) > 1 && w.data[args[1]] {
				w.copies[cc] = true
			}
			continue
		}
		switch name {
		case "io.Copy", "io.CopyBuffer", "io.CopyN":
			if len(args) >= 2 && w.handles[args[0]] && w.readers[args[1]] {
				w.copies[cc] = true
			}
			continue
		}
		if m, recv, margs := calleeMethod(cc); m != "" && recv != nil {
			switch m {
			case "ReadFrom":
				if w.handles[recv] && len(margs) == 1 && w.readers[margs[0]] {
					w.copies[cc] = true
				}
			case "WriteTo":
				if w.readers[recv] && len(margs) == 1 && w.handles[margs[0]] {
					w.copies[cc] = true
				}
			case "Write", "WriteString":
				if w.handles[recv] {
					w.copies[cc] = true
				}
			}
		}
		if cal := h.inPkgCallee(cc, fn); cal != nil && depth < 2 && len(args) == len(cal.Params) {
			if sum := h.writeSummary(cal, cc, w, depth+1); sum != nil {
				switch {
				case sum.create:
					w.creates[cc] = true
				case sum.mayCreate:
					w.createGaps[cc] = sum.createGap
				}
				switch {
				case sum.copy:
					w.copies[cc] = true
				case sum.mayCopy:
					w.copyGaps[cc] = sum.copyGap
				}
			}
		}
	}
	// licences
	w.kinds = h.entryKindTests(fn, w.names)
	w.ev = h.c.containmentEvidence(fn, w.names, h.env.isContainment)
	w.ctors = h.env.ctorCalls(fn, 0)
	ir.Instrs(fn, func(in ssa.Instruction) {
		if v, ok := in.(ssa.Value); ok && isZipFilePtr(v.Type()) {
			w.absent = append(w.absent, v)
		}
	})
	for _, p := range fn.Params {
		if isZipFilePtr(p.Type()) {
			w.absent = append(w.absent, p)
		}
	}
	return w
}

// writeSummary: what a call of cal does for the entry at hand, with the caller's value classes mapped onto the
// parameters of cal.
func (h *zipHard) writeSummary(cal *ssa.Function, call *ssa.Call, w *writeCtx, depth int) *writeSum {
	sn, sr, sh := map[ssa.Value]bool{}, map[ssa.Value]bool{}, map[ssa.Value]bool{}
	var tags []string
	for i, p := range cal.Params {
		a := call.Call.Args[i]
		switch {
		case w.names[a] && isStringType(p.Type()):
			sn[p] = true
			tags = append(tags, fmt.Sprintf("n%d", i))
		case w.readers[a]:
			sr[p] = true
			tags = append(tags, fmt.Sprintf("r%d", i))
		case w.handles[a]:
			sh[p] = true
			tags = append(tags, fmt.Sprintf("h%d", i))
		}
	}
	cb, ctag := constArgs(cal, call)
	key := ir.FnName(cal) + "(" + strings.Join(tags, ",") + ")" + ctag
	if s, ok := h.writeSums[key]; ok {
		return s // nil while it is being computed (recursion): nothing established
	}
	h.writeSums[key] = nil
	cw := h.buildWrite(cal, sn, sr, sh, depth)
	cw.bound = cb
	sum := &writeSum{}
	gap := func(must map[ssa.Instruction]bool, gaps map[ssa.Instruction]string) (all, some bool, where string) {
		if len(must) == 0 {
			for _, g := range gaps {
				return false, true, g
			}
			return false, false, ""
		}
		wit, err := h.skipPath(cw, nil, must, nil)
		switch {
		case err != nil:
			return false, true, ir.FnName(cal) + ": " + err.Error()
		case wit != nil:
			return false, true, ir.FnName(cal) + ": path " + wit.String(h.c.P)
		}
		return true, true, ""
	}
	sum.create, sum.mayCreate, sum.createGap = gap(cw.creates, cw.createGaps)
	sum.copy, sum.mayCopy, sum.copyGap = gap(cw.copies, cw.copyGaps)
	h.writeSums[key] = sum
	return sum
}

// entryKindTests: the booleans of fn that look at the kind of an archive entry, with the truth value that says "no
// regular file".
func (h *zipHard) entryKindTests(fn *ssa.Function, names map[ssa.Value]bool) []kindTest {
	modeType := h.kinds.fsConst("ModeType", 0x8f280000)
	// info: v is the FileInfo of an entry; mode: v is (the mode of an entry) & mask
	info := func(v ssa.Value) bool {
		c, ok := peelLocal(v).(*ssa.Call)
		return ok && ir.CalleeFullName(c) == "(*archive/zip.FileHeader).FileInfo"
	}
	var mode func(v ssa.Value, depth int) (uint64, bool)
	mode = func(v ssa.Value, depth int) (uint64, bool) {
		if depth > 6 {
			return 0, false
		}
		switch x := peelLocal(v).(type) {
		case *ssa.Convert:
			return mode(x.X, depth+1)
		case *ssa.Call:
			if x.Call.IsInvoke() {
				if !info(x.Call.Value) {
					return 0, false
				}
				switch x.Call.Method.Name() {
				case "Mode":
					return 0xFFFFFFFF, true
				}
				return 0, false
			}
			switch ir.CalleeFullName(x) {
			case "(*archive/zip.FileHeader).Mode":
				return 0xFFFFFFFF, true
			case "(io/fs.FileMode).Type":
				m, ok := mode(x.Call.Args[0], depth+1)
				return m & modeType, ok
			case "(io/fs.FileMode).Perm":
				m, ok := mode(x.Call.Args[0], depth+1)
				return m & 0777, ok
			}
		case *ssa.BinOp:
			if x.Op != token.AND {
				return 0, false
			}
			for _, pr := range [][2]ssa.Value{{x.X, x.Y}, {x.Y, x.X}} {
				k, isConst := ir.ConstInt(pr[1])
				if !isConst {
					continue
				}
				m, ok := mode(pr[0], depth+1)
				if !ok {
					return 0, false
				}
				return m & uint64(uint32(k)), true
			}
		}
		return 0, false
	}
	var res []kindTest
	ir.Instrs(fn, func(in ssa.Instruction) {
		switch x := in.(type) {
		case *ssa.Call:
			if x.Call.IsInvoke() {
				if x.Call.Method.Name() == "IsDir" && info(x.Call.Value) {
					res = append(res, kindTest{x, true})
				}
				return
			}
			switch ir.CalleeFullName(x) {
			case "(io/fs.FileMode).IsDir":
				if _, ok := mode(x.Call.Args[0], 0); ok {
					res = append(res, kindTest{x, true})
				}
			case "(io/fs.FileMode).IsRegular":
				if m, ok := mode(x.Call.Args[0], 0); ok && m&modeType == modeType {
					res = append(res, kindTest{x, false})
				}
			case "strings.HasSuffix":
				// directory entries of an archive are the names that end with a slash
				if len(x.Call.Args) == 2 && names[x.Call.Args[0]] && isStringConst(x.Call.Args[1], "/") {
					res = append(res, kindTest{x, true})
				}
			}
		case *ssa.BinOp:
			if x.Op != token.EQL && x.Op != token.NEQ {
				return
			}
			for _, pr := range [][2]ssa.Value{{x.X, x.Y}, {x.Y, x.X}} {
				if k, isConst := ir.ConstInt(pr[1]); !isConst || k != 0 {
					continue
				}
				if m, ok := mode(pr[0], 0); ok && m != 0 && m&^modeType == 0 {
					res = append(res, kindTest{x, x.Op == token.NEQ})
				}
			}
		}
	})
	return res
}

// licensed: the path knows a reason the property has for not writing the entry.
func (w *writeCtx) licensed(val *ir.Valuation) bool {
	for _, kt := range w.kinds {
		if k, ok := val.Known(kt.cond); ok && k == kt.nonRegular {
			return true
		}
	}
	for _, e := range w.absent {
		if isNil, ok := val.KnownIsNil(e); ok && isNil {
			return true
		}
	}
	// the containment test rejected the name
	for _, gc := range w.ev.calls {
		if k, ok := val.Known(gc.call); ok && !k {
			for _, ga := range gc.call.Call.Args {
				if w.names[ga] {
					return true
				}
			}
		}
	}
	for _, rt := range w.ev.inline {
		for _, b := range rt.errNil {
			if k, ok := val.Known(b); ok && k != (b.Op == token.EQL) {
				return true
			}
		}
		for _, b := range rt.dotdot {
			if k, ok := val.Known(b); ok && k != (b.Op == token.NEQ) {
				return true
			}
		}
		for _, p := range rt.prefix {
			if k, ok := val.Known(p); ok && k {
				return true
			}
		}
	}
	for _, cc := range w.ctors {
		if cc.okRes == nil || !w.names[cc.path] {
			continue
		}
		if cc.errForm {
			if isNil, ok := val.KnownIsNil(cc.okRes); ok && !isNil {
				return true
			}
		} else if k, ok := val.Known(cc.okRes); ok && !k {
			return true
		}
	}
	return false
}

// failing: the return reports a failure on this path.
func failingReturn(ret *ssa.Return, val *ir.Valuation) bool {
	fn := ret.Parent()
	idx := ir.ErrResultIndex(fn)
	if idx < 0 || idx >= len(ret.Results) {
		return false
	}
	for _, r := range []ssa.Value{ret.Results[idx], ir.ResultValue(ret, idx)} {
		if r == nil {
			continue
		}
		if ir.ClassifyErr(r, ret.Block()) == ir.ErrNonNil {
			return true
		}
		if isNil, ok := val.KnownIsNil(r); ok && !isNil {
			return true
		}
		if isNil, ok := val.KnownIsNil(val.Selected(r)); ok && !isNil {
			return true
		}
	}
	return false
}

// skipPath searches a path from `from` (nil: the function entry) to the next acquisition or to a return that is no
// failure which passes no instruction of `must` and knows no licence.
func (h *zipHard) skipPath(w *writeCtx, from ssa.Instruction, must map[ssa.Instruction]bool, acquisitions map[ssa.Instruction]bool) (*ir.Witness, error) {
	fn := w.fn
	q := ir.PathQuery{Fn: fn, From: from,
		Stop: func(in ssa.Instruction) bool { return must[in] },
		Target: func(in ssa.Instruction, val *ir.Valuation) bool {
			if must[in] || w.excluded(val) {
				return false
			}
			if acquisitions[in] {
				return !w.licensed(val)
			}
			if ret, ok := in.(*ssa.Return); ok && in.Block() != fn.Recover {
				if failingReturn(ret, val) {
					return false
				}
				return !w.licensed(val)
			}
			return false
		}}
	return q.Find()
}

// acquisitionsOf: the instructions of fn that obtain an archive entry (a value of type *zip.File that is not merely
// passed along), and whether fn is handed entries as parameters.
func acquisitionsOf(fn *ssa.Function) (acq []ssa.Instruction, byParam bool) {
	for _, p := range fn.Params {
		if isZipFilePtr(p.Type()) {
			byParam = true
		}
	}
	ir.Instrs(fn, func(in ssa.Instruction) {
		v, ok := in.(ssa.Value)
		if !ok || !isZipFilePtr(v.Type()) {
			return
		}
		switch x := in.(type) {
		case *ssa.Phi, *ssa.ChangeType, *ssa.MakeInterface:
			return
		case *ssa.UnOp:
			if x.Op != token.MUL {
				return
			}
			switch x.X.(type) {
			case *ssa.Alloc, *ssa.FreeVar:
				return // a local or captured variable: passes an entry along
			}
		}
		acq = append(acq, in)
	})
	return acq, byParam
}

func (h *zipHard) entriesWritten(rule string) {
	c := h.c
	scope, bound := h.extractionScope()
	for _, fn := range h.fns {
		if scope != nil && !scope[fn] {
			continue // the promise is UnzipToFolder's: what it does not reach is not held to it
		}
		acq, byParam := acquisitionsOf(fn)
		if len(acq) == 0 && !byParam {
			continue
		}
		w := h.buildWrite(fn, nil, nil, nil, 0)
		w.bound = bound[fn]
		if len(w.creates) == 0 && len(w.createGaps) == 0 {
			continue
		}
		c.Saw(fn)
		acqSet := map[ssa.Instruction]bool{}
		for _, a := range acq {
			acqSet[a] = true
		}
		starts := append([]ssa.Instruction{}, acq...)
		if byParam {
			starts = append(starts, nil)
		}
		var at ssa.Instruction
		var ats []ssa.Instruction
		for in := range w.creates {
			ats = append(ats, in)
		}
		for in := range w.createGaps {
			ats = append(ats, in)
		}
		sort.Slice(ats, func(i, j int) bool { return ats[i].Pos() < ats[j].Pos() })
		at = ats[0]
		for _, kind := range []struct {
			construct string
			must      map[ssa.Instruction]bool
			gaps      map[ssa.Instruction]string
			what      string
		}{
			{"every regular entry that passes the containment test is created", w.creates, w.createGaps,
				"an entry is passed by without the creating call: a regular file of the archive is missing after the extraction, or a file of that name that was there before keeps its old content while the extraction reports success"},
			{"every regular entry that passes the containment test gets its content copied", w.copies, w.copyGaps,
				"an entry is passed by without a call that moves its content into the created file: the extracted file does not have the archived content"},
		} {
			if len(kind.must) == 0 && len(kind.gaps) > 0 {
				for in, g := range kind.gaps {
					c.Decide(rule, fn, kind.construct, in, false, kind.what+" (the call is made by a repository function that returns without a failure on a path that does not make it: "+g+")")
					break
				}
				continue
			}
			if len(kind.must) == 0 {
				c.Undecided(rule, fn, kind.construct, at, "the function creates files named by archive entries but no call that moves the content of an entry into the created file was recognised")
				continue
			}
			var wit *ir.Witness
			var qerr error
			for _, s := range starts {
				wit, qerr = h.skipPath(w, s, kind.must, acqSet)
				if qerr != nil || wit != nil {
					break
				}
			}
			switch {
			case qerr != nil:
				c.Undecided(rule, fn, kind.construct, at, qerr.Error())
			case wit != nil:
				c.Decide(rule, fn, kind.construct, at, false, kind.what+": path "+wit.String(c.P))
			default:
				c.Decide(rule, fn, kind.construct, at, true, "")
			}
		}
	}
	c.R.Floor(rule, 2)
}
