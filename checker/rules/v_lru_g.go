package rules

import (
	"golang.org/x/tools/go/ssa"

	"verif/checker/ir"
)

// LRU rules added for seeded round "g" (both C09):
//
//   C09.R9  (lruInsertKnowsFlightV): an insert into the recency list under a key either happens in a critical section
//            that consults/updates the in-flight table for that key, or the creator's own insert consumes the result of
//            Add - the creator's created value cannot be dropped silently by somebody else's insert
//   C09.R10 (lruListPointerFreshV): if the recency-list field is ever re-assigned outside the construction of the
//            cache, no operation uses a list pointer it read from the field in an earlier critical section

// flightTouchV decodes an access to one entry of the in-flight table (lookup, registration, removal); it returns the key.
func (r *lruRoles) flightTouchV(in ssa.Instruction) (key ssa.Value, dereg, ok bool) {
	switch x := in.(type) {
	case *ssa.Lookup:
		if _, isIn := loadOfField(x.X, r.inflight); isIn {
			return x.Index, false, true
		}
	case *ssa.MapUpdate:
		if _, isIn := loadOfField(x.Map, r.inflight); isIn {
			return x.Key, false, true
		}
	}
	if cc := builtinCall(in, "delete"); cc != nil && len(cc.Args) == 2 {
		if _, isIn := loadOfField(cc.Args[0], r.inflight); isIn {
			return cc.Args[1], true, true
		}
	}
	return nil, false, false
}

// lruInsertKnowsFlightV (C09.R9). Single flight rests on the invariant "a key whose creation is in flight is not
// resident": the creator inserts its value with Add and - today - ignores Add's result, because nobody else can have
// made the key resident meanwhile: every other GetOrCreate of the key waits, and Remove/Clear only take entries out.
// Any further code that INSERTS under a key (a Put/Store/Replace operation, a wrapper that writes a refreshed version)
// must keep that invariant, or the creator must stop relying on it. Hence, for every insert site of the package (a call
// of Add on the recency list that does not put back an entry a lookup has found):
//
//	(a) the critical section of the insert consults or updates the in-flight table under the same key before the
//	    insert (a lookup "is a creation of k in flight?", the registration, the creator's own deregistration) - in place,
//	    or at every place a private helper/literal that holds the insert is run from; or
//	(b) every insert of a creator (an insert in a section that deregisters the key) consumes the result of Add, i.e.
//	    branches on the error Add reports for a key that is already present (to hand its created value to the delete
//	    callback, or to replace).
//
// If neither holds, an insert for k that runs while a creation of k is in flight makes the creator's Add fail
// silently: the created value is returned to its caller but is never resident and never passed to the delete callback
// ("every value the create function produced is deleted exactly once" fails), and the history has no sequential
// equivalent (Put; GetOrCreate would have been a hit without a creation).
func (c *Ctx) lruInsertKnowsFlightV(r *lruRoles, rule string) {
	lv := r.locks
	const what = "insert under a key knows about a creation of that key in flight"
	type site struct {
		fn  *ssa.Function
		add *ssa.Call
	}
	var inserts []site
	for _, fn := range c.P.FuncsOf("container/lru") {
		fn := fn
		if len(fn.Blocks) == 0 {
			continue
		}
		ir.Instrs(fn, func(in ssa.Instruction) {
			add := r.itemsCall(in, r.mAdd)
			if add == nil || len(add.Call.Args) < 3 {
				return
			}
			if found, _ := r.lookedUpInSectionZ(add.Call.Args[2], add, 0); found {
				return // the hit's move to the most-recent end: the key is resident, nothing is inserted
			}
			inserts = append(inserts, site{fn, add})
		})
	}
	// covered: in the critical section that contains `at`, before `at`, the in-flight table is accessed under `key`
	var covered func(fn *ssa.Function, at ssa.Instruction, key ssa.Value, depth int) (ok, byDereg bool)
	covered = func(fn *ssa.Function, at ssa.Instruction, key ssa.Value, depth int) (bool, bool) {
		ok, byDereg := false, false
		ir.Instrs(fn, func(x ssa.Instruction) {
			k, dereg, isTouch := r.flightTouchV(x)
			if !isTouch || x == at || !sameKeyH(k, key) || !ir.Dominates(x, at) || r.boundaryBetweenZ(fn, x, at) {
				return
			}
			ok = true
			if dereg {
				byDereg = true
			}
		})
		if ok || depth >= 3 {
			return ok, byDereg
		}
		// a private helper / literal that runs inside its caller's critical section
		sites, known := lv.callersOf(fn)
		if !known || r.boundaryBetweenZ(fn, nil, at) {
			return false, false
		}
		all, anyDereg := true, false
		for _, s := range sites {
			k2 := key
			if prm, isP := pureKeyZ(key).(*ssa.Parameter); isP && prm.Parent() == fn {
				if ci, isCI := s.(ssa.CallInstruction); isCI {
					if idx := paramIdxV(prm); idx >= 0 && idx < len(ci.Common().Args) && ir.StaticCallee(ci) == fn {
						k2 = ci.Common().Args[idx]
					}
				}
			}
			o, d := covered(s.Parent(), s, k2, depth+1)
			if !o {
				all = false
			}
			if d {
				anyDereg = true
			}
		}
		return all && len(sites) > 0, anyDereg
	}
	type verdict struct {
		site
		ok, creator bool
	}
	var vs []verdict
	for _, s := range inserts {
		ok, byDereg := covered(s.fn, s.add, s.add.Call.Args[1], 0)
		vs = append(vs, verdict{s, ok, ok && byDereg})
	}
	// (b) every creator insert consumes Add's result
	creators, consumed := 0, true
	for _, v := range vs {
		if !v.creator {
			continue
		}
		creators++
		if !resultBranchedOnV(v.add, 0) {
			consumed = false
		}
	}
	altB := creators > 0 && consumed
	for _, v := range vs {
		c.Decide(rule, v.fn, what, v.add, v.ok || altB,
			"this insert into the recency list does not consult the in-flight table for its key in its critical section, and the creator's own insert ignores the result of Add: if it runs while a creation of the same key is in flight, the creator's Add fails silently - the created value is returned to the creator's caller but is never resident and never passed to the delete callback, and no sequential history explains the creation")
	}
	if len(vs) == 0 {
		c.Decide(rule, r.getOrCreate, what, nil, false, "no insert into the recency list found")
	}
}

// resultBranchedOnV: the (error) result of the call is compared with nil / branched on somewhere (through a local copy).
func resultBranchedOnV(v ssa.Value, depth int) bool {
	if v == nil || v.Referrers() == nil || depth > 4 {
		return false
	}
	for _, ref := range *v.Referrers() {
		switch x := ref.(type) {
		case *ssa.If:
			return true
		case *ssa.BinOp:
			if resultBranchedOnV(x, depth+1) {
				return true
			}
		case *ssa.UnOp:
			if resultBranchedOnV(x, depth+1) {
				return true
			}
		case *ssa.Phi:
			if resultBranchedOnV(x, depth+1) {
				return true
			}
		case *ssa.Store:
			// a local variable: its loads
			if al, isAl := x.Addr.(*ssa.Alloc); isAl && x.Val == v && al.Referrers() != nil {
				for _, rr := range *al.Referrers() {
					if ld, isLd := rr.(*ssa.UnOp); isLd && resultBranchedOnV(ld, depth+1) {
						return true
					}
				}
			}
		}
	}
	return false
}

// lruListPointerFreshV (C09.R10). GetOrCreate spans two critical sections, Remove and Clear run between them. As long
// as the cache has ONE recency list for its whole life it does not matter where an operation read the pointer to it. If
// some operation re-assigns the list field (a Clear that swaps in a fresh map), a pointer read in an earlier critical
// section designates a detached list: a creator that inserts through it loses its value (returned, never resident,
// never deleted), a hit through it serves a value that was already deleted. So: either the list field is assigned only
// while the cache is constructed, or every access to the list goes through a pointer that was loaded from the field
// inside the critical section of the access (no lock boundary between the load and the access; a pointer handed to a
// private helper is followed to the argument of every call). Both halves are needed for the defect, so only their
// conjunction is reported.
func (c *Ctx) lruListPointerFreshV(r *lruRoles, rule string) {
	lv := r.locks
	var swaps []ssa.Instruction
	for _, fn := range c.P.FuncsOf("container/lru") {
		ir.Instrs(fn, func(in ssa.Instruction) {
			if _, _, ok := storeToField(in, r.items); ok {
				isCtor := lv.holdsInter(in, func(at ssa.Instruction) bool { return r.isCacheCtorZ(rootFnH(at.Parent())) })
				if !isCtor {
					swaps = append(swaps, in)
				}
			}
		})
	}
	const what = "recency list re-assigned only at construction, or every access reads the list pointer in its own critical section"
	if len(swaps) == 0 {
		c.Decide(rule, r.getOrCreate, what, nil, true, "")
		return
	}
	mapMethods := map[*ssa.Function]bool{r.mGet: true, r.mRemove: true, r.mAdd: true, r.mLen: true, r.mFirst: true, r.mIt: true}
	// stale: the list pointer v, used at `at`, can stem from a load of the list field that a lock boundary separates
	// from the use
	var stale func(fn *ssa.Function, v ssa.Value, at ssa.Instruction, depth int) ssa.Instruction
	stale = func(fn *ssa.Function, v ssa.Value, at ssa.Instruction, depth int) ssa.Instruction {
		for _, o := range ir.CopyRoots(v) {
			o = ir.Resolve(o)
			if _, isItems := loadOfField(o, r.items); isItems {
				if ld, isIn := o.(ssa.Instruction); isIn && ld.Parent() == fn && r.boundaryBetweenZ(fn, ld, at) {
					return ld
				}
				continue
			}
			if prm, isP := o.(*ssa.Parameter); isP && prm.Parent() == fn && depth < 3 {
				if r.boundaryBetweenZ(fn, nil, at) {
					return at
				}
				sites, known := lv.callersOf(fn)
				idx := paramIdxV(prm)
				if !known || idx < 0 {
					continue
				}
				for _, s := range sites {
					ci, isCI := s.(ssa.CallInstruction)
					if !isCI || ir.StaticCallee(ci) != fn || idx >= len(ci.Common().Args) {
						continue
					}
					if bad := stale(s.Parent(), ci.Common().Args[idx], s, depth+1); bad != nil {
						return bad
					}
				}
			}
		}
		return nil
	}
	var bad, badUse ssa.Instruction
	for _, fn := range c.P.FuncsOf("container/lru") {
		fn := fn
		ir.Instrs(fn, func(in ssa.Instruction) {
			call, ok := in.(*ssa.Call)
			if bad != nil || !ok || call.Call.IsInvoke() || !mapMethods[ir.StaticCallee(call)] || len(call.Call.Args) == 0 {
				return
			}
			if ld := stale(fn, call.Call.Args[0], call, 0); ld != nil {
				bad, badUse = ld, call
			}
		})
	}
	for _, sw := range swaps {
		detail := ""
		if bad != nil {
			detail = "the recency-list field is re-assigned here while " + ir.FnName(badUse.Parent()) + " (" + c.P.InstrPos(badUse) + ") uses a list pointer it read from the field in an earlier critical section (" + c.P.InstrPos(bad) + "): after the swap that pointer designates the detached list - a creator inserts its value there (returned, never resident, never deleted), a hit serves a value that was already deleted"
		}
		c.Decide(rule, sw.Parent(), what, sw, bad == nil, detail)
	}
}
