package rules

import (
	"go/token"

	"golang.org/x/tools/go/ssa"

	"verif/checker/ir"
)

// inmemListWalksTable (C03.R23): the in-memory ListKeys reports success only behind a complete walk over the record
// table. "ListKeys returns exactly the present keys matching the pattern": which keys a glob denotes is decided by the
// compiled matcher alone (escapes, classes, alternatives - the pattern text is not a key), so the only way to list
// every present matching key is to offer every key of the table to the matcher. Structurally: every path from the
// entry of ListKeys to a return that can carry a nil error takes the exhaustion edge of a range loop over the record
// table (the edge on which the map iterator reports that no key is left), or an edge on which the table is known to be
// empty. A return reached around the loop (an answer computed from the pattern text, a cached answer, a lookup of one
// key) or out of the loop body (break / return after the first hit, a limit) leaves present matching keys out, or
// reports keys that are not in the table - the redis backend (SCAN to the end of the cursor) and the contract list them.
// A ListKeys without any range over the table (an index, a helper that walks) is not understood: undecided.
func (c *Ctx) inmemListWalksTable(r *inmemRoles, rule string) {
	fn := r.storage["ListKeys"]
	if fn == nil {
		return
	}
	const construct = "success only behind a complete walk over the record table"
	exhaust := map[[2]*ssa.BasicBlock]bool{}
	ir.Instrs(fn, func(in ssa.Instruction) {
		nx, ok := in.(*ssa.Next)
		if !ok {
			return
		}
		rg, ok := nx.Iter.(*ssa.Range)
		if !ok || !r.isRecsVal(rg.X) {
			return
		}
		b := nx.Block()
		iff, ok := b.Instrs[len(b.Instrs)-1].(*ssa.If)
		if !ok || len(b.Succs) != 2 {
			return
		}
		ex, ok := iff.Cond.(*ssa.Extract)
		if !ok || ex.Tuple != ssa.Value(nx) || ex.Index != 0 {
			return
		}
		exhaust[[2]*ssa.BasicBlock{b, b.Succs[1]}] = true
	})
	if len(exhaust) == 0 {
		c.Undecided(rule, fn, construct, nil, "ListKeys has no range loop over the record table: how it visits every present key is not understood")
		return
	}
	isTableLen := func(v ssa.Value) bool {
		in, ok := v.(ssa.Instruction)
		if !ok {
			return false
		}
		cc := builtinCall(in, "len")
		return cc != nil && len(cc.Args) == 1 && r.isRecsVal(cc.Args[0])
	}
	emptyTable := func(from, to *ssa.BasicBlock) bool {
		ef := ir.EdgeFact(from, to)
		if ef == nil {
			return false
		}
		cm, ok := ef.Cmp()
		if !ok {
			return false
		}
		op, x, y := cm.Op, cm.X, cm.Y
		if isTableLen(y) {
			x, y = y, x
			op = ir.SwapOp(op)
		}
		k, isC := ir.ConstInt(y)
		if !isTableLen(x) || !isC {
			return false
		}
		return (op == token.EQL && k == 0) || (op == token.LEQ && k == 0) || (op == token.LSS && k == 1)
	}
	errIdx := ir.ErrResultIndex(fn)
	c.NoPath(rule, construct, nil, ir.Query{Fn: fn,
		BlockEdge: func(from, to *ssa.BasicBlock) bool {
			return exhaust[[2]*ssa.BasicBlock{from, to}] || emptyTable(from, to)
		},
		Target: func(x ssa.Instruction) bool {
			ret, isRet := x.(*ssa.Return)
			if !isRet {
				return false
			}
			return errIdx < 0 || ir.ClassifyErr(ir.ResultValue(ret, errIdx), ret.Block()) != ir.ErrNonNil
		}},
		"the in-memory ListKeys can report success without having walked the record table to its end (an answer taken from the pattern text or one lookup, or a walk that is left early): which keys a glob denotes is decided by the matcher only (an escaped pattern has no wildcard and still is not a key), so present keys that match are left out; the contract and the redis backend list them")
}
