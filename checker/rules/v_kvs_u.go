package rules

import (
	"go/token"

	"golang.org/x/tools/go/ssa"

	"verif/checker/ir"
)

// Generalisations of the kvs rules for the behaviour-preserving changes of round u: new entry points implemented
// correctly (DeleteByVersion, DeleteMany, Sweep), an edge path handled explicitly (an already-ended context), a
// responsibility moved between sites (the batch pre-scan of PutMany, the waiter bookkeeping helpers). The census rules
// of rounds e-g ("only Delete ...") are restated as what they are for.

// ---------------------------------------------------------------------------
// who may remove a record from the in-memory table (C06.R9 / C03.R16)

// removalEntryU: root is an exported method of the in-memory service that is none of the nine operations of the
// kvs.Storage contract the rules know. The contract of those nine says what they may remove (Delete: the record found;
// the others: nothing but an expired record); about a further entry point (DeleteByVersion, DeleteMany) the properties
// say nothing, and what "a record leaves the table only ... " protects - a record of the contract's operations is not
// dropped by THEM - is not touched by it. For such an entry point the clause is the one of Delete: the record is removed
// on the found edge of a lookup made under this very lock acquisition (the "examined" obligation is unchanged and
// unconditional), never without having been looked up. Every delete inside the nine operations stays bound to the
// expired edge.
func (r *inmemRoles) removalEntryU(root *ssa.Function) bool {
	if root == nil || root.Parent() != nil || root.Object() == nil || !root.Object().Exported() || root.Signature.Recv() == nil {
		return false
	}
	if namedOf(root.Signature.Recv().Type()) != r.svc {
		return false
	}
	for _, m := range r.storage {
		if m == root {
			return false
		}
	}
	return true
}

// ---------------------------------------------------------------------------
// a range over the table that hands no key out (C06.R1 / C03.R15 / C05.E1)

// rangeOnlyDecidesU: the key of the range over the record table is used for nothing but the live-lookup helper (which
// takes the expiry decision for it, drops and notifies): the loop lists nothing, so there is nothing to filter - it
// visits the keys to purge / count what the decision says (a sweep). A key that is stored, appended, sent or handed to
// anything else is "collected" and stays under the filter obligation.
func (r *inmemRoles) rangeOnlyDecidesU(rg *ssa.Range) bool {
	if rg.Referrers() == nil {
		return false
	}
	seenNext := false
	for _, ref := range *rg.Referrers() {
		nx, ok := ref.(*ssa.Next)
		if !ok {
			if _, isDbg := ref.(*ssa.DebugRef); isDbg {
				continue
			}
			return false
		}
		seenNext = true
		if nx.Referrers() == nil {
			continue
		}
		for _, r2 := range *nx.Referrers() {
			ex, isEx := r2.(*ssa.Extract)
			if !isEx {
				if _, isDbg := r2.(*ssa.DebugRef); isDbg {
					continue
				}
				return false
			}
			if ex.Index == 0 || ex.Referrers() == nil {
				continue // the "more" flag
			}
			for _, use := range *ex.Referrers() {
				switch u := use.(type) {
				case *ssa.DebugRef:
				case *ssa.Call:
					if ex.Index != 1 || !r.liveHelpers[ir.StaticCallee(u)] {
						return false
					}
				default:
					return false
				}
			}
		}
	}
	return seenNext
}

// ---------------------------------------------------------------------------
// the waiter: ctx.Err() known non-nil, teardown through the notifier (C07.W5 / W4)

// ctxErrKnownU: the returned value is ctx.Err() and the exit lies under the fact that this very result - or the result
// of another ctx.Err() on the same context before it (an ended context stays ended) - is not nil. "ctx.Err() only when
// the context has ended" holds there exactly as in the ctx.Done() case of a select.
func ctxErrKnownU(fn *ssa.Function, e ir.ExitPoint, call *ssa.Call) bool {
	isErrOfSameCtx := func(v ssa.Value) bool {
		c2, ok := ir.Resolve(v).(*ssa.Call)
		if !ok || !c2.Call.IsInvoke() || c2.Call.Method.Name() != "Err" {
			return false
		}
		if c2 == call {
			return true
		}
		return same(c2.Call.Value, call.Call.Value) && ir.Dominates(c2, call)
	}
	return e.HasFact(func(f ir.Fact) bool {
		cm, ok := f.Cmp()
		if !ok || cm.Op != token.NEQ {
			return false
		}
		return (isErrOfSameCtx(cm.X) && ir.IsNilConst(cm.Y)) || (isErrOfSameCtx(cm.Y) && ir.IsNilConst(cm.X))
	})
}

// withdrawTeardownU: in is a call of the notify routine that a withdrawing waiter uses to tear its entry down (close +
// forget in one helper): a decrement of the waiter count dominates it. (A call of the notifier that follows the purge
// of an expired record is not dominated by a decrement and is no teardown of a cancelling waiter.)
func (r *inmemRoles) withdrawTeardownU(fn *ssa.Function, in ssa.Instruction, decs []ssa.Instruction) bool {
	if !isCallTo(in, r.notify) {
		return false
	}
	if _, isCall := in.(*ssa.Call); !isCall {
		return false
	}
	for _, d := range decs {
		if d.Parent() == in.Parent() && ir.Dominates(d, in) {
			return true
		}
	}
	return false
}

// ---------------------------------------------------------------------------
// the MSET batch behind an exhausted pre-scan (C06.R5)

// exhaustedNoExpiryScanU: the block of `at` is dominated by the exhaustion edge of a loop that visits every element of
// the slice `from` (from the first to the last, left only over that edge or by leaving the function's batch path
// altogether) and goes round only over the "ExpiresAt == nil" outcome of a test on the element of the iteration. Behind
// that edge every record of the slice is known to have no expiration - the same universal fact a flag merged behind the
// loop would carry (ir.UniversalFacts), here carried by control flow: the scan returns / delegates as soon as it meets an
// expiring record.
func (r *redisRoles) exhaustedNoExpiryScanU(at ssa.Instruction, from ssa.Value) bool {
	fn := at.Parent()
	for _, l := range passLoopsV(fn, from) {
		l := l
		x := l.exitTo
		if len(x.Preds) != 1 || x.Preds[0] != l.header || !x.Dominates(at.Block()) || l.blocks[at.Block()] {
			continue
		}
		// the element's ExpiresAt: read from &slice[i] or from the local copy the range value is kept in
		isElemExpiry := func(v ssa.Value) bool {
			if ir.LoadedField(v) != r.recExpires {
				return false
			}
			u, ok := ir.Resolve(v).(*ssa.UnOp)
			if !ok {
				return false
			}
			fa, ok := u.X.(*ssa.FieldAddr)
			if !ok {
				return false
			}
			switch b := fa.X.(type) {
			case *ssa.IndexAddr:
				return l.isElem(b)
			case *ssa.Alloc:
				n := 0
				for _, st := range ir.StoresTo(b) {
					ld, isLd := st.Val.(*ssa.UnOp)
					if !isLd || ld.Op != token.MUL || !l.blocks[st.Block()] {
						return false
					}
					ia, isIA := ld.X.(*ssa.IndexAddr)
					if !isIA || !l.isElem(ia) {
						return false
					}
					n++
				}
				return n > 0
			}
			return false
		}
		noExpiry := func(from, to *ssa.BasicBlock) bool {
			if !l.blocks[from] {
				return false
			}
			ef := ir.EdgeFact(from, to)
			if ef == nil {
				return false
			}
			cm, ok := ef.Cmp()
			if !ok || cm.Op != token.EQL {
				return false
			}
			return (isElemExpiry(cm.X) && ir.IsNilConst(cm.Y)) || (isElemExpiry(cm.Y) && ir.IsNilConst(cm.X))
		}
		first := l.header.Instrs[0]
		w, err := (ir.Query{Fn: fn, FromBlock: l.body, BlockEdge: noExpiry,
			Target: func(in ssa.Instruction) bool { return in == first }}).Find()
		if err == nil && w == nil {
			return true
		}
	}
	return false
}

// ---------------------------------------------------------------------------
// who may issue a key-removing redis command (C02.R15 b)

// redisAtomicRemovalU: the removal command at `site` belongs to an entry point that is none of the nine operations of
// the contract (an additional removal operation: DeleteMany ...) and is that operation's ONE step at the server: in
// everything the entry point can reach there is no other redis command (nothing read beforehand that the removal could
// be decided on, nothing written besides) and the command is not in a loop. One DEL - also with several keys - is atomic
// at the server; what the census forbids is the removal as second step of an operation that looked first (C02-g2).
// A removal inside a WATCH/MULTI pipeline is accepted by the census as before.
func (c *Ctx) redisAtomicRemovalU(r *redisRoles, site *ssa.Call) bool {
	inPkg := map[*ssa.Function]bool{}
	for _, f := range r.all {
		inPkg[f] = true
	}
	known := map[*ssa.Function]bool{}
	for _, m := range r.storage {
		known[m] = true
	}
	// the entry points that reach the site
	var roots []*ssa.Function
	okRoots := true
	seen := map[*ssa.Function]bool{}
	var up func(f *ssa.Function, d int)
	up = func(f *ssa.Function, d int) {
		root := rootFnV(f)
		if seen[root] || !okRoots {
			return
		}
		seen[root] = true
		if d > 3 || root.Object() == nil {
			okRoots = false
			return
		}
		if root.Object().Exported() {
			roots = append(roots, root)
			return
		}
		sites := 0
		for _, caller := range r.all {
			ir.Instrs(caller, func(in ssa.Instruction) {
				if ci, isCI := in.(ssa.CallInstruction); isCI && ir.StaticCallee(ci) == root {
					sites++
					up(caller, d+1)
					return
				}
				for _, op := range in.Operands(nil) {
					if op != nil && *op == ssa.Value(root) {
						okRoots = false
					}
				}
			})
		}
		if sites == 0 {
			okRoots = false
		}
	}
	up(site.Parent(), 0)
	if !okRoots || len(roots) == 0 {
		return false
	}
	isCommand := func(in ssa.Instruction) bool {
		call, ok := in.(*ssa.Call)
		if !ok || !redisCall(call) {
			return false
		}
		if recv := ir.Recv(call); recv != nil {
			if nt := namedOf(recv.Type()); nt != nil {
				n := nt.Obj().Name()
				if len(n) >= 3 && n[len(n)-3:] == "Cmd" || n == "ScanIterator" {
					return false // an accessor of a command's result
				}
			}
		}
		return true
	}
	for _, root := range roots {
		if known[root] || root.Signature.Recv() == nil || namedOf(root.Signature.Recv().Type()) != r.client {
			return false
		}
		// everything the entry point can reach
		reach := map[*ssa.Function]bool{}
		var walk func(f *ssa.Function, d int)
		walk = func(f *ssa.Function, d int) {
			if f == nil || reach[f] || d > 5 || len(f.Blocks) == 0 || !inPkg[f] {
				return
			}
			reach[f] = true
			for _, a := range f.AnonFuncs {
				walk(a, d+1)
			}
			ir.Instrs(f, func(in ssa.Instruction) {
				if ci, ok := in.(ssa.CallInstruction); ok {
					walk(ir.StaticCallee(ci), d+1)
				}
			})
		}
		walk(root, 0)
		for f := range reach {
			other := false
			ir.Instrs(f, func(in ssa.Instruction) {
				if isCommand(in) && in != ssa.Instruction(site) {
					other = true
				}
			})
			if other {
				return false
			}
		}
	}
	// issued once per call
	if w, err := (ir.Query{Fn: site.Parent(), From: site, Target: func(x ssa.Instruction) bool { return x == ssa.Instruction(site) }}).Find(); err != nil || w != nil {
		return false
	}
	return true
}
