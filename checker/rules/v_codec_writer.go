package rules

// C15.S12 - every byte the stream writer emits goes to the current value of its exported destination field.
//
// The stream writer is a struct with an EXPORTED field of an interface type that has Write([]byte) (int, error): the
// caller owns that field and may point it to the next destination between two items. "ObjectsWriter emits the same
// bytes as the Marshal functions, predicted size = written size, the concatenation decodes back" is a statement about
// the bytes that arrive at the destination the caller sees in that field. A writer that resolves the destination once
// and keeps it (or something derived from it: an io.ByteWriter view, a buffered wrapper) in a private field of its own
// sends part of an item to the destination it had when the cache was filled: after the field was re-assigned the new
// destination misses those bytes and the old one gets them.
//
// Clause, for every function of the codec package: the destination of every emission - the receiver of an interface
// call of Write / WriteByte / WriteString / WriteRune / ReadFrom, and every argument of writer type handed to another
// call (io.WriteString(w, ..), fmt.Fprintf(w, ..), (*bufio.Writer).Write(w, ..)) - originates, through type assertions,
// phis, local variables, results of functions of the package and parameters of its private functions (followed to the
// call sites), from values read in the same call; no origin is a load of a PRIVATE field of a stream writer type (also
// inside a nested struct it holds). Loads of the exported field, parameters of exported functions, fresh values and
// package-level variables are not objected to.
//
// Over-approximation: a cache that is re-validated against the exported field before each use
// (`if ow.cachedFor != ow.Writer { resolve again }`) is flagged although it is correct.

import (
	"go/token"
	"go/types"
	"sort"

	"golang.org/x/tools/go/ssa"

	"verif/checker/ir"
)

// writerMethodV: m is one of the methods through which bytes are handed to a destination.
func writerMethodV(m *types.Func) bool {
	sig, ok := m.Type().(*types.Signature)
	if !ok {
		return false
	}
	ps, rs := sig.Params(), sig.Results()
	lastErr := rs.Len() > 0 && ir.IsErrorType(rs.At(rs.Len()-1).Type())
	switch m.Name() {
	case "Write":
		return ps.Len() == 1 && isByteSeqB(ps.At(0).Type()) && rs.Len() == 2 && lastErr
	case "WriteString":
		return ps.Len() == 1 && isByteSeqB(ps.At(0).Type()) && rs.Len() == 2 && lastErr
	case "WriteByte":
		return ps.Len() == 1 && rs.Len() == 1 && lastErr
	case "WriteRune":
		return ps.Len() == 1 && rs.Len() == 2 && lastErr
	case "ReadFrom":
		return ps.Len() == 1 && rs.Len() == 2 && lastErr
	}
	return false
}

// writerCapableV: values of type t can receive bytes (the method set has Write([]byte) (int, error), WriteByte(byte) error
// or WriteString(string) (int, error)).
func writerCapableV(t types.Type) bool {
	if t == nil {
		return false
	}
	if _, isTP := t.(*types.TypeParam); isTP {
		return false
	}
	ms := types.NewMethodSet(t)
	for _, name := range []string{"Write", "WriteByte", "WriteString"} {
		sel := ms.Lookup(nil, name)
		if sel == nil {
			// unexported lookups need the package; the three names are exported, so nil means absent
			continue
		}
		if m, ok := sel.Obj().(*types.Func); ok && writerMethodV(m) {
			return true
		}
	}
	return false
}

// streamWriterTypesV: the named struct types of the package with an exported field of an io.Writer-like interface type.
func streamWriterTypesV(c *Ctx, rel string) map[*types.Named][]*types.Var {
	res := map[*types.Named][]*types.Var{}
	for _, nt := range c.P.NamedTypes(rel) {
		st, ok := nt.Underlying().(*types.Struct)
		if !ok {
			continue
		}
		for i := 0; i < st.NumFields(); i++ {
			f := st.Field(i)
			if !f.Exported() {
				continue
			}
			if _, isIface := f.Type().Underlying().(*types.Interface); isIface && writerCapableV(f.Type()) {
				res[nt.Origin()] = append(res[nt.Origin()], f)
			}
		}
	}
	return res
}

type destOriginV struct {
	owner *types.Named // the stream writer type a private field of which was read
	field *types.Var
	at    ssa.Instruction
}

type destWalkV struct {
	c       *Ctx
	writers map[*types.Named][]*types.Var
	pkg     *ssa.Package
	fns     []*ssa.Function
	seen    map[ssa.Value]bool
	cached  []destOriginV
}

func structOwnerV(t types.Type) (*types.Named, *types.Struct) {
	if p, ok := t.Underlying().(*types.Pointer); ok {
		t = p.Elem()
	}
	nt, _ := t.(*types.Named)
	st, _ := t.Underlying().(*types.Struct)
	if nt != nil {
		nt = nt.Origin()
	}
	return nt, st
}

// fieldOfWriter follows an address (or struct value) outwards: when it lies inside a stream writer, returns the writer type
// and the field of it that is being read.
func (w *destWalkV) fieldOfWriter(addr ssa.Value) (*types.Named, *types.Var) {
	for i := 0; i < 8 && addr != nil; i++ {
		switch x := addr.(type) {
		case *ssa.FieldAddr:
			nt, st := structOwnerV(x.X.Type())
			if nt != nil && st != nil && w.writers[nt] != nil {
				return nt, st.Field(x.Field)
			}
			addr = x.X
		case *ssa.Field:
			nt, st := structOwnerV(x.X.Type())
			if nt != nil && st != nil && w.writers[nt] != nil {
				return nt, st.Field(x.Field)
			}
			addr = x.X
		case *ssa.IndexAddr:
			addr = x.X
		case *ssa.UnOp:
			if x.Op != token.MUL {
				return nil, nil
			}
			addr = x.X
		default:
			return nil, nil
		}
	}
	return nil, nil
}

func (w *destWalkV) inPkg(fn *ssa.Function) bool {
	for fn != nil && fn.Parent() != nil {
		fn = fn.Parent()
	}
	return fn != nil && fn.Pkg == w.pkg && len(fn.Blocks) > 0
}

func (w *destWalkV) walk(v ssa.Value, depth int) {
	if v == nil || depth > 12 {
		return
	}
	v = ir.Resolve(v)
	if v == nil || w.seen[v] {
		return
	}
	w.seen[v] = true
	switch x := v.(type) {
	case *ssa.TypeAssert:
		w.walk(x.X, depth+1)
	case *ssa.Extract:
		switch t := x.Tuple.(type) {
		case *ssa.TypeAssert:
			if x.Index == 0 {
				w.walk(t.X, depth+1)
			}
		case *ssa.Call:
			w.callResult(t, x.Index, depth)
		}
	case *ssa.Phi:
		for _, e := range x.Edges {
			w.walk(e, depth+1)
		}
	case *ssa.Call:
		w.callResult(x, 0, depth)
	case *ssa.Field:
		if nt, f := w.fieldOfWriter(x); nt != nil {
			w.field(nt, f, x)
		}
	case *ssa.UnOp:
		if x.Op != token.MUL {
			return
		}
		if nt, f := w.fieldOfWriter(x.X); nt != nil {
			w.field(nt, f, x)
			return
		}
		if a, ok := x.X.(*ssa.Alloc); ok {
			for _, st := range ir.StoresTo(a) {
				w.walk(st.Val, depth+1)
			}
		}
		if fv, ok := x.X.(*ssa.FreeVar); ok {
			if b := ir.BindingOf(fv); b != nil {
				if a, ok := b.(*ssa.Alloc); ok {
					for _, st := range ir.StoresTo(a) {
						w.walk(st.Val, depth+1)
					}
				}
			}
		}
	case *ssa.FreeVar:
		if b := ir.BindingOf(x); b != nil {
			w.walk(b, depth+1)
		}
	case *ssa.Parameter:
		fn := x.Parent()
		if fn == nil || !w.inPkg(fn) || (fn.Object() != nil && fn.Object().Exported() && fn.Parent() == nil) {
			return
		}
		idx := -1
		for i, p := range fn.Params {
			if p == x {
				idx = i
			}
		}
		if idx < 0 {
			return
		}
		for _, g := range w.fns {
			for _, call := range ir.Calls(g) {
				if ir.StaticCallee(call) == fn && idx < len(call.Common().Args) && !call.Common().IsInvoke() {
					w.walk(call.Common().Args[idx], depth+1)
				}
			}
		}
	}
}

func (w *destWalkV) callResult(call *ssa.Call, idx int, depth int) {
	cal := ir.StaticCallee(call)
	if cal == nil || !w.inPkg(cal) {
		return
	}
	for _, ret := range ir.Returns(cal) {
		if idx < len(ret.Results) {
			w.walk(ir.ResultValue(ret, idx), depth+1)
		}
	}
}

func (w *destWalkV) field(nt *types.Named, f *types.Var, at ssa.Instruction) {
	if f.Exported() {
		return
	}
	w.cached = append(w.cached, destOriginV{nt, f, at})
}

// writesToCurrentDestination is C15.S12.
func (c *Ctx) writesToCurrentDestination() {
	writers := streamWriterTypesV(c, "xbinary")
	if len(writers) == 0 {
		c.Fatalf("role stream writer: no struct type of xbinary with an exported io.Writer field")
	}
	var names []string
	for nt, fs := range writers {
		names = append(names, nt.Obj().Name())
		for _, f := range fs {
			c.Role("streamWriter."+nt.Obj().Name()+".destination", f.Name(), f.Pos())
		}
	}
	sort.Strings(names)
	fns := c.P.FuncsOf("xbinary")
	pkg := c.P.SSAPkg("xbinary")
	const construct = "emission goes to the current value of the exported destination field"
	for _, fn := range fns {
		fn := fn
		for _, ci := range ir.Calls(fn) {
			com := ci.Common()
			var dests []ssa.Value
			if com.IsInvoke() {
				if writerMethodV(com.Method) {
					dests = append(dests, com.Value)
				}
			} else {
				if _, isB := com.Value.(*ssa.Builtin); isB {
					continue
				}
				if cal := ir.StaticCallee(ci); cal != nil && cal.Pkg == pkg {
					continue // a function of the package: its own emissions are checked where they are made
				}
			}
			for _, a := range com.Args {
				if writerCapableV(a.Type()) {
					dests = append(dests, a)
				}
			}
			if len(dests) == 0 {
				continue
			}
			w := &destWalkV{c: c, writers: writers, pkg: pkg, fns: fns, seen: map[ssa.Value]bool{}}
			for _, d := range dests {
				w.walk(d, 0)
			}
			in, _ := ci.(ssa.Instruction)
			if len(w.cached) == 0 {
				c.Decide("C15.S12", fn, construct, in, true, "")
				continue
			}
			o := w.cached[0]
			c.Decide("C15.S12", fn, construct, in, false,
				"the destination of this write is read from the private field "+o.field.Name()+" of "+o.owner.Obj().Name()+" ("+c.P.InstrPos(o.at)+
					"), not from the exported destination field in this call: after the caller re-assigns the exported field these bytes still go to the destination that was current when the private field was filled - the new destination does not receive what the Marshal functions produce (size, bytes and decodability differ) and the old one gets bytes appended")
		}
	}
	c.R.Floor("C15.S12", 6)
}
