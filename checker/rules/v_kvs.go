package rules

import (
	"regexp"
	"strings"

	"verif/checker/report"
)

// Rules of the kvs backends added after seeded round f (C03-f2): the in-memory expiry clauses under C03's own ids.
//
// "An expired record is a missing key" is not a property of its own next to the sequential contract (C03): it IS the
// contract, because the redis server removes an expired key by itself and every redis operation therefore answers for
// such a key what it answers for a key that was never written. The in-memory backend reaches the same answers only
// through its own expiry decisions; where one is missing (a scan that lists keys without asking, a flag that says
// "nothing can expire here" and is not raised on every write path) the two backends return different results for the
// same sequence of operations - which is what C03 forbids. C03 therefore runs, under ids of its own, the clauses of the
// in-memory expiry rules that decide what an operation RETURNS:
//
//   - every lookup of the record table passes the expiry decision before it influences a result or a mutation, every
//     range over the table filters its keys through such a decision, an error-flavoured live-lookup helper reports "no
//     error" only for a live record (inmemExpiry);
//   - a record leaves the table only on the expired edge of a decision taken under the same lock acquisition, or in
//     Delete when found (inmemDeleteExamined): a record dropped otherwise is missing in one backend only;
//   - the moment the decision compares with is a reading of the clock, taken after the goroutine last slept
//     (inmemFreshClock): against an older moment an expired record is still "present".
//
// Not taken over: "the expired edge deletes the record and notifies the waiters" - when every read decides expiry for
// itself a record that is recognised as expired and left in the table changes no result of the operations C03 speaks
// about (it is C06's and C07's business: memory and the wake-up of waiters).

// inmemExpiryReads runs inmemExpiry under rule and keeps the obligations that decide results (see above).
func (c *Ctx) inmemExpiryReads(r *inmemRoles, rule string) {
	sub := &Ctx{P: c.P, R: report.NewResult(c.R.Property, c.R.Config), keyNames: c.keyNames}
	sub.inmemExpiry(r, rule)
	ordinal := regexp.MustCompile(`#[0-9]+$`)
	for _, o := range sub.R.Obligations {
		parts := strings.SplitN(o.Key, "|", 3)
		if len(parts) != 3 {
			c.R.Errorf("%s: obligation key %q not understood", rule, o.Key)
			continue
		}
		construct := ordinal.ReplaceAllString(parts[2], "")
		if strings.HasPrefix(construct, "expired edge ") {
			continue
		}
		c.R.Add(o.Rule, parts[1], construct, o.Pos, o.Status, o.Detail)
	}
	c.R.Errors = append(c.R.Errors, sub.R.Errors...)
	c.R.Functions = append(c.R.Functions, sub.R.Functions...)
	for k, v := range sub.R.Roles {
		c.R.Roles[k] = v
	}
}

// inmemExpiredIsAbsent is the C03 view of the in-memory expiry rules.
func (c *Ctx) inmemExpiredIsAbsent(r *inmemRoles, reads, drops, clock string) {
	c.inmemExpiryReads(r, reads)
	c.inmemDeleteExamined(r, drops)
	c.inmemFreshClock(r, clock, nil)
}
