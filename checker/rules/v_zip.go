package rules

import (
	"go/constant"
	"go/types"

	"golang.org/x/tools/go/ssa"

	"verif/checker/ir"
)

// Rules added for the seeded round "f" (C20.R12, R13, R14). Each is a necessary structural clause of the property as
// stated:
//
//	R12  "UnzipToFolder creates or modifies files only inside the destination directory": no value built from an
//	     archive entry name reaches ANY call that changes the file system (remove, rename, chmod, truncate ... - R1 asks
//	     this of the creating calls only) without a containment test known to have succeeded on it, and that includes
//	     calls in closures: a closure reads a captured variable when it RUNS, so a variable assigned from the entry name
//	     before the test and read by a deferred (or later called) closure is unchecked at that read on every path that
//	     gets to the run point with the test failed or not made (v_zip_mut.go);
//	R13  "reproduces every regular file - relative path and content": in the function that extracts (creates files named
//	     by entry names) every path from the point an entry is obtained to the point the next one is obtained, or to a
//	     return that is no failure, passes the create(-truncate) of the destination and the copy of the entry's content;
//	     the only ways round are the ones the property knows - the entry is no regular file (a test of the kind bits /
//	     the trailing slash), the containment test rejected it (v_zip_write.go);
//	R14  the same clause seen from the archive listing: a function that hands out the entries of the archive one by one
//	     (it returns *zip.File and reads elements of a []*zip.File) returns every element it reads - no path leads from
//	     the read of an element to the read of another one, or to a return of something else (v_zip_iter.go).
//
// zipHardening is called by runC20 with the taint environment of R1 (entry-name sources, the derivation closure, the
// containment predicates and their shape verdicts), so that "derived from an entry name" and "containment test" mean
// the same thing in R1 and in the rules here.
func (c *Ctx) zipHardening(fns []*ssa.Function, env *r1Env, isEntryName func(ssa.Value) bool, r1Sinks func(ssa.CallInstruction) []ssa.Value) {
	h := &zipHard{c: c, env: env, fns: fns, isEntryName: isEntryName, r1Sinks: r1Sinks, kinds: &zipSel{c: c, fns: fns},
		writeSums: map[string]*writeSum{}}
	h.osPkg = h.findPkg("os")
	h.mutationTaint("C20.R12")
	h.entriesWritten("C20.R13")
	h.entriesYielded("C20.R14")
}

type zipHard struct {
	c           *Ctx
	env         *r1Env
	fns         []*ssa.Function
	isEntryName func(ssa.Value) bool
	r1Sinks     func(ssa.CallInstruction) []ssa.Value
	kinds       *zipSel // for kindTests only
	osPkg       *types.Package
	reachMut    map[*ssa.Function]map[int]bool
	writeSums   map[string]*writeSum
}

// findPkg looks a package up through the imports of the analysed package.
func (h *zipHard) findPkg(path string) *types.Package {
	for _, fn := range h.fns {
		if fn.Pkg == nil || fn.Pkg.Pkg == nil {
			continue
		}
		seen := map[*types.Package]bool{}
		work := []*types.Package{fn.Pkg.Pkg}
		for len(work) > 0 {
			p := work[0]
			work = work[1:]
			if seen[p] {
				continue
			}
			seen[p] = true
			if p.Path() == path {
				return p
			}
			work = append(work, p.Imports()...)
		}
		break
	}
	return nil
}

// osFlag: the value of an integer constant of package os on the analysed platform (O_CREATE, O_TRUNC ...).
func (h *zipHard) osFlag(name string, fallback int64) int64 {
	if h.osPkg != nil {
		if cst, ok := h.osPkg.Scope().Lookup(name).(*types.Const); ok {
			if v, exact := constant.Int64Val(constant.ToInt(cst.Val())); exact {
				return v
			}
		}
	}
	return fallback
}

// readOnlyOpen: call is os.OpenFile with constant flags that neither write nor create nor truncate.
func (h *zipHard) readOnlyOpen(call ssa.CallInstruction) bool {
	if ir.CalleeFullName(call) != "os.OpenFile" || len(call.Common().Args) < 2 {
		return false
	}
	fl, isC := ir.ConstInt(call.Common().Args[1])
	if !isC {
		return false
	}
	acc := h.osFlag("O_WRONLY", 1) | h.osFlag("O_RDWR", 2)
	other := h.osFlag("O_CREATE", 0x40) | h.osFlag("O_TRUNC", 0x200) | h.osFlag("O_APPEND", 0x400)
	return fl&acc == 0 && fl&other == 0
}

// sourcesOf: the reads of archive entry names in fn.
func (h *zipHard) sourcesOf(fn *ssa.Function) map[ssa.Value]bool {
	src := map[ssa.Value]bool{}
	ir.Instrs(fn, func(in ssa.Instruction) {
		if v, ok := in.(ssa.Value); ok && h.isEntryName(v) {
			src[v] = true
		}
	})
	return src
}

// isZipFilePtr: t is *archive/zip.File.
func isZipFilePtr(t types.Type) bool {
	p, ok := types.Unalias(t).Underlying().(*types.Pointer)
	if !ok {
		return false
	}
	n, ok := types.Unalias(p.Elem()).(*types.Named)
	return ok && n.Obj().Name() == "File" && n.Obj().Pkg() != nil && n.Obj().Pkg().Path() == "archive/zip"
}

// hasMethodNamed: the method set of t (or *t) has a method of that name.
func hasMethodNamed(t types.Type, name string) bool {
	if t == nil {
		return false
	}
	if types.NewMethodSet(t).Lookup(nil, name) != nil {
		return true
	}
	if _, isPtr := t.Underlying().(*types.Pointer); !isPtr {
		if _, isIface := t.Underlying().(*types.Interface); !isIface {
			return types.NewMethodSet(types.NewPointer(t)).Lookup(nil, name) != nil
		}
	}
	return false
}

// calleeMethod: the method name and the receiver of a method call (invoke or static), "" for plain functions.
func calleeMethod(call ssa.CallInstruction) (name string, recv ssa.Value, args []ssa.Value) {
	cc := call.Common()
	if cc.IsInvoke() {
		return cc.Method.Name(), cc.Value, cc.Args
	}
	if fn := cc.StaticCallee(); fn != nil && fn.Signature.Recv() != nil && len(cc.Args) > 0 {
		return fn.Name(), cc.Args[0], cc.Args[1:]
	}
	return "", nil, cc.Args
}
