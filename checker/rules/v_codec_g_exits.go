package rules

// C15.S14 - an exit that reports 0 bytes reports an error.
//
// Every item of the codec occupies at least one byte, so "0 bytes written / read" can only mean failure. "Encoding into
// a buffer shorter than that size fails with an error" and "predicted size = written size" therefore need: an exit of a
// Marshal / Unmarshal function (through thin wrappers to the function that holds the code) whose count is the constant
// 0 returns an error that is provably non-nil at that exit - a fresh error, a sentinel, the result of a helper ALL of
// whose exits return a fresh error, or a value the branch facts of the exit show to be non-nil. An error taken from a
// helper that can also return nil, returned without a test (`return 0, check(...)`), makes (0, nil) a possible answer:
// nothing was coded and no error is reported.
//
// C15.S15 - a byte-string decoder rejects for length only when the announced length exceeds what remains.
//
// The encoders accept every length, 0 included, and the decoded item may be the last one of the input. The only
// length-based reason to fail is therefore `length > remaining` with remaining = len(buf) - (bytes of the header): on
// every way into a failing exit of an exported decoder of byte slices / strings, either the failure of the header
// decoder is being handed on (a fact `err != nil` about the error of the decoder the function delegates the header or
// the whole item to), or a branch fact says strictly that the wire length is greater than the remaining length (as an
// unsigned comparison, as a signed one on the converted value, or against a constant no int can exceed), or a "must not happen" test says that the delegate's consumed count is below 1
// or above len(buf) (excluded by C16.R6 for the delegate). A way into
// the failing exit on which `length <= remaining` may hold - `remaining == 0` with length 0, `length >= remaining` -
// rejects items an encoder produces.

import (
	"go/constant"
	"go/token"
	"go/types"

	"golang.org/x/tools/go/ssa"

	"verif/checker/ir"
)

// zeroCountIsFailure is C15.S14.
func (c *Ctx) zeroCountIsFailure() {
	n := 0
	seen := map[*ssa.Function]bool{}
	for _, pre := range []string{"Marshal", "Unmarshal"} {
		for _, d := range xbinaryFuncs(c, pre) {
			fn := implOfB(d)
			if seen[fn] || ir.ErrResultIndex(fn) < 0 || fn.Signature.Results().Len() < 2 || !isIntTypeB(fn.Signature.Results().At(0).Type()) {
				continue
			}
			seen[fn] = true
			for _, ep := range exitsOfB(fn) {
				cnt := ctxOfB(ep.Facts).refine(ep.Result(0))
				if k, isC := ir.ConstInt(cnt); !isC || k != 0 {
					continue
				}
				n++
				cls := exitClassB(fn, ep)
				c.Decide("C15.S14", fn, "an exit that reports 0 bytes returns a non-nil error", ep.Ret, cls == ir.ErrNonNil,
					fn.Name()+" has an exit that reports 0 bytes with an error that is not known to be non-nil there (error class "+cls.String()+
						": e.g. the unchecked result of a helper that can return nil): the answer (0, nil) says 'done' although nothing was coded - a short buffer is not an error any more and the written size differs from the predicted one")
			}
		}
	}
	c.R.Floor("C15.S14", 8)
}

// wireLengthV: v is (a conversion of) a value result of a decoder of the package called in fn; returns the call.
func wireLengthV(v ssa.Value, pkg *ssa.Package) *ssa.Call {
	for i := 0; i < 4; i++ {
		if cv, ok := v.(*ssa.Convert); ok {
			v = cv.X
			continue
		}
		break
	}
	ex, ok := v.(*ssa.Extract)
	if !ok || ex.Index == 0 || !isIntTypeB(ex.Type()) {
		return nil
	}
	call, ok := ex.Tuple.(*ssa.Call)
	if !ok {
		return nil
	}
	if cal := ir.StaticCallee(call); cal == nil || cal.Pkg != pkg || !decoderLikeB(cal) {
		return nil
	}
	return call
}

// remainingAfterV: v is (a conversion of) len(buf) - count, count being the consumed count of the header call.
func remainingAfterV(cx *linCtxB, v ssa.Value, buf ssa.Value, header *ssa.Call) bool {
	for i := 0; i < 4; i++ {
		if cv, ok := v.(*ssa.Convert); ok && isIntTypeB(cv.Type()) && isIntTypeB(cv.X.Type()) {
			v = cv.X
			continue
		}
		break
	}
	var cnt ssa.Value
	if header.Referrers() != nil {
		for _, r := range *header.Referrers() {
			if ex, ok := r.(*ssa.Extract); ok && ex.Index == 0 {
				cnt = ex
			}
		}
	}
	if cnt == nil {
		return false
	}
	want := cx.lenOf(buf, 0).add(cx.of(cnt), -1)
	return cx.of(v).equal(want)
}

// lengthExceedsV: fact f says wire length > remaining.
func (c *Ctx) lengthExceedsV(f ir.Fact, fn *ssa.Function, buf ssa.Value) bool {
	cm, ok := f.Cmp()
	if !ok {
		return false
	}
	op, x, y := cm.Op, cm.X, cm.Y
	call := wireLengthV(x, fn.Pkg)
	if call == nil {
		x, y, op = y, x, ir.SwapOp(op)
		call = wireLengthV(x, fn.Pkg)
	}
	if call == nil {
		return false
	}
	cx := ctxOfB(nil)
	unsigned := isUnsignedTypeB(x.Type())
	if op == token.GTR && remainingAfterV(cx, y, buf, call) {
		// (a signed comparison of the converted length is as good: a length that converts to a negative number is above
		// every int and is caught - or not - by R3)
		return true
	}
	if kv := ir.ConstVal(y); kv != nil && kv.Kind() == constant.Int {
		bits := int64(64)
		if len(c.P.Pkgs) > 0 && c.P.Pkgs[0].TypesSizes != nil {
			bits = c.P.Pkgs[0].TypesSizes.Sizeof(types.Typ[types.Int]) * 8
		}
		maxInt := constant.BinaryOp(constant.Shift(constant.MakeInt64(1), token.SHL, uint(bits-1)), token.SUB, constant.MakeInt64(1))
		if unsigned && ((op == token.GTR && constant.Compare(kv, token.GEQ, maxInt)) || (op == token.GEQ && constant.Compare(kv, token.GTR, maxInt))) {
			return true // above every int, so above what remains
		}
		if !unsigned && ((op == token.LSS && constant.Sign(kv) <= 0) || (op == token.LEQ && constant.Sign(kv) < 0)) {
			return true // the converted length is negative: the unsigned one is above MaxInt
		}
	}
	return false
}

// headerFailedV: fact f says that the error of a decoder of the package called in fn is not nil.
func headerFailedV(f ir.Fact, pkg *ssa.Package) bool {
	cm, ok := f.Cmp()
	if !ok || cm.Op != token.NEQ {
		return false
	}
	x, y := cm.X, cm.Y
	if ir.IsNilConst(x) {
		x, y = y, x
	}
	if !ir.IsNilConst(y) {
		return false
	}
	ex, ok := ir.Resolve(x).(*ssa.Extract)
	if !ok || !ir.IsErrorType(ex.Type()) {
		return false
	}
	call, ok := ex.Tuple.(*ssa.Call)
	if !ok {
		return false
	}
	cal := ir.StaticCallee(call)
	return cal != nil && cal.Pkg == pkg && decoderLikeB(cal)
}

// countOutOfContractV: fact f says that the consumed count a decoder of the package reported on success is below 1 or
// above len(buf) - what C16.R6 excludes for that decoder (every success exit reports a count in [1, len(buf)] for an item
// of at least one byte). A defensive "must not happen" exit behind such a test rejects nothing an encoder produces.
func countOutOfContractV(f ir.Fact, pkg *ssa.Package, buf ssa.Value) bool {
	cm, ok := f.Cmp()
	if !ok {
		return false
	}
	isCount := func(v ssa.Value) bool {
		ex, ok := ir.Resolve(v).(*ssa.Extract)
		if !ok || ex.Index != 0 || !isIntTypeB(ex.Type()) {
			return false
		}
		call, ok := ex.Tuple.(*ssa.Call)
		if !ok {
			return false
		}
		cal := ir.StaticCallee(call)
		return cal != nil && cal.Pkg == pkg && decoderLikeB(cal)
	}
	op, x, y := cm.Op, cm.X, cm.Y
	if !isCount(x) {
		x, y, op = y, x, ir.SwapOp(op)
	}
	if !isCount(x) {
		return false
	}
	if k, isC := ir.ConstInt(y); isC {
		return (op == token.LSS && k <= 1) || (op == token.LEQ && k <= 0) || (op == token.EQL && k <= 0)
	}
	return op == token.GTR && isLenOf(y, buf)
}

// lengthRejectionsAreStrict is C15.S15.
func (c *Ctx) lengthRejectionsAreStrict() {
	const construct = "a length is rejected only when it exceeds what remains"
	n := 0
	for _, d := range xbinaryFuncs(c, "Unmarshal") {
		rs := d.Signature.Results()
		if rs.Len() != 3 || !isByteSeqB(rs.At(1).Type()) || ir.ErrResultIndex(d) < 0 {
			continue
		}
		fn := implOfB(d)
		buf := bufParam(fn, false)
		if buf == nil {
			continue
		}
		good := func(fs []ir.Fact) bool {
			for _, f := range fs {
				if headerFailedV(f, fn.Pkg) || c.lengthExceedsV(f, fn, buf) || countOutOfContractV(f, fn.Pkg, buf) {
					return true
				}
			}
			return false
		}
		var way func(b *ssa.BasicBlock, depth int) *ssa.BasicBlock
		way = func(b *ssa.BasicBlock, depth int) *ssa.BasicBlock {
			if good(factsB(b, 0)) {
				return nil
			}
			if depth > 3 || len(b.Preds) == 0 {
				return b
			}
			for _, p := range b.Preds {
				fs := append([]ir.Fact{}, factsB(p, 0)...)
				if ef := ir.EdgeFact(p, b); ef != nil {
					fs = append(fs, *ef)
				}
				if good(fs) {
					continue
				}
				if len(p.Succs) == 1 {
					if bad := way(p, depth+1); bad != nil {
						return bad
					}
					continue
				}
				return p
			}
			return nil
		}
		for _, ep := range exitsOfB(fn) {
			if exitClassB(fn, ep) == ir.ErrNil {
				continue
			}
			n++
			if good(ep.Facts) {
				c.Decide("C15.S15", d, construct, ep.Ret, true, "")
				continue
			}
			bad := way(ep.Block, 0)
			where := ""
			if bad != nil && len(bad.Instrs) > 0 {
				where = " (arriving from " + c.P.InstrPos(bad.Instrs[len(bad.Instrs)-1]) + ")"
			}
			c.Decide("C15.S15", d, construct, ep.Ret, bad == nil,
				d.Name()+" can fail on a way"+where+" on which neither the header decoder failed nor a test says that the announced length is strictly greater than len(buf) minus the header: an item whose length is <= what remains (the empty value as the last item of the input, a body that ends exactly at the end) is refused although the encoders produce it - decode(encode(x)) fails and a concatenation ending in it does not decode back")
		}
	}
	c.R.Floor("C15.S15", 2)
}
