package rules

import (
	"go/token"
	"go/types"
	"sort"
	"strings"

	"golang.org/x/tools/go/ssa"

	"verif/checker/ir"
)

// ---------------------------------------------------------------------------
// Round g, seed C01-g1: the renewal steps aside under a "released" word of the Locker.
//
// C05.L13 / C01.L5 accept, besides the held flag and a tenure generation, a *tenure-over word*: a word W of the Locker
// (other than the held flag) of which the package shows, structurally,
//   (a) Unlock stores the constant(s) U into it, before it puts the local token back (a store behind the send could
//       overwrite the reset of the next tenure);
//   (b) EVERY way of starting a tenure resets it: in every function of the Locker that takes the local token, every path
//       from the token receive to a possible success exit stores a constant A into it (sibling agreement of the token
//       helpers: what one of them resets at the start of a tenure the others reset too);
//   (c) nobody else writes it (the constructor excepted), and U and A do not overlap.
// Then "W reads as U" holds only between an Unlock and the next acquisition - the tenure the renewal was armed in is over -
// and an exit of the renewal under a test that U satisfies and A does not is justified. When (b) fails for one sibling,
// a tenure started through it inherits U from the previous tenure: its renewal steps aside at once, nobody renews, the
// record lapses under the holder and a second caller acquires (C01) - the exit is then NOT justified and the
// obligation names the word and the sibling.

type tenureWordVG struct {
	ok       bool
	unlockV  []int64
	acquireV []int64
	why      string
}

// constStoreVG: in stores a constant into the Locker word f (plain store, atomic Store / Swap, or the new value of a
// compare-and-swap); isStore: it writes the word at all.
func (r *lockRoles) constStoreVG(in ssa.Instruction, f *types.Var) (k int64, isConst, isStore bool) {
	if _, val, ok := storeToField(in, f); ok {
		k, isC := ir.ConstInt(val)
		return k, isC, true
	}
	op, addr, args, ok := ir.AtomicCall(in)
	if !ok {
		return 0, false, false
	}
	if _, isF := fieldAddrOf(addr, f); !isF {
		return 0, false, false
	}
	switch op {
	case "Store", "Swap":
		if len(args) == 1 {
			k, isC := ir.ConstInt(args[0])
			return k, isC, true
		}
	case "CompareAndSwap":
		if len(args) == 2 {
			k, isC := ir.ConstInt(args[1])
			return k, isC, true
		}
	case "Add", "And", "Or":
		return 0, false, true
	}
	return 0, false, false
}

// tenureWordVG analyses the Locker word f as a tenure-over word.
func (r *lockRoles) tenureWordVG(f *types.Var) tenureWordVG {
	res := tenureWordVG{}
	takesToken := map[*ssa.Function]bool{}
	for _, fn := range r.lockerFns {
		ir.Instrs(fn, func(in ssa.Instruction) {
			if r.tokenRecv(in) {
				takesToken[fn] = true
			}
		})
	}
	has := func(l []int64, k int64) bool {
		for _, x := range l {
			if x == k {
				return true
			}
		}
		return false
	}
	for _, fn := range r.all {
		fn := fn
		bad := ""
		ir.Instrs(fn, func(in ssa.Instruction) {
			k, isConst, isStore := r.constStoreVG(in, f)
			if !isStore {
				return
			}
			switch {
			case fn == r.newLocker:
			case !isConst:
				bad = "it is written with a value that is not a constant in " + ir.FnName(fn)
			case fn == r.unlock:
				if !has(res.unlockV, k) {
					res.unlockV = append(res.unlockV, k)
				}
			case takesToken[fn]:
				if !has(res.acquireV, k) {
					res.acquireV = append(res.acquireV, k)
				}
			default:
				bad = "it is also written by " + ir.FnName(fn)
			}
		})
		if bad != "" {
			res.why = bad
			return res
		}
	}
	if len(res.unlockV) == 0 {
		res.why = "Unlock does not set it"
		return res
	}
	for _, k := range res.unlockV {
		if has(res.acquireV, k) {
			res.why = "the value Unlock stores is also stored where a tenure starts"
			return res
		}
	}
	// (a) in Unlock the word is set before the token goes back
	var lateStore ssa.Instruction
	ir.Instrs(r.unlock, func(in ssa.Instruction) {
		if !r.tokenSend(in) || lateStore != nil {
			return
		}
		w, _ := (ir.Query{Fn: r.unlock, From: in, Target: func(x ssa.Instruction) bool {
			_, _, isStore := r.constStoreVG(x, f)
			return isStore
		}}).Find()
		if w != nil {
			lateStore = w.End
		}
	})
	if lateStore != nil {
		res.why = "Unlock sets it after the local token went back (the store can overwrite the reset of the next tenure)"
		return res
	}
	// (b) every way of taking the token resets it before a success exit
	var fns []*ssa.Function
	for fn := range takesToken {
		fns = append(fns, fn)
	}
	sort.Slice(fns, func(i, j int) bool { return fns[i].Pos() < fns[j].Pos() })
	var missing []string
	for _, fn := range fns {
		fn := fn
		isReset := func(x ssa.Instruction) bool {
			k, isConst, isStore := r.constStoreVG(x, f)
			return isStore && isConst && has(res.acquireV, k)
		}
		success := func(x ssa.Instruction) bool {
			ret, ok := x.(*ssa.Return)
			return ok && ir.IsReturn(x) && possibleSuccessExit(fn, ret)
		}
		w, err := r.afterTokenVG(fn, isReset, func(ret *ssa.Return, val *ir.Valuation) bool {
			return success(ret) && !exitFailsOnPathYA(fn, ret, val)
		})
		found := w != nil || err != nil
		if found {
			missing = append(missing, ir.FnName(fn))
		}
	}
	if len(missing) > 0 {
		res.why = "Unlock sets it, but not every way of starting a tenure resets it: " + strings.Join(missing, ", ") + " can take the local token and succeed without storing into it, so a tenure started there inherits the value the previous Unlock left and its renewal steps aside at once"
		return res
	}
	res.ok = true
	return res
}

// lockerWordLoadVG: v is an atomic (or plain) read of a word of the Locker other than the held flag; returns the field.
func (r *lockRoles) lockerWordLoadVG(v ssa.Value) *types.Var {
	v = ir.Resolve(v)
	var addr ssa.Value
	switch x := v.(type) {
	case *ssa.Call:
		op, a, _, isAtomic := ir.AtomicCall(x)
		if !isAtomic || op != "Load" {
			return nil
		}
		addr = a
	case *ssa.UnOp:
		if x.Op != token.MUL {
			return nil
		}
		addr = x.X
	default:
		return nil
	}
	fa, ok := addr.(*ssa.FieldAddr)
	if !ok || namedOf(fa.X.Type()) != r.locker {
		return nil
	}
	f := ir.FieldOf(fa)
	if f == nil || f == r.heldF {
		return nil
	}
	if b, isB := f.Type().Underlying().(*types.Basic); !isB || b.Info()&(types.IsInteger|types.IsBoolean) == 0 {
		if !strings.HasPrefix(types.TypeString(f.Type(), nil), "sync/atomic.") {
			return nil
		}
	}
	return f
}

// tenureWordTestVG decodes a comparison as a test of a Locker word against a constant: over = the word is an
// established tenure-over word and the comparison holds for what Unlock stores and not for what an acquisition stores;
// word: the field that is tested (nil: not such a test).
func (r *lockRoles) tenureWordTestVG(cm ir.Cmp) (over bool, word *types.Var, why string) {
	x, y, op := cm.X, cm.Y, cm.Op
	if _, isC := ir.ConstInt(x); isC {
		x, y, op = y, x, ir.SwapOp(op)
	}
	k, isC := ir.ConstInt(y)
	if !isC {
		return false, nil, ""
	}
	f := r.lockerWordLoadVG(x)
	if f == nil {
		return false, nil, ""
	}
	tw := r.tenureWordVG(f)
	if !tw.ok {
		return false, f, tw.why
	}
	sat := func(v int64) bool {
		switch op {
		case token.EQL:
			return v == k
		case token.NEQ:
			return v != k
		case token.LSS:
			return v < k
		case token.LEQ:
			return v <= k
		case token.GTR:
			return v > k
		case token.GEQ:
			return v >= k
		}
		return false
	}
	for _, u := range tw.unlockV {
		if !sat(u) {
			return false, f, "the test does not hold for the value Unlock stores"
		}
	}
	for _, a := range tw.acquireV {
		if sat(a) {
			return false, f, "the test also holds for the value an acquisition stores"
		}
	}
	return true, f, ""
}

// tenureWordDiagnosisVG: for the message of a violated L13: the Locker words the function tests against constants and
// why they do not justify an exit.
func (r *lockRoles) tenureWordDiagnosisVG(fn *ssa.Function) string {
	var notes []string
	seen := map[*types.Var]bool{}
	ir.Instrs(fn, func(in ssa.Instruction) {
		iff, ok := in.(*ssa.If)
		if !ok {
			return
		}
		cm, isCmp := (ir.Fact{Cond: iff.Cond, True: true}).Cmp()
		if !isCmp {
			return
		}
		if _, f, why := r.tenureWordTestVG(cm); f != nil && why != "" && !seen[f] {
			seen[f] = true
			notes = append(notes, "the word '"+f.Name()+"' of the Locker does not tell that the tenure is over: "+why)
		}
	})
	if len(notes) == 0 {
		return ""
	}
	return " [" + strings.Join(notes, "; ") + "]"
}
