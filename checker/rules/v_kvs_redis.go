package rules

import (
	"fmt"
	"go/constant"
	"go/token"
	"go/types"
	"os"
	"strings"

	"golang.org/x/tools/go/ssa"

	"verif/checker/ir"
)

// Rules of the redis kvs.Storage backend added after seeded round f (C03-f3, C06-f3).

// ---------------------------------------------------------------------------
// success only through the write (C03.R18 / C02.R14)

// redisWritesV decides "every exit of f that can report success lies behind the command that writes the record".
//
// A write instruction is
//
//	(a) a go-redis command that stores a value under a key (SET, SETNX, SETEX, SETXX, GETSET, SetArgs with the encoded
//	    record as value; MSET, MSETNX) - a command queued on a pipeline obtained from TxPipeline()/Pipeline() counts only
//	    when every way from it to an exit passes the Exec of that pipeline;
//	(b) a call of go-redis' Watch / TxPipelined / Pipelined with a function every success exit of which lies behind a write
//	    instruction (trusted: these run the function and hand its error - or an error of their own - back);
//	(c) a call of a function of the backend for which the same holds, or of a function of the backend that is handed a
//	    function literal for which it holds and that invokes the literal on every way to an exit that can report success
//	    (retry / with-style wrappers).
//
// An exit can report success unless its error is provably non-nil there: by the branch facts, on the path (per-path
// valuation: flags, results merged in single-exit style), through the backend's error mapping (which keeps a non-nil
// error non-nil - decided on its body), or as ctx.Err() behind a ctx.Err() the path has seen non-nil.
type redisWritesV struct {
	r       *redisRoles
	memo    map[*ssa.Function]int // 1: success only behind a write, -1: not (or not decided), 2: being computed
	mapKeep int                   // the error mapping keeps non-nil errors non-nil: 1 yes, -1 no, 0 not computed
}

var redisValueWritesV = []string{"Set", "SetNX", "SetEX", "SetXX", "GetSet", "SetArgs"}
var redisBatchWritesV = []string{"MSet", "MSetNX"}

func rootFnV(fn *ssa.Function) *ssa.Function {
	for fn != nil && fn.Parent() != nil {
		fn = fn.Parent()
	}
	return fn
}

func samePkgV(a, b *ssa.Function) bool {
	ra, rb := rootFnV(a), rootFnV(b)
	return ra != nil && rb != nil && ra.Pkg != nil && ra.Pkg == rb.Pkg
}

// funcValueV: the function a value denotes (a literal with its bindings, or a declared function), or nil.
func funcValueV(v ssa.Value) *ssa.Function {
	switch x := v.(type) {
	case *ssa.MakeClosure:
		f, _ := x.Fn.(*ssa.Function)
		return f
	case *ssa.Function:
		return x
	}
	return nil
}

// writeCmd: in is a go-redis command that stores the encoded record (or a batch) under its key, and - when it is only
// queued on a pipeline created here - the pipeline is executed on every way to an exit.
func (w *redisWritesV) writeCmd(in ssa.Instruction) bool {
	var call *ssa.Call
	for _, n := range redisValueWritesV {
		if c := redisCmd(in, n); c != nil {
			a := cmdArgs(c)
			if len(a) < 2 || (w.r.recordCellOf(a[1]) == nil && !handedInV(a[1])) {
				return false // not the record's value
			}
			call = c
		}
	}
	for _, n := range redisBatchWritesV {
		if c := redisCmd(in, n); c != nil {
			call = c
		}
	}
	if call == nil {
		return false
	}
	var pipe ssa.Value
	for _, o := range ir.Origins(ir.Recv(call)) {
		if pc, ok := o.(*ssa.Call); ok && (redisCmd(pc, "TxPipeline") != nil || redisCmd(pc, "Pipeline") != nil) {
			pipe = pc
		}
	}
	if pipe == nil {
		return true
	}
	isExec := func(x ssa.Instruction) bool {
		ex := redisCmd(x, "Exec")
		if ex == nil {
			return false
		}
		for _, o := range ir.Origins(ir.Recv(ex)) {
			if o == pipe {
				return true
			}
		}
		return false
	}
	wit, err := (ir.Query{Fn: call.Parent(), From: call, Block: isExec, Target: ir.IsExit}).Find()
	return err == nil && wit == nil
}

// handedInV: the value comes in through a parameter of the function (an extracted "send" helper that is handed the
// encoded record): what it is, is decided where it is passed.
func handedInV(v ssa.Value) bool {
	for _, o := range ir.Origins(v) {
		if _, ok := ir.Resolve(o).(*ssa.Parameter); ok {
			return true
		}
	}
	_, ok := ir.Resolve(v).(*ssa.Parameter)
	return ok
}

// mayWrite: fn (its literals, the backend functions it calls) contains a write command.
func (w *redisWritesV) mayWrite(fn *ssa.Function) bool {
	return ir.MayReach(fn, func(in ssa.Instruction) bool {
		for _, n := range append(append([]string{}, redisValueWritesV...), redisBatchWritesV...) {
			if redisCmd(in, n) != nil {
				return true
			}
		}
		return false
	}, 4)
}

// writesAside: fn starts (go) or defers a function that can issue a write command.
func (w *redisWritesV) writesAside(fn *ssa.Function) bool {
	found := false
	ir.Instrs(fn, func(in ssa.Instruction) {
		var cc *ssa.CallCommon
		switch x := in.(type) {
		case *ssa.Go:
			cc = &x.Call
		case *ssa.Defer:
			cc = &x.Call
		default:
			return
		}
		if l := funcValueV(cc.Value); l != nil && len(l.Blocks) > 0 && w.mayWrite(l) {
			found = true
		}
	})
	return found
}

// mapKeepsNonNil: the backend's error mapping returns nil only for a nil argument.
func (w *redisWritesV) mapKeepsNonNil() bool {
	if w.mapKeep != 0 {
		return w.mapKeep > 0
	}
	w.mapKeep = -1
	fn := w.r.mapErr
	if fn == nil || len(fn.Params) != 1 {
		return false
	}
	p := fn.Params[0]
	for _, e := range ir.ExitPoints(fn) {
		rv := ir.Resolve(e.Result(0))
		switch {
		case rv == ssa.Value(p):
		case rv != nil && globalOf(rv) != nil:
		case rv != nil && knownNonNilErr(rv):
		case ir.IsNilConst(rv):
			underNil := e.HasFact(func(f ir.Fact) bool {
				cm, ok := f.Cmp()
				if !ok || cm.Op != token.EQL {
					return false
				}
				x, y := ir.Resolve(cm.X), ir.Resolve(cm.Y)
				return (x == ssa.Value(p) && ir.IsNilConst(y)) || (y == ssa.Value(p) && ir.IsNilConst(x))
			})
			if !underNil {
				return false
			}
		default:
			return false
		}
	}
	w.mapKeep = 1
	return true
}

// nonNilErr: the error value v is provably non-nil at block b on the path described by val.
func (w *redisWritesV) nonNilErr(fn *ssa.Function, v ssa.Value, b *ssa.BasicBlock, val *ir.Valuation, depth int) bool {
	if v == nil || depth > 3 {
		return false
	}
	if ir.ClassifyErr(v, b) == ir.ErrNonNil || knownNonNilErr(v) {
		return true
	}
	if val != nil {
		if isNil, known := val.KnownIsNil(v); known && !isNil {
			return true
		}
		// the alternative this path returns (results merged in single-exit style)
		if sel := val.Selected(v); sel != v {
			v = sel
			if ir.ClassifyErr(v, b) == ir.ErrNonNil || knownNonNilErr(v) {
				return true
			}
		}
	}
	call, ok := ir.Resolve(v).(*ssa.Call)
	if !ok {
		return false
	}
	if w.r.mapErr != nil && ir.StaticCallee(call) == w.r.mapErr && len(call.Call.Args) == 1 && w.mapKeepsNonNil() {
		return w.nonNilErr(fn, call.Call.Args[0], call.Block(), val, depth+1)
	}
	if ir.CalleeFullName(call) == "(context.Context).Err" && val != nil {
		// a context that reported an error keeps reporting it
		found := false
		ir.Instrs(fn, func(x ssa.Instruction) {
			c2, isCall := x.(*ssa.Call)
			if !isCall || c2 == call || ir.CalleeFullName(c2) != "(context.Context).Err" || !same(c2.Call.Value, call.Call.Value) {
				return
			}
			if isNil, known := val.KnownIsNil(c2); known && !isNil {
				found = true
			}
		})
		return found
	}
	return false
}

// failing: the return cannot report success on this path.
func (w *redisWritesV) failing(fn *ssa.Function, ret *ssa.Return, val *ir.Valuation) bool {
	idx := ir.ErrResultIndex(fn)
	if idx < 0 {
		rs := fn.Signature.Results()
		if rs.Len() > 0 && types.Identical(rs.At(rs.Len()-1).Type(), types.Typ[types.Bool]) {
			v := ir.ResultValue(ret, rs.Len()-1)
			if k, known := val.Known(v); known && !k {
				return true
			}
			if cv := ir.ConstVal(ir.Resolve(val.Selected(v))); cv != nil && cv.Kind() == constant.Bool && !constant.BoolVal(cv) {
				return true
			}
		}
		return false
	}
	for _, v := range []ssa.Value{ir.ResultValue(ret, idx), ret.Results[idx]} {
		if w.nonNilErr(fn, v, ret.Block(), val, 0) {
			return true
		}
	}
	return false
}

// successWithout searches a path of fn from its entry to an exit that can report success and passes no instruction
// for which stop holds.
func (w *redisWritesV) successWithout(fn *ssa.Function, stop func(ssa.Instruction) bool) (*ir.Witness, error) {
	return (ir.PathQuery{Fn: fn, Stop: stop,
		Target: func(x ssa.Instruction, val *ir.Valuation) bool {
			ret, isRet := x.(*ssa.Return)
			if !isRet || x.Block() == fn.Recover {
				return false
			}
			if w.failing(fn, ret, val) {
				return false
			}
			return lenFactsHoldZB(fn, val) && constComparisonsHoldYB(fn, val)
		}}).Find()
}

// invokesOnSuccess: every exit of g that can report success lies behind an invocation of its parameter p.
func (w *redisWritesV) invokesOnSuccess(g *ssa.Function, p *ssa.Parameter) bool {
	wit, err := w.successWithout(g, func(x ssa.Instruction) bool {
		call, ok := x.(*ssa.Call)
		return ok && !call.Call.IsInvoke() && ir.Resolve(call.Call.Value) == ssa.Value(p)
	})
	return err == nil && wit == nil
}

// writeInstr: see redisWritesV.
func (w *redisWritesV) writeInstr(fn *ssa.Function, in ssa.Instruction, depth int) bool {
	if w.writeCmd(in) {
		return true
	}
	call, ok := in.(*ssa.Call)
	if !ok || depth > 4 {
		return false
	}
	if redisCmd(call, "Watch") != nil || redisCmd(call, "TxPipelined") != nil || redisCmd(call, "Pipelined") != nil {
		for _, a := range call.Call.Args {
			if l := funcValueV(a); l != nil && len(l.Blocks) > 0 && w.writes(l, depth+1) {
				return true
			}
		}
		return false
	}
	cal := ir.StaticCallee(call)
	if cal == nil || len(cal.Blocks) == 0 || call.Call.IsInvoke() || !samePkgV(cal, fn) {
		return false
	}
	if w.writes(cal, depth+1) {
		return true
	}
	if len(call.Call.Args) == len(cal.Params) {
		for i, a := range call.Call.Args {
			if l := funcValueV(a); l != nil && len(l.Blocks) > 0 && w.invokesOnSuccess(cal, cal.Params[i]) && w.writes(l, depth+1) {
				return true
			}
		}
	}
	return false
}

// writes: every exit of fn that can report success lies behind a write instruction.
func (w *redisWritesV) writes(fn *ssa.Function, depth int) bool {
	switch w.memo[fn] {
	case 1:
		return true
	case -1, 2:
		return false
	}
	w.memo[fn] = 2
	wit, err := w.successWithout(fn, func(x ssa.Instruction) bool { return w.writeInstr(fn, x, depth) })
	if err == nil && wit == nil {
		w.memo[fn] = 1
		return true
	}
	w.memo[fn] = -1
	if os.Getenv("VERIF_DEBUG") != "" {
		fmt.Fprintf(os.Stderr, "debug: writes(%s) = false: err=%v witness=%v\n", fn.Name(), err, wit)
		if wit != nil {
			fmt.Fprintf(os.Stderr, "debug:   blocks %v end %v\n", wit.Blocks, wit.End)
		}
	}
	return false
}

// redisSuccessWritten: the operations of the redis backend that are handed ONE record to store - Create, Put,
// CasByVersion, and every private function of the backend with a record parameter that can issue a write command (the
// per-record step of PutMany, an extracted "store" helper) - report success only behind the command that writes the
// record: no path from the entry to an exit whose error can be nil avoids a write instruction (see redisWritesV). This is
// the redis side of what the in-memory rules ask of every success exit ("stores the record"); PutMany's own obligation
// (a pass over the whole batch that writes every record, C02.R13) counts a call of such an operation as the write of
// the element, so the two together cover the batch. An exit that reports success without the command - a shortcut for a
// record that "nobody may observe" (already expired), for an unchanged value, for an empty value - leaves whatever is
// stored under the key: the old value under the old version stays readable and listable, a CAS with the old version
// still wins, Create still says ErrExist, while the caller holds a new version that was never stored; the in-memory
// backend replaces the record in each of these cases.
func (c *Ctx) redisSuccessWritten(r *redisRoles, rule string) {
	w := &redisWritesV{r: r, memo: map[*ssa.Function]int{}}
	isStorage := map[*ssa.Function]string{}
	for n, fn := range r.storage {
		isStorage[fn] = n
	}
	takesRecord := func(fn *ssa.Function) bool {
		for _, p := range fn.Params {
			t := p.Type()
			if pt, ok := t.Underlying().(*types.Pointer); ok {
				t = pt.Elem()
			}
			if n, ok := t.(*types.Named); ok && n.Origin() == r.recordT {
				return true
			}
		}
		return false
	}
	const construct = "success is reported only behind the command that writes the record"
	const detail = "the operation can report success on a path that passes no redis command writing the record (nor a transaction callback or helper every success exit of which does): what is stored under the key - also a live record - survives a write that reported success; Get, GetMany and ListKeys keep answering with the old value under the old version, a CasByVersion with the old version still wins, Create reports ErrExist, while the in-memory backend (and the contract) has replaced the record"
	n := 0
	for _, fn := range r.all {
		if fn.Parent() != nil || len(fn.Blocks) == 0 {
			continue
		}
		name, storage := isStorage[fn]
		switch {
		case storage && (name == "Create" || name == "Put" || name == "CasByVersion"):
		case storage:
			continue
		case fn == r.encode || fn == r.toProto || fn == r.fromProto:
			continue
		case fn.Object() == nil || fn.Object().Exported() || !takesRecord(fn) || !w.mayWrite(fn):
			continue
		}
		n++
		wit, err := w.successWithout(fn, func(x ssa.Instruction) bool { return w.writeInstr(fn, x, 0) })
		switch {
		case err != nil:
			c.Undecided(rule, fn, construct, nil, err.Error())
		case wit != nil && w.writesAside(fn):
			c.Undecided(rule, fn, construct, wit.End, "the record is written by a function that is started with go or deferred: whether the success exits wait for it is not followed")
		case wit != nil:
			c.Decide(rule, fn, construct, wit.End, false, detail+": path "+wit.String(c.P))
		default:
			c.Decide(rule, fn, construct, nil, true, "")
		}
	}
	if n < 3 {
		c.R.Errorf("%s matched %d single-record write operations of the redis backend, below its floor of 3 (Create, Put, CasByVersion)", rule, n)
	}
}

// ---------------------------------------------------------------------------
// the relative TTL is computed for THIS issue of the command (C06.R12 / C03.R19)

// redisTTLFresh: redis counts a key's lifetime from the moment the command arrives, so the TTL handed to SET / SETNX is
// "ExpiresAt minus now" for the now of THIS issue of the command. The rule follows the TTL argument back to the clock
// readings it is computed from (time.Now(), time.Until, time.Since, a backend function that reads the clock; through
// arithmetic, conversions, the TTL mapping, local variables, captured variables and parameters of private helpers) and
// asks, per command:
//
//   - in the function that issues the command, no path from a wait (blocking select, channel receive / send, Sleep,
//     WaitGroup/Cond wait) to the command avoids the clock reading, and no path from the command back to itself does (a
//     retry loop that re-sends the TTL computed before the first attempt);
//   - when the reading was taken outside the function literal that issues the command (the TTL, or the moment, is
//     captured), the same holds in the enclosing function for the place the literal is handed over, and whoever is
//     handed the literal invokes it once and not behind a wait: a go-redis function (Watch, TxPipelined: trusted) or a
//     function of the repository whose body shows it (no path from one invocation of the parameter to another, no wait
//     before an invocation);
//   - a TTL handed in through a parameter of a private helper is followed to the helper's call sites.
//
// A TTL that is stale by the time spent waiting or in failed attempts keeps the key in redis that much longer than the
// record's ExpiresAt (which is also stored in the value and returned to callers): Get, GetMany, CasByVersion, Delete,
// Create, ListKeys and the polling waiter treat the record as present after its expiration has passed - and the
// in-memory backend, which compares ExpiresAt itself, does not.
type ttlFreshV struct {
	r   *redisRoles
	all []*ssa.Function
}

// clockSrcV is one origin of the TTL: a reading of the clock, or a parameter the moment / the TTL is handed in through.
type clockSrcV struct {
	read  ssa.Instruction
	param *ssa.Parameter
}

func (s clockSrcV) owner() *ssa.Function {
	if s.read != nil {
		return s.read.Parent()
	}
	return s.param.Parent()
}

func isClockCallV(in ssa.Instruction) bool {
	call, ok := in.(*ssa.Call)
	if !ok {
		return false
	}
	switch ir.CalleeFullName(call) {
	case "time.Now", "time.Until", "time.Since":
		return true
	}
	return false
}

// timeishV: a moment or a duration (by value).
func timeishV(t types.Type) bool {
	if _, isPtr := t.Underlying().(*types.Pointer); isPtr {
		return false
	}
	return ir.IsNamed(t, "time", "Time") || ir.IsNamed(t, "time", "Duration")
}

// sources follows v (a TTL, a duration, a moment) back to the clock readings and parameters it is computed from.
// stale: it is (also) computed from a moment that is no reading of the clock (a field, a global).
func (t *ttlFreshV) sources(v ssa.Value) (srcs []clockSrcV, stale, undecided string) {
	seen := map[ssa.Value]bool{}
	isExpiryPtr := func(p ssa.Value) bool {
		// the record's expiration: rec.ExpiresAt, or a *time.Time parameter (the TTL mapping's first argument)
		if ir.LoadedField(p) == t.r.recExpires {
			return true
		}
		prm, ok := ir.Resolve(p).(*ssa.Parameter)
		return ok && ir.IsNamed(prm.Type(), "time", "Time")
	}
	var visit func(v ssa.Value, d int)
	cell := func(a ssa.Value, d int) {
		for _, st := range ir.StoresTo(a) {
			visit(st.Val, d+1)
		}
	}
	visit = func(v ssa.Value, d int) {
		if v == nil || seen[v] {
			return
		}
		seen[v] = true
		if d > 32 {
			undecided = "the origin of the TTL could not be followed"
			return
		}
		switch x := v.(type) {
		case *ssa.Const:
		case *ssa.Parameter:
			srcs = append(srcs, clockSrcV{param: x})
		case *ssa.Phi:
			for _, e := range x.Edges {
				visit(e, d+1)
			}
		case *ssa.BinOp:
			visit(x.X, d+1)
			visit(x.Y, d+1)
		case *ssa.Convert:
			visit(x.X, d+1)
		case *ssa.ChangeType:
			visit(x.X, d+1)
		case *ssa.MakeInterface:
			visit(x.X, d+1)
		case *ssa.Extract:
			visit(x.Tuple, d+1)
		case *ssa.Field:
			if ir.IsNamed(x.Type(), "time", "Time") && timeishV(x.Type()) {
				visit(x.X, d+1)
			}
		case *ssa.UnOp:
			if x.Op != token.MUL {
				visit(x.X, d+1)
				return
			}
			switch a := x.X.(type) {
			case *ssa.Alloc:
				cell(a, d)
			case *ssa.FreeVar:
				b := ssa.Value(a)
				for i := 0; i < 8; i++ {
					fv, isFV := b.(*ssa.FreeVar)
					if !isFV {
						break
					}
					b = ir.BindingOf(fv)
				}
				if al, ok := b.(*ssa.Alloc); ok {
					cell(al, d)
				} else {
					undecided = "the TTL is read from a captured variable whose binding is not found"
				}
			default:
				if isExpiryPtr(x.X) {
					return // *ExpiresAt: the absolute expiration, not a "now"
				}
				if !ir.IsNamed(x.Type(), "time", "Time") || !timeishV(x.Type()) {
					// no moment: a flag, a pointer, a duration kept in a field (a configured bound - a relative TTL parked
					// in a field is not told apart from it and is left to C06.R3)
					return
				}
				stale = "a moment kept in a field, a global or behind a pointer (not a reading of the clock taken for this command)"
			}
		case *ssa.Call:
			if isClockCallV(x) {
				srcs = append(srcs, clockSrcV{read: x})
				return
			}
			if _, isBuiltin := x.Call.Value.(*ssa.Builtin); isBuiltin {
				for _, a := range x.Call.Args {
					visit(a, d+1)
				}
				return
			}
			cal := ir.StaticCallee(x)
			name := ir.CalleeFullName(x)
			switch {
			case cal != nil && len(cal.Blocks) > 0 && cal.Pkg != nil && strings.HasPrefix(cal.Pkg.Pkg.Path(), ir.Module):
				if ir.MayReach(cal, isClockCallV, 3) {
					srcs = append(srcs, clockSrcV{read: x}) // the callee reads the clock: the call is the reading
				}
				for _, a := range x.Call.Args {
					if timeishV(a.Type()) {
						visit(a, d+1)
					}
				}
			case strings.HasPrefix(name, "time.") || strings.HasPrefix(name, "(time.") || strings.HasPrefix(name, "(*time."):
				if ir.IsNamed(x.Type(), "time", "Time") && timeishV(x.Type()) && strings.HasPrefix(name, "time.") {
					return // a moment built from data (time.Unix, time.Date): no reading of the clock; whether the TTL may be computed from it is C06.R3's question
				}
				for _, a := range x.Call.Args {
					if timeishV(a.Type()) {
						visit(a, d+1)
					}
				}
				if x.Call.IsInvoke() && timeishV(x.Call.Value.Type()) {
					visit(x.Call.Value, d+1)
				}
			default:
				// any other call that yields a moment without being given one reads a clock (an injected clock function)
				given := false
				for _, a := range x.Call.Args {
					if timeishV(a.Type()) {
						given = true
					}
				}
				if !given && ir.IsNamed(x.Type(), "time", "Time") && timeishV(x.Type()) {
					srcs = append(srcs, clockSrcV{read: x})
					return
				}
				undecided = "the TTL is produced by a call that is not followed (" + name + ")"
			}
		default:
			undecided = "the origin of the TTL could not be followed"
		}
	}
	visit(v, 0)
	return
}

// staticSitesV lists the call sites of the private, declared function fn of the backend; ok is false when fn is used
// as a value somewhere (its callers are then not all known), is exported, is a method of the contract, or is never called.
func (t *ttlFreshV) staticSitesV(fn *ssa.Function) (sites []*ssa.Call, ok bool) {
	if fn.Parent() != nil || fn.Object() == nil || fn.Object().Exported() {
		return nil, false
	}
	for _, m := range t.r.storage {
		if m == fn {
			return nil, false
		}
	}
	escaped := false
	for _, caller := range t.all {
		ir.Instrs(caller, func(in ssa.Instruction) {
			if call, isCall := in.(*ssa.Call); isCall && ir.StaticCallee(call) == fn {
				if _, direct := call.Call.Value.(*ssa.Function); direct {
					sites = append(sites, call)
					return
				}
			}
			for _, op := range in.Operands(nil) {
				if op != nil && *op == ssa.Value(fn) {
					escaped = true
				}
			}
		})
	}
	return sites, !escaped && len(sites) > 0
}

const (
	ttlFreshOK = iota
	ttlStale
	ttlUndecided
)

// invokesOnce: the function h invokes its function-typed parameter p at most once per call and not behind a wait.
func (t *ttlFreshV) invokesOnce(h *ssa.Function, p *ssa.Parameter, depth int) (int, string) {
	if depth > 4 {
		return ttlUndecided, "the function literal is handed on too many times to be followed"
	}
	var calls []ssa.Instruction
	if refs := p.Referrers(); refs != nil {
		for _, ref := range *refs {
			switch x := ref.(type) {
			case *ssa.DebugRef:
			case *ssa.Call:
				if !x.Call.IsInvoke() && x.Call.Value == ssa.Value(p) {
					calls = append(calls, x)
					continue
				}
				if redisCall(x) {
					calls = append(calls, x) // go-redis runs it once (trusted)
					continue
				}
				cal := ir.StaticCallee(x)
				if cal == nil || len(cal.Blocks) == 0 || x.Call.IsInvoke() || len(x.Call.Args) != len(cal.Params) {
					return ttlUndecided, "the function literal is handed on to a function that is not followed"
				}
				for i, a := range x.Call.Args {
					if a == ssa.Value(p) {
						if v, why := t.invokesOnce(cal, cal.Params[i], depth+1); v != ttlFreshOK {
							return v, why
						}
					}
				}
				calls = append(calls, x)
			default:
				return ttlUndecided, "the function literal is stored or started (go / defer) by " + h.Name() + "(): when it runs is not known"
			}
		}
	}
	isCall := func(x ssa.Instruction) bool { return containsInstr(calls, x) }
	for _, c := range calls {
		w, err := (ir.Query{Fn: h, From: c, Target: isCall}).Find()
		if err != nil {
			return ttlUndecided, err.Error()
		}
		if w != nil {
			return ttlStale, h.Name() + "() invokes the function literal it is handed repeatedly (a retry loop): every further invocation re-sends the command with the TTL computed before the first one"
		}
	}
	verdict, why := ttlFreshOK, ""
	ir.Instrs(h, func(pk ssa.Instruction) {
		if verdict != ttlFreshOK || !isParkZB(pk) {
			return
		}
		w, err := (ir.Query{Fn: h, From: pk, Target: isCall}).Find()
		switch {
		case err != nil:
			verdict, why = ttlUndecided, err.Error()
		case w != nil:
			verdict, why = ttlStale, h.Name()+"() invokes the function literal it is handed after a wait (select / timer / channel / sleep): the command is sent with the TTL computed before the wait"
		}
	})
	return verdict, why
}

// fresh: the TTL used at instruction at of fn, computed from srcs, is fresh (see redisTTLFresh).
func (t *ttlFreshV) fresh(fn *ssa.Function, at ssa.Instruction, srcs []clockSrcV, depth int) (int, string) {
	if depth > 5 {
		return ttlUndecided, "the origin of the TTL could not be followed"
	}
	var reads []ssa.Instruction
	var params []*ssa.Parameter
	var outer []clockSrcV
	for _, s := range srcs {
		switch {
		case s.owner() == fn && s.read != nil:
			reads = append(reads, s.read)
		case s.owner() == fn:
			params = append(params, s.param)
		default:
			anc := false
			for f := fn.Parent(); f != nil; f = f.Parent() {
				if f == s.owner() {
					anc = true
				}
			}
			if !anc {
				return ttlUndecided, "the TTL is computed from a value written in another function (" + s.owner().Name() + ")"
			}
			outer = append(outer, s)
		}
	}
	// in this function: no wait and no way round between the reading and the command
	isRead := func(x ssa.Instruction) bool { return containsInstr(reads, x) }
	isAt := func(x ssa.Instruction) bool { return x == at }
	verdict, why := ttlFreshOK, ""
	ir.Instrs(fn, func(pk ssa.Instruction) {
		if verdict != ttlFreshOK || !isParkZB(pk) || pk == at {
			return
		}
		w, err := (ir.Query{Fn: fn, From: pk, Block: isRead, Target: isAt}).Find()
		switch {
		case err != nil:
			verdict, why = ttlUndecided, err.Error()
		case w != nil:
			verdict, why = ttlStale, "the goroutine waits (select / timer / channel / sleep) between the clock reading the TTL is computed from and the command: the TTL is too long by the time waited"
		}
	})
	if verdict != ttlFreshOK {
		return verdict, why
	}
	if w, err := (ir.Query{Fn: fn, From: at, Block: isRead, Target: isAt}).Find(); err != nil {
		return ttlUndecided, err.Error()
	} else if w != nil {
		return ttlStale, "the command is issued again (a loop) with the TTL computed from the same clock reading: the TTL of every further attempt is too long by the time the earlier ones took"
	}
	// handed in through a parameter: the call sites
	if len(params) > 0 {
		sites, ok := t.staticSitesV(fn)
		if !ok {
			return ttlUndecided, "the TTL (or the moment it is computed from) is handed in through a parameter of " + fn.Name() + "(), whose callers are not all known"
		}
		for _, p := range params {
			idx := paramIndex(fn, p)
			for _, site := range sites {
				if idx < 0 || idx >= len(site.Call.Args) {
					return ttlUndecided, "the origin of the TTL could not be followed"
				}
				s2, stale, und := t.sources(site.Call.Args[idx])
				switch {
				case stale != "":
					return ttlStale, "the TTL is computed from " + stale
				case und != "":
					return ttlUndecided, und
				case len(s2) == 0:
					continue
				}
				if v, why := t.fresh(site.Parent(), site, s2, depth+1); v != ttlFreshOK {
					return v, why
				}
			}
		}
	}
	// read outside this function literal: where the literal is handed over, and how often / when it is invoked
	if len(outer) > 0 {
		par := fn.Parent()
		if par == nil {
			return ttlUndecided, "the origin of the TTL could not be followed"
		}
		found := false
		var consumers []ssa.Instruction
		res, resWhy := ttlFreshOK, ""
		ir.Instrs(par, func(in ssa.Instruction) {
			mc, ok := in.(*ssa.MakeClosure)
			if !ok || mc.Fn != ssa.Value(fn) || res != ttlFreshOK {
				return
			}
			found = true
			if mc.Referrers() == nil {
				return
			}
			for _, ref := range *mc.Referrers() {
				switch x := ref.(type) {
				case *ssa.DebugRef:
				case *ssa.Call:
					consumers = append(consumers, x)
					if !x.Call.IsInvoke() && x.Call.Value == ssa.Value(mc) {
						continue // called in place
					}
					if redisCall(x) {
						continue // go-redis runs the function it is handed once (trusted)
					}
					cal := ir.StaticCallee(x)
					if cal == nil || len(cal.Blocks) == 0 || x.Call.IsInvoke() || len(x.Call.Args) != len(cal.Params) {
						res, resWhy = ttlUndecided, "the function literal that issues the command with a TTL computed outside it is handed to a function that is not followed"
						return
					}
					for i, a := range x.Call.Args {
						if a == ssa.Value(mc) {
							if v, why := t.invokesOnce(cal, cal.Params[i], depth+1); v != ttlFreshOK {
								res, resWhy = v, why
								return
							}
						}
					}
				default:
					res, resWhy = ttlUndecided, "the function literal that issues the command with a TTL computed outside it is stored or started (go / defer): when it runs is not known"
					return
				}
			}
		})
		if res != ttlFreshOK {
			return res, resWhy
		}
		if !found || len(consumers) == 0 {
			return ttlUndecided, "the place where the function literal that issues the command is handed over was not found"
		}
		for _, cons := range consumers {
			if v, why := t.fresh(par, cons, outer, depth+1); v != ttlFreshOK {
				return v, why
			}
		}
	}
	return ttlFreshOK, ""
}

func (c *Ctx) redisTTLFresh(r *redisRoles, rule string) {
	t := &ttlFreshV{r: r, all: r.all}
	n := 0
	for _, fn := range r.all {
		if len(fn.Blocks) == 0 {
			continue
		}
		fn := fn
		ir.Instrs(fn, func(in ssa.Instruction) {
			var call *ssa.Call
			cmd := ""
			for _, name := range []string{"Set", "SetNX", "SetEX", "SetXX"} {
				if cc := redisCmd(in, name); cc != nil {
					call, cmd = cc, name
				}
			}
			if call == nil {
				return
			}
			a := cmdArgs(call)
			if len(a) < 3 || !ir.IsNamed(a[2].Type(), "time", "Duration") {
				return
			}
			n++
			construct := cmd + " gets a TTL computed from a clock reading taken for this issue of the command"
			const tail = ": the key stays in redis longer than the record's ExpiresAt allows - reads, CasByVersion, Delete, Create, ListKeys and the polling waiter treat an expired record as present (the in-memory backend, which compares ExpiresAt itself, does not)"
			srcs, stale, und := t.sources(a[2])
			switch {
			case stale != "":
				c.Decide(rule, fn, construct, in, false, "the TTL is computed from "+stale+tail)
				return
			case und != "":
				c.Undecided(rule, fn, construct, in, und)
				return
			case len(srcs) == 0:
				c.Decide(rule, fn, construct, in, true, "") // nothing relative to the clock (C06.R3 decides whether that is right)
				return
			}
			v, why := t.fresh(fn, in, srcs, 0)
			switch v {
			case ttlFreshOK:
				c.Decide(rule, fn, construct, in, true, "")
			case ttlStale:
				c.Decide(rule, fn, construct, in, false, why+tail)
			default:
				c.Undecided(rule, fn, construct, in, why)
			}
		})
	}
	if n < 3 {
		c.R.Errorf("%s matched %d SET/SETNX commands with a TTL, below its floor of 3", rule, n)
	}
}
