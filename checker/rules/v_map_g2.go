package rules

import (
	"go/token"
	"go/types"

	"golang.org/x/tools/go/ssa"

	"verif/checker/ir"
)

// Rule of the ordered map added for the late seed of round "g" (run by mapRules under every prefix: C10.R17, C08.M17,
// C09.M17, C11.M17).
//
// pooledNodeStateG (R17). A node that comes out of the pool is either fresh (what the pool's New makes: the zero node)
// or one that some pool.Put of the package handed in - in whatever state it was in then. The node becomes part of the
// list (the new end sentinel), and everything that walks the list reads its links and its state. So for every field of
// the node that is neither the payload (R11 clears it) nor the reference counter (R2: recycled only at count zero), the
// two sides have to agree - one of:
//
//	(A) the taker initialises it: on every path from the pool.Get to an exit of the function that takes the node, the
//	    field is written (any value; the whole node overwritten counts) before it is read - in that function or in a
//	    function of the package the node is handed to (the append routine), which writes its parameter's field before
//	    reading it on every path; a taker that only returns the node (a typed pool wrapper) hands the duty to its callers;
//	(B) every giver resets it: at EVERY pool.Put of a node in the package (a census, not a list of known sites) the
//	    field is overwritten with its zero value (or the whole node with the zero node) on every path to the Put, or
//	    the Put is governed by a test that the field holds its zero value;
//	(C) for a link field only: the Put is preceded on every path by the unlink routine applied to that node (R2), and
//	    the unlink routine, on every path on which it rewires a neighbour, sets that own link to nil or is known to
//	    have none there.
//
// Violated when a field has neither (A) nor, at some Put, (B)/(C): a node returns from the pool with a stale state or
// link - a sentinel that does not look like one (the next Add panics in the append routine, iterators and First() run
// past the end of the list). The typical way there is a reset helper introduced at some Put sites together with a
// slimmer append routine, while another Put site keeps handing in the node as it is.
//
// Over-approximations: a reset done by the caller of the function that contains the Put, or an initialisation deeper
// than two calls below the Get, is not seen as written (decided on the helper-inlined normal form when those are
// private helpers); "zero" is the zero value of the field's type, a pool whose New makes something else is not modelled.
func (c *Ctx) pooledNodeStateG(r *mapRoles, rule string) {
	fns := c.mapFnsV()
	inPkg := map[*ssa.Function]bool{}
	for _, f := range fns {
		inPkg[f] = true
	}
	// the fields the two sides have to agree on
	var fields []*types.Var
	if st, ok := r.node.Underlying().(*types.Struct); ok {
		for i := 0; i < st.NumFields(); i++ {
			f := st.Field(i)
			if f == r.refCnt || r.isPayload(f) {
				continue
			}
			fields = append(fields, f)
		}
	}
	// isNode: v is the node value, or a phi the node value is merged into (the pooled node merged with a fresh one)
	merged := map[ssa.Value]map[ssa.Value]bool{}
	aliases := func(node ssa.Value) map[ssa.Value]bool {
		if m, ok := merged[node]; ok {
			return m
		}
		m := map[ssa.Value]bool{ir.Resolve(node): true}
		work := []ssa.Value{ir.Resolve(node)}
		for len(work) > 0 && len(m) < 16 {
			x := work[len(work)-1]
			work = work[:len(work)-1]
			if refs := x.Referrers(); refs != nil {
				for _, ref := range *refs {
					if phi, isPhi := ref.(*ssa.Phi); isPhi && !m[phi] {
						m[phi] = true
						work = append(work, phi)
					}
				}
			}
		}
		merged[node] = m
		return m
	}
	isNode := func(v, node ssa.Value) bool {
		if v == nil || node == nil {
			return false
		}
		return aliases(node)[ir.Resolve(v)]
	}
	// writes(x, node, f): x stores into field f of node (or overwrites the whole node); zero: with the zero value
	writes := func(x ssa.Instruction, node ssa.Value, f *types.Var, zero bool) bool {
		st, ok := x.(*ssa.Store)
		if !ok {
			return false
		}
		if zero && !zeroValued(st.Val, 0) {
			return false
		}
		if base, path, ok := r.nodeFieldPathD(st.Addr); ok && path[0] == f && isNode(base, node) && len(path) == 1 {
			return true
		}
		return r.isNodePtr(st.Addr.Type()) && isNode(st.Addr, node)
	}
	reads := func(x ssa.Instruction, node ssa.Value, f *types.Var) bool {
		u, ok := x.(*ssa.UnOp)
		if !ok || u.Op != token.MUL {
			return false
		}
		if base, path, ok := r.nodeFieldPathD(u.X); ok && path[0] == f && isNode(base, node) {
			return true
		}
		return r.isNodePtr(u.X.Type()) && isNode(u.X, node)
	}
	// initialised(fn, from, node, f): on every path of fn from `from` (nil: the entry) the field is written before it
	// is read and before the function returns - here or in a function of the package the node is handed to
	var initialised func(fn *ssa.Function, from ssa.Instruction, node ssa.Value, f *types.Var, depth int) bool
	initialised = func(fn *ssa.Function, from ssa.Instruction, node ssa.Value, f *types.Var, depth int) bool {
		if depth > 2 {
			return false
		}
		block := func(x ssa.Instruction) bool {
			if writes(x, node, f, false) {
				return true
			}
			call, ok := x.(*ssa.Call)
			if !ok || call.Call.IsInvoke() {
				return false
			}
			cal := ir.StaticCallee(call)
			if cal == nil || !inPkg[cal] || len(cal.Blocks) == 0 {
				return false
			}
			for i, a := range call.Call.Args {
				if isNode(a, node) && i < len(cal.Params) && initialised(cal, nil, cal.Params[i], f, depth+1) {
					return true
				}
			}
			return false
		}
		target := func(x ssa.Instruction) bool { return ir.IsExit(x) || reads(x, node, f) }
		w, err := (ir.Query{Fn: fn, From: from, Block: block, Target: target}).Find()
		return w == nil && err == nil
	}
	// the takers: (function, instruction, node value) - the pool.Get whose result is asserted to the node type, and,
	// when the function only returns the node, the calls of that function
	type taker struct {
		fn   *ssa.Function
		at   ssa.Instruction
		node ssa.Value
	}
	var takers []taker
	var addTaker func(fn *ssa.Function, at ssa.Instruction, node ssa.Value, depth int)
	addTaker = func(fn *ssa.Function, at ssa.Instruction, node ssa.Value, depth int) {
		returned := false
		if refs := node.Referrers(); refs != nil && depth < 2 {
			for _, ref := range *refs {
				switch x := ref.(type) {
				case *ssa.Return:
					returned = true
				case *ssa.Phi:
					// single-exit style: the node merged with the fresh one and returned
					if rr := x.Referrers(); rr != nil {
						for _, y := range *rr {
							if _, isRet := y.(*ssa.Return); isRet {
								returned = true
							}
						}
					}
				}
			}
		}
		if returned && fn.Object() != nil && !fn.Object().Exported() && fn.Signature.Results().Len() == 1 {
			n := 0
			for _, caller := range fns {
				for _, call := range callsTo(caller, fn) {
					n++
					addTaker(caller, call, call, depth+1)
				}
			}
			if n > 0 {
				return
			}
		}
		takers = append(takers, taker{fn, at, node})
	}
	for _, fn := range fns {
		fn := fn
		ir.Instrs(fn, func(in ssa.Instruction) {
			ta, ok := in.(*ssa.TypeAssert)
			if !ok || !r.isNodePtr(ta.AssertedType) {
				return
			}
			call, ok := ir.Resolve(ta.X).(*ssa.Call)
			if !ok || ir.CalleeFullName(call) != "(*sync.Pool).Get" {
				return
			}
			if ta.CommaOk {
				// "n, ok := pool.Get().(*node)": the node is the first component
				if refs := ta.Referrers(); refs != nil {
					for _, ref := range *refs {
						if ex, isEx := ref.(*ssa.Extract); isEx && ex.Index == 0 {
							addTaker(fn, ex, ex, 0)
						}
					}
				}
				return
			}
			addTaker(fn, ta, ta, 0)
		})
	}
	// the givers
	type giver struct {
		fn   *ssa.Function
		call *ssa.Call
		node ssa.Value
	}
	var givers []giver
	for _, fn := range fns {
		fn := fn
		ir.Instrs(fn, func(in ssa.Instruction) {
			call, ok := in.(*ssa.Call)
			if !ok || ir.CalleeFullName(call) != "(*sync.Pool).Put" || len(call.Call.Args) < 2 {
				return
			}
			arg := ir.Resolve(call.Call.Args[1])
			if mi, isMI := arg.(*ssa.MakeInterface); isMI {
				arg = ir.Resolve(mi.X)
			}
			if namedOf(arg.Type()) != r.node {
				return
			}
			givers = append(givers, giver{fn, call, arg})
		})
	}
	if len(takers) == 0 {
		c.Decide(rule, r.addFn, "pooled node: no node is taken from the pool", nil, true, "")
		return
	}
	// (C): the unlink routine clears its own link f wherever it rewires a neighbour
	rs := r.surgeryViewV()
	unlinkClears := func(f *types.Var) bool {
		if !r.isLink(f) || rs.unlink == nil || rs.unlinkSubj >= len(rs.unlink.Params) {
			return false
		}
		fn := rs.unlink
		subj := ssa.Value(fn.Params[rs.unlinkSubj])
		nilStore := func(x ssa.Instruction) bool {
			b, v, ok := storeToField(x, f)
			return ok && same(b, subj) && ir.IsNilConst(v)
		}
		noLink := func(from, to *ssa.BasicBlock) bool {
			ef := ir.EdgeFact(from, to)
			if ef == nil {
				return false
			}
			cm, isCmp := ef.Cmp()
			if !isCmp || cm.Op != token.EQL {
				return false
			}
			for _, xy := range [][2]ssa.Value{{cm.X, cm.Y}, {cm.Y, cm.X}} {
				if l, isLink := r.linkLoadOf(xy[0], subj); isLink && l == f && ir.IsNilConst(xy[1]) {
					return true
				}
			}
			return false
		}
		ok, rewires := true, 0
		ir.Instrs(fn, func(x ssa.Instruction) {
			st, isSt := x.(*ssa.Store)
			if !isSt {
				return
			}
			fa, isFA := st.Addr.(*ssa.FieldAddr)
			if !isFA || !r.isLink(ir.FieldOf(fa)) {
				return
			}
			viaLink := false
			for _, o := range ir.Origins(fa.X) {
				if _, via := r.linkLoadOf(o, subj); via {
					viaLink = true
				}
			}
			if !viaLink {
				return
			}
			rewires++
			before, e1 := (ir.Query{Fn: fn, Block: nilStore, BlockEdge: noLink, Target: func(y ssa.Instruction) bool { return y == x }}).Find()
			after, e2 := (ir.Query{Fn: fn, From: x, Block: nilStore, BlockEdge: noLink, Target: ir.IsExit}).Find()
			if e1 != nil || e2 != nil || (before != nil && after != nil) {
				ok = false
			}
		})
		return ok && rewires > 0
	}
	for _, t := range takers {
		for _, f := range fields {
			f := f
			what := "pooled node: field " + f.Name() + " initialised by the taker or reset at every pool.Put"
			if initialised(t.fn, t.at, t.node, f, 0) {
				c.Decide(rule, t.fn, what, t.at, true, "")
				continue
			}
			bad := ""
			for _, g := range givers {
				g := g
				reset := func(x ssa.Instruction) bool { return writes(x, g.node, f, true) }
				isPut := func(x ssa.Instruction) bool { return x == ssa.Instruction(g.call) }
				if w, err := (ir.Query{Fn: g.fn, Block: reset, Target: isPut}).Find(); w == nil && err == nil {
					continue // (B)
				}
				// (B), tested instead of written: the Put is governed by "node.f == zero value"
				if hasFactCmp(g.call.Block(), func(cm ir.Cmp) bool {
					if cm.Op != token.EQL {
						return false
					}
					for _, xy := range [][2]ssa.Value{{cm.X, cm.Y}, {cm.Y, cm.X}} {
						if b, isF := loadOfField(xy[0], f); isF && same(b, g.node) && ir.IsZeroConst(xy[1]) {
							return true
						}
					}
					return false
				}) {
					continue
				}
				if unlinkClears(f) {
					isUnlink := func(x ssa.Instruction) bool {
						cl, ok := x.(*ssa.Call)
						return ok && ir.StaticCallee(cl) == r.unlink && r.unlinkSubj < len(cl.Call.Args) && same(cl.Call.Args[r.unlinkSubj], g.node)
					}
					if w, err := (ir.Query{Fn: g.fn, Block: isUnlink, Target: isPut}).Find(); w == nil && err == nil {
						continue // (C)
					}
				}
				bad = ir.FnName(g.fn) + " @ " + c.P.InstrPos(g.call)
				break
			}
			c.Decide(rule, t.fn, what, t.at, bad == "",
				"the node taken from the pool becomes part of the list without its field '"+f.Name()+"' being written on every path (neither here nor in the routine it is handed to), and the pool.Put in "+bad+" hands in a node whose '"+f.Name()+"' is not reset: a recycled node keeps a stale "+f.Name()+" - an end sentinel that does not look like one (the next Add panics in the append routine, iterators and First() run past the end of the list)")
		}
	}
}
