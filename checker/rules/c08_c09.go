package rules

import (
	"go/token"
	"go/types"
	"strings"

	"golang.org/x/tools/go/ssa"

	"verif/checker/ir"
)

func init() {
	register(&Check{
		ID: "C08", Title: "LRU cache behaves as a reference LRU for every call sequence",
		Pkgs:      []string{"container/lru", "container/iterable"},
		Run:       runC08,
		Technique: "static analysis: must-pass-through path queries and guard dominance on go/ssa of container/lru (callback/removal pairing, hit re-insert, eviction target, no insert on failure), plus the structural rules of the ordered map the recency list is built on",
		Explanation: "R13 (session 4): waiters released, in-flight entry dropped and value inserted in ONE critical section of the cache mutex, helpers/literals/deferred calls composed as summaries (the C09.R2 section rule under this property: a gap lets a second caller create again for one miss). " +
			"R1: every items.Remove(k) is followed on all paths by the nil-guarded delete callback with the pair read for that key before the removal - except when it is followed in the same critical section by items.Add of the same key (move to most recent). " +
			"R2: in the overflow branch the removed key is the result of items.First(); the branch is guarded by the strict comparison Len()>capacity evaluated after the Add. " +
			"R3: items.Add on the miss path is dominated by the nil edge of the create function's error. R4: the create call is dominated by the not-found edge of items.Get. " +
			"R5: the expirable wrapper removes and re-creates exactly on the GetExpiresAt().Before(now) edge and returns the value unchanged otherwise. " +
			"R6: from the found edge of items.Get(k) every path to the return passes items.Remove(k) and then items.Add(k, same value) - except over an edge on which Len() of the list, read behind the lookup in the same critical section, is known to be at most 1 (the found entry is the only one, hence the most recent). R7: from the success edge of the create call every path to an exit inserts the value. " +
			"Equivalent forms are accepted: the callback invoked through a nil-safe invoker method of the callback type; entries and keys handed through local copies or the parameters of a private helper; state kept in flags or in the nil-ness of a variable (path queries carry a valuation); the eviction moved into a private helper that GetOrCreate runs under the guard; the staleness test spelled now.After(expiry) or placed in a predicate helper; the oldest key obtained as the Key of the first Next() of an iterator freshly opened over the list (what First() is), also through a private head accessor; key and pair assigned at several places (decided per path: both stem from one execution of one Next()/accessor call); key and pair read from the entry parameter of a literal that an iteration helper of the map runs on the list; the mutex, list and tables grouped in a struct the cache holds by value. " +
			"M1-M8: the ordered map keeps its list consistent (the rules of C10), since eviction order is the list order. R8: the expiry wrapper does not apply its staleness test to the result of GetOrCreate (which may be the value this call created) followed by an unconditional Remove of the key in a separate critical section (open finding). R5 also: the clock the staleness test of the expirable wrapper uses is read before the lookup (the lookup may be the miss that creates the item). M12: the pointer surgery of the list's unlink routine (see C10.R12). R9: the in-flight table, which is what makes a miss call the create function once, is set as a whole only while the cache object is built (by the constructor or a private helper only the constructor runs) and its entries are written only by the code of GetOrCreate - a Clear or Remove that resets the table or drops entries forgets the creations that are running at that moment, and the next misser of such a key creates a second value that is returned but neither resident nor ever passed to the delete callback (the census clauses of C09.R2). R12: every exported operation other than GetOrCreate touches the recency list inside one critical section (C09.R6): a Clear that lets go of the mutex between two steps of its sweep removes what was inserted after it began. R10: a call returns what it found resident or the outcome of its own call of the create function: from every wait for a creation in flight each path to a return passes a fresh lookup or the create call (a waiter never hands out the creator's outcome - a failed creation changes nothing, the waiter's call is a miss that creates), and from the not-found edge of every lookup of the requested key each path to a return passes the create call, a wait or another lookup. R11: the expiry wrapper hands the cached item out as fresh only on paths on which the comparison of its expiry with the clock was made and came out 'not before now' (the other direction of R5: no short-circuit in front of the comparison declares a class of expired items fresh).",
		NotDecided: "refinement of a reference LRU over all call sequences; callback accounting as a count.",
	})
	register(&Check{
		ID: "C09", Title: "LRU cache under concurrency: single-flight, linearizable, nothing leaked",
		Pkgs:      []string{"container/lru", "container/iterable"},
		Run:       runC09,
		Technique: "static analysis: must-lockset dataflow, path-sensitive must-pass-through queries and who-may-write census on go/ssa of container/lru/ecache.go",
		Explanation: "R1: every method call on the recency list and every access to the in-flight table happens with the cache mutex held. " +
			"R2: the create call is reached only by the goroutine that registered the in-flight entry; from the registration every path to an exit closes the channel and deletes the entry, in the same critical section as the insert; the in-flight table is written only by registration, by that cleanup and by the constructor. " +
			"R3: waiting for an in-flight creation and the create call itself run with the lock released, and a waiter goes back to the lookup. " +
			"R4: every insert on the miss path is followed, before the lock is released, by the capacity test; as a census over the package: every call of Add on the recency list - in the wrappers that share the cache's state, in private helpers and literals too - either puts back an entry a lookup of the list has found (length unchanged) or is followed by the capacity test on every path to the end of its critical section (followed to the callers of a private helper). R5: the delete callback runs under the mutex in the critical section of the removal it reports. " +
			"Locksets see through private helpers that are only called with the mutex held and through literals run by a withLock-style wrapper; the in-flight table may map a key to the bare channel or to a record holding it (absence tested by comma-ok or, when only non-nil records are stored, by nil); the creator may close the channel it reads back from the table under the registered key (the census clauses make that the registered one); a literal run by an iteration helper of another package (which only calls it) runs under the locks held at the helper's call, minus what the literal itself may release. Q1-Q7: the sequential LRU rules of C08 (a concurrent history must be equivalent to a sequential LRU history). M1-M12: the structural rules of the ordered map the cache keeps its recency order in (C10.R1-R12): a list that loses entries evicts the wrong victim and never hands the lost values to the delete callback. R6: every exported operation of the cache other than GetOrCreate (Remove, Clear, ...) touches the recency list inside one critical section: once it gave up the mutex after a list access it does not touch the list again, neither directly nor through a helper that locks for itself (decided by composing, over all paths and through private helpers and literals, the sequence of list accesses and lock boundaries of the call) - an operation spread over two sections is not one atomic step of any sequential history. R7: a value read from the recency list is put back (the hit's move to the most-recent end) only inside the critical section that read it - no release of the mutex, or of the shared lock the lookup ran under, between the lookup and the re-insert, also across private helpers - otherwise an entry removed in the gap is resurrected without a capacity test. R8: the creator removes its in-flight entry under the very key value it registered it under (one evaluation of the key mapping, seen through local copies and helper parameters), so that the registered entry - not some other key - is what is released. R11: when the cache has more than one mutex, some one of them is held from the lookup of the recency list that missed to the registration in the in-flight table (miss and registration are one atomic step). R4 also: the capacity field is assigned only at construction, or the assignment is followed in its critical section by a loop that evicts while Len() exceeds the capacity, or every overflow test of the package is the test of a loop. R9: every insert into the recency list under a key (a call of Add that does not put back a looked-up entry - also in operations added later and in the wrappers) consults or updates the in-flight table under that key earlier in its critical section, or else every creator's insert branches on the result of Add: otherwise an insert that runs while a creation of the key is in flight makes the creator's Add fail silently and the created value is never resident and never deleted. R10: the recency-list field is assigned only while the cache is constructed, or no access to the list goes through a pointer that was read from the field in an earlier critical section (a detached list would swallow a creator's insert). R2 also, across private helpers, literals and deferred calls (a summary automaton over the events close / delete of the in-flight entry / insert / lock boundary, composed at calls and at the deferred calls of every exit): what is released in one critical section is not completed - entry dropped, value inserted - in a later one.",
		NotDecided: "linearizability of histories; created-versus-deleted balance over schedules.",
	})
}

type lruRoles struct {
	ecache                                 *types.Named
	mutex, items, inflight, create, onDel  *types.Var
	capacity                               *types.Var
	mGet, mRemove, mAdd, mLen, mFirst, mIt *ssa.Function
	getOrCreate, remove, clear             *ssa.Function
	methods                                []*ssa.Function
	// bodies: the methods and the function literals nested in them (a critical section written as a closure that a
	// withLock-style wrapper runs is code of the method)
	bodies []*ssa.Function
	// cbInvokers: methods of the delete-callback type that call their receiver when it is not nil, handing their
	// parameters on in order ("nil-safe notify"); a call of one on the callback field is an invocation of the callback
	// that carries its own nil guard
	cbInvokers map[*ssa.Function]bool
	// inflightChan: the channel field of the in-flight record when the table maps keys to a record (struct or pointer
	// to struct) instead of the bare channel; nil for the bare channel
	inflightChan *types.Var
	locks        *lockViewH
	// mutexPath: the receiver-rooted access path of the cache mutex ("recv.lock", "recv.state.lock")
	mutexPath string
	// the key and the value field of iterable.MapEntry (y_c08.go)
	entryKeyF, entryValF *types.Var
	entryResolved        bool
	prog                 *ir.Prog
}

// chanCarrier reports whether t is a channel, or a struct / pointer to struct with exactly one channel field (the
// in-flight record); it returns that field (nil for the bare channel).
func chanCarrier(t types.Type) (*types.Var, bool) {
	if _, isChan := t.Underlying().(*types.Chan); isChan {
		return nil, true
	}
	if p, isPtr := t.Underlying().(*types.Pointer); isPtr {
		t = p.Elem()
	}
	st, isStruct := t.Underlying().(*types.Struct)
	if !isStruct {
		return nil, false
	}
	var res *types.Var
	for i := 0; i < st.NumFields(); i++ {
		if _, isChan := st.Field(i).Type().Underlying().(*types.Chan); isChan {
			if res != nil {
				return nil, false
			}
			res = st.Field(i).Origin()
		}
	}
	return res, res != nil
}

func resolveLRURoles(c *Ctx) *lruRoles {
	r := &lruRoles{prog: c.P}
	r.ecache = c.P.LookupType("container/lru", "ECache")
	mapT := c.P.LookupType("container/iterable", "Map")
	if r.ecache == nil || mapT == nil {
		c.Fatalf("role ECache / iterable.Map not found")
	}
	// the cache mutex: a sync.Mutex, or a sync.RWMutex (its exclusive Lock/Unlock carry the same lockset entry; a shared
	// RLock does not count as holding it)
	// (the lock-protected state may be grouped in a struct the cache holds by value: fieldInStateC)
	var mutexPath []string
	r.mutex, mutexPath = c.fieldInStateC("lru.mutex", r.ecache, func(f *types.Var) bool {
		return ir.IsNamed(f.Type(), "sync", "Mutex") || ir.IsNamed(f.Type(), "sync", "RWMutex")
	})
	r.mutexPath = "recv." + strings.Join(mutexPath, ".")
	r.items, _ = c.fieldInStateC("lru.items", r.ecache, func(f *types.Var) bool { return namedOf(f.Type()) == mapT })
	r.inflight, _ = c.fieldInStateC("lru.inflight", r.ecache, func(f *types.Var) bool {
		m, ok := f.Type().Underlying().(*types.Map)
		if !ok {
			return false
		}
		_, carries := chanCarrier(m.Elem())
		return carries
	})
	r.inflightChan, _ = chanCarrier(r.inflight.Type().Underlying().(*types.Map).Elem())
	r.capacity, _ = c.fieldInStateC("lru.capacity", r.ecache, func(f *types.Var) bool { return types.Identical(f.Type(), types.Typ[types.Int]) })
	createT := c.P.LookupType("container/lru", "CreatePoolElemF")
	onDelT := c.P.LookupType("container/lru", "OnDeleteElemF")
	r.create, _ = c.fieldInStateC("lru.createF", r.ecache, func(f *types.Var) bool { return namedOf(f.Type()) == createT && createT != nil })
	r.onDel, _ = c.fieldInStateC("lru.onDeleteF", r.ecache, func(f *types.Var) bool { return namedOf(f.Type()) == onDelT && onDelT != nil })
	mm := func(name string) *ssa.Function { return c.RequireFn(c.P.MethodOf(mapT, name), "Map."+name) }
	r.mGet, r.mRemove, r.mAdd, r.mLen, r.mFirst, r.mIt = mm("Get"), mm("Remove"), mm("Add"), mm("Len"), mm("First"), mm("Iterator")
	em := func(name string) *ssa.Function { return c.RequireFn(c.P.MethodOf(r.ecache, name), "ECache."+name) }
	r.getOrCreate, r.remove, r.clear = em("GetOrCreate"), em("Remove"), em("Clear")
	isMethod := map[*ssa.Function]bool{}
	for _, m := range c.P.MethodsOf(r.ecache) {
		if len(m.Blocks) > 0 {
			r.methods = append(r.methods, m)
			isMethod[m] = true
		}
	}
	r.bodies = append(r.bodies, r.methods...)
	for _, fn := range c.P.FuncsOf("container/lru") {
		if fn.Parent() != nil && len(fn.Blocks) > 0 && isMethod[rootFnH(fn)] {
			r.bodies = append(r.bodies, fn)
		}
	}
	r.cbInvokers = map[*ssa.Function]bool{}
	if onDelT != nil {
		for _, m := range c.P.MethodsOf(onDelT) {
			if len(m.Blocks) > 0 && isNilSafeInvoker(m) {
				r.cbInvokers[m] = true
				c.Role("lru.onDelete.invoker", relName(m), m.Pos())
				c.Saw(m)
			}
		}
	}
	r.locks = newLockViewH(c.P, "container/lru")
	return r
}

// isNilSafeInvoker: m is a method of a function type whose body calls the receiver with the parameters of m in order,
// on every path to an exit except the one on which the receiver is nil, and does nothing else that matters (no other
// call).
func isNilSafeInvoker(m *ssa.Function) bool {
	if m.Signature.Recv() == nil || len(m.Params) == 0 {
		return false
	}
	if _, isFn := m.Signature.Recv().Type().Underlying().(*types.Signature); !isFn {
		return false
	}
	recv := m.Params[0]
	var inv *ssa.Call
	n := 0
	ir.Instrs(m, func(in ssa.Instruction) {
		if ci, ok := in.(ssa.CallInstruction); ok {
			n++
			if call, isCall := in.(*ssa.Call); isCall && !ci.Common().IsInvoke() && ir.Resolve(ci.Common().Value) == ssa.Value(recv) {
				inv = call
			}
		}
	})
	if inv == nil || n != 1 || len(inv.Call.Args) != len(m.Params)-1 {
		return false
	}
	for i, a := range inv.Call.Args {
		if ir.Resolve(a) != ssa.Value(m.Params[i+1]) {
			return false
		}
	}
	w, err := (ir.Flow{Fn: m, Block: func(x ssa.Instruction) bool { return x == ssa.Instruction(inv) },
		BlockEdge: func(from, to *ssa.BasicBlock) bool {
			f := ir.EdgeFact(from, to)
			if f == nil {
				return false
			}
			cm, ok := f.Cmp()
			if !ok || cm.Op != token.EQL {
				return false
			}
			return (ir.Resolve(cm.X) == ssa.Value(recv) && ir.IsNilConst(cm.Y)) || (ir.Resolve(cm.Y) == ssa.Value(recv) && ir.IsNilConst(cm.X))
		}, Target: ir.IsExit}).Find()
	return w == nil && err == nil
}

// cbCall decodes an invocation of the delete callback: the call of the function value loaded from the callback field
// (guarded = false: the caller must test it for nil), or a call of a nil-safe invoker method on that field
// (guarded = true). args are the arguments the callback receives.
func (r *lruRoles) cbCall(in ssa.Instruction) (call *ssa.Call, args []ssa.Value, guarded bool) {
	if cc := fnValueCall(in, r.onDel); cc != nil {
		return cc, cc.Call.Args, false
	}
	cc, ok := in.(*ssa.Call)
	if !ok || cc.Call.IsInvoke() || len(cc.Call.Args) == 0 {
		return nil, nil, false
	}
	if cal := ir.StaticCallee(cc); cal != nil && r.cbInvokers[cal] {
		if _, isF := loadOfField(cc.Call.Args[0], r.onDel); isF {
			return cc, cc.Call.Args[1:], true
		}
	}
	return nil, nil, false
}

// itemsCall returns the call when in calls method m on the recency list field.
func (r *lruRoles) itemsCall(in ssa.Instruction, m *ssa.Function) *ssa.Call {
	call, ok := in.(*ssa.Call)
	if !ok || ir.StaticCallee(call) != m || len(call.Call.Args) == 0 {
		return nil
	}
	if _, isItems := loadOfField(call.Call.Args[0], r.items); !isItems {
		return nil
	}
	return call
}

func (r *lruRoles) anyItemsCall(in ssa.Instruction) *ssa.Call {
	for _, m := range []*ssa.Function{r.mGet, r.mRemove, r.mAdd, r.mLen, r.mFirst, r.mIt} {
		if c := r.itemsCall(in, m); c != nil {
			return c
		}
	}
	return nil
}

// gocScope: the code that runs on behalf of GetOrCreate - the method itself, and the private helpers and literals it
// runs; the other exported operations (which may share helpers with it) are not part of it.
func (r *lruRoles) gocScope() map[*ssa.Function]bool {
	res := map[*ssa.Function]bool{}
	for _, fn := range r.locks.reachable(r.getOrCreate) {
		root := rootFnH(fn)
		if root != r.getOrCreate && (root.Object() == nil || root.Object().Exported()) {
			continue
		}
		res[fn] = true
	}
	return res
}

// firstRooted reports whether a key operand is the key items.First() returned, through any chain of copies.
func (r *lruRoles) firstRooted(key ssa.Value) bool {
	return r.firstRootedOld(key) || r.firstKeyC(r.prog, key, 0) || r.firstRootedParamU(key, 0)
}

func (r *lruRoles) firstRootedOld(key ssa.Value) bool {
	roots := ir.CopyRoots(key)
	if len(roots) == 0 {
		return false
	}
	for _, o := range roots {
		ex, ok := o.(*ssa.Extract)
		if !ok || ex.Index != 0 {
			return false
		}
		fc, ok := ex.Tuple.(*ssa.Call)
		if !ok || r.itemsCall(fc, r.mFirst) == nil {
			return false
		}
	}
	return true
}

// fnValueCall reports whether in invokes a function value loaded from field f.
func fnValueCall(in ssa.Instruction, f *types.Var) *ssa.Call {
	call, ok := in.(*ssa.Call)
	if !ok || call.Call.IsInvoke() || call.Call.StaticCallee() != nil {
		return nil
	}
	if _, isF := loadOfField(call.Call.Value, f); isF {
		return call
	}
	return nil
}

func (r *lruRoles) isUnlock(in ssa.Instruction) bool {
	p, _, rel := ir.LockOp(in)
	return rel && strings.HasSuffix(p, "."+r.mutex.Name())
}

func (r *lruRoles) isLock(in ssa.Instruction) bool {
	p, acq, _ := ir.LockOp(in)
	return acq && strings.HasSuffix(p, "."+r.mutex.Name())
}

func runC08(c *Ctx) {
	lruSequentialRules(c, "C08.R")
	c.expirableAtomicity(resolveLRURoles(c), "C08.R8")
	// R9: "a miss calls the create function once" rests on the in-flight table: who may write it (census of C09.R2)
	c.inflightCensus(resolveLRURoles(c), "C08.R9")
	c.R.Floor("C08.R9", 1)
	// R10, R11 (v_lru_flight.go): a miss runs its own creation, also after a wait; the expiry wrapper declares an item
	// fresh only on the not-expired edge
	c.lruMissRunsOwnCreationV(resolveLRURoles(c), "C08.R10")
	c.R.Floor("C08.R10", 2)
	c.expirableFreshOnlyNotExpiredV(resolveLRURoles(c), "C08.R11")
	c.R.Floor("C08.R11", 1)
	// R12 (= C09.R6): Remove, Clear and every later operation touch the recency list in one critical section - also a
	// sequential history sees the difference when a delete callback uses the cache while the sweep has let go of the mutex
	c.lruOpsAtomic(resolveLRURoles(c), "C08.R12")
	c.R.Floor("C08.R12", 2)
	// R13 (x_c08_i.go, = the helper-composed clause of C09.R2): release of the in-flight record and insert in ONE section
	c.lruMissCompletesInOneSectionI(resolveLRURoles(c), "C08.R13")
	c.R.Floor("C08.R13", 1)
	// M: the ordered map under the recency list
	mapRules(c, "C08.M")
}

// lruSequentialRules runs the sequential LRU rules under the prefix pfx (C08.R, C09.Q).
func lruSequentialRules(c *Ctx, pfx string) {
	r := resolveLRURoles(c)
	// R1 callback paired with removal
	for _, fn := range r.bodies {
		fn := fn
		ir.Instrs(fn, func(in ssa.Instruction) {
			rem := r.itemsCall(in, r.mRemove)
			if rem == nil {
				return
			}
			key := rem.Call.Args[1]
			// exemption: move to most recent = Add of the same key before the lock is released, on all paths
			isReAdd := func(x ssa.Instruction) bool {
				a := r.itemsCall(x, r.mAdd)
				return a != nil && sameKeyH(a.Call.Args[1], key)
			}
			if w, _ := (ir.Flow{Fn: fn, From: rem, Block: isReAdd, Target: func(x ssa.Instruction) bool { return ir.IsExit(x) || r.isUnlock(x) }}).Find(); w == nil {
				c.Decide(pfx+"1", fn, "removal paired with callback (re-insert of the same key)", rem, true, "")
				return
			}
			// the callback: invoked on all paths except the edge where it is nil (a nil-safe invoker carries that guard
			// itself)
			isCb := func(x ssa.Instruction) bool { cb, _, _ := r.cbCall(x); return cb != nil }
			nilEdge := func(from, to *ssa.BasicBlock) bool {
				f := ir.EdgeFact(from, to)
				if f == nil {
					return false
				}
				cm, ok := f.Cmp()
				if !ok || cm.Op != token.EQL {
					return false
				}
				_, isCbX := loadOfField(cm.X, r.onDel)
				_, isCbY := loadOfField(cm.Y, r.onDel)
				return (isCbX && ir.IsNilConst(cm.Y)) || (isCbY && ir.IsNilConst(cm.X))
			}
			if !c.NoFlow(pfx+"1", "removal paired with callback", rem, ir.Flow{Fn: fn, From: rem, Block: isCb, BlockEdge: nilEdge, Target: ir.IsExit},
				"an entry leaves the cache without the delete callback") {
				return
			}
			// the callback gets the pair that belonged to the removed key
			ir.Instrs(fn, func(x ssa.Instruction) {
				cb, args, _ := r.cbCall(x)
				if cb == nil || !ir.Dominates(rem, cb) {
					return
				}
				ok := len(args) > 0
				for _, a := range args {
					// (or both are read from one parameter of a literal that is handed an entry of the list at every call)
					if !r.pairOfKey(a, key) && !r.entryParamPairC(c.P, a, key) {
						ok = false
					}
				}
				if !ok && len(args) > 0 {
					// key and value assigned at several places: which assignment reaches the callback is a fact of the
					// path (y_c08.go)
					ok = r.pairOnPathsC(fn, rem, cb, args)
				}
				c.Decide(pfx+"1", fn, "callback receives the removed entry", cb, ok, "the delete callback is not called with the key/value that were stored under the removed key")
			})
		})
	}
	c.sharedRemovalSitesU(r, pfx+"1") // v_lru_u.go
	c.R.Floor(pfx+"1", 6)

	goc := r.getOrCreate
	var getCall *ssa.Call
	ir.Instrs(goc, func(in ssa.Instruction) {
		if g := r.itemsCall(in, r.mGet); g != nil && getCall == nil {
			getCall = g
		}
	})
	var createCall *ssa.Call
	ir.Instrs(goc, func(in ssa.Instruction) {
		if cc := fnValueCall(in, r.create); cc != nil {
			createCall = cc
		}
	})
	if getCall == nil || createCall == nil {
		c.Fatalf("GetOrCreate: lookup or create call not found")
	}
	foundFact := func(b *ssa.BasicBlock, want bool) bool {
		return ir.HasFact(b, func(f ir.Fact) bool {
			f = f.StripNot()
			ex, ok := f.Cond.(*ssa.Extract)
			return ok && ex.Tuple == ssa.Value(getCall) && ex.Index == 1 && f.True == want
		})
	}

	// R2 eviction target and strict overflow test after the Add
	{
		// the removals to judge: in GetOrCreate every removal of another key than the looked-up one; in the private helpers
		// and literals GetOrCreate runs, the removals of a First() key (the eviction moved into a helper)
		var sites []*ssa.Call
		ir.Instrs(goc, func(in ssa.Instruction) {
			if rem := r.itemsCall(in, r.mRemove); rem != nil && !sameKeyH(rem.Call.Args[1], getCall.Call.Args[1]) {
				sites = append(sites, rem)
			}
		})
		scope := r.gocScope()
		for _, fn := range r.locks.reachable(goc) {
			if fn == goc || !scope[fn] {
				continue
			}
			ir.Instrs(fn, func(in ssa.Instruction) {
				if rem := r.itemsCall(in, r.mRemove); rem != nil && r.firstRooted(rem.Call.Args[1]) {
					sites = append(sites, rem)
				}
			})
		}
		// afterAdd: the instruction runs after an insert of this GetOrCreate (in its function, or at every place its helper
		// is called from)
		afterAdd := func(x ssa.Instruction) bool {
			if x == nil {
				return false
			}
			return r.locks.holdsInterIn(x, scope, func(at ssa.Instruction) bool {
				found := false
				if rootFnH(at.Parent()) != goc {
					return false
				}
				ir.Instrs(at.Parent(), func(y ssa.Instruction) {
					if a := r.itemsCall(y, r.mAdd); a != nil && ir.Dominates(a, at) {
						found = true
					}
				})
				return found
			})
		}
		for _, rem := range sites {
			rem := rem
			fn := rem.Parent()
			c.Decide(pfx+"2", fn, "evicted key = items.First()", rem, r.firstRooted(rem.Call.Args[1]), "the evicted key is not the oldest entry of the recency list")
			okCmp := r.locks.holdsInterIn(rem, scope, func(at ssa.Instruction) bool {
				return hasFactCmp(at.Block(), func(cm ir.Cmp) bool {
					lenX := r.itemsCall(asInstr(cm.X), r.mLen) != nil
					lenY := r.itemsCall(asInstr(cm.Y), r.mLen) != nil
					_, capX := loadOfField(cm.X, r.capacity)
					_, capY := loadOfField(cm.Y, r.capacity)
					var lenCall ssa.Value
					ok := false
					if lenX && capY && cm.Op == token.GTR {
						ok, lenCall = true, cm.X
					}
					if capX && lenY && cm.Op == token.LSS {
						ok, lenCall = true, cm.Y
					}
					if !ok {
						return false
					}
					// Len() evaluated after the Add
					return afterAdd(asInstr(lenCall))
				})
			})
			c.Decide(pfx+"2", fn, "eviction guarded by Len() > capacity after the insert", rem, okCmp, "the eviction is not guarded by the strict test Len()>capacity evaluated after the insert (evicts one entry too early/late)")
		}
		if len(sites) == 0 {
			c.Decide(pfx+"2", goc, "GetOrCreate evicts on overflow", nil, false, "no eviction found in GetOrCreate")
		}
	}
	// R3, R4
	{
		n := 0
		ir.Instrs(goc, func(in ssa.Instruction) {
			add := r.itemsCall(in, r.mAdd)
			if add == nil || foundFact(add.Block(), true) {
				return
			}
			n++
			errV := ssa.Value(nil)
			if createCall.Referrers() != nil {
				for _, ref := range *createCall.Referrers() {
					if ex, ok := ref.(*ssa.Extract); ok && ex.Index == 1 {
						errV = ex
					}
				}
			}
			ok := errV != nil && ir.ClassifyErr(errV, add.Block()) == ir.ErrNil
			c.Decide(pfx+"3", goc, "insert only when creation succeeded", add, ok, "a value is inserted although the create function may have failed")
			// inserted value = the created one
			okVal := false
			for _, o := range pairFieldOrigins(add.Call.Args[2]) {
				if ex, isEx := o.(*ssa.Extract); isEx && ex.Tuple == ssa.Value(createCall) && ex.Index == 0 {
					okVal = true
				}
			}
			c.Decide(pfx+"3", goc, "inserted value is the created one", add, okVal, "the inserted value is not the result of the create function")
		})
		if n == 0 {
			c.Decide(pfx+"3", goc, "miss path inserts", nil, false, "GetOrCreate never inserts a created value")
		}
		c.Decide(pfx+"4", goc, "create only on a miss", createCall, foundFact(createCall.Block(), false) || c.onlyViaMiss(goc, getCall, createCall),
			"the create function can be called although the key is resident")
	}
	// R6 hit becomes most recent
	{
		key := getCall.Call.Args[1]
		// the "found" result of the lookup
		var foundV ssa.Value
		if refs := getCall.Referrers(); refs != nil {
			for _, ref := range *refs {
				if ex, ok := ref.(*ssa.Extract); ok && ex.Index == 1 {
					foundV = ex
				}
			}
		}
		if foundV == nil {
			c.Undecided(pfx+"6", goc, "hit becomes most recent", getCall, "cannot locate the found edge of the lookup")
		} else {
			found := []ir.Fact{{Cond: foundV, True: true}}
			isRem := func(x ssa.Instruction) bool {
				rm := r.itemsCall(x, r.mRemove)
				return rm != nil && sameKeyH(rm.Call.Args[1], key)
			}
			isAdd := func(x ssa.Instruction) bool {
				a := r.itemsCall(x, r.mAdd)
				if a == nil || !sameKeyH(a.Call.Args[1], key) {
					return false
				}
				// same value as found
				for _, o := range ir.Origins(a.Call.Args[2]) {
					if ex, ok := o.(*ssa.Extract); ok && ex.Tuple == ssa.Value(getCall) && ex.Index == 0 {
						return true
					}
				}
				return false
			}
			// from the lookup, with the key found, every path to an exit (or back to the lookup) moves the entry
			// (an edge on which the list is known to hold at most one entry is accepted: the found entry is the most recent one)
			ok1 := c.NoFlow(pfx+"6", "hit: entry removed from its old position", getCall, ir.Flow{Fn: goc, From: getCall, Assume: found, Block: isRem, BlockEdge: r.soleResidentEdgeV(goc, getCall), Target: ir.IsExit},
				"a hit can return without moving the entry to the most-recent end: a later eviction removes a recently used entry")
			if ok1 {
				ir.Instrs(goc, func(x ssa.Instruction) {
					if isRem(x) && foundFact(x.Block(), true) {
						c.NoFlow(pfx+"6", "hit: entry re-added at the most-recent end", x, ir.Flow{Fn: goc, From: x, Block: isAdd, Target: ir.IsExit},
							"on a hit the entry is removed but not re-added with the same value")
					}
				})
			}
			// the value returned on a hit is the found one
			for _, ret := range ir.Returns(goc) {
				if foundFact(ret.Block(), true) {
					okV := false
					for _, o := range pairFieldOrigins(ir.ResultValue(ret, 0)) {
						if ex, ok := o.(*ssa.Extract); ok && ex.Tuple == ssa.Value(getCall) && ex.Index == 0 {
							okV = true
						}
					}
					c.Decide(pfx+"6", goc, "hit returns the resident value", ret, okV, "a hit does not return the resident value")
				}
			}
		}
	}
	// R5 expirable wrapper
	c.expirableWrapper(r, pfx+"5")

	// R7 a successful creation becomes resident: from the success edge of the create call every path to an exit inserts
	{
		var errV ssa.Value
		if createCall.Referrers() != nil {
			for _, ref := range *createCall.Referrers() {
				if ex, ok := ref.(*ssa.Extract); ok && ex.Index == 1 {
					errV = ex
				}
			}
		}
		var okBlk *ssa.BasicBlock
		for _, b := range goc.Blocks {
			for _, sc := range b.Succs {
				if f := ir.EdgeFact(b, sc); f != nil && errV != nil {
					if cm, ok := f.Cmp(); ok && cm.Op == token.EQL && ir.Resolve(cm.X) == errV && ir.IsNilConst(cm.Y) {
						okBlk = sc
					}
				}
			}
		}
		if okBlk == nil {
			c.Undecided(pfx+"7", goc, "created value becomes resident", createCall, "cannot find the success edge of the create function")
		} else {
			c.NoFlow(pfx+"7", "created value becomes resident", createCall, ir.Flow{Fn: goc, FromBlock: okBlk,
				Block:  func(x ssa.Instruction) bool { return r.itemsCall(x, r.mAdd) != nil },
				Target: ir.IsExit}, "a successfully created value can be returned without being inserted: it is neither resident nor ever passed to the delete callback (leaked), and the next request creates the key again")
		}
	}
}

func asInstr(v ssa.Value) ssa.Instruction {
	in, _ := ir.Resolve(v).(ssa.Instruction)
	return in
}

// pairFieldOrigins follows a value that is a field of a local pair struct back to what was stored there.
func pairFieldOrigins(v ssa.Value) []ssa.Value {
	var res []ssa.Value
	for _, o := range ir.Origins(v) {
		res = append(res, o)
		// field of a spilled struct: load of FieldAddr(alloc) -> the stores into the alloc / its fields
		if u, ok := o.(*ssa.UnOp); ok && u.Op == token.MUL {
			var al *ssa.Alloc
			cellOf := func(x ssa.Value) *ssa.Alloc {
				switch c := x.(type) {
				case *ssa.Alloc:
					return c
				case *ssa.FreeVar:
					b, _ := ir.BindingOf(c).(*ssa.Alloc)
					return b
				}
				return nil
			}
			switch a := u.X.(type) {
			case *ssa.FieldAddr:
				al = cellOf(a.X)
			default:
				al = cellOf(a)
			}
			if al != nil && al.Referrers() != nil {
				for _, ref := range *al.Referrers() {
					switch x := ref.(type) {
					case *ssa.Store:
						if x.Addr == ssa.Value(al) {
							res = append(res, ir.Origins(x.Val)...)
						}
					case *ssa.FieldAddr:
						if x.Referrers() != nil {
							for _, r2 := range *x.Referrers() {
								if st, ok := r2.(*ssa.Store); ok && st.Addr == ssa.Value(x) {
									res = append(res, ir.Origins(st.Val)...)
								}
							}
						}
					}
				}
			}
		}
	}
	return res
}

// baseOf follows loads, field addresses and field extractions down to the value or cell they read from.
func baseOf(v ssa.Value) ssa.Value {
	for i := 0; i < 32; i++ {
		switch x := v.(type) {
		case *ssa.UnOp:
			if x.Op != token.MUL {
				return v
			}
			v = x.X
		case *ssa.FieldAddr:
			v = x.X
		case *ssa.Field:
			v = x.X
		case *ssa.ChangeType:
			v = x.X
		default:
			return v
		}
	}
	return v
}

// pairOfKey reports whether v is read from the pair that items.Get(key) returned, or from the same iterator
// entry the key was read from - directly or through any chain of local copies (a helper parameter after inlining, a
// struct variable, a captured variable): every value it can stem from must be such an entry.
func (r *lruRoles) pairOfKey(v ssa.Value, key ssa.Value) bool { return r.pairOfKeyD(v, key, 0) }

func (r *lruRoles) pairOfKeyD(v ssa.Value, key ssa.Value, depth int) bool {
	roots := ir.CopyRoots(v)
	if len(roots) == 0 {
		return false
	}
	keyRoots := ir.CopyRoots(key)
	// both handed in as parameters of a private helper ("dropLocked(k, e)"): the pair must belong to the key at every
	// place the helper is called from
	if vp, isP := roots[0].(*ssa.Parameter); isP && len(roots) == 1 && depth < 3 {
		kp, isKP := ir.Resolve(key).(*ssa.Parameter)
		fn := vp.Parent()
		if !isKP || kp.Parent() != fn {
			return false
		}
		idx := func(p *ssa.Parameter) int {
			for i, q := range fn.Params {
				if q == p {
					return i
				}
			}
			return -1
		}
		vi, ki := idx(vp), idx(kp)
		sites, ok := r.locks.callersOf(fn)
		if !ok || vi < 0 || ki < 0 || fn.Parent() != nil {
			return false
		}
		for _, s := range sites {
			call, isCall := s.(*ssa.Call)
			if !isCall || vi >= len(call.Call.Args) || ki >= len(call.Call.Args) {
				return false
			}
			if !r.pairOfKeyD(call.Call.Args[vi], call.Call.Args[ki], depth+1) {
				return false
			}
		}
		return true
	}
	for _, f := range roots {
		ex, ok := f.(*ssa.Extract)
		if !ok {
			return false
		}
		call, ok := ex.Tuple.(*ssa.Call)
		if !ok {
			return false
		}
		if g := r.itemsCall(call, r.mGet); g != nil && ex.Index == 0 && sameKeyH(g.Call.Args[1], key) {
			continue
		}
		if call.Call.IsInvoke() && call.Call.Method.Name() == "Next" {
			// the key must come from the same entry
			fromSame := len(keyRoots) > 0
			for _, kf := range keyRoots {
				if ke, ok := kf.(*ssa.Extract); !ok || ke.Tuple != ssa.Value(call) {
					fromSame = false
				}
			}
			if fromSame {
				continue
			}
		}
		return false
	}
	return true
}

// sameKeyH: the two key operands are the same value - the same SSA value after resolution, or both copies (no field
// selection on the way) of one and the same root value.
func sameKeyH(a, b ssa.Value) bool {
	if same(a, b) {
		return true
	}
	pure := func(v ssa.Value) ssa.Value {
		for i := 0; i < 16; i++ {
			v = ir.Resolve(v)
			u, ok := v.(*ssa.UnOp)
			if !ok || u.Op != token.MUL {
				return v
			}
			var cell ssa.Value
			switch x := u.X.(type) {
			case *ssa.Alloc:
				cell = x
			case *ssa.FreeVar:
				cell = ir.BindingOf(x)
			}
			if cell == nil {
				return v
			}
			sts := ir.StoresTo(cell)
			if len(sts) != 1 {
				return v
			}
			v = sts[0].Val
		}
		return v
	}
	pa, pb := pure(a), pure(b)
	return pa != nil && pa == pb
}

// onlyViaMiss: every path from the entry to the create call passes the not-found edge of the lookup.
func (c *Ctx) onlyViaMiss(fn *ssa.Function, get, create *ssa.Call) bool {
	w, err := (ir.Flow{Fn: fn, From: get, Target: func(x ssa.Instruction) bool { return x == ssa.Instruction(create) },
		BlockEdge: func(from, to *ssa.BasicBlock) bool {
			f := ir.EdgeFact(from, to)
			if f == nil {
				return false
			}
			ff := f.StripNot()
			ex, ok := ff.Cond.(*ssa.Extract)
			return ok && ex.Tuple == ssa.Value(get) && ex.Index == 1 && !ff.True
		},
		Block: func(x ssa.Instruction) bool { return x == ssa.Instruction(get) }}).Find()
	return w == nil && err == nil
}

// freshNonNilH: v is a newly made channel or object (make(chan), &T{}, new(T)), directly or as the result of a
// constructor function of the package all of whose returns are one - a value that is certainly not nil.
func freshNonNilH(v ssa.Value, depth int) bool {
	switch x := ir.Resolve(v).(type) {
	case *ssa.MakeChan, *ssa.Alloc:
		return true
	case *ssa.Call:
		cal := ir.StaticCallee(x)
		if depth > 2 || cal == nil || x.Call.IsInvoke() || len(cal.Blocks) == 0 || cal.Signature.Results().Len() != 1 {
			return false
		}
		rets := ir.Returns(cal)
		for _, ret := range rets {
			for _, o := range phiClosure(ir.Resolve(ir.ResultValue(ret, 0))) {
				if !freshNonNilH(o, depth+1) {
					return false
				}
			}
		}
		return len(rets) > 0
	}
	return false
}

// staleTestH decodes a boolean value as the staleness test "the expiry time is before now" - which is true exactly
// when the item is stale. The two spellings of the strict comparison are equivalent for all operands
// (a.Before(b) == b.After(a)); the non-strict ones (!a.After(b)) are not and are not accepted. The test may sit in a
// predicate function of the package that returns it for its parameters. subject is the value whose expiry is read (the
// receiver chain of the expiry operand is followed to its root), now the other operand, both in terms of the caller.
func staleTestH(v ssa.Value, depth int) (subject, now ssa.Value, ok bool) {
	call, isCall := v.(*ssa.Call)
	if !isCall || depth > 3 || call.Call.IsInvoke() {
		return nil, nil, false
	}
	rootRecv := func(x ssa.Value) ssa.Value {
		for i := 0; i < 8; i++ {
			x = ir.Resolve(x)
			cc, isC := x.(*ssa.Call)
			if !isC {
				return x
			}
			if cc.Call.IsInvoke() {
				x = cc.Call.Value
				continue
			}
			if r := ir.Recv(cc); r != nil {
				x = r
				continue
			}
			return x
		}
		return x
	}
	switch ir.CalleeFullName(call) {
	case "(time.Time).Before":
		return rootRecv(call.Call.Args[0]), call.Call.Args[1], true
	case "(time.Time).After":
		return rootRecv(call.Call.Args[1]), call.Call.Args[0], true
	}
	cal := ir.StaticCallee(call)
	if cal == nil || len(cal.Blocks) == 0 || cal.Pkg == nil || call.Parent() == nil || rootFnH(call.Parent()).Pkg != cal.Pkg {
		return nil, nil, false
	}
	if cal.Signature.Results().Len() != 1 {
		return nil, nil, false
	}
	mapParam := func(x ssa.Value) ssa.Value {
		x = ir.Resolve(x)
		if p, isP := x.(*ssa.Parameter); isP {
			for i, q := range cal.Params {
				if q == p && i < len(call.Call.Args) {
					return call.Call.Args[i]
				}
			}
		}
		return x
	}
	rets := ir.Returns(cal)
	if len(rets) == 0 {
		return nil, nil, false
	}
	for _, ret := range rets {
		s, n, okR := staleTestH(ir.Resolve(ir.ResultValue(ret, 0)), depth+1)
		if !okR {
			return nil, nil, false
		}
		s, n = mapParam(s), mapParam(n)
		if subject != nil && (ir.Resolve(s) != ir.Resolve(subject) || ir.Resolve(n) != ir.Resolve(now)) {
			return nil, nil, false
		}
		subject, now = s, n
	}
	return subject, now, true
}

func (c *Ctx) expirableWrapper(r *lruRoles, rule string) {
	exp := c.P.LookupType("container/lru", "ExpirableCache")
	if exp == nil {
		c.Fatalf("role ExpirableCache not found")
	}
	fn := c.RequireFn(c.P.MethodOf(exp, "GetOrCreate"), "ExpirableCache.GetOrCreate")
	// calls to the embedded cache's GetOrCreate and Remove
	var gocs []*ssa.Call
	var rems []*ssa.Call
	for _, call := range ir.Calls(fn) {
		if cal := ir.StaticCallee(call); cal != nil {
			switch cal {
			case r.getOrCreate:
				gocs = append(gocs, call.(*ssa.Call))
			case r.remove:
				rems = append(rems, call.(*ssa.Call))
			}
			// promoted through Cache: wrappers resolve to the ECache methods' origin
			if cal.Name() == "GetOrCreate" && cal != r.getOrCreate && cal != fn {
				gocs = append(gocs, call.(*ssa.Call))
			}
			if cal.Name() == "Remove" && cal != r.remove {
				rems = append(rems, call.(*ssa.Call))
			}
		}
	}
	if len(gocs) < 2 || len(rems) < 1 {
		c.Decide(rule, fn, "expired item is removed and created again", nil, false, "the expirable wrapper does not remove and re-create a stale item")
		return
	}
	isExpired := func(b *ssa.BasicBlock, want bool) bool {
		return ir.HasFact(b, func(f ir.Fact) bool {
			f = f.StripNot()
			if f.True != want {
				return false
			}
			// "expiry before now", in either spelling (t.Before(now), now.After(t)), directly or through a predicate
			// helper; the expiry is GetExpiresAt() of the cached value, now a time.Now() taken by the wrapper
			_, nowV, ok := staleTestH(f.Cond, 0)
			if !ok {
				return false
			}
			now, isNow := ir.Resolve(nowV).(*ssa.Call)
			return isNow && ir.CalleeFullName(now) == "time.Now"
		})
	}
	// the moment the staleness is judged against is taken before the lookup: the lookup may be the miss that creates the
	// item, and an item whose expiry lies between the entry of the call and the end of its own creation would be judged
	// stale right after it was inserted (removed - a delete callback for a resident entry - and created a second time)
	{
		first := gocs[0]
		for _, g := range gocs {
			if ir.Dominates(g, first) {
				first = g
			}
		}
		for _, rm := range rems {
			for _, f := range ir.Facts(rm.Block()) {
				ff := f.StripNot()
				_, nowV, ok := staleTestH(ff.Cond, 0)
				if !ok {
					continue
				}
				now, isNow := ir.Resolve(nowV).(*ssa.Call)
				if !isNow || ir.CalleeFullName(now) != "time.Now" {
					continue
				}
				c.Decide(rule, fn, "staleness judged against a clock read before the lookup", now, now.Parent() == fn && ir.Dominates(now, first),
					"the clock the staleness test uses is read after the lookup: an item created by this very call whose expiry passes while it is being created is removed again at once and created a second time - one miss runs the create function twice and fires the delete callback for an entry that stays resident in the reference cache")
			}
		}
	}
	for _, rm := range rems {
		c.Decide(rule, fn, "Remove only on the expired edge", rm, isExpired(rm.Block(), true), "the wrapper removes an item that is not expired (GetExpiresAt().Before(now))")
		c.NoFlow(rule, "expired item is created again", rm, ir.Flow{Fn: fn, From: rm,
			Block: func(x ssa.Instruction) bool {
				for _, g := range gocs {
					if x == ssa.Instruction(g) {
						return true
					}
				}
				return false
			}, Target: ir.IsExit}, "a stale item is removed but not created again")
	}
	// what the re-creation returns is what the caller gets: value and error of the second GetOrCreate reach every
	// return that can follow it
	for _, ret := range ir.Returns(fn) {
		for _, g := range gocs[1:] {
			ret, g := ret, g
			if w, _ := (ir.Flow{Fn: fn, From: g, Target: func(x ssa.Instruction) bool { return x == ssa.Instruction(ret) }}).Find(); w == nil {
				continue
			}
			carries := func(v ssa.Value, idx int) bool {
				if ir.Resolve(v) == ssa.Value(g) {
					return true
				}
				for _, o := range phiClosure(ir.Resolve(v)) {
					if ex, isEx := ir.Resolve(o).(*ssa.Extract); isEx && ex.Tuple == ssa.Value(g) && ex.Index == idx {
						return true
					}
					if ir.Resolve(o) == ssa.Value(g) {
						return true
					}
				}
				return false
			}
			okV := carries(ir.ResultValue(ret, 0), 0)
			okE := carries(ir.ResultValue(ret, 1), 1) || ir.Resolve(ir.ResultValue(ret, 0)) == ssa.Value(g)
			c.Decide(rule, fn, "result of the re-creation is returned as it is", ret, okV && okE, "the value or the error of the re-creation of an expired item does not reach the caller: a failed re-creation is reported as success with a zero value")
		}
	}
	// the fresh edge returns the cached value unchanged
	first := gocs[0]
	for _, ret := range ir.Returns(fn) {
		if isExpired(ret.Block(), false) {
			ok := false
			if ex, isEx := ir.Resolve(ir.ResultValue(ret, 0)).(*ssa.Extract); isEx && ex.Tuple == ssa.Value(first) && ex.Index == 0 {
				ok = true
			}
			c.Decide(rule, fn, "fresh item returned unchanged", ret, ok, "a fresh (not expired) item is not returned as it was found")
		}
	}
	c.R.Floor(rule, 2)
}

func runC09(c *Ctx) {
	mapRules(c, "C09.M")
	// R11 (v_lru_h.go): decided on the types, before the role "the cache mutex" is resolved (it fails on two mutexes)
	c.lruOneMutexV("C09.R11")
	r := resolveLRURoles(c)
	mpath := r.mutexPath
	lv := r.locks
	// R2, across helpers and deferred calls (v_lru_flight.go); before the roles below are resolved in GetOrCreate's own body
	c.lruReleaseInsertSectionV(r, "C09.R2")
	// R9, R10 (v_lru_g.go): an insert knows about a creation in flight; a re-assigned list is never used through a stale pointer
	c.lruInsertKnowsFlightV(r, "C09.R9")
	c.R.Floor("C09.R9", 1)
	c.lruListPointerFreshV(r, "C09.R10")
	c.R.Floor("C09.R10", 1)
	// R1 lockset
	for _, fn := range r.bodies {
		fn := fn
		ir.Instrs(fn, func(in ssa.Instruction) {
			if call := r.anyItemsCall(in); call != nil {
				c.Decide("C09.R1", fn, "recency list used under the lock", in, lv.Held(in, mpath), "the recency list is accessed without the cache mutex")
			}
			if fa, ok := in.(*ssa.FieldAddr); ok && ir.FieldOf(fa) == r.inflight {
				c.Decide("C09.R1", fn, "in-flight table used under the lock", in, lv.Held(in, mpath), "the in-flight table is accessed without the cache mutex")
			}
			// iterators over the list
			if call, ok := in.(*ssa.Call); ok && call.Call.IsInvoke() && (call.Call.Method.Name() == "Next" || call.Call.Method.Name() == "HasNext") {
				for _, o := range ir.CopyRoots(call.Call.Value) {
					if oc, ok := o.(*ssa.Call); ok && r.itemsCall(oc, r.mIt) != nil {
						c.Decide("C09.R1", fn, "list iterator used under the lock", in, lv.Held(in, mpath), "an iterator over the recency list is advanced without the cache mutex")
						break
					}
				}
			}
		})
	}
	c.sharedSitesU(r, "C09.R1", "list access", 1, func(in ssa.Instruction) bool { return r.anyItemsCall(in) != nil }) // v_lru_u.go
	c.R.Floor("C09.R1", 14)

	goc := r.getOrCreate
	var createCall *ssa.Call
	ir.Instrs(goc, func(in ssa.Instruction) {
		if cc := fnValueCall(in, r.create); cc != nil {
			createCall = cc
		}
	})
	if createCall == nil {
		c.Fatalf("GetOrCreate: create call not found")
	}
	isReg := func(x ssa.Instruction) bool {
		mu, ok := x.(*ssa.MapUpdate)
		if !ok {
			return false
		}
		_, isIn := loadOfField(mu.Map, r.inflight)
		return isIn
	}
	isDereg := func(x ssa.Instruction) bool {
		cc := builtinCall(x, "delete")
		if cc == nil {
			return false
		}
		_, isIn := loadOfField(cc.Args[0], r.inflight)
		return isIn
	}
	// every registration stores a non-nil record: then "the looked-up record is nil" means "no entry"
	regsNonNil := true
	for _, fn := range c.P.FuncsOf("container/lru") {
		ir.Instrs(fn, func(in ssa.Instruction) {
			if isReg(in) {
				for _, o := range phiClosure(ir.Resolve(in.(*ssa.MapUpdate).Value)) {
					if !freshNonNilH(o, 0) {
						regsNonNil = false
					}
				}
			}
		})
	}
	// recordOf: the in-flight record a channel operand belongs to (the operand itself for the bare-channel table)
	recordOf := func(v ssa.Value) ssa.Value {
		v = ir.Resolve(v)
		if r.inflightChan != nil {
			if u, ok := v.(*ssa.UnOp); ok && u.Op == token.MUL {
				if fa, isFA := u.X.(*ssa.FieldAddr); isFA && ir.FieldOf(fa) == r.inflightChan {
					return ir.Resolve(fa.X)
				}
			}
			if f, ok := v.(*ssa.Field); ok && ir.FieldOf(f) == r.inflightChan {
				return ir.Resolve(f.X)
			}
		}
		return v
	}
	// R2 single flight
	{
		regHere, regElsewhere := 0, 0
		for _, fn := range lv.reachable(goc) {
			fn := fn
			ir.Instrs(fn, func(in ssa.Instruction) {
				if isReg(in) {
					if fn == goc {
						regHere++
					} else {
						regElsewhere++
					}
				}
			})
		}
		if regHere == 0 && regElsewhere > 0 {
			// the registration sits in a helper that registers on some of its paths only: which paths of GetOrCreate have
			// registered cannot be read off GetOrCreate itself
			c.Undecided("C09.R2", goc, "create only after registering in the in-flight table", createCall, "the in-flight registration is performed by a helper of GetOrCreate; the rule needs it in line (normal form)")
		} else {
			// (an arrival whose path claims "entry present, and the channel read from it is nil" is no execution when every
			// registration stores a fresh channel: v_lru_w.go)
			impossible := r.impossibleFlightStateW(goc, regsNonNil)
			c.NoFlow("C09.R2", "create only after registering in the in-flight table", createCall, ir.Flow{Fn: goc, Block: isReg,
				TargetAt: func(x ssa.Instruction, st *ir.FlowState) bool { return x == ssa.Instruction(createCall) && !impossible(st) }},
				"the create function can run for a key without this goroutine having registered it as in flight: two creations of one key can overlap")
		}
		// registration is conditional on "nobody else is creating": dominated by the not-present edge of the in-flight lookup
		ir.Instrs(goc, func(in ssa.Instruction) {
			if !isReg(in) {
				return
			}
			mu := in.(*ssa.MapUpdate)
			isLookup := func(v ssa.Value, commaOk bool) bool {
				lk, isLk := v.(*ssa.Lookup)
				if !isLk || lk.CommaOk != commaOk {
					return false
				}
				_, isIn := loadOfField(lk.X, r.inflight)
				return isIn && sameKeyH(lk.Index, mu.Key)
			}
			ok := ir.HasFact(in.Block(), func(f ir.Fact) bool {
				// the comma-ok form: the "present" result is false
				ff := f.StripNot()
				if ex, isEx := ff.Cond.(*ssa.Extract); isEx && ex.Index == 1 && !ff.True && isLookup(ex.Tuple, true) {
					return true
				}
				// the nil form: the looked-up record is nil (registrations never store nil)
				if cm, isCmp := f.Cmp(); isCmp && cm.Op == token.EQL && regsNonNil {
					x, y := cm.X, cm.Y
					if ir.IsNilConst(x) {
						x, y = y, x
					}
					if ir.IsNilConst(y) {
						x = ir.Resolve(x)
						if isLookup(x, false) {
							return true
						}
						if ex, isEx := x.(*ssa.Extract); isEx && ex.Index == 0 && isLookup(ex.Tuple, true) {
							return true
						}
					}
				}
				return false
			})
			c.Decide("C09.R2", goc, "registration only when no creation is in flight", in, ok, "an in-flight entry is overwritten although another goroutine is creating this key")
			// from the registration every path to an exit closes the channel and deletes the entry
			rec := ir.Resolve(mu.Value)
			isClose := func(x ssa.Instruction) bool {
				cc := builtinCall(x, "close")
				if cc == nil {
					return false
				}
				for _, o := range phiClosure(recordOf(cc.Args[0])) {
					if ir.Resolve(o) == rec {
						return true
					}
				}
				// the record is read back from the table under the registered key ("close(inflight[k])"): between the
				// registration and this point the entry of k is the registered one - nobody registers over a present
				// entry, only the creator deregisters, the table is replaced only by the constructor (the census
				// obligations of this rule) - so this closes the channel the waiters of k were handed
				return r.inflightEntryOfC(recordOf(cc.Args[0]), mu.Key)
			}
			c.NoFlow("C09.R2", "registered creation closes its channel", in, ir.Flow{Fn: goc, From: in, Block: isClose, Target: ir.IsExit},
				"a creation can finish without closing its in-flight channel: waiters block forever")
			c.NoFlow("C09.R2", "registered creation deregisters", in, ir.Flow{Fn: goc, From: in, Block: isDereg, Target: ir.IsExit},
				"a creation can finish without removing its in-flight entry: the key can never be created again")
		})
		// close, deregister and insert in one critical section: no Unlock between close and the Add / deregister
		ir.Instrs(goc, func(in ssa.Instruction) {
			if cc := builtinCall(in, "close"); cc != nil {
				// (a close no path from the entry reaches - the arm of a flag that is constant after a helper was inlined - is
				// no event of any run)
				if w, err := (ir.Flow{Fn: goc, Target: func(x ssa.Instruction) bool { return x == in }}).Find(); w == nil && err == nil {
					return
				}
				c.Decide("C09.R2", goc, "channel closed under the lock", in, lv.Held(in, mpath), "the in-flight channel is closed without the lock")
				// no path close -> unlock -> Add
				bad := false
				ir.Instrs(goc, func(u ssa.Instruction) {
					if !r.isUnlock(u) {
						return
					}
					w1, _ := (ir.Flow{Fn: goc, From: in, Target: func(x ssa.Instruction) bool { return x == u }, Block: r.isLock}).Find()
					if w1 == nil {
						return
					}
					w2, _ := (ir.Flow{Fn: goc, From: u, Target: func(x ssa.Instruction) bool { return r.itemsCall(x, r.mAdd) != nil || isDereg(x) }, Block: func(x ssa.Instruction) bool {
						return x == in || fnValueCall(x, r.create) != nil
					}}).Find()
					if w2 != nil {
						bad = true
					}
				})
				c.Decide("C09.R2", goc, "close, deregister and insert in one critical section", in, !bad, "waiters are released before the value is inserted / the entry is deregistered: a released waiter misses the value and starts a second creation")
			}
		})
		// census: writers of the in-flight table (z_c08_lru.go; shared with C08.R9)
		c.inflightCensus(r, "C09.R2")
		// deregistration only by the creator: dominated by the create call (in a helper: at every place it is run from)
		for _, fn := range lv.reachable(goc) {
			fn := fn
			ir.Instrs(fn, func(in ssa.Instruction) {
				if isDereg(in) {
					byCreator := lv.holdsInter(in, func(at ssa.Instruction) bool { return at.Parent() == goc && ir.Dominates(createCall, at) })
					c.Decide("C09.R2", fn, "deregistration by the creator", in, byCreator, "an in-flight entry is removed by a goroutine that did not run the creation")
				}
			})
		}
	}
	c.R.Floor("C09.R2", 9)

	// R3 wait and create unlocked; waiter retries
	{
		// a lookup: items.Get, or a call of a package function that performs one on every path (the first critical section
		// moved into a helper, or run as a literal under a withLock-style wrapper)
		lookupEff := newMustEffectH(lv, func(x ssa.Instruction) bool { return r.itemsCall(x, r.mGet) != nil })
		c.Decide("C09.R3", goc, "create runs with the lock released", createCall, len(lv.Any(createCall)) == 0, "the create function runs under the cache mutex: every other key is blocked and a create that uses the cache deadlocks")
		n := 0
		ir.Instrs(goc, func(in ssa.Instruction) {
			// a wait: a channel receive, as a statement/expression or as a case of a blocking select
			isWait := false
			switch x := in.(type) {
			case *ssa.UnOp:
				isWait = x.Op == token.ARROW
			case *ssa.Select:
				for _, st := range x.States {
					if x.Blocking && st.Dir == types.RecvOnly {
						isWait = true
					}
				}
			}
			if !isWait {
				return
			}
			n++
			c.Decide("C09.R3", goc, "in-flight wait with the lock released", in, len(lv.Any(in)) == 0, "waiting for the in-flight creation under the cache mutex deadlocks with the creator")
			c.NoFlow("C09.R3", "waiter goes back to the lookup", in, ir.Flow{Fn: goc, From: in,
				Block:  lookupEff.Is,
				Target: func(x ssa.Instruction) bool { return ir.IsExit(x) || fnValueCall(x, r.create) != nil }},
				"after waiting for an in-flight creation the goroutine does not look the key up again")
		})
		if n == 0 {
			c.Decide("C09.R3", goc, "later missers wait for the in-flight creation", nil, false, "GetOrCreate never waits for an in-flight creation")
		}
	}

	lruCapacityRule(c, r, "C09.R4")
	c.R.Floor("C09.R4", 4)

	// R5 the delete callback runs under the mutex, in the critical section of the removal it belongs to
	for _, fn := range r.bodies {
		fn := fn
		ir.Instrs(fn, func(in ssa.Instruction) {
			cb, _, _ := r.cbCall(in)
			if cb == nil {
				return
			}
			held := lv.Held(in, mpath)
			c.Decide("C09.R5", fn, "delete callback under the cache mutex", in, held, "the delete callback runs after the mutex was released: Clear/Remove can complete while a value is still being deleted, and a new value for the key can be created before the old one is deleted")
			if held {
				// the removal it reports happened in this critical section: no Lock between a Remove and the callback
				bad := false
				ir.Instrs(fn, func(rm ssa.Instruction) {
					if r.itemsCall(rm, r.mRemove) == nil || !ir.Dominates(rm, in) {
						return
					}
					ir.Instrs(fn, func(l ssa.Instruction) {
						if !r.isLock(l) {
							return
						}
						w1, _ := (ir.Flow{Fn: fn, From: rm, Block: func(x ssa.Instruction) bool { return x == in }, Target: func(x ssa.Instruction) bool { return x == l }}).Find()
						w2, _ := (ir.Flow{Fn: fn, From: l, Block: func(x ssa.Instruction) bool { return x == rm }, Target: func(x ssa.Instruction) bool { return x == in }}).Find()
						if w1 != nil && w2 != nil {
							bad = true
						}
					})
				})
				c.Decide("C09.R5", fn, "callback in the critical section of its removal", in, !bad, "the mutex is released between the removal and its delete callback")
			}
		})
	}
	c.sharedSitesU(r, "C09.R5", "callback site", 2, func(in ssa.Instruction) bool { cb, _, _ := r.cbCall(in); return cb != nil }) // v_lru_u.go
	c.R.Floor("C09.R5", 6)

	// R6-R8 (z_c08_lru.go): operations are single critical sections; a looked-up value is re-inserted in the section
	// that read it; the in-flight entry is removed under the key it was registered under
	c.lruOpsAtomic(r, "C09.R6")
	c.R.Floor("C09.R6", 2)
	c.lruReinsertInSection(r, "C09.R7")
	c.lruFlightKey(r, "C09.R8")

	// Q: every history must be a sequential LRU history, so the sequential rules apply too
	lruSequentialRules(c, "C09.Q")
}

// lruCapacityRule is C09.R4 / C11.R4.
func lruCapacityRule(c *Ctx, r *lruRoles, rule string) {
	goc := r.getOrCreate
	lv := r.locks
	// the census over every insert site of the package (v_lru_census.go); it does not need the create call in
	// GetOrCreate's own body, so it runs before that role is resolved
	c.lruInsertCensusV(r, rule)
	// the capacity changes only at construction, or the bound is restored by a loop (v_lru_h.go)
	c.lruCapacityLoweredV(r, rule)
	var createCall *ssa.Call
	ir.Instrs(goc, func(in ssa.Instruction) {
		if cc := fnValueCall(in, r.create); cc != nil {
			createCall = cc
		}
	})
	if createCall == nil {
		c.Fatalf("GetOrCreate: create call not found")
	}
	// afterCreate: the instruction runs after the create call of GetOrCreate - it is dominated by it, or it sits in a
	// private helper / a literal that is only run from places dominated by it
	scope := r.gocScope()
	afterCreate := func(x ssa.Instruction) bool {
		return lv.holdsInterIn(x, scope, func(at ssa.Instruction) bool { return at.Parent() == goc && ir.Dominates(createCall, at) })
	}
	// R4 capacity
	{
		n, elsewhere := 0, 0
		isCapTest := func(x ssa.Instruction) bool {
			iff, ok := x.(*ssa.If)
			if !ok {
				return false
			}
			cm, ok := ir.AsCmp(iff.Cond)
			if !ok {
				return false
			}
			lenX := r.itemsCall(asInstr(cm.X), r.mLen) != nil
			lenY := r.itemsCall(asInstr(cm.Y), r.mLen) != nil
			_, capX := loadOfField(cm.X, r.capacity)
			_, capY := loadOfField(cm.Y, r.capacity)
			return (lenX && capY) || (capX && lenY)
		}
		for _, fn := range lv.reachable(goc) {
			if !scope[fn] {
				continue
			}
			fn := fn
			ir.Instrs(fn, func(in ssa.Instruction) {
				add := r.itemsCall(in, r.mAdd)
				if add == nil {
					return
				}
				// miss-path insert = after the create call
				if !afterCreate(add) {
					if fn != goc {
						elsewhere++
					}
					return
				}
				n++
				c.NoFlow(rule, "insert followed by the capacity test before unlock", add, ir.Flow{Fn: fn, From: add, Block: isCapTest,
					Target: func(x ssa.Instruction) bool { return r.isUnlock(x) || ir.IsExit(x) }},
					"a value is inserted and the lock released without the capacity test: with overlapping creations the cache stays above its capacity")
			})
		}
		if n == 0 {
			if elsewhere > 0 {
				c.Undecided(rule, goc, "miss path inserts under the creator", nil, "the inserts GetOrCreate performs sit in helpers that are also run from places the create call does not dominate")
			} else {
				c.Decide(rule, goc, "miss path inserts under the creator", nil, false, "no insert after the create call found")
			}
		}
		// the eviction happens in the same critical section as the insert: Remove of First dominated by the Add of this
		// creation (seen from inside a helper: at every place the helper is run from)
		for _, fn := range lv.reachable(goc) {
			if !scope[fn] {
				continue
			}
			fn := fn
			ir.Instrs(fn, func(in ssa.Instruction) {
				rem := r.itemsCall(in, r.mRemove)
				if rem == nil || !r.firstRooted(rem.Call.Args[1]) {
					return
				}
				okDom := lv.holdsInterIn(rem, scope, func(at ssa.Instruction) bool {
					found := false
					ir.Instrs(at.Parent(), func(x ssa.Instruction) {
						if a := r.itemsCall(x, r.mAdd); a != nil && ir.Dominates(a, at) && afterCreate(a) {
							found = true
						}
					})
					return found
				})
				c.Decide(rule, fn, "eviction decided after the insert of this creation", rem, okDom, "the eviction is decided before the created value is inserted (a different critical section): overlapping creations each see room and nobody evicts")
			})
		}
	}
}

// expirableAtomicity (C08.R8): the expiry wrapper decides staleness on whatever the inner GetOrCreate returned - which
// may be a value created by this very call - and then removes by key, in separate critical sections. Sequentially a
// create function that returns an already expired item makes ONE miss call create twice (and a failing second creation
// leaves the eviction of the first one behind: "a failed creation changes nothing" is broken); concurrently two callers
// that saw the same stale item both Remove(k), the second one destroying the fresh replacement of the first. The
// structural clause: the staleness test is not applied to the result of GetOrCreate followed by an unconditional
// Remove of the key (it belongs on the hit path under the cache lock).
func (c *Ctx) expirableAtomicity(r *lruRoles, rule string) {
	exp := c.P.LookupType("container/lru", "ExpirableCache")
	if exp == nil {
		c.Fatalf("role ExpirableCache not found")
	}
	fn := c.RequireFn(c.P.MethodOf(exp, "GetOrCreate"), "ExpirableCache.GetOrCreate")
	c.KeyByRole(fn, "lru.expirableGetOrCreate")
	isGOC := func(call *ssa.Call) bool {
		cal := ir.StaticCallee(call)
		return cal != nil && cal != fn && (cal == r.getOrCreate || cal.Name() == "GetOrCreate")
	}
	isRemove := func(call *ssa.Call) bool {
		cal := ir.StaticCallee(call)
		return cal != nil && (cal == r.remove || cal.Name() == "Remove")
	}
	// staleness tests whose subject is the result of GetOrCreate
	var fromGOC func(v ssa.Value, d int) bool
	fromGOC = func(v ssa.Value, d int) bool {
		if d > 6 || v == nil {
			return false
		}
		for _, o := range ir.Origins(v) {
			switch x := o.(type) {
			case *ssa.Extract:
				if call, ok := x.Tuple.(*ssa.Call); ok && isGOC(call) {
					return true
				}
			case *ssa.Call:
				if isGOC(x) {
					return true
				}
				if x.Call.IsInvoke() {
					if fromGOC(x.Call.Value, d+1) {
						return true
					}
				}
				for _, a := range x.Call.Args {
					if fromGOC(a, d+1) {
						return true
					}
				}
			case *ssa.MakeInterface:
				if fromGOC(x.X, d+1) {
					return true
				}
			}
		}
		return false
	}
	bad := false
	var at ssa.Instruction
	for _, call := range ir.Calls(fn) {
		cc, ok := call.(*ssa.Call)
		if !ok || !isRemove(cc) {
			continue
		}
		stale := ir.HasFact(cc.Block(), func(f ir.Fact) bool {
			f = f.StripNot()
			t, ok := f.Cond.(*ssa.Call)
			if !ok {
				return false
			}
			switch ir.CalleeFullName(t) {
			case "(time.Time).Before", "(time.Time).After":
				return fromGOC(t.Call.Args[0], 0) || fromGOC(t.Call.Args[1], 0)
			}
			// the same test behind a predicate helper
			if subj, nowV, ok := staleTestH(t, 0); ok {
				return fromGOC(subj, 0) || fromGOC(nowV, 0)
			}
			return false
		})
		if stale {
			bad = true
			at = cc
		}
	}
	c.Decide(rule, fn, "stale-test-on-GetOrCreate-result-then-Remove-by-key", at, !bad,
		"the wrapper tests the expiration of whatever GetOrCreate returned (possibly the value this call just created) and then removes by key in a separate critical section: a create function returning an already expired item makes one miss create twice and run the delete callback for a value no caller saw (a failing second creation leaves the first one's eviction behind), and two concurrent callers that saw the same stale item both Remove(k) - the second destroys the fresh replacement")
}
