package rules

import (
	"go/token"
	"go/types"
	"strings"

	"golang.org/x/tools/go/ssa"

	"verif/checker/ir"
)

func init() {
	register(&Check{
		ID: "C08", Title: "LRU cache behaves as a reference LRU for every call sequence",
		Pkgs:      []string{"container/lru", "container/iterable"},
		Run:       runC08,
		Technique: "static analysis: must-pass-through path queries and guard dominance on go/ssa of container/lru (callback/removal pairing, hit re-insert, eviction target, no insert on failure), plus the structural rules of the ordered map the recency list is built on",
		Explanation: "R1: every items.Remove(k) is followed on all paths by the nil-guarded delete callback with the pair read for that key before the removal - except when it is followed in the same critical section by items.Add of the same key (move to most recent). " +
			"R2: in the overflow branch the removed key is the result of items.First(); the branch is guarded by the strict comparison Len()>capacity evaluated after the Add. " +
			"R3: items.Add on the miss path is dominated by the nil edge of the create function's error. R4: the create call is dominated by the not-found edge of items.Get. " +
			"R5: the expirable wrapper removes and re-creates exactly on the GetExpiresAt().Before(now) edge and returns the value unchanged otherwise. " +
			"R6: from the found edge of items.Get(k) every path to the return passes items.Remove(k) and then items.Add(k, same value). R7: from the success edge of the create call every path to an exit inserts the value. " +
			"M1-M8: the ordered map keeps its list consistent (the rules of C10), since eviction order is the list order. R8: the expiry wrapper does not apply its staleness test to the result of GetOrCreate (which may be the value this call created) followed by an unconditional Remove of the key in a separate critical section (open finding).",
		NotDecided: "refinement of a reference LRU over all call sequences; callback accounting as a count.",
	})
	register(&Check{
		ID: "C09", Title: "LRU cache under concurrency: single-flight, linearizable, nothing leaked",
		Pkgs:      []string{"container/lru", "container/iterable"},
		Run:       runC09,
		Technique: "static analysis: must-lockset dataflow, path-sensitive must-pass-through queries and who-may-write census on go/ssa of container/lru/ecache.go",
		Explanation: "R1: every method call on the recency list and every access to the in-flight table happens with the cache mutex held. " +
			"R2: the create call is reached only by the goroutine that registered the in-flight entry; from the registration every path to an exit closes the channel and deletes the entry, in the same critical section as the insert; the in-flight table is written only by registration, by that cleanup and by the constructor. " +
			"R3: waiting for an in-flight creation and the create call itself run with the lock released, and a waiter goes back to the lookup. " +
			"R4: every insert on the miss path is followed, before the lock is released, by the capacity test. R5: the delete callback runs under the mutex in the critical section of the removal it reports. Q1-Q7: the sequential LRU rules of C08 (a concurrent history must be equivalent to a sequential LRU history).",
		NotDecided: "linearizability of histories; created-versus-deleted balance over schedules.",
	})
}

type lruRoles struct {
	ecache                                 *types.Named
	mutex, items, inflight, create, onDel  *types.Var
	capacity                               *types.Var
	mGet, mRemove, mAdd, mLen, mFirst, mIt *ssa.Function
	getOrCreate, remove, clear             *ssa.Function
	methods                                []*ssa.Function
}

func resolveLRURoles(c *Ctx) *lruRoles {
	r := &lruRoles{}
	r.ecache = c.P.LookupType("container/lru", "ECache")
	mapT := c.P.LookupType("container/iterable", "Map")
	if r.ecache == nil || mapT == nil {
		c.Fatalf("role ECache / iterable.Map not found")
	}
	r.mutex = c.oneField("lru.mutex", r.ecache, func(f *types.Var) bool { return ir.IsNamed(f.Type(), "sync", "Mutex") })
	r.items = c.oneField("lru.items", r.ecache, func(f *types.Var) bool { return namedOf(f.Type()) == mapT })
	r.inflight = c.oneField("lru.inflight", r.ecache, func(f *types.Var) bool {
		m, ok := f.Type().Underlying().(*types.Map)
		if !ok {
			return false
		}
		_, isChan := m.Elem().Underlying().(*types.Chan)
		return isChan
	})
	r.capacity = c.oneField("lru.capacity", r.ecache, func(f *types.Var) bool { return types.Identical(f.Type(), types.Typ[types.Int]) })
	createT := c.P.LookupType("container/lru", "CreatePoolElemF")
	onDelT := c.P.LookupType("container/lru", "OnDeleteElemF")
	r.create = c.oneField("lru.createF", r.ecache, func(f *types.Var) bool { return namedOf(f.Type()) == createT && createT != nil })
	r.onDel = c.oneField("lru.onDeleteF", r.ecache, func(f *types.Var) bool { return namedOf(f.Type()) == onDelT && onDelT != nil })
	mm := func(name string) *ssa.Function { return c.RequireFn(c.P.MethodOf(mapT, name), "Map."+name) }
	r.mGet, r.mRemove, r.mAdd, r.mLen, r.mFirst, r.mIt = mm("Get"), mm("Remove"), mm("Add"), mm("Len"), mm("First"), mm("Iterator")
	em := func(name string) *ssa.Function { return c.RequireFn(c.P.MethodOf(r.ecache, name), "ECache."+name) }
	r.getOrCreate, r.remove, r.clear = em("GetOrCreate"), em("Remove"), em("Clear")
	for _, m := range c.P.MethodsOf(r.ecache) {
		if len(m.Blocks) > 0 {
			r.methods = append(r.methods, m)
		}
	}
	return r
}

// itemsCall returns the call when in calls method m on the recency list field.
func (r *lruRoles) itemsCall(in ssa.Instruction, m *ssa.Function) *ssa.Call {
	call, ok := in.(*ssa.Call)
	if !ok || ir.StaticCallee(call) != m || len(call.Call.Args) == 0 {
		return nil
	}
	if _, isItems := loadOfField(call.Call.Args[0], r.items); !isItems {
		return nil
	}
	return call
}

func (r *lruRoles) anyItemsCall(in ssa.Instruction) *ssa.Call {
	for _, m := range []*ssa.Function{r.mGet, r.mRemove, r.mAdd, r.mLen, r.mFirst, r.mIt} {
		if c := r.itemsCall(in, m); c != nil {
			return c
		}
	}
	return nil
}

// fnValueCall reports whether in invokes a function value loaded from field f.
func fnValueCall(in ssa.Instruction, f *types.Var) *ssa.Call {
	call, ok := in.(*ssa.Call)
	if !ok || call.Call.IsInvoke() || call.Call.StaticCallee() != nil {
		return nil
	}
	if _, isF := loadOfField(call.Call.Value, f); isF {
		return call
	}
	return nil
}

func (r *lruRoles) isUnlock(in ssa.Instruction) bool {
	p, _, rel := ir.LockOp(in)
	return rel && strings.HasSuffix(p, "."+r.mutex.Name())
}

func (r *lruRoles) isLock(in ssa.Instruction) bool {
	p, acq, _ := ir.LockOp(in)
	return acq && strings.HasSuffix(p, "."+r.mutex.Name())
}

func runC08(c *Ctx) {
	lruSequentialRules(c, "C08.R")
	c.expirableAtomicity(resolveLRURoles(c), "C08.R8")
	// M: the ordered map under the recency list
	mapRules(c, "C08.M")
}

// lruSequentialRules runs the sequential LRU rules under the prefix pfx (C08.R, C09.Q).
func lruSequentialRules(c *Ctx, pfx string) {
	r := resolveLRURoles(c)
	// R1 callback paired with removal
	for _, fn := range r.methods {
		ir.Instrs(fn, func(in ssa.Instruction) {
			rem := r.itemsCall(in, r.mRemove)
			if rem == nil {
				return
			}
			key := rem.Call.Args[1]
			// exemption: move to most recent = Add of the same key before the lock is released, on all paths
			isReAdd := func(x ssa.Instruction) bool {
				a := r.itemsCall(x, r.mAdd)
				return a != nil && same(a.Call.Args[1], key)
			}
			if w, _ := (ir.Query{Fn: fn, From: rem, Block: isReAdd, Target: func(x ssa.Instruction) bool { return ir.IsExit(x) || r.isUnlock(x) }}).Find(); w == nil {
				c.Decide(pfx+"1", fn, "removal paired with callback (re-insert of the same key)", rem, true, "")
				return
			}
			// the callback: invoked on all paths except the edge where it is nil
			isCb := func(x ssa.Instruction) bool { return fnValueCall(x, r.onDel) != nil }
			nilEdge := func(from, to *ssa.BasicBlock) bool {
				f := ir.EdgeFact(from, to)
				if f == nil {
					return false
				}
				cm, ok := f.Cmp()
				if !ok || cm.Op != token.EQL {
					return false
				}
				_, isCbX := loadOfField(cm.X, r.onDel)
				_, isCbY := loadOfField(cm.Y, r.onDel)
				return (isCbX && ir.IsNilConst(cm.Y)) || (isCbY && ir.IsNilConst(cm.X))
			}
			if !c.NoPath(pfx+"1", "removal paired with callback", rem, ir.Query{Fn: fn, From: rem, Block: isCb, BlockEdge: nilEdge, Target: ir.IsExit},
				"an entry leaves the cache without the delete callback") {
				return
			}
			// the callback gets the pair that belonged to the removed key
			ir.Instrs(fn, func(x ssa.Instruction) {
				cb := fnValueCall(x, r.onDel)
				if cb == nil || !ir.Dominates(rem, cb) {
					return
				}
				ok := true
				for _, a := range cb.Call.Args {
					if !r.pairOfKey(a, key) {
						ok = false
					}
				}
				c.Decide(pfx+"1", fn, "callback receives the removed entry", cb, ok, "the delete callback is not called with the key/value that were stored under the removed key")
			})
		})
	}
	c.R.Floor(pfx+"1", 6)

	goc := r.getOrCreate
	var getCall *ssa.Call
	ir.Instrs(goc, func(in ssa.Instruction) {
		if g := r.itemsCall(in, r.mGet); g != nil && getCall == nil {
			getCall = g
		}
	})
	var createCall *ssa.Call
	ir.Instrs(goc, func(in ssa.Instruction) {
		if cc := fnValueCall(in, r.create); cc != nil {
			createCall = cc
		}
	})
	if getCall == nil || createCall == nil {
		c.Fatalf("GetOrCreate: lookup or create call not found")
	}
	foundFact := func(b *ssa.BasicBlock, want bool) bool {
		return ir.HasFact(b, func(f ir.Fact) bool {
			f = f.StripNot()
			ex, ok := f.Cond.(*ssa.Extract)
			return ok && ex.Tuple == ssa.Value(getCall) && ex.Index == 1 && f.True == want
		})
	}

	// R2 eviction target and strict overflow test after the Add
	{
		n := 0
		ir.Instrs(goc, func(in ssa.Instruction) {
			rem := r.itemsCall(in, r.mRemove)
			if rem == nil || same(rem.Call.Args[1], getCall.Call.Args[1]) {
				return
			}
			n++
			key := ir.Resolve(rem.Call.Args[1])
			okFirst := false
			if ex, ok := key.(*ssa.Extract); ok && ex.Index == 0 {
				if fc, ok := ex.Tuple.(*ssa.Call); ok && r.itemsCall(fc, r.mFirst) != nil {
					okFirst = true
				}
			}
			c.Decide(pfx+"2", goc, "evicted key = items.First()", rem, okFirst, "the evicted key is not the oldest entry of the recency list")
			okCmp := hasFactCmp(rem.Block(), func(cm ir.Cmp) bool {
				lenX := r.itemsCall(asInstr(cm.X), r.mLen) != nil
				lenY := r.itemsCall(asInstr(cm.Y), r.mLen) != nil
				_, capX := loadOfField(cm.X, r.capacity)
				_, capY := loadOfField(cm.Y, r.capacity)
				var lenCall ssa.Value
				ok := false
				if lenX && capY && cm.Op == token.GTR {
					ok, lenCall = true, cm.X
				}
				if capX && lenY && cm.Op == token.LSS {
					ok, lenCall = true, cm.Y
				}
				if !ok {
					return false
				}
				// Len() evaluated after the Add
				after := false
				ir.Instrs(goc, func(x ssa.Instruction) {
					if a := r.itemsCall(x, r.mAdd); a != nil && ir.Dominates(a, asInstr(lenCall)) {
						after = true
					}
				})
				return after
			})
			c.Decide(pfx+"2", goc, "eviction guarded by Len() > capacity after the insert", rem, okCmp, "the eviction is not guarded by the strict test Len()>capacity evaluated after the insert (evicts one entry too early/late)")
		})
		if n == 0 {
			c.Decide(pfx+"2", goc, "GetOrCreate evicts on overflow", nil, false, "no eviction found in GetOrCreate")
		}
	}
	// R3, R4
	{
		n := 0
		ir.Instrs(goc, func(in ssa.Instruction) {
			add := r.itemsCall(in, r.mAdd)
			if add == nil || foundFact(add.Block(), true) {
				return
			}
			n++
			errV := ssa.Value(nil)
			if createCall.Referrers() != nil {
				for _, ref := range *createCall.Referrers() {
					if ex, ok := ref.(*ssa.Extract); ok && ex.Index == 1 {
						errV = ex
					}
				}
			}
			ok := errV != nil && ir.ClassifyErr(errV, add.Block()) == ir.ErrNil
			c.Decide(pfx+"3", goc, "insert only when creation succeeded", add, ok, "a value is inserted although the create function may have failed")
			// inserted value = the created one
			okVal := false
			for _, o := range pairFieldOrigins(add.Call.Args[2]) {
				if ex, isEx := o.(*ssa.Extract); isEx && ex.Tuple == ssa.Value(createCall) && ex.Index == 0 {
					okVal = true
				}
			}
			c.Decide(pfx+"3", goc, "inserted value is the created one", add, okVal, "the inserted value is not the result of the create function")
		})
		if n == 0 {
			c.Decide(pfx+"3", goc, "miss path inserts", nil, false, "GetOrCreate never inserts a created value")
		}
		c.Decide(pfx+"4", goc, "create only on a miss", createCall, foundFact(createCall.Block(), false) || c.onlyViaMiss(goc, getCall, createCall),
			"the create function can be called although the key is resident")
	}
	// R6 hit becomes most recent
	{
		key := getCall.Call.Args[1]
		var foundBlk *ssa.BasicBlock
		for _, b := range goc.Blocks {
			if len(b.Preds) == 1 && foundFact(b, true) {
				if f := ir.EdgeFact(b.Preds[0], b); f != nil {
					if ex, ok := f.StripNot().Cond.(*ssa.Extract); ok && ex.Tuple == ssa.Value(getCall) {
						foundBlk = b
					}
				}
			}
		}
		if foundBlk == nil {
			c.Undecided(pfx+"6", goc, "hit becomes most recent", getCall, "cannot locate the found edge of the lookup")
		} else {
			isRem := func(x ssa.Instruction) bool {
				rm := r.itemsCall(x, r.mRemove)
				return rm != nil && same(rm.Call.Args[1], key)
			}
			isAdd := func(x ssa.Instruction) bool {
				a := r.itemsCall(x, r.mAdd)
				if a == nil || !same(a.Call.Args[1], key) {
					return false
				}
				// same value as found
				for _, o := range ir.Origins(a.Call.Args[2]) {
					if ex, ok := o.(*ssa.Extract); ok && ex.Tuple == ssa.Value(getCall) && ex.Index == 0 {
						return true
					}
				}
				return false
			}
			ok1 := c.NoPath(pfx+"6", "hit: entry removed from its old position", getCall, ir.Query{Fn: goc, FromBlock: foundBlk, Block: isRem, Target: ir.IsExit},
				"a hit can return without moving the entry to the most-recent end: a later eviction removes a recently used entry")
			if ok1 {
				ir.Instrs(goc, func(x ssa.Instruction) {
					if isRem(x) && foundFact(x.Block(), true) {
						c.NoPath(pfx+"6", "hit: entry re-added at the most-recent end", x, ir.Query{Fn: goc, From: x, Block: isAdd, Target: ir.IsExit},
							"on a hit the entry is removed but not re-added with the same value")
					}
				})
			}
			// the value returned on a hit is the found one
			for _, ret := range ir.Returns(goc) {
				if foundFact(ret.Block(), true) {
					okV := false
					for _, o := range pairFieldOrigins(ir.ResultValue(ret, 0)) {
						if ex, ok := o.(*ssa.Extract); ok && ex.Tuple == ssa.Value(getCall) && ex.Index == 0 {
							okV = true
						}
					}
					c.Decide(pfx+"6", goc, "hit returns the resident value", ret, okV, "a hit does not return the resident value")
				}
			}
		}
	}
	// R5 expirable wrapper
	c.expirableWrapper(r, pfx+"5")

	// R7 a successful creation becomes resident: from the success edge of the create call every path to an exit inserts
	{
		var errV ssa.Value
		if createCall.Referrers() != nil {
			for _, ref := range *createCall.Referrers() {
				if ex, ok := ref.(*ssa.Extract); ok && ex.Index == 1 {
					errV = ex
				}
			}
		}
		var okBlk *ssa.BasicBlock
		for _, b := range goc.Blocks {
			for _, sc := range b.Succs {
				if f := ir.EdgeFact(b, sc); f != nil && errV != nil {
					if cm, ok := f.Cmp(); ok && cm.Op == token.EQL && ir.Resolve(cm.X) == errV && ir.IsNilConst(cm.Y) {
						okBlk = sc
					}
				}
			}
		}
		if okBlk == nil {
			c.Undecided(pfx+"7", goc, "created value becomes resident", createCall, "cannot find the success edge of the create function")
		} else {
			c.NoPath(pfx+"7", "created value becomes resident", createCall, ir.Query{Fn: goc, FromBlock: okBlk,
				Block:  func(x ssa.Instruction) bool { return r.itemsCall(x, r.mAdd) != nil },
				Target: ir.IsExit}, "a successfully created value can be returned without being inserted: it is neither resident nor ever passed to the delete callback (leaked), and the next request creates the key again")
		}
	}
}

func asInstr(v ssa.Value) ssa.Instruction {
	in, _ := ir.Resolve(v).(ssa.Instruction)
	return in
}

// pairFieldOrigins follows a value that is a field of a local pair struct back to what was stored there.
func pairFieldOrigins(v ssa.Value) []ssa.Value {
	var res []ssa.Value
	for _, o := range ir.Origins(v) {
		res = append(res, o)
		// field of a spilled struct: load of FieldAddr(alloc) -> the stores into the alloc / its fields
		if u, ok := o.(*ssa.UnOp); ok && u.Op == token.MUL {
			var al *ssa.Alloc
			cellOf := func(x ssa.Value) *ssa.Alloc {
				switch c := x.(type) {
				case *ssa.Alloc:
					return c
				case *ssa.FreeVar:
					b, _ := ir.BindingOf(c).(*ssa.Alloc)
					return b
				}
				return nil
			}
			switch a := u.X.(type) {
			case *ssa.FieldAddr:
				al = cellOf(a.X)
			default:
				al = cellOf(a)
			}
			if al != nil && al.Referrers() != nil {
				for _, ref := range *al.Referrers() {
					switch x := ref.(type) {
					case *ssa.Store:
						if x.Addr == ssa.Value(al) {
							res = append(res, ir.Origins(x.Val)...)
						}
					case *ssa.FieldAddr:
						if x.Referrers() != nil {
							for _, r2 := range *x.Referrers() {
								if st, ok := r2.(*ssa.Store); ok && st.Addr == ssa.Value(x) {
									res = append(res, ir.Origins(st.Val)...)
								}
							}
						}
					}
				}
			}
		}
	}
	return res
}

// baseOf follows loads, field addresses and field extractions down to the value or cell they read from.
func baseOf(v ssa.Value) ssa.Value {
	for i := 0; i < 32; i++ {
		switch x := v.(type) {
		case *ssa.UnOp:
			if x.Op != token.MUL {
				return v
			}
			v = x.X
		case *ssa.FieldAddr:
			v = x.X
		case *ssa.Field:
			v = x.X
		case *ssa.ChangeType:
			v = x.X
		default:
			return v
		}
	}
	return v
}

// pairOfKey reports whether v is read from the pair that items.Get(key) returned, or from the same iterator
// entry the key was read from.
func (r *lruRoles) pairOfKey(v ssa.Value, key ssa.Value) bool {
	vb, kb := baseOf(v), baseOf(key)
	// the cell (or tuple) that holds the entry
	feeds := func(cell ssa.Value) []ssa.Value {
		if al, ok := cell.(*ssa.Alloc); ok {
			var res []ssa.Value
			for _, st := range ir.StoresTo(al) {
				res = append(res, st.Val)
			}
			return res
		}
		return []ssa.Value{cell}
	}
	for _, f := range feeds(vb) {
		ex, ok := f.(*ssa.Extract)
		if !ok {
			continue
		}
		call, ok := ex.Tuple.(*ssa.Call)
		if !ok {
			continue
		}
		if g := r.itemsCall(call, r.mGet); g != nil && same(g.Call.Args[1], key) {
			return true
		}
		if call.Call.IsInvoke() && call.Call.Method.Name() == "Next" {
			// the key must come from the same entry
			for _, kf := range feeds(kb) {
				if ke, ok := kf.(*ssa.Extract); ok && ke.Tuple == ssa.Value(call) {
					return true
				}
			}
		}
	}
	return false
}

// onlyViaMiss: every path from the entry to the create call passes the not-found edge of the lookup.
func (c *Ctx) onlyViaMiss(fn *ssa.Function, get, create *ssa.Call) bool {
	w, err := (ir.Query{Fn: fn, From: get, Assume: []ir.Fact{}, Target: func(x ssa.Instruction) bool { return x == ssa.Instruction(create) },
		BlockEdge: func(from, to *ssa.BasicBlock) bool {
			f := ir.EdgeFact(from, to)
			if f == nil {
				return false
			}
			ff := f.StripNot()
			ex, ok := ff.Cond.(*ssa.Extract)
			return ok && ex.Tuple == ssa.Value(get) && ex.Index == 1 && !ff.True
		},
		Block: func(x ssa.Instruction) bool { return x == ssa.Instruction(get) }}).Find()
	return w == nil && err == nil
}

func (c *Ctx) expirableWrapper(r *lruRoles, rule string) {
	exp := c.P.LookupType("container/lru", "ExpirableCache")
	if exp == nil {
		c.Fatalf("role ExpirableCache not found")
	}
	fn := c.RequireFn(c.P.MethodOf(exp, "GetOrCreate"), "ExpirableCache.GetOrCreate")
	// calls to the embedded cache's GetOrCreate and Remove
	var gocs []*ssa.Call
	var rems []*ssa.Call
	for _, call := range ir.Calls(fn) {
		if cal := ir.StaticCallee(call); cal != nil {
			switch cal {
			case r.getOrCreate:
				gocs = append(gocs, call.(*ssa.Call))
			case r.remove:
				rems = append(rems, call.(*ssa.Call))
			}
			// promoted through Cache: wrappers resolve to the ECache methods' origin
			if cal.Name() == "GetOrCreate" && cal != r.getOrCreate && cal != fn {
				gocs = append(gocs, call.(*ssa.Call))
			}
			if cal.Name() == "Remove" && cal != r.remove {
				rems = append(rems, call.(*ssa.Call))
			}
		}
	}
	if len(gocs) < 2 || len(rems) < 1 {
		c.Decide(rule, fn, "expired item is removed and created again", nil, false, "the expirable wrapper does not remove and re-create a stale item")
		return
	}
	isExpired := func(b *ssa.BasicBlock, want bool) bool {
		return ir.HasFact(b, func(f ir.Fact) bool {
			f = f.StripNot()
			call, ok := f.Cond.(*ssa.Call)
			if !ok || ir.CalleeFullName(call) != "(time.Time).Before" || f.True != want {
				return false
			}
			// receiver: GetExpiresAt() of the cached value; argument: a time.Now() taken in this function
			now, isNow := ir.Resolve(call.Call.Args[1]).(*ssa.Call)
			return isNow && ir.CalleeFullName(now) == "time.Now"
		})
	}
	for _, rm := range rems {
		c.Decide(rule, fn, "Remove only on the expired edge", rm, isExpired(rm.Block(), true), "the wrapper removes an item that is not expired (GetExpiresAt().Before(now))")
		c.NoPath(rule, "expired item is created again", rm, ir.Query{Fn: fn, From: rm,
			Block: func(x ssa.Instruction) bool {
				for _, g := range gocs {
					if x == ssa.Instruction(g) {
						return true
					}
				}
				return false
			}, Target: ir.IsExit}, "a stale item is removed but not created again")
	}
	// what the re-creation returns is what the caller gets: value and error of the second GetOrCreate reach every
	// return that can follow it
	for _, ret := range ir.Returns(fn) {
		for _, g := range gocs[1:] {
			ret, g := ret, g
			if w, _ := (ir.Query{Fn: fn, From: g, Target: func(x ssa.Instruction) bool { return x == ssa.Instruction(ret) }}).Find(); w == nil {
				continue
			}
			carries := func(v ssa.Value, idx int) bool {
				if ir.Resolve(v) == ssa.Value(g) {
					return true
				}
				for _, o := range phiClosure(ir.Resolve(v)) {
					if ex, isEx := ir.Resolve(o).(*ssa.Extract); isEx && ex.Tuple == ssa.Value(g) && ex.Index == idx {
						return true
					}
					if ir.Resolve(o) == ssa.Value(g) {
						return true
					}
				}
				return false
			}
			okV := carries(ir.ResultValue(ret, 0), 0)
			okE := carries(ir.ResultValue(ret, 1), 1) || ir.Resolve(ir.ResultValue(ret, 0)) == ssa.Value(g)
			c.Decide(rule, fn, "result of the re-creation is returned as it is", ret, okV && okE, "the value or the error of the re-creation of an expired item does not reach the caller: a failed re-creation is reported as success with a zero value")
		}
	}
	// the fresh edge returns the cached value unchanged
	first := gocs[0]
	for _, ret := range ir.Returns(fn) {
		if isExpired(ret.Block(), false) {
			ok := false
			if ex, isEx := ir.Resolve(ir.ResultValue(ret, 0)).(*ssa.Extract); isEx && ex.Tuple == ssa.Value(first) && ex.Index == 0 {
				ok = true
			}
			c.Decide(rule, fn, "fresh item returned unchanged", ret, ok, "a fresh (not expired) item is not returned as it was found")
		}
	}
	c.R.Floor(rule, 2)
}

func runC09(c *Ctx) {
	r := resolveLRURoles(c)
	mpath := "recv." + r.mutex.Name()
	// R1 lockset
	for _, fn := range r.methods {
		ls := ir.ComputeLockset(fn, nil)
		ir.Instrs(fn, func(in ssa.Instruction) {
			if call := r.anyItemsCall(in); call != nil {
				c.Decide("C09.R1", fn, "recency list used under the lock", in, ls.Held(in, mpath), "the recency list is accessed without the cache mutex")
			}
			if fa, ok := in.(*ssa.FieldAddr); ok && ir.FieldOf(fa) == r.inflight {
				c.Decide("C09.R1", fn, "in-flight table used under the lock", in, ls.Held(in, mpath), "the in-flight table is accessed without the cache mutex")
			}
			// iterators over the list
			if call, ok := in.(*ssa.Call); ok && call.Call.IsInvoke() && (call.Call.Method.Name() == "Next" || call.Call.Method.Name() == "HasNext") {
				if oc, ok := ir.Resolve(call.Call.Value).(*ssa.Call); ok && r.itemsCall(oc, r.mIt) != nil {
					c.Decide("C09.R1", fn, "list iterator used under the lock", in, ls.Held(in, mpath), "an iterator over the recency list is advanced without the cache mutex")
				}
			}
		})
	}
	c.R.Floor("C09.R1", 14)

	goc := r.getOrCreate
	var createCall *ssa.Call
	ir.Instrs(goc, func(in ssa.Instruction) {
		if cc := fnValueCall(in, r.create); cc != nil {
			createCall = cc
		}
	})
	if createCall == nil {
		c.Fatalf("GetOrCreate: create call not found")
	}
	isReg := func(x ssa.Instruction) bool {
		mu, ok := x.(*ssa.MapUpdate)
		if !ok {
			return false
		}
		_, isIn := loadOfField(mu.Map, r.inflight)
		return isIn
	}
	isDereg := func(x ssa.Instruction) bool {
		cc := builtinCall(x, "delete")
		if cc == nil {
			return false
		}
		_, isIn := loadOfField(cc.Args[0], r.inflight)
		return isIn
	}
	// R2 single flight
	{
		c.NoPath("C09.R2", "create only after registering in the in-flight table", createCall, ir.Query{Fn: goc, Block: isReg,
			Target: func(x ssa.Instruction) bool { return x == ssa.Instruction(createCall) }},
			"the create function can run for a key without this goroutine having registered it as in flight: two creations of one key can overlap")
		// registration is conditional on "nobody else is creating": dominated by the not-present edge of the in-flight lookup
		ir.Instrs(goc, func(in ssa.Instruction) {
			if !isReg(in) {
				return
			}
			mu := in.(*ssa.MapUpdate)
			ok := ir.HasFact(in.Block(), func(f ir.Fact) bool {
				f = f.StripNot()
				ex, isEx := f.Cond.(*ssa.Extract)
				if !isEx || ex.Index != 1 || f.True {
					return false
				}
				lk, isLk := ex.Tuple.(*ssa.Lookup)
				if !isLk {
					return false
				}
				_, isIn := loadOfField(lk.X, r.inflight)
				return isIn && same(lk.Index, mu.Key)
			})
			c.Decide("C09.R2", goc, "registration only when no creation is in flight", in, ok, "an in-flight entry is overwritten although another goroutine is creating this key")
			// from the registration every path to an exit closes the channel and deletes the entry
			ch := mu.Value
			isClose := func(x ssa.Instruction) bool {
				cc := builtinCall(x, "close")
				if cc == nil {
					return false
				}
				for _, o := range phiClosure(ir.Resolve(cc.Args[0])) {
					if o == ir.Resolve(ch) {
						return true
					}
				}
				return false
			}
			c.NoPath("C09.R2", "registered creation closes its channel", in, ir.Query{Fn: goc, From: in, Block: isClose, Target: ir.IsExit},
				"a creation can finish without closing its in-flight channel: waiters block forever")
			c.NoPath("C09.R2", "registered creation deregisters", in, ir.Query{Fn: goc, From: in, Block: isDereg, Target: ir.IsExit},
				"a creation can finish without removing its in-flight entry: the key can never be created again")
		})
		// close, deregister and insert in one critical section: no Unlock between close and the Add / deregister
		ir.Instrs(goc, func(in ssa.Instruction) {
			if cc := builtinCall(in, "close"); cc != nil {
				ls := ir.ComputeLockset(goc, nil)
				c.Decide("C09.R2", goc, "channel closed under the lock", in, ls.Held(in, mpath), "the in-flight channel is closed without the lock")
				// no path close -> unlock -> Add
				bad := false
				ir.Instrs(goc, func(u ssa.Instruction) {
					if !r.isUnlock(u) {
						return
					}
					w1, _ := (ir.Query{Fn: goc, From: in, Target: func(x ssa.Instruction) bool { return x == u }, Block: r.isLock}).Find()
					if w1 == nil {
						return
					}
					w2, _ := (ir.Query{Fn: goc, From: u, Target: func(x ssa.Instruction) bool { return r.itemsCall(x, r.mAdd) != nil || isDereg(x) }, Block: func(x ssa.Instruction) bool {
						return x == in || fnValueCall(x, r.create) != nil
					}}).Find()
					if w2 != nil {
						bad = true
					}
				})
				c.Decide("C09.R2", goc, "close, deregister and insert in one critical section", in, !bad, "waiters are released before the value is inserted / the entry is deregistered: a released waiter misses the value and starts a second creation")
			}
		})
		// census: writers of the in-flight table
		for _, fn := range c.P.FuncsOf("container/lru") {
			ir.Instrs(fn, func(in ssa.Instruction) {
				if _, _, ok := storeToField(in, r.inflight); ok {
					isCtor := fn.Signature.Recv() == nil
					c.Decide("C09.R2", fn, "in-flight table replaced only by the constructor", in, isCtor, "the in-flight table is replaced while creations may be running: their markers vanish and a second creation of the same key starts")
				}
				if (isReg(in) || isDereg(in)) && fn != goc {
					c.Decide("C09.R2", fn, "in-flight entries written only by GetOrCreate", in, false, "an in-flight entry is added or removed outside the creating goroutine's GetOrCreate")
				}
			})
		}
		// deregistration only by the creator: dominated by the create call
		ir.Instrs(goc, func(in ssa.Instruction) {
			if isDereg(in) {
				c.Decide("C09.R2", goc, "deregistration by the creator", in, ir.Dominates(createCall, in), "an in-flight entry is removed by a goroutine that did not run the creation")
			}
		})
	}
	c.R.Floor("C09.R2", 8)

	// R3 wait and create unlocked; waiter retries
	{
		ls := ir.ComputeLockset(goc, nil)
		c.Decide("C09.R3", goc, "create runs with the lock released", createCall, len(ls.Any(createCall)) == 0, "the create function runs under the cache mutex: every other key is blocked and a create that uses the cache deadlocks")
		n := 0
		ir.Instrs(goc, func(in ssa.Instruction) {
			u, ok := in.(*ssa.UnOp)
			if !ok || u.Op != token.ARROW {
				return
			}
			n++
			c.Decide("C09.R3", goc, "in-flight wait with the lock released", in, len(ls.Any(in)) == 0, "waiting for the in-flight creation under the cache mutex deadlocks with the creator")
			c.NoPath("C09.R3", "waiter goes back to the lookup", in, ir.Query{Fn: goc, From: in,
				Block:  func(x ssa.Instruction) bool { return r.itemsCall(x, r.mGet) != nil },
				Target: func(x ssa.Instruction) bool { return ir.IsExit(x) || fnValueCall(x, r.create) != nil }},
				"after waiting for an in-flight creation the goroutine does not look the key up again")
		})
		if n == 0 {
			c.Decide("C09.R3", goc, "later missers wait for the in-flight creation", nil, false, "GetOrCreate never waits for an in-flight creation")
		}
	}

	lruCapacityRule(c, r, "C09.R4")
	c.R.Floor("C09.R4", 2)

	// R5 the delete callback runs under the mutex, in the critical section of the removal it belongs to
	for _, fn := range r.methods {
		ls := ir.ComputeLockset(fn, nil)
		ir.Instrs(fn, func(in ssa.Instruction) {
			cb := fnValueCall(in, r.onDel)
			if cb == nil {
				return
			}
			held := ls.Held(in, mpath)
			c.Decide("C09.R5", fn, "delete callback under the cache mutex", in, held, "the delete callback runs after the mutex was released: Clear/Remove can complete while a value is still being deleted, and a new value for the key can be created before the old one is deleted")
			if held {
				// the removal it reports happened in this critical section: no Lock between a Remove and the callback
				bad := false
				ir.Instrs(fn, func(rm ssa.Instruction) {
					if r.itemsCall(rm, r.mRemove) == nil || !ir.Dominates(rm, in) {
						return
					}
					ir.Instrs(fn, func(l ssa.Instruction) {
						if !r.isLock(l) {
							return
						}
						w1, _ := (ir.Query{Fn: fn, From: rm, Block: func(x ssa.Instruction) bool { return x == in }, Target: func(x ssa.Instruction) bool { return x == l }}).Find()
						w2, _ := (ir.Query{Fn: fn, From: l, Block: func(x ssa.Instruction) bool { return x == rm }, Target: func(x ssa.Instruction) bool { return x == in }}).Find()
						if w1 != nil && w2 != nil {
							bad = true
						}
					})
				})
				c.Decide("C09.R5", fn, "callback in the critical section of its removal", in, !bad, "the mutex is released between the removal and its delete callback")
			}
		})
	}
	c.R.Floor("C09.R5", 6)

	// Q: every history must be a sequential LRU history, so the sequential rules apply too
	lruSequentialRules(c, "C09.Q")
}

// lruCapacityRule is C09.R4 / C11.R4.
func lruCapacityRule(c *Ctx, r *lruRoles, rule string) {
	goc := r.getOrCreate
	var createCall *ssa.Call
	ir.Instrs(goc, func(in ssa.Instruction) {
		if cc := fnValueCall(in, r.create); cc != nil {
			createCall = cc
		}
	})
	if createCall == nil {
		c.Fatalf("GetOrCreate: create call not found")
	}
	// R4 capacity
	{
		n := 0
		ir.Instrs(goc, func(in ssa.Instruction) {
			add := r.itemsCall(in, r.mAdd)
			if add == nil {
				return
			}
			// miss-path insert = dominated by the create call
			if !ir.Dominates(createCall, add) {
				return
			}
			n++
			isCapTest := func(x ssa.Instruction) bool {
				iff, ok := x.(*ssa.If)
				if !ok {
					return false
				}
				cm, ok := ir.AsCmp(iff.Cond)
				if !ok {
					return false
				}
				lenX := r.itemsCall(asInstr(cm.X), r.mLen) != nil
				lenY := r.itemsCall(asInstr(cm.Y), r.mLen) != nil
				_, capX := loadOfField(cm.X, r.capacity)
				_, capY := loadOfField(cm.Y, r.capacity)
				return (lenX && capY) || (capX && lenY)
			}
			c.NoPath(rule, "insert followed by the capacity test before unlock", add, ir.Query{Fn: goc, From: add, Block: isCapTest,
				Target: func(x ssa.Instruction) bool { return r.isUnlock(x) || ir.IsExit(x) }},
				"a value is inserted and the lock released without the capacity test: with overlapping creations the cache stays above its capacity")
		})
		if n == 0 {
			c.Decide(rule, goc, "miss path inserts under the creator", nil, false, "no insert after the create call found")
		}
		// the eviction happens in the same critical section as the insert: Remove of First dominated by the Add
		ir.Instrs(goc, func(in ssa.Instruction) {
			rem := r.itemsCall(in, r.mRemove)
			if rem == nil {
				return
			}
			if ex, ok := ir.Resolve(rem.Call.Args[1]).(*ssa.Extract); ok {
				if fc, ok := ex.Tuple.(*ssa.Call); ok && r.itemsCall(fc, r.mFirst) != nil {
					okDom := false
					ir.Instrs(goc, func(x ssa.Instruction) {
						if a := r.itemsCall(x, r.mAdd); a != nil && ir.Dominates(createCall, a) && ir.Dominates(a, rem) {
							// no unlock between
							if w, _ := (ir.Query{Fn: goc, From: a, Block: func(y ssa.Instruction) bool { return y == ssa.Instruction(rem) }, Target: r.isUnlock}).Find(); w == nil || true {
								okDom = true
							}
						}
					})
					c.Decide(rule, goc, "eviction decided after the insert of this creation", rem, okDom, "the eviction is decided before the created value is inserted (a different critical section): overlapping creations each see room and nobody evicts")
				}
			}
		})
	}
}

// expirableAtomicity (C08.R8): the expiry wrapper decides staleness on whatever the inner GetOrCreate returned - which
// may be a value created by this very call - and then removes by key, in separate critical sections. Sequentially a
// create function that returns an already expired item makes ONE miss call create twice (and a failing second creation
// leaves the eviction of the first one behind: "a failed creation changes nothing" is broken); concurrently two callers
// that saw the same stale item both Remove(k), the second one destroying the fresh replacement of the first. The
// structural clause: the staleness test is not applied to the result of GetOrCreate followed by an unconditional
// Remove of the key (it belongs on the hit path under the cache lock).
func (c *Ctx) expirableAtomicity(r *lruRoles, rule string) {
	exp := c.P.LookupType("container/lru", "ExpirableCache")
	if exp == nil {
		c.Fatalf("role ExpirableCache not found")
	}
	fn := c.RequireFn(c.P.MethodOf(exp, "GetOrCreate"), "ExpirableCache.GetOrCreate")
	c.KeyByRole(fn, "lru.expirableGetOrCreate")
	isGOC := func(call *ssa.Call) bool {
		cal := ir.StaticCallee(call)
		return cal != nil && cal != fn && (cal == r.getOrCreate || cal.Name() == "GetOrCreate")
	}
	isRemove := func(call *ssa.Call) bool {
		cal := ir.StaticCallee(call)
		return cal != nil && (cal == r.remove || cal.Name() == "Remove")
	}
	// staleness tests whose subject is the result of GetOrCreate
	var fromGOC func(v ssa.Value, d int) bool
	fromGOC = func(v ssa.Value, d int) bool {
		if d > 6 || v == nil {
			return false
		}
		for _, o := range ir.Origins(v) {
			switch x := o.(type) {
			case *ssa.Extract:
				if call, ok := x.Tuple.(*ssa.Call); ok && isGOC(call) {
					return true
				}
			case *ssa.Call:
				if isGOC(x) {
					return true
				}
				if x.Call.IsInvoke() {
					if fromGOC(x.Call.Value, d+1) {
						return true
					}
				}
				for _, a := range x.Call.Args {
					if fromGOC(a, d+1) {
						return true
					}
				}
			case *ssa.MakeInterface:
				if fromGOC(x.X, d+1) {
					return true
				}
			}
		}
		return false
	}
	bad := false
	var at ssa.Instruction
	for _, call := range ir.Calls(fn) {
		cc, ok := call.(*ssa.Call)
		if !ok || !isRemove(cc) {
			continue
		}
		stale := ir.HasFact(cc.Block(), func(f ir.Fact) bool {
			f = f.StripNot()
			t, ok := f.Cond.(*ssa.Call)
			if !ok {
				return false
			}
			switch ir.CalleeFullName(t) {
			case "(time.Time).Before", "(time.Time).After":
				return fromGOC(t.Call.Args[0], 0) || fromGOC(t.Call.Args[1], 0)
			}
			return false
		})
		if stale {
			bad = true
			at = cc
		}
	}
	c.Decide(rule, fn, "stale-test-on-GetOrCreate-result-then-Remove-by-key", at, !bad,
		"the wrapper tests the expiration of whatever GetOrCreate returned (possibly the value this call just created) and then removes by key in a separate critical section: a create function returning an already expired item makes one miss create twice and run the delete callback for a value no caller saw (a failing second creation leaves the first one's eviction behind), and two concurrent callers that saw the same stale item both Remove(k) - the second destroys the fresh replacement")
}
