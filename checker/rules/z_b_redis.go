package rules

import (
	"go/token"
	"go/types"
	"math"
	"math/big"

	"golang.org/x/tools/go/ssa"

	"verif/checker/ir"
)

// Rules of the kvs backends added after seeded round e (C02-e2, C03-e2).

// ---------------------------------------------------------------------------
// the redis PutMany writes every record of the batch (C02.R13 / C03.R13)

// batchLoopZB is a loop that visits every element of the batch (a slice parameter that is never reassigned) from the
// first to the last when it is left over its exhaustion edge:
//
//	range form     i = phi(-1, i+1); if i+1 < len(batch)          element &batch[i+1]
//	counting form  i = phi(0, i+1);  if i < len(batch)            element &batch[i]
//	draining form  cur = phi(batch, cur[1:]); if len(cur) > 0     element &cur[0]
//
// Every other way out of the loop (break, return, a condition on the element) leaves elements unvisited.
type batchLoopZB struct {
	header *ssa.BasicBlock
	body   *ssa.BasicBlock // first block of an iteration
	exitTo *ssa.BasicBlock // successor of the header taken when the batch is exhausted
	blocks map[*ssa.BasicBlock]bool
	isElem func(ia *ssa.IndexAddr) bool
	writes bool // every way round the loop writes the element of the iteration
	direct bool // ... with a command / a storage method of its own (not only into an argument list)
}

func batchLoopsZB(fn *ssa.Function, batch ssa.Value) []*batchLoopZB {
	var res []*batchLoopZB
	for _, h := range fn.Blocks {
		if len(h.Succs) != 2 || len(h.Instrs) == 0 {
			continue
		}
		iff, ok := h.Instrs[len(h.Instrs)-1].(*ssa.If)
		if !ok {
			continue
		}
		cmp, ok := iff.Cond.(*ssa.BinOp)
		if !ok {
			continue
		}
		l := &batchLoopZB{header: h, body: h.Succs[0], exitTo: h.Succs[1]}
		switch {
		case ir.IsRangeHeader(h):
			lc, _ := cmp.Y.(*ssa.Call)
			if lc == nil || !same(lc.Call.Args[0], batch) {
				continue
			}
			next := cmp.X
			l.isElem = func(ia *ssa.IndexAddr) bool { return same(ia.X, batch) && ia.Index == next }
		case cmp.Op == token.LSS || cmp.Op == token.GTR:
			x, y := cmp.X, cmp.Y
			if cmp.Op == token.GTR {
				x, y = y, x
			}
			// counting form: i < len(batch)
			if p, c0, step, isInd := inductionVar(x); isInd && p.Block() == h && c0 == 0 && step == 1 && isLenOf(y, batch) {
				l.isElem = func(ia *ssa.IndexAddr) bool { return same(ia.X, batch) && ia.Index == ssa.Value(p) }
				break
			}
			// draining form: len(cur) > 0, written 0 < len(cur) as well
			cur := drainCursorZB(h, y, x, batch)
			if cur == nil {
				continue
			}
			l.isElem = func(ia *ssa.IndexAddr) bool {
				k, isC := ir.ConstInt(ia.Index)
				return ia.X == ssa.Value(cur) && isC && k == 0
			}
		case cmp.Op == token.NEQ:
			cur := drainCursorZB(h, cmp.X, cmp.Y, batch)
			if cur == nil {
				continue
			}
			l.isElem = func(ia *ssa.IndexAddr) bool {
				k, isC := ir.ConstInt(ia.Index)
				return ia.X == ssa.Value(cur) && isC && k == 0
			}
		default:
			continue
		}
		if l.isElem == nil {
			continue
		}
		// the natural loop of the back edges
		l.blocks = map[*ssa.BasicBlock]bool{h: true}
		var up func(b *ssa.BasicBlock)
		up = func(b *ssa.BasicBlock) {
			if l.blocks[b] {
				return
			}
			l.blocks[b] = true
			for _, q := range b.Preds {
				up(q)
			}
		}
		for _, p := range h.Preds {
			if h.Dominates(p) {
				up(p)
			}
		}
		if len(l.blocks) == 1 || !l.blocks[l.body] || l.blocks[l.exitTo] {
			continue
		}
		res = append(res, l)
	}
	return res
}

// drainCursorZB: lenSide is len(cur) and zeroSide the constant 0, where cur = phi(batch, cur[1:]) is a phi of header h.
func drainCursorZB(h *ssa.BasicBlock, lenSide, zeroSide ssa.Value, batch ssa.Value) *ssa.Phi {
	if k, isC := ir.ConstInt(zeroSide); !isC || k != 0 {
		return nil
	}
	call, ok := lenSide.(*ssa.Call)
	if !ok || builtinCall(call, "len") == nil {
		return nil
	}
	cur, ok := call.Call.Args[0].(*ssa.Phi)
	if !ok || cur.Block() != h || !isDrainCursorZB(cur, batch) {
		return nil
	}
	return cur
}

// isDrainCursorZB: cur = phi(batch, cur[1:]) - a cursor that starts as the whole batch and loses its first element on
// every round.
func isDrainCursorZB(cur *ssa.Phi, batch ssa.Value) bool {
	if len(cur.Edges) != 2 {
		return false
	}
	entry, step := false, false
	for _, e := range cur.Edges {
		if same(e, batch) {
			entry = true
			continue
		}
		if sl, isSl := e.(*ssa.Slice); isSl && sl.X == ssa.Value(cur) && sl.High == nil && sl.Max == nil && sl.Low != nil {
			if k, isC := ir.ConstInt(sl.Low); isC && k == 1 {
				step = true
			}
		}
	}
	return entry && step
}

type batchCompleteZB struct {
	r    *redisRoles
	memo map[*ssa.Parameter]int // 1 complete, -1 not, 0 being computed
}

// elemWrite: in hands the element of the iteration (the record itself: loaded from the element address, through the
// local copy of the range variable, through Record.Copy(), or by address) to a function of the backend or to a redis
// command. direct: that function is a storage method or a redis command (the record is written there and then).
func (bc *batchCompleteZB) elemWrite(fn *ssa.Function, l *batchLoopZB, in ssa.Instruction) (write, direct bool) {
	call, ok := in.(*ssa.Call)
	if !ok {
		return false, false
	}
	var derives func(v ssa.Value, d int) bool
	derives = func(v ssa.Value, d int) bool {
		if d > 6 || v == nil {
			return false
		}
		switch x := v.(type) {
		case *ssa.IndexAddr:
			return l.isElem(x)
		case *ssa.UnOp:
			return x.Op == token.MUL && derives(x.X, d+1)
		case *ssa.Alloc:
			for _, st := range ir.StoresTo(x) {
				if l.blocks[st.Block()] && derives(st.Val, d+1) {
					return true
				}
			}
		case *ssa.Call:
			if recv := copyReceiver(x); recv != nil {
				return derives(recv, d+1)
			}
		case *ssa.ChangeType:
			return derives(x.X, d+1)
		case *ssa.MakeInterface:
			return derives(x.X, d+1)
		}
		return false
	}
	isRecord := func(v ssa.Value) bool { return namedOf(v.Type()) == bc.r.recordT }
	handed := false
	for _, a := range call.Call.Args {
		if isRecord(a) && derives(a, 0) {
			handed = true
		}
	}
	if !handed {
		return false, false
	}
	cal := ir.StaticCallee(call)
	isCmd := redisCall(call)
	isStorage := false
	for _, m := range bc.r.storage {
		if cal != nil && m == cal {
			isStorage = true
		}
	}
	switch {
	case isCmd || isStorage:
		return true, true
	case cal != nil && cal.Pkg != nil && cal.Pkg == fn.Pkg:
		return true, false
	}
	return false, false
}

// redisCall: call is a command of the go-redis client (on the client, a Tx or a pipeline).
func redisCall(call *ssa.Call) bool {
	if call.Call.IsInvoke() {
		return call.Call.Method.Pkg() != nil && call.Call.Method.Pkg().Path() == redisPkg
	}
	if cal := call.Call.StaticCallee(); cal != nil && cal.Pkg != nil && cal.Pkg.Pkg.Path() == redisPkg {
		return true
	}
	return false
}

// classify fills writes/direct of the batch loops of fn.
func (bc *batchCompleteZB) classify(fn *ssa.Function, loops []*batchLoopZB) {
	for _, l := range loops {
		l := l
		anyDirect := false
		isWrite := func(x ssa.Instruction) bool {
			if !l.blocks[x.Block()] {
				return false
			}
			w, d := bc.elemWrite(fn, l, x)
			if w && d {
				anyDirect = true
			}
			return w
		}
		first := l.header.Instrs[0]
		w, err := (ir.Query{Fn: fn, FromBlock: l.body, Block: isWrite, Target: func(x ssa.Instruction) bool { return x == first }}).Find()
		l.writes = err == nil && w == nil
		// direct: every way round passes a direct write
		if l.writes && anyDirect {
			isDirect := func(x ssa.Instruction) bool {
				if !l.blocks[x.Block()] {
					return false
				}
				w, d := bc.elemWrite(fn, l, x)
				return w && d
			}
			w2, err2 := (ir.Query{Fn: fn, FromBlock: l.body, Block: isDirect, Target: func(x ssa.Instruction) bool { return x == first }}).Find()
			l.direct = err2 == nil && w2 == nil
		}
	}
}

// emptyBatchEdge: the edge is taken only when the batch is empty.
func emptyBatchEdge(from, to *ssa.BasicBlock, batch ssa.Value) bool {
	ef := ir.EdgeFact(from, to)
	if ef == nil {
		return false
	}
	cm, ok := ef.Cmp()
	if !ok {
		return false
	}
	op, x, y := cm.Op, cm.X, cm.Y
	if isLenOf(y, batch) {
		x, y = y, x
		op = ir.SwapOp(op)
	}
	k, isC := ir.ConstInt(y)
	if !isLenOf(x, batch) || !isC {
		return false
	}
	return (op == token.EQL && k == 0) || (op == token.LEQ && k == 0) || (op == token.LSS && k == 1)
}

// emptyListEdgeZB: the edge is taken only when a list the loop l appends to is empty - behind the exhaustion edge of l
// that means the batch was empty (every round appends), and there is nothing to send.
func emptyListEdgeZB(from, to *ssa.BasicBlock, l *batchLoopZB) bool {
	ef := ir.EdgeFact(from, to)
	if ef == nil {
		return false
	}
	cm, ok := ef.Cmp()
	if !ok {
		return false
	}
	op, x, y := cm.Op, cm.X, cm.Y
	if _, isC := ir.ConstInt(x); isC {
		x, y = y, x
		op = ir.SwapOp(op)
	}
	k, isC := ir.ConstInt(y)
	lc, isCall := x.(*ssa.Call)
	if !isC || !isCall || builtinCall(lc, "len") == nil {
		return false
	}
	if !((op == token.EQL && k == 0) || (op == token.LEQ && k == 0) || (op == token.LSS && k == 1)) {
		return false
	}
	// the list: merged (phis) from values among which is an append made in the loop
	seen := map[ssa.Value]bool{}
	var fromLoop func(v ssa.Value, d int) bool
	fromLoop = func(v ssa.Value, d int) bool {
		if v == nil || seen[v] || d > 8 {
			return false
		}
		seen[v] = true
		switch s := v.(type) {
		case *ssa.Phi:
			for _, e := range s.Edges {
				if fromLoop(e, d+1) {
					return true
				}
			}
		case *ssa.Call:
			if builtinCall(s, "append") != nil {
				return l.blocks[s.Block()] || fromLoop(s.Call.Args[0], d+1)
			}
		}
		return false
	}
	return fromLoop(lc.Call.Args[0], 0)
}

// completeCall: in passes the whole batch to a function of the backend every success exit of which lies behind a pass
// over that batch.
func (bc *batchCompleteZB) completeCall(fn *ssa.Function, in ssa.Instruction, batch ssa.Value, depth int) bool {
	call, ok := in.(*ssa.Call)
	if !ok || depth > 2 {
		return false
	}
	cal := ir.StaticCallee(call)
	if cal == nil || len(cal.Blocks) == 0 || cal.Pkg == nil || cal.Pkg != fn.Pkg || call.Call.IsInvoke() || len(call.Call.Args) != len(cal.Params) {
		return false
	}
	if ir.ErrResultIndex(cal) < 0 {
		return false // its outcome is not an error: what it says about the batch is not known here
	}
	for i, a := range call.Call.Args {
		if !same(a, batch) || !types.Identical(a.Type(), batch.Type()) {
			continue
		}
		p := cal.Params[i]
		switch bc.memo[p] {
		case 1:
			return true
		case -1, 2:
			continue
		}
		bc.memo[p] = 2
		w, err, n := bc.incomplete(cal, p, depth+1)
		if err == nil && w == nil && n > 0 {
			bc.memo[p] = 1
			return true
		}
		bc.memo[p] = -1
	}
	return false
}

// lenFactsHoldZB: the path has not decided a comparison of len(x) with a constant against the length x has on this path
// (x resolved by the path to nil, or to a make with a constant length nothing was appended to).
func lenFactsHoldZB(fn *ssa.Function, val *ir.Valuation) bool {
	ok := true
	ir.Instrs(fn, func(in ssa.Instruction) {
		bo, isBo := in.(*ssa.BinOp)
		if !isBo || !ok {
			return
		}
		switch bo.Op {
		case token.EQL, token.NEQ, token.LSS, token.LEQ, token.GTR, token.GEQ:
		default:
			return
		}
		truth, known := val.Known(bo)
		if !known {
			return
		}
		op, x, y := bo.Op, bo.X, bo.Y
		if _, isC := ir.ConstInt(x); isC {
			x, y = y, x
			op = ir.SwapOp(op)
		}
		k, isC := ir.ConstInt(y)
		lc, isCall := x.(*ssa.Call)
		if !isC || !isCall || builtinCall(lc, "len") == nil {
			return
		}
		var n int64 = -1
		switch s := val.Selected(lc.Call.Args[0]).(type) {
		case *ssa.Const:
			if s.Value == nil {
				n = 0
			}
		case *ssa.MakeSlice:
			if m, isM := ir.ConstInt(s.Len); isM {
				n = m
			}
		}
		if n < 0 {
			return
		}
		var holds bool
		switch op {
		case token.EQL:
			holds = n == k
		case token.NEQ:
			holds = n != k
		case token.LSS:
			holds = n < k
		case token.LEQ:
			holds = n <= k
		case token.GTR:
			holds = n > k
		case token.GEQ:
			holds = n >= k
		}
		if holds != truth {
			ok = false
		}
	})
	return ok
}

// incomplete searches a path of fn to an exit that can report success on which no pass over the whole batch that writes
// every element has been completed. n is the number of passes (loops, delegating calls) found.
func (bc *batchCompleteZB) incomplete(fn *ssa.Function, batch ssa.Value, depth int) (*ir.Witness, error, int) {
	loops := batchLoopsZB(fn, batch)
	bc.classify(fn, loops)
	n := 0
	exhaust := map[[2]*ssa.BasicBlock]bool{}
	for _, l := range loops {
		if l.writes {
			exhaust[[2]*ssa.BasicBlock{l.header, l.exitTo}] = true
			n++
		}
	}
	calls := map[ssa.Instruction]bool{}
	ir.Instrs(fn, func(in ssa.Instruction) {
		if bc.completeCall(fn, in, batch, depth) {
			calls[in] = true
			n++
		}
	})
	errIdx := ir.ErrResultIndex(fn)
	w, err := (ir.PathQuery{Fn: fn,
		StopEdge: func(from, to *ssa.BasicBlock) bool {
			return exhaust[[2]*ssa.BasicBlock{from, to}] || emptyBatchEdge(from, to, batch)
		},
		Stop: func(x ssa.Instruction) bool { return calls[x] },
		Target: func(x ssa.Instruction, val *ir.Valuation) bool {
			ret, isRet := x.(*ssa.Return)
			if !isRet || x.Block() == fn.Recover {
				return false
			}
			if errIdx >= 0 {
				rv := ir.ResultValue(ret, errIdx)
				if ir.ClassifyErr(rv, ret.Block()) == ir.ErrNonNil {
					return false
				}
				for _, v := range []ssa.Value{rv, ret.Results[errIdx]} {
					if isNil, known := val.KnownIsNil(v); known && !isNil {
						return false
					}
				}
			}
			return lenFactsHoldZB(fn, val) && constComparisonsHoldYB(fn, val)
		}}).Find()
	return w, err, n
}

// redisBatchComplete: PutMany reports success only after every record of the batch was written: every path to an exit
// that can return a nil error completes a pass over the whole batch - a loop that is left over its exhaustion edge and
// writes the element on every round (record by record, or into the argument list of the one MSET), or a call that hands
// the whole batch to a helper for which the same holds; an empty batch needs no pass. And an argument list assembled by
// such a pass is sent: behind the exhaustion edge of an assembling loop no success exit is reached without a redis
// command (or another complete pass). A batch command issued for a prefix of the batch, a pass that stops at the first
// record of some kind, a chunk limit - each returns nil for records that were never stored: their old value and old
// version stay, a stale CasByVersion wins, Get contradicts every order of the operations.
func (c *Ctx) redisBatchComplete(r *redisRoles, rule string) {
	fn := r.storage["PutMany"]
	var batch *ssa.Parameter
	for _, p := range fn.Params {
		if s, ok := p.Type().Underlying().(*types.Slice); ok && namedOf(s.Elem()) == r.recordT {
			batch = p
		}
	}
	if batch == nil {
		c.Fatalf("PutMany: no batch parameter")
	}
	bc := &batchCompleteZB{r: r, memo: map[*ssa.Parameter]int{}}
	w, err, n := bc.incomplete(fn, batch, 0)
	switch {
	case err != nil:
		c.Undecided(rule, fn, "success only after a pass over the whole batch that writes every record", nil, err.Error())
	case n == 0:
		c.Decide(rule, fn, "success only after a pass over the whole batch that writes every record", nil, false, "PutMany has no loop that visits every record of the batch it was given and writes it")
	case w != nil:
		c.Decide(rule, fn, "success only after a pass over the whole batch that writes every record", w.End, false,
			"PutMany can return without an error although no pass over the whole batch was completed (the batch command is issued for a part of the records, or the pass over the records ends early): the records that were skipped keep their old value and their old version, a stale CasByVersion still wins, and no order of the operations explains the following reads: path "+w.String(c.P))
	default:
		c.Decide(rule, fn, "success only after a pass over the whole batch that writes every record", nil, true, "")
	}
	// an assembled argument list is sent
	var visit func(f *ssa.Function, b ssa.Value, depth int)
	seen := map[*ssa.Function]bool{}
	visit = func(f *ssa.Function, b ssa.Value, depth int) {
		if seen[f] || depth > 2 {
			return
		}
		seen[f] = true
		loops := batchLoopsZB(f, b)
		bc.classify(f, loops)
		exhaustDirect := map[[2]*ssa.BasicBlock]bool{}
		for _, l := range loops {
			if l.writes && l.direct {
				exhaustDirect[[2]*ssa.BasicBlock{l.header, l.exitTo}] = true
			}
		}
		errIdx := ir.ErrResultIndex(f)
		for _, l := range loops {
			if !l.writes || l.direct {
				continue
			}
			q := ir.Query{Fn: f, FromBlock: l.exitTo,
				Block: func(x ssa.Instruction) bool {
					call, ok := x.(*ssa.Call)
					return ok && (redisCall(call) || bc.completeCall(f, x, b, depth))
				},
				BlockEdge: func(from, to *ssa.BasicBlock) bool {
					return exhaustDirect[[2]*ssa.BasicBlock{from, to}] || emptyBatchEdge(from, to, b) || emptyListEdgeZB(from, to, l)
				},
				Target: func(x ssa.Instruction) bool {
					ret, isRet := x.(*ssa.Return)
					if !isRet {
						return false
					}
					return errIdx < 0 || f != fn || ir.ClassifyErr(ir.ResultValue(ret, errIdx), ret.Block()) != ir.ErrNonNil
				}}
			if f != fn {
				// a helper that assembles the list and returns it: the list is sent by the caller - not followed here
				continue
			}
			c.NoPath(rule, "an argument list assembled over the whole batch is sent", l.header.Instrs[len(l.header.Instrs)-1], q,
				"the records of the batch are encoded into an argument list, but PutMany can report success without having issued the command that carries it")
		}
		ir.Instrs(f, func(in ssa.Instruction) {
			if call, ok := in.(*ssa.Call); ok && bc.completeCall(f, in, b, depth) {
				cal := ir.StaticCallee(call)
				for i, a := range call.Call.Args {
					if same(a, b) {
						visit(cal, cal.Params[i], depth+1)
					}
				}
			}
		})
	}
	visit(fn, batch, 0)
}

// ---------------------------------------------------------------------------
// arithmetic on a saturating time difference (C03.R14 / C06.R11)

type ivalZB struct{ lo, hi *big.Int }

var (
	minI64ZB = big.NewInt(math.MinInt64)
	maxI64ZB = big.NewInt(math.MaxInt64)
)

func fullZB() ivalZB { return ivalZB{new(big.Int).Set(minI64ZB), new(big.Int).Set(maxI64ZB)} }

func (a ivalZB) inRange() bool { return a.lo.Cmp(minI64ZB) >= 0 && a.hi.Cmp(maxI64ZB) <= 0 }

func (a ivalZB) clamp() ivalZB {
	if !a.inRange() {
		return fullZB() // wrapped: anything
	}
	return a
}

func minBig(xs ...*big.Int) *big.Int {
	m := xs[0]
	for _, x := range xs[1:] {
		if x.Cmp(m) < 0 {
			m = x
		}
	}
	return new(big.Int).Set(m)
}

func maxBig(xs ...*big.Int) *big.Int {
	m := xs[0]
	for _, x := range xs[1:] {
		if x.Cmp(m) > 0 {
			m = x
		}
	}
	return new(big.Int).Set(m)
}

type durZB struct {
	fns     []*ssa.Function
	derived map[ssa.Value]int // 1 yes, -1 no, 0 being computed
}

func isInt64ZB(t types.Type) bool {
	b, ok := t.Underlying().(*types.Basic)
	return ok && b.Kind() == types.Int64
}

func isTimeDiffZB(v ssa.Value) bool {
	call, ok := v.(*ssa.Call)
	if !ok {
		return false
	}
	switch ir.CalleeFullName(call) {
	case "(time.Time).Sub", "time.Until", "time.Since":
		return true
	}
	return false
}

// isDerived: v is computed from the result of Time.Sub / time.Until / time.Since - a value that is pinned to
// math.MinInt64 / math.MaxInt64 when the two moments are more than ~292 years apart - without an operation that bounds
// its magnitude in between (a remainder, a mask).
func (d *durZB) isDerived(v ssa.Value) bool {
	if v == nil || !isInt64ZB(v.Type()) {
		return false
	}
	switch d.derived[v] {
	case 1:
		return true
	case -1, 2:
		return false
	}
	d.derived[v] = 2
	res := false
	switch x := v.(type) {
	case *ssa.Call:
		res = isTimeDiffZB(x)
	case *ssa.Convert:
		res = d.isDerived(x.X)
	case *ssa.ChangeType:
		res = d.isDerived(x.X)
	case *ssa.Phi:
		for _, e := range x.Edges {
			if d.isDerived(e) {
				res = true
			}
		}
	case *ssa.BinOp:
		switch x.Op {
		case token.ADD, token.SUB, token.MUL, token.QUO:
			res = d.isDerived(x.X) || d.isDerived(x.Y)
		}
	case *ssa.UnOp:
		switch x.Op {
		case token.SUB:
			res = d.isDerived(x.X)
		case token.MUL:
			// a local variable: what is stored to it
			if al, ok := x.X.(*ssa.Alloc); ok {
				for _, st := range ir.StoresTo(al) {
					if d.isDerived(st.Val) {
						res = true
					}
				}
			}
		}
	case *ssa.Parameter:
		// a helper that is handed the difference
		fn := x.Parent()
		idx := -1
		for i, p := range fn.Params {
			if p == x {
				idx = i
			}
		}
		for _, caller := range d.fns {
			ir.Instrs(caller, func(in ssa.Instruction) {
				if ci, ok := in.(ssa.CallInstruction); ok && ir.StaticCallee(ci) == fn && idx >= 0 && idx < len(ci.Common().Args) && !ci.Common().IsInvoke() {
					if d.isDerived(ci.Common().Args[idx]) {
						res = true
					}
				}
			})
		}
	}
	if res {
		d.derived[v] = 1
	} else {
		d.derived[v] = -1
	}
	return res
}

func refineZB(v ssa.Value, facts []ir.Fact, iv ivalZB) ivalZB {
	for _, f := range facts {
		cm, ok := f.Cmp()
		if !ok {
			continue
		}
		op, x, y := cm.Op, cm.X, cm.Y
		if y == v {
			x, y = y, x
			op = ir.SwapOp(op)
		}
		if x != v {
			continue
		}
		k64, isC := ir.ConstInt(y)
		if !isC {
			continue
		}
		k := big.NewInt(k64)
		switch op {
		case token.LSS:
			iv.hi = minBig(iv.hi, new(big.Int).Sub(k, big.NewInt(1)))
		case token.LEQ:
			iv.hi = minBig(iv.hi, k)
		case token.GTR:
			iv.lo = maxBig(iv.lo, new(big.Int).Add(k, big.NewInt(1)))
		case token.GEQ:
			iv.lo = maxBig(iv.lo, k)
		case token.EQL:
			iv.lo, iv.hi = maxBig(iv.lo, k), minBig(iv.hi, k)
		}
	}
	return iv
}

// interval: the values v can have when control is at a point where `facts` hold. Interval arithmetic over int64 with
// exact big integers; nothing is executed.
func (d *durZB) interval(v ssa.Value, facts []ir.Fact, depth int, seen map[*ssa.Phi]bool) ivalZB {
	iv := fullZB()
	if depth > 10 || v == nil {
		return iv
	}
	switch x := v.(type) {
	case *ssa.Const:
		if k, ok := ir.ConstInt(x); ok {
			return ivalZB{big.NewInt(k), big.NewInt(k)}
		}
	case *ssa.Convert:
		if isInt64ZB(x.X.Type()) {
			iv = d.interval(x.X, facts, depth+1, seen)
		}
	case *ssa.ChangeType:
		iv = d.interval(x.X, facts, depth+1, seen)
	case *ssa.Phi:
		if seen[x] {
			break
		}
		seen[x] = true
		var lo, hi *big.Int
		for i, e := range x.Edges {
			pred := x.Block().Preds[i]
			fs := append(append([]ir.Fact{}, ir.Facts(pred)...), edgeFacts(pred, x.Block())...)
			ei := d.interval(e, fs, depth+1, seen)
			if lo == nil {
				lo, hi = ei.lo, ei.hi
			} else {
				lo, hi = minBig(lo, ei.lo), maxBig(hi, ei.hi)
			}
		}
		delete(seen, x)
		if lo != nil {
			iv = ivalZB{lo, hi}
		}
	case *ssa.BinOp:
		a := d.interval(x.X, facts, depth+1, seen)
		b := d.interval(x.Y, facts, depth+1, seen)
		switch x.Op {
		case token.ADD, token.SUB, token.MUL:
			iv = arithZB(x.Op, a, b).clamp()
		case token.REM:
			// |x % c| < |c|, with the sign of x
			if b.lo.Cmp(b.hi) == 0 && b.lo.Sign() != 0 {
				m := new(big.Int).Sub(new(big.Int).Abs(b.lo), big.NewInt(1))
				iv = ivalZB{new(big.Int).Neg(m), m}
				if a.lo.Sign() >= 0 {
					iv.lo = big.NewInt(0)
				}
				if a.hi.Sign() <= 0 {
					iv.hi = big.NewInt(0)
				}
			}
		case token.QUO:
			if b.lo.Cmp(b.hi) == 0 && b.lo.Sign() > 0 {
				iv = ivalZB{new(big.Int).Quo(a.lo, b.lo), new(big.Int).Quo(a.hi, b.lo)}
			}
		case token.AND:
			if b.lo.Cmp(b.hi) == 0 && b.lo.Sign() >= 0 {
				iv = ivalZB{big.NewInt(0), new(big.Int).Set(b.lo)}
			}
		}
	case *ssa.UnOp:
		if x.Op == token.SUB {
			a := d.interval(x.X, facts, depth+1, seen)
			iv = ivalZB{new(big.Int).Neg(a.hi), new(big.Int).Neg(a.lo)}.clamp()
		}
	}
	return refineZB(v, facts, iv)
}

func arithZB(op token.Token, a, b ivalZB) ivalZB {
	switch op {
	case token.ADD:
		return ivalZB{new(big.Int).Add(a.lo, b.lo), new(big.Int).Add(a.hi, b.hi)}
	case token.SUB:
		return ivalZB{new(big.Int).Sub(a.lo, b.hi), new(big.Int).Sub(a.hi, b.lo)}
	case token.MUL:
		p := []*big.Int{new(big.Int).Mul(a.lo, b.lo), new(big.Int).Mul(a.lo, b.hi), new(big.Int).Mul(a.hi, b.lo), new(big.Int).Mul(a.hi, b.hi)}
		return ivalZB{minBig(p...), maxBig(p...)}
	}
	return fullZB()
}

// durationArithmeticBounded: Time.Sub, time.Until and time.Since saturate: two moments more than ~292 years apart give
// math.MaxInt64 (math.MinInt64) nanoseconds, and "practically never" expirations (year 2400, 9999) are exactly such
// moments. Any arithmetic that moves such a value further out wraps around: a far-future expiry becomes a negative
// duration, is then clamped to the minimal TTL (redis) or fires the timer at once (in-memory), and a record that must
// live for centuries is gone after a millisecond. So every +, -, * and unary - on a value computed from such a
// difference must be shown to stay inside int64 by the guards that dominate it: interval evaluation (constants exact,
// the difference [MinInt64, MaxInt64], comparisons with constants on the dominating edges narrow an operand, a
// remainder / quotient / mask by a constant is bounded by that constant). One obligation per operation; a backend without
// any such operation gets one summary obligation.
func (c *Ctx) durationArithmeticBounded(rule string, label string, anchor *ssa.Function, fns []*ssa.Function) {
	d := &durZB{fns: fns, derived: map[ssa.Value]int{}}
	n := 0
	for _, fn := range fns {
		ir.Instrs(fn, func(in ssa.Instruction) {
			var res ivalZB
			var what string
			switch x := in.(type) {
			case *ssa.BinOp:
				switch x.Op {
				case token.ADD, token.SUB, token.MUL:
				default:
					return
				}
				if !isInt64ZB(x.Type()) || (!d.isDerived(x.X) && !d.isDerived(x.Y)) {
					return
				}
				facts := ir.Facts(x.Block())
				a := d.interval(x.X, facts, 0, map[*ssa.Phi]bool{})
				b := d.interval(x.Y, facts, 0, map[*ssa.Phi]bool{})
				res, what = arithZB(x.Op, a, b), x.Op.String()
			case *ssa.UnOp:
				if x.Op != token.SUB || !isInt64ZB(x.Type()) || !d.isDerived(x.X) {
					return
				}
				a := d.interval(x.X, ir.Facts(x.Block()), 0, map[*ssa.Phi]bool{})
				res, what = ivalZB{new(big.Int).Neg(a.hi), new(big.Int).Neg(a.lo)}, "negation"
			default:
				return
			}
			n++
			c.Decide(rule, fn, "arithmetic on a saturating time difference stays inside int64", in, res.inRange(),
				"the "+label+" computes '"+what+"' on a duration that stems from Time.Sub / time.Until (pinned to +-math.MaxInt64 ns when the moments are more than ~292 years apart) and no guard on the way bounds the operand: the result can be as far as ["+res.lo.String()+", "+res.hi.String()+"] - it wraps around, an expiration in the far future ('never': year 2400, 9999) becomes a negative duration and is then treated as already expired (TTL clamped to the minimum, timer fired at once): the record disappears although its expiration lies in the future")
		})
	}
	if n == 0 {
		c.Decide(rule, anchor, "no unbounded arithmetic on the time difference ("+label+")", nil, true, "")
	}
}
