package rules

import (
	"go/constant"
	"fmt"
	"os"
	"go/token"
	"go/types"
	"strings"

	"golang.org/x/tools/go/ssa"

	"verif/checker/ir"
)

// inmemRoles are the roles of the in-memory kvs.Storage backend, resolved through types.
type inmemRoles struct {
	svc, waiterT, recordT  *types.Named
	mutex, recs, waiters   *types.Var
	wDone, wCount          *types.Var
	recVersion, recExpires *types.Var
	recKey                 *types.Var
	storage                map[string]*ssa.Function // interface method name -> implementation
	all                    []*ssa.Function          // every function of the package
	svcFns                 []*ssa.Function          // methods of the service (and their closures)
	notify                 *ssa.Function
	locking                map[*ssa.Function]bool // functions that acquire the service mutex
	liveHelpers            map[*ssa.Function]bool // private helpers returning (Record, bool) that look the table up
	newID                  *ssa.Function
	storageIface           *types.Named
	// expiryPreds: memo of isExpiryPred (1 yes, -1 no)
	expiryPreds map[*ssa.Function]int
	// liveErr: the live-lookup helpers whose second result is an error (nil = a live record was found)
	liveErr map[*ssa.Function]bool
	// tableParams: parameters (receivers) of helpers that are handed the record / waiter table itself at every call site
	tableParams map[*ssa.Parameter]*types.Var
	// notifyKey: index (in Params / call arguments) of the key the notifier wakes the waiters of
	notifyKey int
}

func storageMethodNames() []string {
	return []string{"Create", "Get", "GetMany", "Put", "PutMany", "CasByVersion", "Delete", "WaitForVersionChange", "ListKeys"}
}

func resolveRecordRoles(c *Ctx) (rec *types.Named, key, version, expires *types.Var, iface *types.Named) {
	rec = c.P.LookupType("kvs", "Record")
	iface = c.P.LookupType("kvs", "Storage")
	if rec == nil || iface == nil {
		c.Fatalf("role kvs.Record / kvs.Storage not found")
	}
	st := structOf(rec)
	for i := 0; i < st.NumFields(); i++ {
		f := st.Field(i).Origin()
		switch f.Name() { // exported API of the record
		case "Key":
			key = f
		case "Version":
			version = f
		case "ExpiresAt":
			expires = f
		}
	}
	if key == nil || version == nil || expires == nil {
		c.Fatalf("role kvs.Record fields Key/Version/ExpiresAt not found")
	}
	return
}

func resolveInmemRoles(c *Ctx) *inmemRoles {
	r := &inmemRoles{storage: map[string]*ssa.Function{}, locking: map[*ssa.Function]bool{}, liveHelpers: map[*ssa.Function]bool{}, liveErr: map[*ssa.Function]bool{}}
	r.recordT, r.recKey, r.recVersion, r.recExpires, r.storageIface = resolveRecordRoles(c)
	impls := c.P.Implementers("kvs/inmem", r.storageIface.Underlying().(*types.Interface))
	if len(impls) != 1 {
		c.Fatalf("role in-memory backend: expected one implementation of kvs.Storage in kvs/inmem, found %d", len(impls))
	}
	r.svc = impls[0]
	c.Role("inmem.service", r.svc.Obj().Name(), r.svc.Obj().Pos())
	// the state may sit in the service struct itself or in a struct of the package that the service holds by value (an
	// embedded "table"): the role is the field, wherever it is declared
	r.mutex = c.oneFieldDeep("inmem.mutex", r.svc, func(f *types.Var) bool {
		return ir.IsNamed(f.Type(), "sync", "Mutex") || ir.IsNamed(f.Type(), "sync", "RWMutex")
	})
	r.recs = c.oneFieldDeep("inmem.records", r.svc, func(f *types.Var) bool {
		m, ok := f.Type().Underlying().(*types.Map)
		return ok && namedOf(m.Elem()) == r.recordT
	})
	r.waiters = c.oneFieldDeep("inmem.waiters", r.svc, func(f *types.Var) bool {
		m, ok := f.Type().Underlying().(*types.Map)
		if !ok {
			return false
		}
		wt := namedOf(m.Elem())
		if wt == nil || structOf(wt) == nil {
			return false
		}
		return len(fieldsWhere(wt, func(f *types.Var) bool { _, isChan := f.Type().Underlying().(*types.Chan); return isChan })) == 1
	})
	r.waiterT = namedOf(r.waiters.Type().Underlying().(*types.Map).Elem())
	r.wDone = c.oneField("waiter.done", r.waiterT, func(f *types.Var) bool { _, ok := f.Type().Underlying().(*types.Chan); return ok })
	r.wCount = c.oneField("waiter.count", r.waiterT, func(f *types.Var) bool {
		b, ok := f.Type().Underlying().(*types.Basic) // int, or a named integer type
		return ok && b.Info()&types.IsInteger != 0
	})
	for _, n := range storageMethodNames() {
		r.storage[n] = c.RequireFn(c.P.MethodOf(r.svc, n), "inmem."+n)
	}
	r.all = c.P.FuncsOf("kvs/inmem")
	r.resolveTableParams()
	// the functions of the backend: the methods of the service, of the types its state is made of (a struct embedded by
	// value, a named map type of a table, the waiter entry), and the package functions that are handed a table
	stateT := r.stateTypes()
	for _, fn := range r.all {
		root := fn
		for root.Parent() != nil {
			root = root.Parent()
		}
		if root.Signature.Recv() != nil && stateT[namedOf(root.Signature.Recv().Type())] {
			r.svcFns = append(r.svcFns, fn)
			continue
		}
		for _, p := range root.Params {
			if r.tableParams[p] != nil {
				r.svcFns = append(r.svcFns, fn)
				break
			}
		}
	}
	isStorage := map[*ssa.Function]bool{}
	for _, fn := range r.storage {
		isStorage[fn] = true
	}
	var notifyCands []*ssa.Function
	for _, fn := range r.svcFns {
		ir.Instrs(fn, func(in ssa.Instruction) {
			if p, acq, _ := ir.LockOp(in); acq && strings.HasSuffix(p, "."+r.mutex.Name()) {
				r.locking[fn] = true
			}
			// notify = non-interface method that closes a waiter's channel (candidates; the choice is made below)
			if cc := builtinCall(in, "close"); cc != nil && !isStorage[fn] {
				if _, isDone := loadOfField(cc.Args[0], r.wDone); isDone {
					notifyCands = appendUniqFn(notifyCands, fn)
				}
			}
			if lk, ok := in.(*ssa.Lookup); ok && !isStorage[fn] {
				if r.isRecsVal(lk.X) {
					rs := fn.Signature.Results()
					if rs.Len() == 2 && namedOf(rs.At(0).Type()) == r.recordT && types.Identical(rs.At(1).Type(), types.Typ[types.Bool]) {
						r.liveHelpers[fn] = true
					}
					// the same helper reporting "no live record" as an error instead of a flag
					if rs.Len() == 2 && namedOf(rs.At(0).Type()) == r.recordT && ir.IsErrorType(rs.At(1).Type()) {
						r.liveHelpers[fn] = true
						r.liveErr[fn] = true
					}
				}
			}
		})
	}
	// the notifier wakes everybody unconditionally: it does not keep the waiter count (a helper that withdraws ONE waiter
	// and closes the channel when it was the last one is not it); among several, the one the storage methods call most.
	// It works on the waiter table (it finds the entry of a key there): a method of the waiter entry that only closes the
	// channel of its receiver is a step of it, not the notifier.
	{
		best, bestCalls := (*ssa.Function)(nil), -1
		var fallback *ssa.Function
		for _, cand := range notifyCands {
			counts, onTable := false, false
			ir.Instrs(cand, func(in ssa.Instruction) {
				if _, _, ok := storeToField(in, r.wCount); ok {
					counts = true
				}
				if lk, ok := in.(*ssa.Lookup); ok && r.isWaitersVal(lk.X) {
					onTable = true
				}
				if cc := builtinCall(in, "delete"); cc != nil && r.isWaitersVal(cc.Args[0]) {
					onTable = true
				}
			})
			root := cand
			for root.Parent() != nil {
				root = root.Parent()
			}
			svcMethod := root.Signature.Recv() != nil && namedOf(root.Signature.Recv().Type()) == r.svc
			if !onTable && !svcMethod {
				continue
			}
			fallback = cand
			if counts {
				continue
			}
			n := 0
			for _, m := range r.svcFns {
				n += len(callsTo(m, cand))
			}
			if n > bestCalls {
				best, bestCalls = cand, n
			}
		}
		if best == nil {
			best = fallback
		}
		r.notify = best
	}
	c.RequireFn(r.notify, "inmem.notify")
	c.Role("inmem.notify", relName(r.notify), r.notify.Pos())
	r.notifyKey = r.keyParamOfNotify()
	for h := range r.liveHelpers {
		c.Role("inmem.liveLookup", relName(h), h.Pos())
	}
	r.newID = c.P.Func("ulidutils", "NewID")
	debugDumpYB(c, "kvs/inmem", "kvs", "kvs/redis")
	return r
}

// mutexPathHeld: the service mutex is held exclusively or shared before in.
func (r *inmemRoles) mutexPathHeld(ls *ir.Lockset, in ssa.Instruction) bool {
	for p := range ls.Before[in] {
		if strings.HasSuffix(p, "."+r.mutex.Name()) || strings.HasSuffix(p, "."+r.mutex.Name()+ir.ReadLockSuffix) {
			return true
		}
	}
	return false
}

// mutexExclusive: the service mutex is held exclusively before in.
func (r *inmemRoles) mutexExclusive(ls *ir.Lockset, in ssa.Instruction) bool {
	for p := range ls.Before[in] {
		if strings.HasSuffix(p, "."+r.mutex.Name()) {
			return true
		}
	}
	return false
}

// mutates reports whether in writes a table or closes a waiter channel, directly or through a helper.
func (r *inmemRoles) mutates(in ssa.Instruction) bool {
	direct := func(x ssa.Instruction) bool {
		if r.recsUpdate(x) != nil || r.recsDelete(x) != nil {
			return true
		}
		if mu, ok := x.(*ssa.MapUpdate); ok {
			if r.isWaitersVal(mu.Map) {
				return true
			}
		}
		if cc := builtinCall(x, "delete"); cc != nil {
			if r.isWaitersVal(cc.Args[0]) {
				return true
			}
		}
		if cc := builtinCall(x, "close"); cc != nil {
			return true
		}
		if _, ok := isFieldDelta(x, r.wCount, 1); ok {
			return true
		}
		if _, ok := isFieldDelta(x, r.wCount, -1); ok {
			return true
		}
		return false
	}
	if direct(in) {
		return true
	}
	if call, ok := in.(*ssa.Call); ok {
		if cal := ir.StaticCallee(call); cal != nil && r.isPrivateHelper(cal) && !r.locking[cal] {
			return ir.MayReach(cal, direct, 2)
		}
	}
	return false
}

func (r *inmemRoles) isLock(in ssa.Instruction) bool {
	p, acq, _ := ir.LockOp(in)
	return acq && (strings.HasSuffix(p, "."+r.mutex.Name()) || strings.HasSuffix(p, "."+r.mutex.Name()+ir.ReadLockSuffix))
}

func (r *inmemRoles) isUnlock(in ssa.Instruction) bool {
	if _, isDefer := in.(*ssa.Defer); isDefer {
		return false
	}
	p, _, rel := ir.LockOp(in)
	return rel && (strings.HasSuffix(p, "."+r.mutex.Name()) || strings.HasSuffix(p, "."+r.mutex.Name()+ir.ReadLockSuffix))
}

func (r *inmemRoles) recsLookup(in ssa.Instruction) *ssa.Lookup {
	lk, ok := in.(*ssa.Lookup)
	if !ok {
		return nil
	}
	if !r.isRecsVal(lk.X) {
		return nil
	}
	return lk
}

func (r *inmemRoles) recsUpdate(in ssa.Instruction) *ssa.MapUpdate {
	mu, ok := in.(*ssa.MapUpdate)
	if !ok {
		return nil
	}
	if !r.isRecsVal(mu.Map) {
		return nil
	}
	return mu
}

func (r *inmemRoles) recsDelete(in ssa.Instruction) *ssa.CallCommon {
	cc := builtinCall(in, "delete")
	if cc == nil {
		return nil
	}
	if !r.isRecsVal(cc.Args[0]) {
		return nil
	}
	return cc
}

// helperEntryLocked reports whether every static call site of the private helper fn holds the mutex.
func (r *inmemRoles) helperEntryLocked(fn *ssa.Function) bool {
	sites := 0
	for _, caller := range r.svcFns {
		var ls *ir.Lockset
		for _, call := range callsTo(caller, fn) {
			if ls == nil {
				entry := map[string]bool{}
				if !r.locking[caller] && caller != fn && r.isPrivateHelper(caller) && r.helperEntryLocked(caller) {
					entry["recv."+r.mutex.Name()] = true
				}
				ls = ir.ComputeLockset(caller, entry)
			}
			sites++
			if !r.mutexPathHeld(ls, call) {
				return false
			}
		}
	}
	return sites > 0
}

func (r *inmemRoles) isPrivateHelper(fn *ssa.Function) bool {
	for _, s := range r.storage {
		if s == fn {
			return false
		}
	}
	return fn.Object() != nil && !fn.Object().Exported()
}

// ---------------------------------------------------------------------------
// C02.R1 / C07.W2-W3: critical sections

func (c *Ctx) inmemCriticalSections(r *inmemRoles, rule string) {
	for _, name := range storageMethodNames() {
		fn := r.storage[name]
		ls := ir.ComputeLockset(fn, nil)
		// a) table accesses and helper calls under the mutex
		ir.Instrs(fn, func(in ssa.Instruction) {
			if fa, ok := in.(*ssa.FieldAddr); ok && (ir.FieldOf(fa) == r.recs || ir.FieldOf(fa) == r.waiters) {
				held := r.mutexPathHeld(ls, in)
				// ... and so is every use of the table read here (lookup, update, delete, range) - also through a local alias
				// that outlives the critical section (wl := s.waiters; Unlock(); wl[key])
				for _, use := range tableUsesYB(fa) {
					if !r.mutexPathHeld(ls, use) {
						held = false
					}
				}
				c.Decide(rule, fn, "table accessed under the mutex", in, held, "the record/waiter table is accessed without the service mutex")
			}
			if call, ok := in.(*ssa.Call); ok {
				if cal := ir.StaticCallee(call); cal != nil && r.isPrivateHelper(cal) && !r.locking[cal] && touchesTables(cal, r) {
					c.Decide(rule, fn, "table helper "+cal.Name()+" called under the mutex", in, r.mutexPathHeld(ls, in), "a helper that reads or writes the tables is called without the service mutex")
				}
			}
			if r.mutates(in) && r.mutexPathHeld(ls, in) {
				c.Decide(rule, fn, "tables mutated under the exclusive lock", in, r.mutexExclusive(ls, in), "a table is modified (store, delete, purge of an expired record, waiter notification) while the mutex is only held shared (RLock): two readers purge concurrently - concurrent map writes, double close")
			}
		})
		if name == "WaitForVersionChange" {
			continue
		}
		// b) one critical section: no second entry (Lock or call of a locking method) after the first
		var entries []ssa.Instruction
		ir.Instrs(fn, func(in ssa.Instruction) {
			if r.isLock(in) {
				entries = append(entries, in)
			}
			if call, ok := in.(*ssa.Call); ok {
				if cal := ir.StaticCallee(call); cal != nil && r.locking[cal] {
					entries = append(entries, in)
				}
			}
		})
		split := false
		var where ssa.Instruction
		isEntry := func(x ssa.Instruction) bool {
			for _, e := range entries {
				if e == x {
					return true
				}
			}
			return false
		}
		for _, e := range entries {
			if w, _ := (ir.Query{Fn: fn, From: e, Target: isEntry}).Find(); w != nil {
				split, where = true, w.End
			}
		}
		if len(entries) == 0 {
			c.Decide(rule, fn, "operation is one critical section", nil, false, "the operation never takes the service mutex")
			continue
		}
		c.Decide(rule, fn, "operation is one critical section", where, !split, "the operation enters the mutex twice (directly or through another locking method): its check and its write are not atomic, two racing calls can both succeed")
	}
	c.R.Floor(rule, 20)
}

func touchesTables(fn *ssa.Function, r *inmemRoles) bool {
	for _, p := range fn.Params {
		if r.tableParams[p] != nil {
			return true // the helper is handed a table itself
		}
	}
	return ir.MayReach(fn, func(in ssa.Instruction) bool {
		fa, ok := in.(*ssa.FieldAddr)
		return ok && (ir.FieldOf(fa) == r.recs || ir.FieldOf(fa) == r.waiters)
	}, 2)
}

// ---------------------------------------------------------------------------
// C02.R2 fresh version on every write

// freshVersionStore checks that record value v (about to be stored/encoded at instruction at) got its Version
// from the ID generator by a store that dominates at, with no other write to the field or the record in between.
func (c *Ctx) freshVersion(rule string, fn *ssa.Function, at ssa.Instruction, v ssa.Value, verField *types.Var, newID *ssa.Function, what string) {
	// a copy of the local record taken by the record type's own Copy method carries the version of the local
	// record at the moment of the call: look at the receiver there
	if call, ok := v.(*ssa.Call); ok {
		if recv := copyReceiver(call); recv != nil {
			v, at = recv, call
		}
	}
	// a pointer to the record kept in a local pointer variable (captured by a closure, so itself a cell): the pointer
	if u, ok := v.(*ssa.UnOp); ok && u.Op == token.MUL {
		if _, isPtr := u.Type().Underlying().(*types.Pointer); isPtr {
			v = ir.Resolve(v)
		}
	}
	// v is a load of (or the address of) a local record
	var cell *ssa.Alloc
	switch x := v.(type) {
	case *ssa.UnOp:
		if x.Op == token.MUL {
			cell, _ = x.X.(*ssa.Alloc)
			if cell == nil {
				if fv, ok := x.X.(*ssa.FreeVar); ok {
					if b, ok := ir.BindingOf(fv).(*ssa.Alloc); ok {
						cell = b
					}
				}
			}
		}
	case *ssa.Alloc:
		cell = x
	case *ssa.FreeVar:
		if b, ok := ir.BindingOf(x).(*ssa.Alloc); ok {
			cell = b
		}
	}
	if cell == nil {
		cell = cellThroughLiteralsV(v) // a record captured through several nested literals (v_kvs_v.go)
	}
	if cell == nil {
		c.Decide(rule, fn, what, at, false, "the stored record is not a local copy whose version was just assigned: it keeps whatever version the caller passed")
		return
	}
	// stores to the version field and to the whole cell (in fn and in closures capturing the cell)
	var fresh, others []ssa.Instruction
	scan := func(f *ssa.Function, cellIn ssa.Value) {
		ir.Instrs(f, func(in ssa.Instruction) {
			st, ok := in.(*ssa.Store)
			if !ok {
				return
			}
			if st.Addr == cellIn {
				others = append(others, in)
				return
			}
			if fa, ok := st.Addr.(*ssa.FieldAddr); ok && (fa.X == cellIn || ir.Resolve(fa.X) == cellIn) && ir.FieldOf(fa) == verField {
				if versionGeneratorV(st.Val, verField, newID, 0) != nil { // the generator's result, also handed on from another local record
					fresh = append(fresh, in)
				} else {
					others = append(others, in)
				}
			}
		})
	}
	scan(cell.Parent(), cell)
	if at.Parent() != cell.Parent() {
		// the use sits in a closure: find the free variable bound to the cell
		for _, fv := range at.Parent().FreeVars {
			if ir.BindingOf(fv) == ssa.Value(cell) {
				scan(at.Parent(), fv)
			}
		}
	}
	ok := false
	detail := "no new version (ulidutils.NewID()) is assigned to the record before it is written: a write leaves the version unchanged and holders of the old version cannot detect it"
	for _, s := range fresh {
		if s.Parent() != at.Parent() || !ir.Dominates(s, at) {
			continue
		}
		// no other write between s and at
		clean := true
		for _, o := range others {
			if o.Parent() != at.Parent() {
				continue
			}
			w1, _ := (ir.Query{Fn: at.Parent(), From: s, Block: func(x ssa.Instruction) bool { return x == at }, Target: func(x ssa.Instruction) bool { return x == o }}).Find()
			w2, _ := (ir.Query{Fn: at.Parent(), From: o, Block: func(x ssa.Instruction) bool { return x == s }, Target: func(x ssa.Instruction) bool { return x == at }}).Find()
			if w1 != nil && w2 != nil {
				clean = false
				detail = "the freshly assigned version is overwritten before the record is written"
			}
		}
		if clean {
			ok = true
			// the generator runs once per write: no way from this write round to the same write without a new call
			if call := versionGeneratorV(s.(*ssa.Store).Val, verField, newID, 0); call != nil && call.Parent() == at.Parent() {
				if w, _ := (ir.Query{Fn: at.Parent(), From: at, Block: func(x ssa.Instruction) bool { return x == ssa.Instruction(call) }, Target: func(x ssa.Instruction) bool { return x == at }}).Find(); w != nil {
					ok = false
					detail = "one generated version is reused for several writes (the generator call is outside the loop): records written in one call share a version"
				}
			}
		}
	}
	if !ok && at.Parent() != cell.Parent() && freshVersionThroughLiteralsV(cell, at, verField, newID) {
		ok = true // assigned by the generator in an enclosing function before the literal that uses the record was made (v_kvs_v.go)
	}
	c.Decide(rule, fn, what, at, ok, detail)
}

func (c *Ctx) inmemFreshVersions(r *inmemRoles, rule string) {
	for _, name := range []string{"Create", "Put", "PutMany", "CasByVersion"} {
		fn := r.storage[name]
		n := 0
		ir.Instrs(fn, func(in ssa.Instruction) {
			if mu := r.recsUpdate(in); mu != nil {
				n++
				c.freshVersion(rule, fn, in, mu.Value, r.recVersion, r.newID, "stored record has a fresh version")
			}
		})
		if n == 0 {
			c.Decide(rule, fn, "writing method stores a record", nil, false, "the method does not store a record")
		}
	}
	// no other function writes the table
	for _, fn := range r.all {
		ir.Instrs(fn, func(in ssa.Instruction) {
			if mu := r.recsUpdate(in); mu != nil {
				okFn := false
				for _, name := range []string{"Create", "Put", "PutMany", "CasByVersion"} {
					if r.storage[name] == fn {
						okFn = true
					}
				}
				if !okFn {
					c.freshVersion(rule, fn, in, mu.Value, r.recVersion, r.newID, "stored record has a fresh version")
				}
			}
		})
	}
}

// idGenerator checks that ulidutils.NewID is the string form of ulid.Make() (process-wide, locked, monotonic).
func (c *Ctx) idGenerator(rule string) {
	newID := c.RequireFn(c.P.Func("ulidutils", "NewID"), "ulidutils.NewID")
	ok, detail := false, "NewID does not derive from ulid.Make()"
	seen := map[*ssa.Function]bool{}
	var rec func(fn *ssa.Function, depth int) bool
	rec = func(fn *ssa.Function, depth int) bool {
		if fn == nil || seen[fn] || depth > 4 || len(fn.Blocks) == 0 {
			return false
		}
		seen[fn] = true
		res := false
		for _, ret := range ir.Returns(fn) {
			for _, o := range ir.Origins(ret.Results[0]) {
				call, isCall := o.(*ssa.Call)
				if !isCall {
					continue
				}
				name := ir.CalleeFullName(call)
				switch {
				case name == "github.com/oklog/ulid/v2.Make":
					res = true
				case strings.HasSuffix(name, ".String") && len(call.Call.Args) > 0:
					// (ULID).String(x): follow x
					for _, o2 := range ir.Origins(call.Call.Args[0]) {
						if c2, ok := o2.(*ssa.Call); ok {
							if ir.CalleeFullName(c2) == "github.com/oklog/ulid/v2.Make" {
								res = true
							} else if cal := ir.StaticCallee(c2); cal != nil && rec(cal, depth+1) {
								res = true
							} else if strings.HasPrefix(ir.CalleeFullName(c2), "github.com/oklog/ulid/v2.") {
								detail = "the version generator uses " + ir.CalleeFullName(c2) + " with its own entropy source instead of ulid.Make(): unless that source is a locked monotonic reader two concurrent writers can obtain the same version"
							}
						}
					}
				default:
					if cal := ir.StaticCallee(call); cal != nil && rec(cal, depth+1) {
						res = true
					} else if strings.HasPrefix(name, "github.com/oklog/ulid/v2.") {
						detail = "the version generator uses " + name + " with its own entropy source instead of ulid.Make(): unless that source is a locked monotonic reader two concurrent writers can obtain the same version"
					}
				}
			}
		}
		return res
	}
	ok = rec(newID, 0)
	c.Decide(rule, newID, "version generator = ulid.Make()", nil, ok, detail)
}

// ---------------------------------------------------------------------------
// C06.R1 expiry before use, C06.R2 bounded park

// expiryEdges classifies the edge from->to with respect to record cell `rec` (the alloc or value holding the looked-up record).
type expiryKind int

const (
	notExpiryEdge expiryKind = iota
	noExpiryEdge             // ExpiresAt == nil
	freshEdge                // not before now
	expiredEdge              // before now
)

func (r *inmemRoles) expiryEdge(from, to *ssa.BasicBlock) expiryKind {
	f := ir.EdgeFact(from, to)
	if f == nil {
		return notExpiryEdge
	}
	return r.expiryFact(*f)
}

// expiryFact classifies a branch fact as a step of the expiry decision.
func (r *inmemRoles) expiryFact(f ir.Fact) expiryKind { return r.expiryFactWith(f, nil, 0) }

// expiryFactWith is expiryFact with an extra notion of "the current time" (inside an expiry predicate: its time
// parameter). freshEdge reads "not expired" when the fact comes from an expiry predicate (no expiration, or not before now).
func (r *inmemRoles) expiryFactWith(f ir.Fact, alsoNow func(ssa.Value) bool, depth int) expiryKind {
	ff := f.StripNot()
	if cm, ok := ff.Cmp(); ok {
		isExp := func(v ssa.Value) bool { return ir.LoadedField(v) == r.recExpires }
		if (isExp(cm.X) && ir.IsNilConst(cm.Y)) || (isExp(cm.Y) && ir.IsNilConst(cm.X)) {
			if cm.Op == token.EQL {
				return noExpiryEdge
			}
			return notExpiryEdge // != nil: the decision continues with the time test
		}
	}
	if call, ok := ff.Cond.(*ssa.Call); ok {
		name := ir.CalleeFullName(call)
		isExpTime := func(v ssa.Value) bool {
			// *r.ExpiresAt
			if u, ok := ir.Resolve(v).(*ssa.UnOp); ok && u.Op == token.MUL {
				return ir.LoadedField(u.X) == r.recExpires
			}
			return false
		}
		isNow := func(v ssa.Value) bool {
			cl, ok := ir.Resolve(v).(*ssa.Call)
			// ... or a clock reading handed down to a private helper as a parameter (z_b_inmem.go; how fresh the reading
			// is at the call sites is the fresh-clock rule's question)
			return (ok && ir.CalleeFullName(cl) == "time.Now") || (alsoNow != nil && alsoNow(v)) || r.clockMoment(v, 0)
		}
		// a function of the repository that IS the expiry decision (true exactly for "has an expiration and it is
		// before now"), applied to the current time
		if k := r.expiryPredCall(call, ff.True, isNow, depth); k != notExpiryEdge {
			return k
		}
		if len(call.Call.Args) == 2 {
			a, b := call.Call.Args[0], call.Call.Args[1]
			switch name {
			case "(time.Time).Before":
				if isExpTime(a) && isNow(b) { // expiry.Before(now)
					if ff.True {
						return expiredEdge
					}
					return freshEdge
				}
				if isNow(a) && isExpTime(b) { // now.Before(expiry)
					if ff.True {
						return freshEdge
					}
					return expiredEdge
				}
			case "(time.Time).After":
				if isNow(a) && isExpTime(b) { // now.After(expiry)
					if ff.True {
						return expiredEdge
					}
					return freshEdge
				}
				if isExpTime(a) && isNow(b) { // expiry.After(now)
					if ff.True {
						return freshEdge
					}
					return expiredEdge
				}
			}
		}
	}
	return notExpiryEdge
}

func (c *Ctx) inmemExpiry(r *inmemRoles, rule string) {
	n := 0
	c.inmemLiveHelperSound(r, rule)
	for _, fn := range r.svcFns {
		ir.Instrs(fn, func(in ssa.Instruction) {
			lk := r.recsLookup(in)
			if lk == nil {
				return
			}
			n++
			if !lk.CommaOk {
				c.Decide(rule, fn, "table lookup decides expiry before use", in, false, "the record table is read without a presence test and without an expiry decision")
				return
			}
			// found edge: the extract #1 true successor
			var okV ssa.Value
			if lk.Referrers() != nil {
				for _, ref := range *lk.Referrers() {
					if ex, isEx := ref.(*ssa.Extract); isEx && ex.Index == 1 {
						okV = ex
					}
				}
			}
			if okV == nil {
				c.Decide(rule, fn, "table lookup decides expiry before use", in, false, "the presence flag of the lookup is ignored")
				return
			}
			decision := func(from, to *ssa.BasicBlock) bool { return r.expiryEdge(from, to) != notExpiryEdge }
			absent := func(from, to *ssa.BasicBlock) bool {
				f := ir.EdgeFact(from, to)
				if f == nil {
					return false
				}
				ff := f.StripNot()
				return ff.Cond == okV && !ff.True
			}
			c.NoPath(rule, "table lookup decides expiry before use", in, ir.Query{Fn: fn, From: in,
				BlockEdge: func(from, to *ssa.BasicBlock) bool { return decision(from, to) || absent(from, to) },
				BlockFact: func(f ir.Fact) bool {
					ff := f.StripNot()
					return r.expiryFact(f) != notExpiryEdge || (ff.Cond == okV && !ff.True)
				},
				Block:  func(x ssa.Instruction) bool { return r.recsLookup(x) != nil && x != in },
				Target: func(x ssa.Instruction) bool { return ir.IsExit(x) || r.recsUpdate(x) != nil || r.recsDelete(x) != nil }},
				"a present record influences the result without the expiry decision (ExpiresAt==nil / not before now): an expired key is treated as existing")
			// the expired edge deletes the record, notifies and does not report the record
			for _, b := range fn.Blocks {
				for _, s := range b.Succs {
					if r.expiryEdge(b, s) != expiredEdge {
						continue
					}
					isDel := func(x ssa.Instruction) bool { return r.recsDelete(x) != nil }
					isNotify := func(x ssa.Instruction) bool { return isCallTo(x, r.notify) }
					last := s.Instrs[0]
					stop := func(x ssa.Instruction) bool {
						return ir.IsExit(x) || (r.recsLookup(x) != nil) || isRangeNext(x)
					}
					c.NoPath(rule, "expired edge deletes the record", last, ir.Query{Fn: fn, FromBlock: s, Block: isDel, Target: stop},
						"an expired record is recognised but left in the table")
					c.NoPath(rule, "expired edge notifies waiters", last, ir.Query{Fn: fn, FromBlock: s, Block: isNotify, Target: stop},
						"an expired record is dropped without waking the waiters of its key")
				}
			}
		})
		// ranges over the table must filter through a live lookup
		ir.Instrs(fn, func(in ssa.Instruction) {
			rg, ok := in.(*ssa.Range)
			if !ok {
				return
			}
			if !r.isRecsVal(rg.X) {
				return
			}
			n++
			// every append (or use) of the ranged key must be dominated by the true edge of a live-helper call
			okAll, found := true, false
			ir.Instrs(fn, func(x ssa.Instruction) {
				cc := builtinCall(x, "append")
				if cc == nil {
					return
				}
				found = true
				live := ir.HasFact(x.Block(), func(f ir.Fact) bool {
					src, present, ok := r.lookupOutcome(f)
					_, isCall := src.(*ssa.Call)
					return ok && present && isCall
				})
				if !live {
					// the same through an in-place lookup: no path from the iteration step to the append avoids an edge
					// on which a record was found fresh (no expiry, or not before now)
					fresh := func(from, to *ssa.BasicBlock) bool {
						k := r.expiryEdge(from, to)
						return k == freshEdge || k == noExpiryEdge
					}
					viaFresh := false
					ir.Instrs(fn, func(nx ssa.Instruction) {
						if !isRangeNext(nx) {
							return
						}
						if n2, isNext := nx.(*ssa.Next); !isNext || n2.Iter != ssa.Value(rg) {
							return
						}
						w, err := (ir.PathQuery{Fn: fn, From: nx, StopEdge: fresh, Stop: func(y ssa.Instruction) bool { return y != nx && isRangeNext(y) },
							Target: func(y ssa.Instruction, _ *ir.Valuation) bool { return y == x }}).Find()
						if err == nil && w == nil {
							viaFresh = true
						} else if os.Getenv("VERIF_DEBUG") != "" && w != nil {
							fmt.Fprintf(os.Stderr, "debug: range filter: %s\n", w.String(c.P))
						}
					})
					live = viaFresh
				}
				if !live {
					okAll = false
				}
			})
			c.Decide(rule, fn, "range over the table filters expired records", in, (found && okAll) || (!found && r.rangeOnlyDecidesU(rg)), "keys are collected from the record table without the expiry decision: expired keys are listed")
		})
	}
	// reads made through the live-lookup helpers count at their call sites
	for _, fn := range r.svcFns {
		ir.Instrs(fn, func(in ssa.Instruction) {
			if call, ok := in.(*ssa.Call); ok && r.liveHelpers[ir.StaticCallee(call)] {
				n++
			}
		})
	}
	if n < 7 {
		c.R.Errorf("%s matched %d table reads (direct or through the live-lookup helper), below its floor of 7", rule, n)
	}
}

func isRangeNext(x ssa.Instruction) bool {
	_, ok := x.(*ssa.Next)
	return ok
}

func (c *Ctx) inmemBoundedPark(r *inmemRoles, rule string) {
	fn := r.storage["WaitForVersionChange"]
	n := 0
	ir.Instrs(fn, func(in ssa.Instruction) {
		sel, ok := in.(*ssa.Select)
		if !ok || !sel.Blocking {
			return
		}
		n++
		// nilIffNoExpiry: a timer (pointer) variable that is nil exactly on the paths where the record has no expiration:
		// phi over nil (under ExpiresAt == nil, or under another such variable being nil) and timers built from the expiry
		var nilIffNoExpiry func(x ssa.Value, depth int) bool
		nilIffNoExpiry = func(x ssa.Value, depth int) bool {
			phi, ok := x.(*ssa.Phi)
			if !ok || depth > 3 {
				return false
			}
			// the expiration itself handed through result variables: every non-nil alternative is the ExpiresAt field
			if _, isTimePtr := phi.Type().(*types.Pointer); isTimePtr && ir.IsNamed(phi.Type(), "time", "Time") {
				n := 0
				for _, e := range phi.Edges {
					if ir.IsNilConst(e) {
						continue
					}
					if ir.LoadedField(e) != r.recExpires && !nilIffNoExpiry(e, depth+1) {
						return false
					}
					n++
				}
				return n > 0
			}
			for i, e := range phi.Edges {
				pred := phi.Block().Preds[i]
				if ir.IsNilConst(e) {
					g := hasFactCmp(pred, func(cm ir.Cmp) bool {
						isExp := func(v ssa.Value) bool { return ir.LoadedField(v) == r.recExpires || nilIffNoExpiry(v, depth+1) }
						return cm.Op == token.EQL && ((isExp(cm.X) && ir.IsNilConst(cm.Y)) || (isExp(cm.Y) && ir.IsNilConst(cm.X)))
					})
					if !g {
						if ef := ir.EdgeFact(pred, phi.Block()); ef != nil {
							if cm, isCmp := ef.Cmp(); isCmp && cm.Op == token.EQL {
								isExp := func(v ssa.Value) bool { return ir.LoadedField(v) == r.recExpires || nilIffNoExpiry(v, depth+1) }
								g = (isExp(cm.X) && ir.IsNilConst(cm.Y)) || (isExp(cm.Y) && ir.IsNilConst(cm.X))
							}
						}
					}
					if !g {
						return false
					}
					continue
				}
				if !durationFromExpiry(e, r.recExpires, 0) {
					return false
				}
			}
			return true
		}
		okTimer, detail := false, "the parked waiter has no case that fires when the record expires: after the holder of a lease dies the waiter never returns"
		for _, st := range sel.States {
			if st.Dir != types.RecvOnly {
				continue
			}
			ch := st.Chan
			if !ir.IsNamed(ch.Type().Underlying().(*types.Chan).Elem(), "time", "Time") {
				continue
			}
			// ch = phi(nil, timer.C) : every nil operand must arrive under ExpiresAt == nil
			nilOK := true
			derived := false
			var to *ssa.BasicBlock
			var visit func(v ssa.Value, from *ssa.BasicBlock, depth int)
			visit = func(v ssa.Value, from *ssa.BasicBlock, depth int) {
				if depth > 4 {
					return
				}
				if ir.IsNilConst(v) {
					guarded := from != nil && hasFactCmp(from, func(cm ir.Cmp) bool {
						isExp := func(x ssa.Value) bool { return ir.LoadedField(x) == r.recExpires || nilIffNoExpiry(x, 0) }
						return cm.Op == token.EQL && ((isExp(cm.X) && ir.IsNilConst(cm.Y)) || (isExp(cm.Y) && ir.IsNilConst(cm.X)))
					})
					if !guarded && from != nil {
						// the edge itself may carry the fact
						for _, s := range from.Succs {
							if r.expiryEdge(from, s) == noExpiryEdge {
								guarded = true
							}
						}
						if to != nil {
							if ef := ir.EdgeFact(from, to); ef != nil {
								if cm, isCmp := ef.Cmp(); isCmp && cm.Op == token.EQL {
									isExp := func(x ssa.Value) bool { return ir.LoadedField(x) == r.recExpires || nilIffNoExpiry(x, 0) }
									if (isExp(cm.X) && ir.IsNilConst(cm.Y)) || (isExp(cm.Y) && ir.IsNilConst(cm.X)) {
										guarded = true
									}
								}
							}
						}
					}
					if !guarded {
						nilOK = false
					}
					return
				}
				if p, ok := v.(*ssa.Phi); ok {
					for i, e := range p.Edges {
						saved := to
						to = p.Block()
						visit(e, p.Block().Preds[i], depth+1)
						to = saved
					}
					return
				}
				// timer channel derived from the record's expiry
				if durationFromExpiry(v, r.recExpires, 0) {
					derived = true
				}
			}
			visit(ch, nil, 0)
			if derived && nilOK {
				okTimer = true
			} else if derived && !nilOK {
				detail = "the expiry timer is armed only on some paths where the record has an expiration: a waiter parked without it never notices the expiry"
			}
		}
		c.Decide(rule, fn, "parked waiter is bounded by the record's expiration", in, okTimer, detail)
	})
	if n == 0 {
		c.Decide(rule, fn, "waiter parks in a select", nil, false, "no blocking select found in WaitForVersionChange")
	}
}

// durationFromExpiry reports whether v (a timer channel / timer / duration) derives from the ExpiresAt field.
func durationFromExpiry(v ssa.Value, exp *types.Var, depth int) bool {
	return derivesYB(v, func(x ssa.Value) bool { return ir.LoadedField(x) == exp }, depth, map[*ssa.Function]bool{})
}

// ---------------------------------------------------------------------------
// C07 rules (in-memory)

func (c *Ctx) inmemNotifyAfterMutate(r *inmemRoles, rule string) {
	n := 0
	c.inmemLiveHelperSound(r, rule)
	for _, fn := range r.svcFns {
		ir.Instrs(fn, func(in ssa.Instruction) {
			var key ssa.Value
			what := ""
			if mu := r.recsUpdate(in); mu != nil {
				key, what = mu.Key, "store"
				// the insert of Create is dominated by the key-absent edge: no waiter can be registered for an absent key
				absent := ir.HasFact(in.Block(), func(f ir.Fact) bool {
					_, present, ok := r.lookupOutcome(f)
					return ok && !present
				})
				if !absent {
					absent = ir.HasFact(in.Block(), func(f ir.Fact) bool { return r.presenceWitness(f, false, 0, nil) })
				}
				if absent {
					n++
					c.Decide(rule, fn, "insert of an absent key needs no notification", in, true, "")
					return
				}
			} else if cc := r.recsDelete(in); cc != nil {
				key, what = cc.Args[1], "delete"
			} else {
				return
			}
			n++
			isNotify := func(x ssa.Instruction) bool {
				call, ok := x.(*ssa.Call)
				if !ok || ir.StaticCallee(call) != r.notify || len(call.Call.Args) <= r.notifyKey {
					return false
				}
				// a notifier that is handed the waiter table must be handed THE table of the service
				for i, p := range r.notify.Params {
					if types.Identical(p.Type(), r.waiters.Type()) && (i >= len(call.Call.Args) || !r.isWaitersVal(call.Call.Args[i])) {
						return false
					}
				}
				nk := call.Call.Args[r.notifyKey]
				return same(nk, key) || samePath(nk, key) || sameFieldOfSameCell(nk, key)
			}
			c.NoPath(rule, "notify after "+what, in, ir.Query{Fn: fn, From: in, Block: isNotify,
				Target: func(x ssa.Instruction) bool {
					return ir.IsExit(x) || r.isUnlock(x) || (x != in && (r.recsUpdate(x) != nil || r.recsDelete(x) != nil))
				}},
				"a record is changed or removed and the waiters of its key are not woken on this path (lost wake-up)")
		})
	}
	if n < 6 {
		c.R.Errorf("%s matched %d mutation sites, below its floor of 6", rule, n)
	}
}

// sameFieldOfSameCell: both values are loads of the same field of the same local cell (record.Key twice).
func sameFieldOfSameCell(a, b ssa.Value) bool {
	ua, ok1 := ir.Resolve(a).(*ssa.UnOp)
	ub, ok2 := ir.Resolve(b).(*ssa.UnOp)
	if !ok1 || !ok2 {
		return false
	}
	fa, ok1 := ua.X.(*ssa.FieldAddr)
	fb, ok2 := ub.X.(*ssa.FieldAddr)
	if ok1 && ok2 && fa.X == fb.X && fa.Field == fb.Field {
		return true
	}
	// the same field of the same record seen through local copies (parameter passing, inlined helpers)
	ra, rb := ir.FieldRoot(ua), ir.FieldRoot(ub)
	return ra != "" && ra == rb
}

func (c *Ctx) inmemWaitRules(r *inmemRoles, w2, w3, w4, w5, w6 string) {
	fn := r.storage["WaitForVersionChange"]
	ls := ir.ComputeLockset(fn, nil)
	// the lookup of this iteration: call of a live helper or direct table lookup
	var lookups []ssa.Instruction
	ir.Instrs(fn, func(in ssa.Instruction) {
		if r.recsLookup(in) != nil {
			lookups = append(lookups, in)
		}
		if call, ok := in.(*ssa.Call); ok && r.liveHelpers[ir.StaticCallee(call)] {
			lookups = append(lookups, in)
		}
	})
	var incs, decs []ssa.Instruction
	ir.Instrs(fn, func(in ssa.Instruction) {
		if _, ok := isFieldDelta(in, r.wCount, 1); ok {
			incs = append(incs, in)
		}
		if _, ok := isFieldDelta(in, r.wCount, -1); ok {
			decs = append(decs, in)
		}
	})
	// W2 check-and-register atomically
	if w2 != "" {
		if len(lookups) == 0 {
			c.Decide(w2, fn, "version checked on a lookup made under this lock", nil, false, "the waiter does not look the record up itself under the mutex (it relies on a separately locked read): a change between the read and the registration is missed")
		}
		if len(incs) == 0 {
			c.Decide(w2, fn, "waiter registers itself", nil, false, "the waiter never registers (no waiter count increment)")
		}
		for _, inc := range incs {
			c.Decide(w2, fn, "registration under the mutex", inc, r.mutexPathHeld(ls, inc), "the waiter registers without the mutex")
			// every path entry -> inc passes a lookup, and from the last lookup to inc no Unlock
			c.NoPath(w2, "registration preceded by the lookup", inc, ir.Query{Fn: fn,
				Block:  func(x ssa.Instruction) bool { return containsInstr(lookups, x) },
				Target: func(x ssa.Instruction) bool { return x == inc }},
				"the waiter can register without having checked the record in this iteration")
			for _, lk := range lookups {
				bad := false
				ir.Instrs(fn, func(u ssa.Instruction) {
					if !r.isUnlock(u) {
						return
					}
					w1, _ := (ir.Query{Fn: fn, From: lk, Block: func(x ssa.Instruction) bool { return x == inc || containsInstr(lookups, x) }, Target: func(x ssa.Instruction) bool { return x == u }}).Find()
					wb, _ := (ir.Query{Fn: fn, From: u, Block: func(x ssa.Instruction) bool { return containsInstr(lookups, x) }, Target: func(x ssa.Instruction) bool { return x == inc }}).Find()
					if w1 != nil && wb != nil {
						bad = true
					}
				})
				c.Decide(w2, fn, "check and registration in one critical section", lk, !bad, "the mutex is released between the version check and the registration of the waiter: a mutation in between wakes nobody and the waiter sleeps on a stale version (lost wake-up)")
			}
		}
	}
	// W3 park unlocked
	if w3 != "" {
		ir.Instrs(fn, func(in ssa.Instruction) {
			if sel, ok := in.(*ssa.Select); ok && sel.Blocking {
				c.Decide(w3, fn, "waiter parks with the mutex released", in, len(ls.Any(in)) == 0, "the waiter blocks while holding the service mutex: no writer can ever wake it")
				// the select listens on the registered waiter's channel
				listens := false
				for _, st := range sel.States {
					if st.Dir == types.RecvOnly {
						if _, isDone := loadOfField(st.Chan, r.wDone); isDone {
							listens = true
						}
					}
				}
				c.Decide(w3, fn, "parked waiter listens on its entry's channel", in, listens, "the parked waiter does not listen on the channel of the waiter entry")
			}
		})
	}
	// W4 polite cancel
	if w4 != "" {
		for _, dec := range decs {
			c.Decide(w4, fn, "cancel: count decremented under the mutex", dec, r.mutexPathHeld(ls, dec), "a cancelling waiter decrements the waiter count without the mutex")
		}
		ir.Instrs(fn, func(in ssa.Instruction) {
			isClose := builtinCall(in, "close") != nil
			isDel := false
			if cc := builtinCall(in, "delete"); cc != nil {
				isDel = r.isWaitersVal(cc.Args[0])
			}
			isTeardown := r.withdrawTeardownU(fn, in, decs) // close + forget done by the notifier on behalf of a withdrawing waiter
			if !isClose && !isDel && !isTeardown {
				return
			}
			lastWaiter := hasFactCmp(in.Block(), func(cm ir.Cmp) bool {
				_, isCnt := loadOfField(cm.X, r.wCount)
				k, isC := ir.ConstInt(cm.Y)
				return isCnt && isC && ((cm.Op == token.EQL && k == 0) || (cm.Op == token.LEQ && k == 0) || (cm.Op == token.LSS && k == 1))
			})
			// identity: the registered entry is still ours: (ours.done != current.done) is false, or ours == current
			identity := hasFactCmp(in.Block(), func(cm ir.Cmp) bool {
				if cm.Op != token.EQL {
					return false
				}
				_, dx := loadOfField(cm.X, r.wDone)
				_, dy := loadOfField(cm.Y, r.wDone)
				if dx && dy {
					return true
				}
				return namedOf(cm.X.Type()) == r.waiterT && namedOf(cm.Y.Type()) == r.waiterT
			})
			what := "close of the shared channel"
			if isDel {
				what = "removal of the waiter entry"
			}
			if isTeardown {
				what = "teardown of the waiter entry through the notifier"
			}
			c.Decide(w4, fn, "cancel: "+what+" only as last waiter", in, lastWaiter, "a cancelling waiter tears the shared entry down although other waiters remain: they are woken spuriously or never")
			c.Decide(w4, fn, "cancel: "+what+" only of the entry still registered", in, identity, "a cancelling waiter tears down whatever entry is registered now, not the one it registered on: a newer waiter's entry is destroyed and that waiter misses every later change")
		})
	}
	// W5 results under their guards
	if w5 != "" {
		for _, e := range ir.ExitPoints(fn) {
			ret := e.Ret
			ev := e.Result(0)
			// where the alternative is decided: the last instruction of the deciding block
			at := ssa.Instruction(ret)
			if e.Block != ret.Block() && len(e.Block.Instrs) > 0 {
				at = e.Block.Instrs[len(e.Block.Instrs)-1]
			}
			switch {
			case ir.IsNilConst(ir.Resolve(ev)):
				okG := e.HasFact(func(f ir.Fact) bool {
					cm, isCmp := f.Cmp()
					return isCmp && cm.Op == token.NEQ && (ir.LoadedField(cm.X) == r.recVersion || ir.LoadedField(cm.Y) == r.recVersion)
				})
				if !okG {
					// per path: flags and pointers assigned together with the decision (`kw == nil` standing for "the
					// version differed") select the alternatives
					w, perr := (ir.PathQuery{Fn: fn, Target: func(x ssa.Instruction, val *ir.Valuation) bool {
						if x != ssa.Instruction(ret) {
							return false
						}
						if isNil, known := val.KnownIsNil(ir.ResultValue(ret, 0)); known && !isNil {
							return false
						}
						differs := false
						ir.Instrs(fn, func(y ssa.Instruction) {
							bo, isBo := y.(*ssa.BinOp)
							if !isBo || (bo.Op != token.NEQ && bo.Op != token.EQL) || (ir.LoadedField(bo.X) != r.recVersion && ir.LoadedField(bo.Y) != r.recVersion) {
								return
							}
							if k, known := val.Known(bo); known && k == (bo.Op == token.NEQ) {
								differs = true
							}
						})
						return !differs
					}}).Find()
					okG = perr == nil && w == nil
				}
				c.Decide(w5, fn, "nil only when the stored version differs", ret, okG, "WaitForVersionChange returns nil on a path where the version was not seen to differ (invented change)")
				// the compared record stems from a lookup of this critical section
				okL := false
				for _, lk := range lookups {
					if !ir.Dominates(lk, at) {
						continue
					}
					// no lock acquisition lies between the lookup and the decision
					relocked := false
					ir.Instrs(fn, func(l ssa.Instruction) {
						if !r.isLock(l) {
							return
						}
						w1, _ := (ir.Query{Fn: fn, From: lk, Block: func(x ssa.Instruction) bool { return x == at }, Target: func(x ssa.Instruction) bool { return x == l }}).Find()
						w2, _ := (ir.Query{Fn: fn, From: l, Block: func(x ssa.Instruction) bool { return x == lk }, Target: func(x ssa.Instruction) bool { return x == at }}).Find()
						if w1 != nil && w2 != nil {
							relocked = true
						}
					})
					if !relocked {
						okL = true
					}
				}
				c.Decide(w5, fn, "nil decided on a lookup of this critical section", ret, okL, "the version is compared on data that was not read under the current lock acquisition")
			case r.errSentinel(ev) == "ErrNotExist":
				okG := e.HasFact(func(f ir.Fact) bool {
					ff := f.StripNot()
					ex, isEx := ff.Cond.(*ssa.Extract)
					return isEx && ex.Index == 1 && !ff.True && !ir.IsErrorType(ex.Type())
				})
				if !okG {
					okG = e.HasFact(func(f ir.Fact) bool { return r.presenceWitness(f, false, 0, nil) })
				}
				c.Decide(w5, fn, "ErrNotExist only when the key is absent", ret, okG, "ErrNotExist is returned on a path where the key was not seen to be absent")
			default:
				if call, ok := ir.Resolve(ev).(*ssa.Call); ok && call.Call.IsInvoke() && call.Call.Method.Name() == "Err" {
					okG := e.HasFact(func(f ir.Fact) bool {
						cm, isCmp := f.Cmp()
						if !isCmp || cm.Op != token.EQL {
							return false
						}
						ex, isEx := ir.Resolve(cm.X).(*ssa.Extract)
						if !isEx {
							return false
						}
						_, isSel := ex.Tuple.(*ssa.Select)
						return isSel
					})
					if !okG {
						okG = ctxErrKnownU(fn, e, call) // the context was seen to have ended: ctx.Err() != nil on the way
					}
					if !okG {
						// per path: a flag set in the ctx.Done() case and tested behind the select
						w, perr := (ir.PathQuery{Fn: fn, Target: func(x ssa.Instruction, val *ir.Valuation) bool {
							if x != ssa.Instruction(ret) {
								return false
							}
							if !constComparisonsHoldYB(fn, val) {
								return false // the path decided a comparison of two constants against their values: infeasible
							}
							inDone := false
							ir.Instrs(fn, func(y ssa.Instruction) {
								sel, isSel := y.(*ssa.Select)
								if !isSel {
									return
								}
								if k, known := selectCaseOnPath(val, sel); known && k < len(sel.States) {
									if dc, isCall := ir.Resolve(sel.States[k].Chan).(*ssa.Call); isCall && dc.Call.IsInvoke() && dc.Call.Method.Name() == "Done" {
										inDone = true
									}
								}
							})
							return !inDone
						}}).Find()
						okG = perr == nil && w == nil
					}
					c.Decide(w5, fn, "ctx.Err() only in the ctx.Done() case", ret, okG, "the context's error is returned outside the ctx.Done() case")
				}
			}
		}
	}
	// W6 notify is close + forget
	if w6 != "" {
		nf := r.notify
		isClose := func(x ssa.Instruction) bool {
			cc := builtinCall(x, "close")
			if cc == nil {
				return false
			}
			_, isDone := loadOfField(cc.Args[0], r.wDone)
			return isDone
		}
		isForget := func(x ssa.Instruction) bool {
			cc := builtinCall(x, "delete")
			if cc == nil {
				return false
			}
			isW := r.isWaitersVal(cc.Args[0])
			return isW
		}
		ir.Instrs(nf, func(in ssa.Instruction) {
			if isClose(in) {
				c.NoPath(w6, "closed waiter entry is forgotten", in, ir.Query{Fn: nf, From: in, Block: isForget, Target: ir.IsExit},
					"the channel of a waiter entry is closed but the entry stays registered: the next mutation closes it again (panic) and later waiters spin")
			}
			if isForget(in) {
				c.NoPath(w6, "forgotten waiter entry was closed", in, ir.Query{Fn: nf, Block: isClose, Target: func(x ssa.Instruction) bool { return x == in }},
					"a waiter entry is dropped without closing its channel: its waiters are never woken")
			}
		})
		c.R.Floor(w6, 2)
	}
}

func containsInstr(s []ssa.Instruction, x ssa.Instruction) bool {
	for _, y := range s {
		if y == x {
			return true
		}
	}
	return false
}

// inmemGlobPlain is C03.R8: ListKeys compiles the pattern without separator runes.
func (c *Ctx) inmemGlobPlain(r *inmemRoles, rule string) {
	fn := r.storage["ListKeys"]
	n := 0
	ir.Instrs(fn, func(in ssa.Instruction) {
		call, ok := in.(*ssa.Call)
		if !ok || !strings.HasSuffix(ir.CalleeFullName(call), "gobwas/glob.Compile") {
			return
		}
		n++
		okPlain := len(call.Call.Args) < 2 || ir.IsNilConst(call.Call.Args[1])
		c.Decide(rule, fn, "glob compiled without separators", in, okPlain, "the in-memory ListKeys compiles the pattern with separator runes: * and ? no longer match across them, keys that the contract (and the redis backend) list are omitted")
		// the pattern compiled is the caller's pattern
		okArg := len(fn.Params) >= 3 && ir.Resolve(call.Call.Args[0]) == ssa.Value(fn.Params[2])
		c.Decide(rule, fn, "glob compiled from the caller's pattern", in, okArg, "ListKeys does not match against the pattern it was given")
	})
	if n == 0 {
		c.Decide(rule, fn, "ListKeys matches with the glob library", nil, false, "ListKeys does not compile the pattern with the glob library the contract names")
	}
}

// everyBatchRecordWritten is C02.R7: in PutMany each record of the batch is stored (no iteration of the loop over
// the batch goes round without a store into the table).
func (c *Ctx) everyBatchRecordWritten(r *inmemRoles, rule string) {
	fn := r.storage["PutMany"]
	if len(fn.Params) < 3 {
		c.Fatalf("PutMany: unexpected signature")
	}
	batch := fn.Params[2]
	n := 0
	// a copy of the batch prepared element by element (before the critical section) stands for the batch: an iteration
	// over the batch may hand its record on to the same index of the copy, and every iteration over the copy stores
	derived := derivedBatchesV(fn, batch, r.recordT)
	isMarker := func(ia *ssa.IndexAddr) bool {
		base := ir.Resolve(ia.X)
		return base == ssa.Value(batch) || (derived[base] && elementReadV(ia))
	}
	readDerived := map[ssa.Value]bool{}
	// the element load of the batch marks an iteration
	ir.Instrs(fn, func(in ssa.Instruction) {
		ia, ok := in.(*ssa.IndexAddr)
		if !ok || !isMarker(ia) {
			return
		}
		n++
		onBatch := ir.Resolve(ia.X) == ssa.Value(batch)
		if !onBatch {
			readDerived[ir.Resolve(ia.X)] = true
		}
		isStore := func(x ssa.Instruction) bool {
			return r.recsUpdate(x) != nil || (onBatch && transferStoreV(x, ia, derived))
		}
		c.NoPath(rule, "every record of the batch is stored", in, ir.Query{Fn: fn, From: in, Block: isStore,
			Target: func(x ssa.Instruction) bool {
				if ir.IsExit(x) {
					return true
				}
				y, isIA := x.(*ssa.IndexAddr)
				return isIA && x != in && isMarker(y) || x == in
			}}, "a record of the batch can be skipped (no store, no new version, no wake-up): a write that leaves the version unchanged lets a stale CasByVersion succeed")
	})
	// a prepared copy that receives the records must itself be walked and stored
	ir.Instrs(fn, func(in ssa.Instruction) {
		st, ok := in.(*ssa.Store)
		if !ok {
			return
		}
		if dst, isIA := st.Addr.(*ssa.IndexAddr); isIA && derived[ir.Resolve(dst.X)] && !readDerived[ir.Resolve(dst.X)] {
			readDerived[ir.Resolve(dst.X)] = true
			c.Decide(rule, fn, "the prepared copy of the batch is stored", in, false, "the records of the batch are copied into a local slice that is never walked: none of them is stored")
		}
	})
	if n == 0 {
		c.Decide(rule, fn, "PutMany walks the batch", nil, false, "PutMany does not iterate over the records it was given")
	}
}

// inmemNoSharing is the ownership rule of the in-memory backend (C02.R8 / C03.R12 / C06.R7): the record table never
// holds memory the caller can still write, and no reader gets memory the table still holds. kvs.Record carries a
// []byte and a *time.Time; storing the caller's struct (or returning the stored one) shares both, so a later write to
// the caller's buffer or time variable changes the stored value and the stored expiry without any storage operation
// and without a version change. Structurally: (a) every value stored into the record table is the result of
// Record.Copy() (directly or through a repository helper all of whose returns are), (b) every Record a Storage method
// returns, and every *Record it puts into a result slice, does not originate in a table lookup unless it went through
// Record.Copy().
func (c *Ctx) inmemNoSharing(r *inmemRoles, rule string) {
	copyFn := c.P.MethodOf(r.recordT, "Copy")
	if copyFn == nil {
		c.Fatalf("role kvs.Record.Copy not found")
	}
	c.copyIsDeep(r, rule, copyFn)
	var isCopied func(v ssa.Value, depth int) bool
	isCopied = func(v ssa.Value, depth int) bool {
		os := ir.Origins(v)
		if len(os) == 0 {
			return false
		}
		for _, o := range os {
			// the zero record shares nothing
			if ir.IsZeroConst(o) {
				continue
			}
			if u, isLoad := o.(*ssa.UnOp); isLoad && u.Op == token.MUL {
				if a, isAl := u.X.(*ssa.Alloc); isAl && len(ir.StoresTo(a)) == 0 {
					continue
				}
			}
			// an element of a local slice of copies (prepared before the critical section): what every element store put there
			if sts, isElem := localSliceElemStoresV(o); isElem && depth < 2 {
				all := len(sts) > 0
				for _, st := range sts {
					if !isCopied(st.Val, depth+1) {
						all = false
					}
				}
				if all {
					continue
				}
				return false
			}
			call, ok := o.(*ssa.Call)
			if !ok {
				return false
			}
			cal := ir.StaticCallee(call)
			if cal == nil {
				return false
			}
			if cal == copyFn || cal.Origin() == copyFn {
				continue
			}
			// a repository helper whose every result is a copy
			if depth < 2 && len(cal.Blocks) > 0 && cal.Pkg != nil && strings.HasPrefix(cal.Pkg.Pkg.Path(), ir.Module) {
				all := true
				rets := ir.Returns(cal)
				for _, ret := range rets {
					if len(ret.Results) == 0 || !isCopied(ret.Results[0], depth+1) {
						all = false
					}
				}
				if all && len(rets) > 0 {
					continue
				}
			}
			return false
		}
		return true
	}
	// fromTable: v can be a record read from the table (lookup, comma-ok lookup, range over the table, or a live-lookup helper)
	fromTable := func(v ssa.Value) bool {
		for _, o := range ir.Origins(v) {
			switch x := o.(type) {
			case *ssa.Lookup:
				if r.isRecsVal(x.X) {
					return true
				}
			case *ssa.Extract:
				switch t := x.Tuple.(type) {
				case *ssa.Lookup:
					if r.isRecsVal(t.X) {
						return true
					}
				case *ssa.Call:
					if cal := ir.StaticCallee(t); cal != nil && (r.liveHelpers[cal] || r.liveWrapperV(cal, 0)) {
						return true
					}
				case *ssa.Next:
					if rg, ok := t.Iter.(*ssa.Range); ok {
						if r.isRecsVal(rg.X) && x.Index == 2 {
							return true
						}
					}
				}
			}
		}
		return false
	}
	directFromTable := fromTable
	fromTable = func(v ssa.Value) bool {
		if directFromTable(v) {
			return true
		}
		for _, o := range ir.Origins(v) {
			if call, ok := o.(*ssa.Call); ok {
				if recv := copyReceiver(call); recv != nil && directFromTable(recv) {
					return true
				}
			}
		}
		return false
	}
	nStore, nRet := 0, 0
	for _, fn := range r.svcFns {
		ir.Instrs(fn, func(in ssa.Instruction) {
			switch x := in.(type) {
			case *ssa.MapUpdate:
				if !r.isRecsVal(x.Map) {
					return
				}
				nStore++
				c.Decide(rule, fn, "the table stores its own copy of the record", x, isCopied(x.Value, 0),
					"the record stored into the table is not the result of Record.Copy(): the table shares the caller's Value buffer and ExpiresAt variable, a later write to them changes the stored value / expiry without any storage operation and without a new version")
			case *ssa.Store:
				// *Record put into a result slice
				ia, ok := x.Addr.(*ssa.IndexAddr)
				if !ok {
					return
				}
				pt, ok := x.Val.Type().Underlying().(*types.Pointer)
				if !ok || namedOf(pt.Elem()) != r.recordT {
					return
				}
				_ = ia
				al, ok := x.Val.(*ssa.Alloc)
				if !ok {
					return
				}
				nRet++
				bad := false
				for _, st := range ir.StoresTo(al) {
					if fromTable(st.Val) && !isCopied(st.Val, 0) {
						bad = true
					}
				}
				if bad && resultSliceRecopiedV(fn, x, ia.X, func(v ssa.Value, d int) bool { return isCopied(v, d) }) {
					bad = false // every entry is overwritten with its copy by a complete pass before the function returns
				}
				c.Decide(rule, fn, "records handed out in a result slice are copies", x, !bad,
					"the *Record put into the result points to the struct read from the table: its Value buffer and ExpiresAt are the stored ones, a caller that modifies the result modifies the stored record")
			}
		})
	}
	for _, name := range storageMethodNames() {
		fn := r.storage[name]
		rs := fn.Signature.Results()
		if rs.Len() == 0 || namedOf(rs.At(0).Type()) != r.recordT {
			continue
		}
		for _, ret := range ir.Returns(fn) {
			if len(ret.Results) == 0 {
				continue
			}
			for _, v := range []ssa.Value{ret.Results[0], ir.ResultValue(ret, 0)} {
				if v == nil || !fromTable(v) {
					continue
				}
				nRet++
				c.Decide(rule, fn, "a record read from the table is returned as a copy", ret, isCopied(v, 0),
					"the method returns the struct read from the table: its Value buffer and ExpiresAt pointer are the stored ones, a caller that modifies the result modifies the stored record (and its expiry) without a write")
				break
			}
		}
	}
	if nStore < 4 {
		c.R.Errorf("%s: only %d stores into the record table found (Create, Put, PutMany, CasByVersion expected)", rule, nStore)
	}
	if nRet < 2 {
		c.R.Errorf("%s: only %d hand-out sites of stored records found (Get, GetMany expected)", rule, nRet)
	}
}

// copyReceiver: call is x.Copy() of a struct type T (value receiver, no arguments, result T): returns the receiver value.
func copyReceiver(call *ssa.Call) ssa.Value {
	cal := ir.StaticCallee(call)
	if cal == nil || cal.Name() != "Copy" || cal.Signature.Recv() == nil || cal.Signature.Params().Len() != 0 || cal.Signature.Results().Len() != 1 {
		return nil
	}
	if namedOf(cal.Signature.Recv().Type()) == nil || namedOf(cal.Signature.Recv().Type()) != namedOf(cal.Signature.Results().At(0).Type()) {
		return nil
	}
	if len(call.Call.Args) != 1 {
		return nil
	}
	return call.Call.Args[0]
}

// inmemRegistrationBalance (C07.W9 / C04.W7): a waiter that goes around its loop registers again only after its
// previous registration is gone - withdrawn by itself (count decremented under the identity test) or consumed by a
// notification (it was woken through the entry's channel, the notifier removed the entry). A path from one
// registration to the next with neither inflates the count of the entry: when every waiter has cancelled the count
// never reaches zero and the entry is left behind ("no bookkeeping is left behind when all waiters are gone").
func (c *Ctx) inmemRegistrationBalance(r *inmemRoles, rule string) {
	fn := r.storage["WaitForVersionChange"]
	var incs []ssa.Instruction
	isDec := func(x ssa.Instruction) bool { _, ok := isFieldDelta(x, r.wCount, -1); return ok }
	ir.Instrs(fn, func(in ssa.Instruction) {
		if _, ok := isFieldDelta(in, r.wCount, 1); ok {
			incs = append(incs, in)
		}
	})
	// the select cases that receive from the entry's channel: edges taken under "case index == k"
	doneIdx := map[ssa.Value]map[int64]bool{} // select tuple -> indices of the done cases
	ir.Instrs(fn, func(in ssa.Instruction) {
		if sel, ok := in.(*ssa.Select); ok {
			for i, st := range sel.States {
				if st.Dir == types.RecvOnly {
					if _, isDone := loadOfField(st.Chan, r.wDone); isDone {
						if doneIdx[sel] == nil {
							doneIdx[sel] = map[int64]bool{}
						}
						doneIdx[sel][int64(i)] = true
					}
				}
			}
		}
	})
	var notifiedFact, goneFact func(f ir.Fact) bool
	notifiedEdge := func(from, to *ssa.BasicBlock) bool {
		ef := ir.EdgeFact(from, to)
		return ef != nil && notifiedFact(*ef)
	}
	notifiedFact = func(f0 ir.Fact) bool {
		f := f0.StripNot()
		cm, ok := f.Cmp()
		if !ok || cm.Op != token.EQL {
			return false
		}
		ex, ok := cm.X.(*ssa.Extract)
		k, isC := ir.ConstInt(cm.Y)
		if !ok || !isC || ex.Index != 0 {
			return false
		}
		return doneIdx[ex.Tuple][k]
	}
	// the entry the waiter registered on is no longer the registered one (removed or replaced by a notifier): the
	// registration went away with it - edges "lookup of the waiters table failed" / "the channels differ"
	goneEdge := func(from, to *ssa.BasicBlock) bool {
		ef := ir.EdgeFact(from, to)
		return ef != nil && goneFact(*ef)
	}
	goneFact = func(f0 ir.Fact) bool {
		f := f0.StripNot()
		if ex, ok := f.Cond.(*ssa.Extract); ok && ex.Index == 1 && !f.True {
			if lk, isLk := ex.Tuple.(*ssa.Lookup); isLk {
				if r.isWaitersVal(lk.X) {
					return true
				}
			}
		}
		if cm, ok := f.Cmp(); ok && cm.Op == token.NEQ {
			_, dx := loadOfField(cm.X, r.wDone)
			_, dy := loadOfField(cm.Y, r.wDone)
			if dx && dy {
				return true
			}
			if namedOf(cm.X.Type()) == r.waiterT && namedOf(cm.Y.Type()) == r.waiterT {
				return true
			}
		}
		return false
	}
	for _, inc := range incs {
		q := ir.Query{Fn: fn, From: inc,
			Block:       isDec,
			BlockEdge:   func(a, b *ssa.BasicBlock) bool { return notifiedEdge(a, b) || goneEdge(a, b) },
			BlockFact:   func(f ir.Fact) bool { return notifiedFact(f) || goneFact(f) },
			TrackConsts: true, // "again = false" on the paths that return: the loop condition is decided per path
			Target:      func(x ssa.Instruction) bool { return containsInstr(incs, x) },
		}
		c.NoPath(rule, "a waiter registers again only after its registration was withdrawn or notified", inc, q,
			"the waiter can go around and register once more while its previous registration still counts (neither decremented nor consumed by a notification): the entry's count is inflated, it never drops to zero when the waiters cancel, and the entry is left behind")
	}
	c.R.Floor(rule, 1)
}

func appendUniqFn(l []*ssa.Function, f *ssa.Function) []*ssa.Function {
	for _, x := range l {
		if x == f {
			return l
		}
	}
	return append(l, f)
}

// selectCaseOnPath: which case of sel the path took, from the comparisons of the select's index the path decided.
func selectCaseOnPath(val *ir.Valuation, sel *ssa.Select) (int, bool) {
	if sel.Referrers() == nil {
		return 0, false
	}
	excluded := map[int64]bool{}
	for _, ref := range *sel.Referrers() {
		ex, ok := ref.(*ssa.Extract)
		if !ok || ex.Index != 0 || ex.Referrers() == nil {
			continue
		}
		for _, r2 := range *ex.Referrers() {
			bo, isBo := r2.(*ssa.BinOp)
			if !isBo || bo.Op != token.EQL {
				continue
			}
			k, isC := ir.ConstInt(bo.Y)
			if !isC {
				continue
			}
			if truth, known := val.Known(bo); known {
				if truth {
					return int(k), true
				}
				excluded[k] = true
			}
		}
	}
	n := len(sel.States)
	if !sel.Blocking {
		return 0, false
	}
	if len(excluded) == n-1 {
		for i := 0; i < n; i++ {
			if !excluded[int64(i)] {
				return i, true
			}
		}
	}
	return 0, false
}

// presenceFact: f says that a lookup of the record table (or a call of a live-record helper) found (want) / did not find
// (!want) the key.
func (r *inmemRoles) presenceFact(f ir.Fact, want bool) bool {
	_, present, ok := r.lookupOutcome(f)
	return ok && present == want
}

// presenceWitness is presenceFact handed on through flags and pointers that are merged from several ways (a helper
// returning "*Record or nil", a flag "drop this one"): the fact holds when every way of producing the observed value is
// under it. For !want an expired-and-dropped record counts as absent. base is the direct test (nil: presenceFact).
func (r *inmemRoles) presenceWitness(f ir.Fact, want bool, depth int, base func(ir.Fact, bool) bool) bool {
	if depth > 6 {
		return false
	}
	if base == nil {
		base = r.presenceFact
	}
	if base(f, want) {
		return true
	}
	if !want && r.expiryFact(f) == expiredEdge {
		return true
	}
	ff := f.StripNot()
	viaEdges := func(phi *ssa.Phi, pick func(e ssa.Value) bool) bool {
		n := 0
		for j, e := range phi.Edges {
			if !pick(e) {
				continue
			}
			n++
			pred := phi.Block().Preds[j]
			fs := append([]ir.Fact{}, ir.Facts(pred)...)
			if ef := ir.EdgeFact(pred, phi.Block()); ef != nil {
				fs = append(fs, *ef)
			}
			found := false
			for _, g := range fs {
				if r.presenceWitness(g, want, depth+1, base) {
					found = true
					break
				}
			}
			if !found {
				return false
			}
		}
		return n > 0
	}
	if phi, isPhi := ff.Cond.(*ssa.Phi); isPhi {
		allConst := true
		for _, e := range phi.Edges {
			if c, isC := e.(*ssa.Const); !isC || c.Value == nil || c.Value.Kind() != constant.Bool {
				allConst = false
			}
		}
		if allConst {
			return viaEdges(phi, func(e ssa.Value) bool { return constant.BoolVal(e.(*ssa.Const).Value) == ff.True })
		}
	}
	if cm, isCmp := ff.Cmp(); isCmp && (cm.Op == token.EQL || cm.Op == token.NEQ) {
		x, y := cm.X, cm.Y
		if ir.IsNilConst(x) {
			x, y = y, x
		}
		if phi, isPhi := x.(*ssa.Phi); isPhi && ir.IsNilConst(y) {
			if _, isPtr := phi.Type().Underlying().(*types.Pointer); isPtr {
				isNil := cm.Op == token.EQL
				if isNil == want {
					return false // nil stands for "absent"
				}
				return viaEdges(phi, func(e ssa.Value) bool { return ir.IsNilConst(e) == isNil })
			}
		}
	}
	return false
}

// copyIsDeep: the record type's Copy() shares no memory with its receiver - every field of reference type (slice,
// pointer, map) of the result is nil or freshly allocated on every path on which the receiver's field is not nil. The
// in-memory table relies on it at every boundary (what it stores, what it hands out).
func (c *Ctx) copyIsDeep(r *inmemRoles, rule string, fn *ssa.Function) {
	c.Saw(fn)
	st := structOf(r.recordT)
	if st == nil || len(fn.Params) == 0 {
		c.Undecided(rule, fn, "Copy shares nothing with its receiver", nil, "cannot resolve the record struct")
		return
	}
	recv := fn.Params[0]
	// the receiver's cell (value receiver spilled to a local) or the receiver pointer
	var recvCell ssa.Value = recv
	ir.Instrs(fn, func(in ssa.Instruction) {
		if s, ok := in.(*ssa.Store); ok && s.Val == ssa.Value(recv) {
			if al, isAl := s.Addr.(*ssa.Alloc); isAl {
				recvCell = al
			}
		}
	})
	fromRecv := func(v ssa.Value, f *types.Var) bool { // v is (a slice of / a copy of) the receiver's field f
		for _, o := range ir.Origins(v) {
			x := o
			if sl, ok := x.(*ssa.Slice); ok {
				x = sl.X
			}
			if u, ok := x.(*ssa.UnOp); ok && u.Op == token.MUL {
				if fa, isFA := u.X.(*ssa.FieldAddr); isFA && ir.FieldOf(fa) == f && (fa.X == recvCell || fa.X == ssa.Value(recv)) {
					return true
				}
			}
			if fl, ok := x.(*ssa.Field); ok && ir.FieldOf(fl) == f {
				return true
			}
		}
		return false
	}
	var fresh func(v ssa.Value, depth int) bool
	fresh = func(v ssa.Value, depth int) bool {
		if depth > 3 || v == nil {
			return false
		}
		switch x := v.(type) {
		case *ssa.Const:
			return x.Value == nil
		case *ssa.MakeSlice, *ssa.Alloc, *ssa.MakeMap:
			return true
		case *ssa.Slice:
			return fresh(x.X, depth+1)
		case *ssa.ChangeType:
			return fresh(x.X, depth+1)
		case *ssa.Convert:
			return fresh(x.X, depth+1)
		case *ssa.Phi:
			for _, e := range x.Edges {
				if !fresh(e, depth+1) {
					return false
				}
			}
			return len(x.Edges) > 0
		case *ssa.UnOp:
			if x.Op == token.MUL {
				if al, ok := x.X.(*ssa.Alloc); ok {
					sts := ir.StoresTo(al)
					for _, st := range sts {
						if !fresh(st.Val, depth+1) {
							return false
						}
					}
					return len(sts) > 0
				}
			}
		case *ssa.Call:
			if cc := builtinCall(x, "append"); cc != nil && len(cc.Args) >= 1 {
				return fresh(cc.Args[0], depth+1)
			}
			switch ir.CalleeFullName(x) {
			case "bytes.Clone", "slices.Clone", "maps.Clone":
				return true
			}
			if cal := ir.StaticCallee(x); cal != nil && len(cal.Blocks) > 0 {
				rets := ir.Returns(cal)
				for _, ret := range rets {
					if len(ret.Results) != 1 || !fresh(ir.ResultValue(ret, 0), depth+1) {
						return false
					}
				}
				return len(rets) > 0
			}
		}
		return false
	}
	for _, ret := range ir.Returns(fn) {
		if len(ret.Results) != 1 {
			continue
		}
		ld, ok := ret.Results[0].(*ssa.UnOp)
		var cell *ssa.Alloc
		if ok && ld.Op == token.MUL {
			cell, _ = ld.X.(*ssa.Alloc)
		}
		if cell == nil {
			c.Undecided(rule, fn, "Copy shares nothing with its receiver", ret, "the result is not a local record variable")
			continue
		}
		// is the result cell initialised with the receiver as a whole?
		initAlias := cell == recvCell
		for _, s := range ir.StoresTo(cell) {
			for _, o := range ir.Origins(s.Val) {
				if o == ssa.Value(recv) {
					initAlias = true
				}
				if u, isU := o.(*ssa.UnOp); isU && u.Op == token.MUL && u.X == recvCell {
					initAlias = true
				}
			}
		}
		for i := 0; i < st.NumFields(); i++ {
			f := st.Field(i)
			isRef := false
			switch f.Type().Underlying().(type) {
			case *types.Slice, *types.Pointer, *types.Map:
				isRef = true
			}
			if !isRef {
				c.copyCarriesField(rule, fn, ret, cell, recv, recvCell, f, initAlias, nil, fromRecv)
				continue
			}
			// the receiver's field is nil on this edge: sharing nil shares nothing
			nilEdge := func(from, to *ssa.BasicBlock) bool {
				ef := ir.EdgeFact(from, to)
				if ef == nil {
					return false
				}
				cm, isCmp := ef.Cmp()
				if !isCmp || cm.Op != token.EQL {
					return false
				}
				x, y := cm.X, cm.Y
				if ir.IsNilConst(x) {
					x, y = y, x
				}
				return ir.IsNilConst(y) && (fromRecv(x, f) || ir.LoadedField(x) == f)
			}
			var aliasStores, otherStores []ssa.Instruction
			isFieldStore := func(x ssa.Instruction) (ssa.Value, bool) {
				s, ok := x.(*ssa.Store)
				if !ok {
					return nil, false
				}
				fa, isFA := s.Addr.(*ssa.FieldAddr)
				if !isFA || fa.X != ssa.Value(cell) || ir.FieldOf(fa) != f {
					return nil, false
				}
				return s.Val, true
			}
			ir.Instrs(fn, func(x ssa.Instruction) {
				if v, ok := isFieldStore(x); ok {
					if fresh(v, 0) {
						otherStores = append(otherStores, x)
					} else {
						aliasStores = append(aliasStores, x)
					}
				}
			})
			anyStore := func(x ssa.Instruction) bool { _, ok := isFieldStore(x); return ok }
			okField, detail := true, ""
			if initAlias {
				if w, _ := (ir.Query{Fn: fn, Block: anyStore, BlockEdge: nilEdge, Target: func(x ssa.Instruction) bool { return x == ssa.Instruction(ret) }}).Find(); w != nil {
					okField, detail = false, "the result starts as a copy of the receiver and field "+f.Name()+" is not replaced on every path on which it is not nil"
				}
			}
			for _, as := range aliasStores {
				if w, _ := (ir.Query{Fn: fn, From: as, Block: anyStore, Target: func(x ssa.Instruction) bool { return x == ssa.Instruction(ret) }}).Find(); w != nil {
					okField, detail = false, "field "+f.Name()+" of the result is assigned a value that is not freshly allocated (it shares the receiver's memory)"
				}
			}
			c.copyCarriesField(rule, fn, ret, cell, recv, recvCell, f, initAlias, nilEdge, fromRecv)
			c.Decide(rule, fn, "Copy duplicates "+f.Name(), ret, okField,
				"Record.Copy() shares memory with its receiver: "+detail+" - the record in the table, the writer's record and the records handed out by Get then share it, and writing through it changes the stored record without a write operation (no new version, waiters are not woken, an expiry moves)")
		}
	}
}

// copyCarriesField: the other half of "Copy() is a copy" - no field of the record is lost or replaced. On every path to
// the return the result's field f was given a value that comes from the receiver's field f (the field itself, or for a
// reference a fresh object built from it), except - for a reference - on a path on which the receiver's field is nil.
// A Copy() that drops the expiry for some records (a zero time "means unset") makes the in-memory table keep a record
// for good that the writer gave a lifetime, and the two backends disagree.
func (c *Ctx) copyCarriesField(rule string, fn *ssa.Function, ret *ssa.Return, cell *ssa.Alloc, recv *ssa.Parameter, recvCell ssa.Value, f *types.Var, initAlias bool,
	nilEdge func(from, to *ssa.BasicBlock) bool, fromRecv func(v ssa.Value, f *types.Var) bool) {
	isFieldStore := func(x ssa.Instruction) (ssa.Value, bool) {
		s, ok := x.(*ssa.Store)
		if !ok {
			return nil, false
		}
		fa, isFA := s.Addr.(*ssa.FieldAddr)
		if !isFA || fa.X != ssa.Value(cell) || ir.FieldOf(fa) != f {
			return nil, false
		}
		return s.Val, true
	}
	anyStore := func(x ssa.Instruction) bool { _, ok := isFieldStore(x); return ok }
	// does v come from the receiver's field f: the field, or something computed from it
	var mentions func(v ssa.Value, depth int, seen map[ssa.Value]bool) bool
	mentions = func(v ssa.Value, depth int, seen map[ssa.Value]bool) bool {
		if v == nil || depth > 8 || seen[v] {
			return false
		}
		seen[v] = true
		if fromRecv(v, f) {
			return true
		}
		if fl, ok := v.(*ssa.Field); ok && ir.FieldOf(fl) == f {
			return true
		}
		if al, ok := v.(*ssa.Alloc); ok {
			for _, s := range ir.StoresTo(al) {
				if mentions(s.Val, depth+1, seen) {
					return true
				}
			}
			return false
		}
		in, ok := v.(ssa.Instruction)
		if !ok {
			return false
		}
		var ops [12]*ssa.Value
		for _, op := range in.Operands(ops[:0]) {
			if op != nil && *op != nil && mentions(*op, depth+1, seen) {
				return true
			}
		}
		return false
	}
	ok, detail := true, ""
	if !initAlias {
		w, err := (ir.Query{Fn: fn, Block: anyStore, BlockEdge: nilEdge, Target: func(x ssa.Instruction) bool { return x == ssa.Instruction(ret) }}).Find()
		if err != nil {
			c.Undecided(rule, fn, "Copy carries "+f.Name()+" over", ret, err.Error())
			return
		}
		if w != nil {
			ok, detail = false, "there is a path to the return on which the result's "+f.Name()+" is never assigned although the receiver's may be set: path "+w.String(c.P)
		}
	}
	ir.Instrs(fn, func(x ssa.Instruction) {
		if v, is := isFieldStore(x); is && ok {
			if cst, isC := v.(*ssa.Const); isC && cst.Value == nil && nilEdge != nil {
				// an explicit nil: only fine where the receiver's field is nil, which the no-path query above cannot see; ask
				// whether the store is reachable without crossing the nil edge... a nil store behind the nil edge is dominated by it
				for _, ff := range ir.FactsAt(x) {
					if cm, isCmp := ff.Cmp(); isCmp && cm.Op == token.EQL && (ir.IsNilConst(cm.X) || ir.IsNilConst(cm.Y)) {
						y := cm.X
						if ir.IsNilConst(y) {
							y = cm.Y
						}
						if fromRecv(y, f) || ir.LoadedField(y) == f {
							return
						}
					}
				}
				ok, detail = false, "the result's "+f.Name()+" is set to nil where the receiver's is not known to be nil @ "+c.P.InstrPos(x)
				return
			}
			if !mentions(v, 0, map[ssa.Value]bool{}) {
				ok, detail = false, "the result's "+f.Name()+" is assigned a value that does not come from the receiver's "+f.Name()+" @ "+c.P.InstrPos(x)
			}
		}
	})
	c.Decide(rule, fn, "Copy carries "+f.Name()+" over", ret, ok,
		"Record.Copy() does not hand on field "+f.Name()+" of every record: "+detail+" - the in-memory table stores and returns Copy(), so what the writer put into the field is lost or changed for such a record (a lifetime that is dropped keeps the record for good; the backends disagree)")
}
