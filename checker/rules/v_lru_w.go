package rules

import (
	"golang.org/x/tools/go/ssa"

	"verif/checker/ir"
)

// impossibleFlightStateW returns a predicate on the valuation of a path of fn: the path claims that a comma-ok read of
// the in-flight table found an entry (its ok result is known true) AND that the value it read is nil. When every
// registration of the package stores a value that is certainly not nil (a fresh channel / record: regsNonNil, decided by
// the caller over all stores into the table; that only registrations write the table is the census clause of C09.R2,
// reported on its own), no execution is in such a state: a present entry holds what a registration stored. A path
// query may discard an arrival in such a state. With regsNonNil false the predicate is never true (no fact is assumed).
//
// This is what makes "ch, found := lookupOrReserve(k); if found {...}; if ch != nil { <-ch; continue }; create" read
// like the in-line form: the arm "entry present" hands the looked-up channel out, so "ch == nil" behind it is the arm
// "this goroutine registered".
func (r *lruRoles) impossibleFlightStateW(fn *ssa.Function, regsNonNil bool) func(st *ir.FlowState) bool {
	type pairW struct{ val, ok ssa.Value }
	var reads []pairW
	if regsNonNil {
		ir.Instrs(fn, func(in ssa.Instruction) {
			lk, isLk := in.(*ssa.Lookup)
			if !isLk || !lk.CommaOk || lk.Referrers() == nil {
				return
			}
			if _, isIn := loadOfField(lk.X, r.inflight); !isIn {
				return
			}
			var p pairW
			for _, ref := range *lk.Referrers() {
				if ex, isEx := ref.(*ssa.Extract); isEx {
					switch ex.Index {
					case 0:
						p.val = ex
					case 1:
						p.ok = ex
					}
				}
			}
			if p.val != nil && p.ok != nil {
				reads = append(reads, p)
			}
		})
	}
	return func(st *ir.FlowState) bool {
		if st == nil {
			return false
		}
		for _, p := range reads {
			present, k1 := st.KnownBool(p.ok)
			isNil, k2 := st.KnownNil(p.val)
			if k1 && k2 && present && isNil {
				return true
			}
		}
		return false
	}
}
