package rules

import (
	"go/types"

	"golang.org/x/tools/go/ssa"

	"verif/checker/ir"
)

// timerCancelSynchronises (C12.R9, C05.T9, C13.Q9): Cancel returns only after it has synchronised with the worker.
//
// "Once Cancel has returned before the call was due, the function is never started" needs Cancel to have either removed
// the future from the queue itself or seen - under the package lock - that it is gone. Structurally: every path of the
// future's Cancel method to a return takes the control mutex (itself or through the routine it forwards to, all of whose
// paths do). The one accepted exception is a lock-free early return guarded by an atomic LOAD of a flag that is only
// ever written under the control mutex (a "done" flag published after the removal): such a flag says the removal has
// happened. A flag the early return reads with CompareAndSwap/Swap, or one that is written outside the lock, only says
// that somebody else has *started* to cancel: a second Cancel returns while the first still waits for the mutex, the
// worker gets the mutex first, finds the future due and starts it.
func (c *Ctx) timerCancelSynchronises(r *timerRoles, rule string) {
	fn := r.cancelM
	// functions of the package all of whose paths to a return acquire the control mutex
	mustLock := map[*ssa.Function]bool{}
	locks := func(in ssa.Instruction) bool {
		if _, isDefer := in.(*ssa.Defer); isDefer {
			return false
		}
		if l, acq, _ := lockFieldOp(in); acq && l == r.mutex {
			return true
		}
		if call, ok := in.(*ssa.Call); ok {
			if cal := ir.StaticCallee(call); cal != nil && mustLock[cal] {
				return true
			}
		}
		return false
	}
	for changed, iter := true, 0; changed && iter < 8; iter++ {
		changed = false
		for _, f := range r.all {
			if mustLock[f] || len(f.Blocks) == 0 {
				continue
			}
			if w, err := (ir.Query{Fn: f, Block: locks, Target: ir.IsExit}).Find(); err == nil && w == nil {
				mustLock[f] = true
				changed = true
			}
		}
	}
	// flags that are written only under the control mutex
	writtenUnlocked := map[*types.Var]bool{}
	for _, f := range r.all {
		ls := r.lockset(f)
		f := f
		ir.Instrs(f, func(in ssa.Instruction) {
			op, addr, _, ok := ir.AtomicCall(in)
			if !ok || op == "Load" {
				return
			}
			fld := ir.FieldOf(addr)
			if fld == nil {
				return
			}
			held := false
			for range ls.Any(in) {
				held = true
			}
			if !held {
				writtenUnlocked[fld] = true
			}
		})
	}
	publishedFlagEdge := func(from, to *ssa.BasicBlock) bool {
		ef := ir.EdgeFact(from, to)
		if ef == nil {
			return false
		}
		cond := ef.StripNot().Cond
		for _, o := range ir.Origins(cond) {
			in, ok := o.(ssa.Instruction)
			if !ok {
				continue
			}
			if op, addr, _, isAt := ir.AtomicCall(in); isAt && op == "Load" {
				if fld := ir.FieldOf(addr); fld != nil && !writtenUnlocked[fld] {
					return true
				}
			}
		}
		return false
	}
	w, err := (ir.Query{Fn: fn, Block: locks, BlockEdge: publishedFlagEdge, Target: ir.IsExit}).Find()
	switch {
	case err != nil:
		c.Undecided(rule, fn, "Cancel returns only after taking the control mutex", nil, err.Error())
	case w != nil:
		c.Decide(rule, fn, "Cancel returns only after taking the control mutex", nil, false,
			"Cancel can return without having taken the package mutex (and without a flag that is published under it): the caller is told 'cancelled' while the future may still be queued - a concurrent first Cancel has not removed it yet - and the worker can start it afterwards: path "+w.String(c.P))
	default:
		c.Decide(rule, fn, "Cancel returns only after taking the control mutex", nil, true, "")
	}
}
