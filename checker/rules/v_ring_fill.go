package rules

// D7 - container.SliceFill(s, v) assigns v to every element of s.
//
// C14.R1 ("consumed slots no longer reference the consumed values") accepts a call SliceFill(part of the backing array,
// zero value) as the release of that part, i.e. it takes the helper at its word. A change inside the helper that leaves
// some elements unwritten (a tail that is not a whole block, the first element, every other element) breaks the
// property with the ring buffer textually untouched. The contract is decided on the helper's own body:
//
//	on every path to a return, every index 0 <= i < len(s) has been assigned v (directly, or by copying an element that
//	already holds v).
//
// Technique: a forward data-flow analysis of the *written prefix*. The abstract state at a program point is a set of
// facts P(T), T a finite set of linear terms over SSA values and lengths, meaning "the elements [0, min(T, len(s))) of
// s hold v"; P({0}) always holds.
//   - s'[i] = v, s' a view of s starting at offset o (s, s[lo:hi], a phi of views with one offset): when o+i <= min(T) for
//     a fact P(T) of the state, P({o+i+1}) is added. A stored value counts as v when it is the parameter v or an element
//     loaded from inside the written prefix.
//   - copy(dst, src), both views of s (dst = [d, ed), src = [a, a+ls)): the source must lie inside the written prefix
//     (a+ls <= min(T') for a fact of the state, and a+ls <= len(s)); when also d <= min(T), P({ed, d+ls}) is added.
//   - a call of a function of the package that itself satisfies the contract, on a view and v, is a store to all of the
//     view.
//   - anything else that may write to s (a store or copy of another value, append on a view, s handed to other code)
//     drops every fact; s captured by a closure, defer or go makes the verdict undecided.
//   - at a join the facts implied by every predecessor are kept (P(T) implies P(T') for T a subset of T'); an integer
//     phi x of the join block replaces a term t of a predecessor's fact when the incoming operand e satisfies e + k = t
//     for a constant 0 <= k <= 2 (x+k replaces t) or e <= t is implied by the branch facts (x replaces t); over a back
//     edge only facts whose other terms are loop-invariant survive. The iteration starts from the facts of the entry
//     edge and removes what the back edges do not re-establish (the surviving loop facts are inductive invariants).
//   - inequalities are decided from the branch facts on the dominator chain (plus: a phi of views that each end inside
//     s ends inside s) by adding up to three of them; nothing is executed, no value is enumerated.
// The contract holds when at every return some fact P(T) has len(s) <= t for all t in T.
//
// Over-approximation: a fill that does not proceed as a growing prefix (backwards, or in blocks counted by a quotient
// rounded up) is reported as not established although it may be complete.

import (
	"fmt"
	"go/token"
	"go/types"
	"sort"
	"strings"

	"golang.org/x/tools/go/ssa"

	"verif/checker/ir"
)

type fillTermV struct{ parts []linB }

func newFillTermV(parts ...linB) fillTermV {
	seen := map[string]bool{}
	var ps []linB
	for _, p := range parts {
		if k := p.String(); !seen[k] {
			seen[k] = true
			ps = append(ps, p)
		}
	}
	sort.Slice(ps, func(i, j int) bool { return ps[i].String() < ps[j].String() })
	return fillTermV{ps}
}

func (t fillTermV) key() string {
	var ks []string
	for _, p := range t.parts {
		ks = append(ks, p.String())
	}
	return strings.Join(ks, " & ")
}

// show renders the term for messages: min(a, b) over SSA value names.
func (t fillTermV) show() string {
	var ps []string
	for _, p := range t.parts {
		var ks []string
		for k := range p.t {
			ks = append(ks, k)
		}
		sort.Strings(ks)
		var sb strings.Builder
		for _, k := range ks {
			name := strings.TrimPrefix(k, "v:")
			if strings.HasPrefix(k, "len:") {
				name = "len(" + strings.TrimPrefix(k, "len:") + ")"
			}
			switch c := p.t[k]; {
			case c == 1 && sb.Len() == 0:
				sb.WriteString(name)
			case c == 1:
				sb.WriteString("+" + name)
			case c == -1:
				sb.WriteString("-" + name)
			default:
				fmt.Fprintf(&sb, "%+d*%s", c, name)
			}
		}
		if p.k != 0 || sb.Len() == 0 {
			if sb.Len() == 0 {
				fmt.Fprintf(&sb, "%d", p.k)
			} else {
				fmt.Fprintf(&sb, "%+d", p.k)
			}
		}
		ps = append(ps, sb.String())
	}
	if len(ps) == 1 {
		return ps[0]
	}
	return "min(" + strings.Join(ps, ", ") + ")"
}

func (t fillTermV) subsetOf(u fillTermV) bool {
	for _, p := range t.parts {
		found := false
		for _, q := range u.parts {
			if p.String() == q.String() {
				found = true
				break
			}
		}
		if !found {
			return false
		}
	}
	return true
}

type fillStateV map[string]fillTermV

func (s fillStateV) add(t fillTermV) {
	if len(t.parts) == 0 || len(t.parts) > 3 || len(s) >= 32 {
		return
	}
	s[t.key()] = t
}

func (s fillStateV) clone() fillStateV {
	r := fillStateV{}
	for k, v := range s {
		r[k] = v
	}
	return r
}

func (s fillStateV) sameAs(o fillStateV) bool {
	if len(s) != len(o) {
		return false
	}
	for k := range s {
		if _, ok := o[k]; !ok {
			return false
		}
	}
	return true
}

func (s fillStateV) terms() []fillTermV {
	var ks []string
	for k := range s {
		ks = append(ks, k)
	}
	sort.Strings(ks)
	var res []fillTermV
	for _, k := range ks {
		res = append(res, s[k])
	}
	return res
}

type fillKeyV struct{ b, succ *ssa.BasicBlock }

type fillAV struct {
	c       *Ctx
	fn      *ssa.Function
	s, v    *ssa.Parameter
	pl      *linCtxB // context without facts: the linear forms of the terms
	N       linB
	extra   []leFactB
	facts   map[fillKeyV][]leFactB
	unknown string
	memo    map[*ssa.Function]int // 0 unknown, 1 in progress / holds, 2 fails
}

func (a *fillAV) zeroState() fillStateV {
	st := fillStateV{}
	st.add(newFillTermV(linConstB(0)))
	return st
}

// factsAt: the inequalities known at the end of block b (on the edge to succ when succ is given).
func (a *fillAV) factsAt(b, succ *ssa.BasicBlock) []leFactB {
	k := fillKeyV{b, succ}
	if f, ok := a.facts[k]; ok {
		return f
	}
	fs := append([]ir.Fact{}, factsB(b, 0)...)
	if succ != nil {
		if ef := ir.EdgeFact(b, succ); ef != nil {
			fs = append(fs, *ef)
		}
	}
	res := append(ctxOfB(fs).leFacts(), a.extra...)
	a.facts[k] = res
	return res
}

// le: the facts imply x <= y.
func (a *fillAV) le(facts []leFactB, x, y linB) bool {
	q := x.add(y, -1)
	if k, isC := q.isConst(); isC {
		return k <= 0
	}
	fs := append([]leFactB{}, facts...)
	for key, v := range q.vals {
		if strings.HasPrefix(key, "len:") {
			fs = append(fs, leFactB{linAtomB(key, v).scale(-1), 0}) // -len <= 0
		}
	}
	n := len(fs)
	for i := 0; i < n; i++ {
		d1 := q.add(fs[i].e, -1)
		if c, isC := d1.isConst(); isC && fs[i].b+c <= 0 {
			return true
		}
		for j := i + 1; j < n; j++ {
			d2 := d1.add(fs[j].e, -1)
			if c, isC := d2.isConst(); isC && fs[i].b+fs[j].b+c <= 0 {
				return true
			}
			for k := j + 1; k < n; k++ {
				d3 := d2.add(fs[k].e, -1)
				if c, isC := d3.isConst(); isC && fs[i].b+fs[j].b+fs[k].b+c <= 0 {
					return true
				}
			}
		}
	}
	return false
}

// leMin: x <= every part of t.
func (a *fillAV) leMin(facts []leFactB, x linB, t fillTermV) bool {
	for _, p := range t.parts {
		if !a.le(facts, x, p) {
			return false
		}
	}
	return true
}

// inside: some fact of the state places x inside the written prefix (x <= min(T)).
func (a *fillAV) inside(facts []leFactB, st fillStateV, x linB) bool {
	for _, t := range st.terms() {
		if a.leMin(facts, x, t) {
			return true
		}
	}
	return false
}

// off: x is a view of s; returns the offset of its first element in s.
func (a *fillAV) off(x ssa.Value, depth int) (linB, bool) {
	x = ir.Resolve(x)
	if x == ssa.Value(a.s) {
		return linConstB(0), true
	}
	if depth > 6 || x == nil {
		return linB{}, false
	}
	switch y := x.(type) {
	case *ssa.Slice:
		if _, isSl := y.X.Type().Underlying().(*types.Slice); !isSl {
			return linB{}, false
		}
		o, ok := a.off(y.X, depth+1)
		if !ok {
			return linB{}, false
		}
		if y.Low != nil {
			o = o.add(a.pl.of(y.Low), 1)
		}
		return o, true
	case *ssa.Phi:
		if isLoopHeaderB(y.Block()) {
			return linB{}, false
		}
		var first *linB
		for _, e := range y.Edges {
			o, ok := a.off(e, depth+1)
			if !ok {
				return linB{}, false
			}
			if first == nil {
				first = &o
			} else if !first.equal(o) {
				return linB{}, false
			}
		}
		if first == nil {
			return linB{}, false
		}
		return *first, true
	}
	return linB{}, false
}

// viewFacts: a phi of views each of which ends inside s ends inside s.
func (a *fillAV) viewFacts() {
	ir.Instrs(a.fn, func(in ssa.Instruction) {
		phi, ok := in.(*ssa.Phi)
		if !ok {
			return
		}
		if _, isSl := phi.Type().Underlying().(*types.Slice); !isSl {
			return
		}
		o, ok := a.off(phi, 0)
		if !ok {
			return
		}
		for i, e := range phi.Edges {
			pred := phi.Block().Preds[i]
			eo, _ := a.off(e, 0)
			end := eo.add(a.pl.lenOf(e, 0), 1)
			if !a.le(a.factsAt(pred, phi.Block()), end, a.N) {
				return
			}
		}
		a.extra = append(a.extra, leFactB{o.add(a.pl.lenOf(phi, 0), 1).add(a.N, -1), 0})
		a.facts = map[fillKeyV][]leFactB{}
	})
	// copy() returns no more than the length of either operand
	ir.Instrs(a.fn, func(in ssa.Instruction) {
		call, ok := in.(*ssa.Call)
		if !ok {
			return
		}
		if cc := builtinCall(call, "copy"); cc != nil {
			n := a.pl.of(call)
			a.extra = append(a.extra, leFactB{n.add(a.pl.lenOf(cc.Args[0], 0), -1), 0}, leFactB{n.add(a.pl.lenOf(cc.Args[1], 0), -1), 0})
			a.facts = map[fillKeyV][]leFactB{}
		}
	})
}

func (a *fillAV) isView(v ssa.Value) bool { _, ok := a.off(v, 0); return ok }

// aliasOfS: v is cut from s in some way (slice expressions, phis - loop-carried cursors included), whether or not off can
// place it.
func (a *fillAV) aliasOfS(v ssa.Value) bool {
	seen := map[ssa.Value]bool{}
	var rec func(v ssa.Value) bool
	rec = func(v ssa.Value) bool {
		v = ir.Resolve(v)
		if v == nil || seen[v] {
			return false
		}
		seen[v] = true
		if v == ssa.Value(a.s) {
			return true
		}
		switch x := v.(type) {
		case *ssa.Slice:
			return rec(x.X)
		case *ssa.Phi:
			for _, e := range x.Edges {
				if rec(e) {
					return true
				}
			}
		case *ssa.UnOp:
			if al, ok := x.X.(*ssa.Alloc); ok {
				for _, st := range ir.StoresTo(al) {
					if rec(st.Val) {
						return true
					}
				}
			}
		}
		return false
	}
	return rec(v)
}

// loadsFillValue: ld reads an element of s from inside the written prefix (judged with the state at the load).
func (a *fillAV) loadsFillValue(ld *ssa.UnOp, facts []leFactB, st fillStateV) bool {
	ia, ok := ld.X.(*ssa.IndexAddr)
	if !ok {
		return false
	}
	o, ok := a.off(ia.X, 0)
	if !ok {
		return false
	}
	end := o.add(a.pl.of(ia.Index), 1).add(linConstB(1), 1)
	return a.le(facts, end, a.N) && a.inside(facts, st, end)
}

func (a *fillAV) newTerm(parts ...linB) fillTermV {
	// min(T, len(s)): a part that is len(s) itself adds nothing next to others
	var ps []linB
	for _, p := range parts {
		if !p.equal(a.N) {
			ps = append(ps, p)
		}
	}
	if len(ps) == 0 {
		ps = []linB{a.N}
	}
	return newFillTermV(ps...)
}

func (a *fillAV) transfer(b *ssa.BasicBlock, in fillStateV) fillStateV {
	st := in.clone()
	facts := a.factsAt(b, nil)
	kill := func() { st = a.zeroState() }
	vLoads := map[ssa.Value]bool{} // loads in this block that read v out of the written prefix
	fillValue := func(val ssa.Value) bool { return ir.Resolve(val) == ssa.Value(a.v) || vLoads[val] }
	for _, instr := range b.Instrs {
		switch x := instr.(type) {
		case *ssa.UnOp:
			if x.Op == token.MUL && a.loadsFillValue(x, facts, st) {
				vLoads[x] = true
			}
		case *ssa.IndexAddr:
			if !a.isView(x.X) && !a.aliasOfS(x.X) {
				continue
			}
			if x.Referrers() != nil {
				for _, r := range *x.Referrers() {
					switch u := r.(type) {
					case *ssa.Store:
						if u.Addr != ssa.Value(x) {
							a.unknown = "the address of an element of the slice is stored"
						}
					case *ssa.UnOp, *ssa.DebugRef:
					default:
						a.unknown = "the address of an element of the slice is handed on"
					}
				}
			}
		case *ssa.Store:
			if a.isView(x.Val) {
				if al, isAl := x.Addr.(*ssa.Alloc); isAl && len(ir.StoresTo(al)) == 1 {
					continue // a spilled local: its loads resolve to the stored value
				}
				a.unknown = "the slice is stored into a variable"
				kill()
				continue
			}
			ia, ok := x.Addr.(*ssa.IndexAddr)
			if !ok {
				continue
			}
			o, isView := a.off(ia.X, 0)
			if !isView {
				if a.aliasOfS(ia.X) {
					a.unknown = "an element is assigned through a part of the slice whose position the rule cannot follow (a cursor that moves in a loop)"
					kill()
				}
				continue
			}
			if !fillValue(x.Val) {
				kill()
				continue
			}
			pos := o.add(a.pl.of(ia.Index), 1)
			if a.inside(facts, st, pos) {
				st.add(a.newTerm(pos.add(linConstB(1), 1)))
			}
		case *ssa.Call:
			a.call(x, facts, &st)
		case *ssa.Defer, *ssa.Go:
			for _, arg := range x.(ssa.CallInstruction).Common().Args {
				if a.isView(arg) {
					a.unknown = "the slice is handed to a deferred call or a goroutine"
				}
			}
		case *ssa.MakeClosure:
			for _, bnd := range x.Bindings {
				if a.isView(bnd) || ir.Resolve(bnd) == ssa.Value(a.v) {
					a.unknown = "the slice is captured by a function literal"
				}
			}
		case *ssa.MakeInterface, *ssa.Send, *ssa.MapUpdate:
			var ops [4]*ssa.Value
			for _, op := range instr.Operands(ops[:0]) {
				if op != nil && *op != nil && a.isView(*op) {
					a.unknown = "the slice escapes"
				}
			}
		}
	}
	return st
}

func (a *fillAV) call(x *ssa.Call, facts []leFactB, stp *fillStateV) {
	st := *stp
	kill := func() { *stp = a.zeroState() }
	if b, ok := x.Call.Value.(*ssa.Builtin); ok {
		switch b.Name() {
		case "len", "cap", "min", "max", "print", "println":
			return
		case "copy":
			dst, src := x.Call.Args[0], x.Call.Args[1]
			d, isView := a.off(dst, 0)
			if !isView {
				if a.aliasOfS(dst) {
					a.unknown = "copy into a part of the slice whose position the rule cannot follow (a cursor that moves in a loop)"
					kill()
				}
				return
			}
			so, srcView := a.off(src, 0)
			if !srcView {
				kill()
				return
			}
			ls := a.pl.lenOf(src, 0)
			es := so.add(ls, 1)
			if !a.le(facts, es, a.N) || !a.inside(facts, st, es) {
				kill() // elements from outside the written prefix are copied into s
				return
			}
			if a.inside(facts, st, d) {
				ed := d.add(a.pl.lenOf(dst, 0), 1)
				st.add(a.newTerm(ed, d.add(ls, 1)))
			}
			return
		}
		for _, arg := range x.Call.Args {
			if a.isView(arg) || a.aliasOfS(arg) {
				kill()
				a.unknown = "the slice is handed to the builtin " + b.Name()
			}
		}
		return
	}
	var views []int
	for i, arg := range x.Call.Args {
		if a.isView(arg) || a.aliasOfS(arg) {
			views = append(views, i)
		}
	}
	if len(views) == 0 {
		return
	}
	cal := ir.StaticCallee(x)
	if cal != nil && len(views) == 1 && views[0] == 0 && a.isView(x.Call.Args[0]) && len(x.Call.Args) == 2 && len(cal.Params) == 2 && len(cal.Blocks) > 0 &&
		cal.Pkg == a.fn.Pkg && !x.Call.IsInvoke() && ir.Resolve(x.Call.Args[1]) == ssa.Value(a.v) {
		if ok, _, unknown := a.c.fillContractV(cal, a.memo); ok && unknown == "" {
			d, _ := a.off(x.Call.Args[0], 0)
			if a.inside(facts, st, d) {
				st.add(a.newTerm(d.add(a.pl.lenOf(x.Call.Args[0], 0), 1)))
			}
			return
		}
	}
	kill()
	a.unknown = "the slice is handed to " + ir.CalleeFullName(x) + ", which the rule does not follow"
}

func fillKeepableV(t linB, header *ssa.BasicBlock) bool {
	for _, v := range t.vals {
		if in, ok := v.(ssa.Instruction); ok && in.Block() != nil && header.Dominates(in.Block()) {
			return false
		}
	}
	return true
}

// translate carries the facts of the end of p over the edge p -> b.
func (a *fillAV) translate(S fillStateV, p, b *ssa.BasicBlock) fillStateV {
	back := b.Dominates(p)
	keep := func(t linB) bool { return !back || fillKeepableV(t, b) }
	out := a.zeroState()
	for _, T := range S.terms() {
		ok := true
		for _, t := range T.parts {
			if !keep(t) {
				ok = false
			}
		}
		if ok {
			out.add(T)
		}
	}
	j := -1
	for i, q := range b.Preds {
		if q == p {
			j = i
		}
	}
	if j < 0 {
		return out
	}
	facts := a.factsAt(p, b)
	for _, in := range b.Instrs {
		phi, ok := in.(*ssa.Phi)
		if !ok {
			break
		}
		if !isIntTypeB(phi.Type()) {
			continue
		}
		e := a.pl.of(phi.Edges[j])
		me := linAtomB("v:"+phi.Name(), phi)
		for _, T := range S.terms() {
			for i, t := range T.parts {
				var rest []linB
				ok := true
				for i2, t2 := range T.parts {
					if i2 == i {
						continue
					}
					if !keep(t2) {
						ok = false
					}
					rest = append(rest, t2)
				}
				if !ok {
					continue
				}
				if k, isC := t.add(e, -1).isConst(); isC {
					if k >= 0 && k <= 2 {
						out.add(newFillTermV(append(rest, me.add(linConstB(k), 1))...))
					}
				} else if a.le(facts, e, t) {
					out.add(newFillTermV(append(rest, me)...))
				}
			}
		}
	}
	return out
}

// meet: the facts both states imply (P(T) implies P(T') when T is a subset of T').
func fillMeetV(x, y fillStateV) fillStateV {
	out := fillStateV{}
	for _, tx := range x.terms() {
		for _, ty := range y.terms() {
			if tx.subsetOf(ty) {
				out.add(ty)
			}
			if ty.subsetOf(tx) {
				out.add(tx)
			}
		}
	}
	return out
}

// normalise drops the parts of a term that the facts at b show to be no smaller than another part.
func (a *fillAV) normalise(st fillStateV, b *ssa.BasicBlock) fillStateV {
	facts := a.factsAt(b, nil) // the branch facts on the dominator chain: they hold from the entry of b on
	out := fillStateV{}
	for _, T := range st.terms() {
		out.add(T)
		if len(T.parts) < 2 {
			continue
		}
		var ps []linB
		for i, t := range T.parts {
			redundant := false
			for i2, t2 := range T.parts {
				if i2 != i && a.le(facts, t2, t) && !(a.le(facts, t, t2) && i2 > i) {
					redundant = true
				}
			}
			if !redundant {
				ps = append(ps, t)
			}
		}
		if len(ps) > 0 && len(ps) < len(T.parts) {
			out.add(newFillTermV(ps...))
		}
	}
	return out
}

func fillRPOV(fn *ssa.Function) []*ssa.BasicBlock {
	seen := map[*ssa.BasicBlock]bool{}
	var post []*ssa.BasicBlock
	var visit func(b *ssa.BasicBlock)
	visit = func(b *ssa.BasicBlock) {
		if seen[b] {
			return
		}
		seen[b] = true
		for _, s := range b.Succs {
			visit(s)
		}
		post = append(post, b)
	}
	if len(fn.Blocks) > 0 {
		visit(fn.Blocks[0])
	}
	for i, j := 0, len(post)-1; i < j; i, j = i+1, j-1 {
		post[i], post[j] = post[j], post[i]
	}
	return post
}

// fillContractV decides the contract for fn(s, v). ok: established; why: the return at which it is not; unknown: a
// construct that keeps the analysis from a verdict.
func (c *Ctx) fillContractV(fn *ssa.Function, memo map[*ssa.Function]int) (ok bool, why string, unknown string) {
	switch memo[fn] {
	case 1:
		return true, "", "" // in progress (recursion: assumed, partial correctness) or established
	case 2:
		return false, "a function it calls does not fill its slice", ""
	}
	if len(fn.Params) != 2 || len(fn.Blocks) == 0 {
		return false, "", "unexpected signature"
	}
	sl, isSl := fn.Params[0].Type().Underlying().(*types.Slice)
	if !isSl || !types.Identical(sl.Elem(), fn.Params[1].Type()) {
		return false, "", "unexpected signature"
	}
	memo[fn] = 1
	a := &fillAV{c: c, fn: fn, s: fn.Params[0], v: fn.Params[1], pl: &linCtxB{excluded: map[*ssa.BasicBlock]bool{}},
		facts: map[fillKeyV][]leFactB{}, memo: memo}
	a.N = a.pl.lenOf(a.s, 0)
	if len(fn.AnonFuncs) > 0 || fn.Recover != nil {
		memo[fn] = 0
		return false, "", "the function has function literals or deferred calls"
	}
	a.viewFacts()
	order := fillRPOV(fn)
	in := map[*ssa.BasicBlock]fillStateV{}
	out := map[*ssa.BasicBlock]fillStateV{}
	converged := false
	for round := 0; round < 40 && !converged; round++ {
		converged = true
		for _, b := range order {
			var st fillStateV
			if b == fn.Blocks[0] {
				st = a.zeroState()
			} else {
				first := true
				for _, p := range b.Preds {
					po, done := out[p]
					if !done {
						continue
					}
					tr := a.translate(po, p, b)
					if first {
						st, first = tr, false
					} else {
						st = fillMeetV(st, tr)
					}
				}
				if first {
					continue
				}
				st = a.normalise(st, b)
			}
			if prev, done := in[b]; !done || !prev.sameAs(st) {
				in[b] = st
				out[b] = a.transfer(b, st)
				converged = false
			}
		}
	}
	if !converged {
		memo[fn] = 0
		return false, "", "the analysis of the written prefix does not reach a fixed point"
	}
	// a last pass over the converged states collects what the transfer functions could not follow
	a.unknown = ""
	for _, b := range order {
		if st, done := in[b]; done {
			a.transfer(b, st)
		}
	}
	if a.unknown != "" {
		memo[fn] = 0
		return false, "", a.unknown
	}
	for _, b := range order {
		if len(b.Instrs) == 0 {
			continue
		}
		ret, isRet := b.Instrs[len(b.Instrs)-1].(*ssa.Return)
		if !isRet {
			continue
		}
		st, done := out[b]
		if !done {
			continue
		}
		facts := a.factsAt(b, nil)
		full := false
		for _, T := range st.terms() {
			if a.leMin(facts, a.N, T) {
				full = true
			}
		}
		if !full {
			var have []string
			for _, T := range st.terms() {
				have = append(have, T.show())
			}
			memo[fn] = 2
			return false, fmt.Sprintf("at the return at %s the elements known to be written are [0, x) for x = %s, and none of these is shown to reach len(%s)", c.P.InstrPos(ret), strings.Join(have, ", "), a.s.Name()), ""
		}
	}
	return true, "", ""
}

// depSliceFill is D7.
func (c *Ctx) depSliceFill(rule string, fn *ssa.Function) {
	c.Saw(fn)
	const construct = "every element of the slice is assigned the value before the return"
	ok, why, unknown := c.fillContractV(fn, map[*ssa.Function]int{})
	switch {
	case unknown != "":
		c.Undecided(rule, fn, construct, nil, "cannot follow what "+fn.Name()+" does with its slice: "+unknown)
	case !ok:
		c.Decide(rule, fn, construct, nil, false, "the ring buffer releases consumed slots through "+fn.Name()+" and R1 takes the call for the zeroing of the whole part it passes, but it is not established that "+fn.Name()+
			" writes every element: "+why+" - the slots left out keep referencing consumed values")
	default:
		c.Decide(rule, fn, construct, nil, true, "")
	}
	c.R.Floor(rule, 1)
}
