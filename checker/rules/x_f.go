package rules

import (
	"go/constant"
	"go/token"
	"sort"
	"strings"

	"golang.org/x/tools/go/ssa"

	"verif/checker/ir"
)

// Helpers shared by the timer rules (c12_c13.go): equivalent spellings of time comparisons, flags (boolean phi nodes)
// standing for the guard they were computed under, objects under construction.

// tmStrictlyAfter decodes a call of (time.Time).After / (time.Time).Before as the relation "later is strictly after
// earlier": a.After(b) and b.Before(a) are the same comparison.
func tmStrictlyAfter(v ssa.Value) (later, earlier ssa.Value, ok bool) {
	call, isCall := v.(*ssa.Call)
	if !isCall || len(call.Call.Args) != 2 {
		return nil, nil, false
	}
	switch ir.CalleeFullName(call) {
	case "(time.Time).After":
		return call.Call.Args[0], call.Call.Args[1], true
	case "(time.Time).Before":
		return call.Call.Args[1], call.Call.Args[0], true
	}
	return nil, nil, false
}

func tmBoolConst(v ssa.Value) (val, ok bool) {
	c, isC := v.(*ssa.Const)
	if !isC || c.Value == nil || c.Value.Kind() != constant.Bool {
		return false, false
	}
	return constant.BoolVal(c.Value), true
}

// tmFeasibleEdges lists the operands of phi that can have been selected when control is at block at: an operand is
// excluded when a guard fact at `at` fixes the truth of a boolean phi of the same merge block ("ok", "found") and that
// phi receives the opposite constant on the same edge. This is how a multi-value result (v, ok) of an inlined helper is
// read: under "ok" only the alternatives that set ok survive.
func tmFeasibleEdges(phi *ssa.Phi, at *ssa.BasicBlock) []int {
	excluded := map[int]bool{}
	for _, f := range ir.Facts(at) {
		f = f.StripNot()
		flag, isPhi := f.Cond.(*ssa.Phi)
		if !isPhi || flag.Block() != phi.Block() {
			continue
		}
		for j, e := range flag.Edges {
			if k, isC := tmBoolConst(e); isC && k != f.True {
				excluded[j] = true
			}
		}
	}
	var res []int
	for j := range phi.Edges {
		if !excluded[j] {
			res = append(res, j)
		}
	}
	return res
}

// tmAllFeasibleOrigins reports whether every value that v can stand for at block at satisfies pred (phi nodes are opened,
// operands contradicted by a flag of the same merge are dropped); false when nothing is left.
func tmAllFeasibleOrigins(v ssa.Value, at *ssa.BasicBlock, pred func(ssa.Value) bool) bool {
	seen := map[ssa.Value]bool{}
	var rec func(x ssa.Value, depth int) bool
	rec = func(x ssa.Value, depth int) bool {
		x = ir.Resolve(x)
		if depth > 6 {
			return false
		}
		phi, isPhi := x.(*ssa.Phi)
		if !isPhi {
			return pred(x)
		}
		if seen[phi] {
			return true
		}
		seen[phi] = true
		idx := tmFeasibleEdges(phi, at)
		if len(idx) == 0 {
			return false
		}
		for _, j := range idx {
			if !rec(phi.Edges[j], depth+1) {
				return false
			}
		}
		return true
	}
	return rec(v, 0)
}

// tmGuardHolds reports whether a comparison satisfying pred is known at block b - directly as a guard fact, or through a
// flag: when a boolean phi is known to be true (false) at b, the program came through one of the edges on which the phi
// is not the opposite constant, and the comparison must hold on every one of them (at the block the edge leaves, or as
// the operand itself). "quit := n > 1 (computed under A) ... if quit {" knows A and n > 1.
func tmGuardHolds(b *ssa.BasicBlock, pred func(ir.Cmp) bool) bool {
	if hasFactCmp(b, pred) {
		return true
	}
	for _, f := range ir.Facts(b) {
		f = f.StripNot()
		if phi, ok := f.Cond.(*ssa.Phi); ok {
			if tmFlagImplies(phi, f.True, pred, 0, map[*ssa.Phi]bool{}) {
				return true
			}
		}
	}
	return false
}

// tmFlagImplies: phi == truth implies a comparison satisfying pred.
func tmFlagImplies(phi *ssa.Phi, truth bool, pred func(ir.Cmp) bool, depth int, seen map[*ssa.Phi]bool) bool {
	if depth > 5 || seen[phi] {
		return false
	}
	seen[phi] = true
	defer delete(seen, phi)
	n := 0
	for j, e := range phi.Edges {
		if k, isC := tmBoolConst(e); isC {
			if k != truth {
				continue // this edge cannot have been taken
			}
		}
		n++
		from := phi.Block().Preds[j]
		// the operand itself is the comparison
		if cm, ok := (ir.Fact{Cond: e, True: truth}).Cmp(); ok && pred(cm) {
			continue
		}
		// known where the edge leaves
		if hasFactCmp(from, pred) {
			continue
		}
		if ef := ir.EdgeFact(from, phi.Block()); ef != nil {
			if cm, ok := ef.Cmp(); ok && pred(cm) {
				continue
			}
		}
		// the operand is a flag again, or a flag is known at the leaving block
		ee := e
		t2 := truth
		for {
			u, isNot := ee.(*ssa.UnOp)
			if !isNot || u.Op != token.NOT {
				break
			}
			ee, t2 = u.X, !t2
		}
		if p2, ok := ee.(*ssa.Phi); ok && tmFlagImplies(p2, t2, pred, depth+1, seen) {
			continue
		}
		okFrom := false
		for _, ff := range ir.Facts(from) {
			ff = ff.StripNot()
			if p2, ok := ff.Cond.(*ssa.Phi); ok && tmFlagImplies(p2, ff.True, pred, depth+1, seen) {
				okFrom = true
				break
			}
		}
		if okFrom {
			continue
		}
		return false
	}
	return n > 0
}

// tmReachesInstr reports whether instruction a can execute before instruction b in one activation (CFG reachability).
func tmReachesInstr(a, b ssa.Instruction) bool {
	ba, bb := a.Block(), b.Block()
	if ba == bb {
		for _, in := range ba.Instrs {
			if in == a {
				return true
			}
			if in == b {
				break
			}
		}
		// b precedes a in the block: only around a loop
	}
	seen := map[*ssa.BasicBlock]bool{}
	var rec func(x *ssa.BasicBlock) bool
	rec = func(x *ssa.BasicBlock) bool {
		for _, s := range x.Succs {
			if s == bb {
				return true
			}
			if !seen[s] {
				seen[s] = true
				if rec(s) {
					return true
				}
			}
		}
		return false
	}
	return rec(ba)
}

// tmUnderConstruction reports whether obj is an object allocated by the function of `at` that nobody else can see yet when
// `at` executes: its address has not been stored anywhere, passed to a call, captured or returned on a path leading to
// `at`. Accesses to such an object need no lock (the constructor of the package state, the future built by Call).
func tmUnderConstruction(obj ssa.Value, at ssa.Instruction) bool {
	al, ok := ir.Resolve(obj).(*ssa.Alloc)
	if !ok || al.Parent() != at.Parent() || al.Referrers() == nil {
		return false
	}
	for _, ref := range *al.Referrers() {
		if ref == at {
			continue
		}
		escapes := false
		switch x := ref.(type) {
		case *ssa.Store:
			escapes = x.Val == ssa.Value(al)
		case ssa.CallInstruction:
			for _, a := range x.Common().Args {
				if a == ssa.Value(al) {
					escapes = true
				}
			}
			if x.Common().Value == ssa.Value(al) {
				escapes = true
			}
		case *ssa.MakeClosure, *ssa.MakeInterface, *ssa.Phi, *ssa.ChangeType, *ssa.Convert:
			escapes = true
		case *ssa.Return:
			escapes = false // returning ends the activation
		}
		if escapes && tmReachesInstr(ref, at) {
			return false
		}
	}
	return true
}

// tmRootObject follows field and element addresses (and loads of fields holding values, not pointers) down to the object
// they are part of: &c.pending -> c.
func tmRootObject(v ssa.Value) ssa.Value {
	for i := 0; i < 16; i++ {
		v = ir.Resolve(v)
		switch x := v.(type) {
		case *ssa.FieldAddr:
			v = x.X
		case *ssa.IndexAddr:
			v = x.X
		default:
			return v
		}
	}
	return v
}

// ---------------------------------------------------------------------------
// feasible-path search
//
// tmFeasSearch asks the same question as ir.Query - is there a path from a start point to a target that passes no stop
// instruction - but follows only paths that do not contradict themselves, with one valuation per path that combines what
// ir.Query{TrackConsts} and ir.PathQuery know separately:
//   - a phi node stands for the operand selected by the edge the path came in on (a constant, or another SSA value),
//   - integer/boolean arithmetic and comparisons on known values are folded (a step value chosen on the path decides the
//     later switch over it; an idle-round counter reset on the path decides the later "rounds > 1"),
//   - the truth of a branch condition, once decided, stays decided for the same value (through phi nodes and negations:
//     "quit" tested twice, a flag copied into a result variable),
//   - the guard facts of the start block hold at the start.
// Values are forgotten when the block that defines them is entered again. Nothing is executed.

type tmFval struct {
	c    constant.Value // known constant, or
	nilc bool           // the nil constant, or
	v    ssa.Value      // canonical SSA value
	neg  bool           // (boolean) negated
}

type tmFeasState struct {
	bind  map[ssa.Value]tmFval // phi -> selected operand (canonical)
	known map[ssa.Value]bool   // canonical boolean value -> truth
}

func (s *tmFeasState) clone() *tmFeasState {
	n := &tmFeasState{bind: make(map[ssa.Value]tmFval, len(s.bind)+2), known: make(map[ssa.Value]bool, len(s.known)+2)}
	for k, v := range s.bind {
		n.bind[k] = v
	}
	for k, v := range s.known {
		n.known[k] = v
	}
	return n
}

func (s *tmFeasState) encode() string {
	var ks []string
	for k, v := range s.bind {
		switch {
		case v.nilc:
			ks = append(ks, k.Name()+"=nil")
		case v.c != nil:
			ks = append(ks, k.Name()+"="+v.c.ExactString())
		case v.neg:
			ks = append(ks, k.Name()+"=!"+v.v.Name())
		default:
			ks = append(ks, k.Name()+"="+v.v.Name())
		}
	}
	for k, v := range s.known {
		if v {
			ks = append(ks, k.Name()+":T")
		} else {
			ks = append(ks, k.Name()+":F")
		}
	}
	sort.Strings(ks)
	return strings.Join(ks, ",")
}

func (s *tmFeasState) eval(x ssa.Value, depth int) tmFval {
	r := s.eval1(x, depth)
	if r.c == nil && !r.nilc && r.v != nil {
		// a boolean whose truth the path already decided
		if t, ok := s.known[r.v]; ok {
			return tmFval{c: constant.MakeBool(t != r.neg)}
		}
	}
	return r
}

func (s *tmFeasState) eval1(x ssa.Value, depth int) tmFval {
	if depth > 12 {
		return tmFval{v: x}
	}
	switch y := x.(type) {
	case *ssa.Const:
		if y.Value != nil && (y.Value.Kind() == constant.Int || y.Value.Kind() == constant.Bool) {
			return tmFval{c: y.Value}
		}
		if ir.IsNilConst(y) {
			return tmFval{nilc: true}
		}
	case *ssa.Phi:
		if b, ok := s.bind[y]; ok {
			return b
		}
	case *ssa.ChangeType:
		return s.eval(y.X, depth+1)
	case *ssa.UnOp:
		if y.Op == token.NOT {
			a := s.eval(y.X, depth+1)
			if a.c != nil && a.c.Kind() == constant.Bool {
				return tmFval{c: constant.MakeBool(!constant.BoolVal(a.c))}
			}
			a.neg = !a.neg
			return a
		}
	case *ssa.BinOp:
		a, b := s.eval(y.X, depth+1), s.eval(y.Y, depth+1)
		if a.nilc && b.nilc && (y.Op == token.EQL || y.Op == token.NEQ) {
			// a "result or nil" variable that is nil on this path, compared with nil
			return tmFval{c: constant.MakeBool(y.Op == token.EQL)}
		}
		if a.c != nil && b.c != nil && a.c.Kind() == b.c.Kind() {
			switch y.Op {
			case token.ADD, token.SUB, token.MUL:
				if a.c.Kind() == constant.Int {
					return tmFval{c: constant.BinaryOp(a.c, y.Op, b.c)}
				}
			case token.EQL, token.NEQ, token.LSS, token.LEQ, token.GTR, token.GEQ:
				if a.c.Kind() == constant.Int || y.Op == token.EQL || y.Op == token.NEQ {
					return tmFval{c: constant.MakeBool(constant.Compare(a.c, y.Op, b.c))}
				}
			}
		}
	}
	return tmFval{v: x}
}

// enter forgets what is known about the values block b defines (they are computed again).
func (s *tmFeasState) enter(b *ssa.BasicBlock) {
	def := func(v ssa.Value) bool {
		in, ok := v.(ssa.Instruction)
		return ok && in.Block() == b
	}
	for k, v := range s.bind {
		if def(k) || (v.v != nil && def(v.v)) {
			delete(s.bind, k)
		}
	}
	for k := range s.known {
		if def(k) {
			delete(s.known, k)
		}
	}
}

type tmFeasSearch struct {
	Fn        *ssa.Function
	From      ssa.Instruction // start right after it, knowing the guard facts of its block; nil: function entry
	FromBlock *ssa.BasicBlock // alternative: start at the head of this block, knowing its guard facts
	Stop      func(ssa.Instruction) bool
	Target    func(ssa.Instruction) bool
	MaxStates int
	NoFacts   bool // do not assume the guard facts of From's block
	// Known seeds the valuation at the start: SSA booleans whose truth is given (the result of a call of which it is known
	// what it returned). They are forgotten like every other value when their block is entered again.
	Known map[ssa.Value]bool
	// Collect, when set, is called for every target instruction a feasible path arrives at, with the valuation of that
	// path (eval: the constant a value stands for on the path, if any); the search then goes on with the other paths
	// instead of stopping at the first target, and find reports whether any target was reached.
	Collect func(in ssa.Instruction, eval func(ssa.Value) (constant.Value, bool))
}

// find reports whether a feasible path exists (err != nil: the state bound was hit).
func (q tmFeasSearch) find() (bool, error) {
	fn := q.Fn
	if len(fn.Blocks) == 0 {
		return false, nil
	}
	max := q.MaxStates
	if max == 0 {
		max = 50000
	}
	type item struct {
		blk, prev *ssa.BasicBlock
		st        *tmFeasState
		first     int
	}
	start := item{blk: fn.Blocks[0], st: &tmFeasState{bind: map[ssa.Value]tmFval{}, known: map[ssa.Value]bool{}}}
	if q.From != nil || q.FromBlock != nil {
		if q.From != nil {
			start.blk = q.From.Block()
			for i, in := range start.blk.Instrs {
				if in == q.From {
					start.first = i + 1
				}
			}
		} else {
			start.blk = q.FromBlock
		}
		if !q.NoFacts {
			for _, f := range ir.Facts(start.blk) {
				f = f.StripNot()
				if _, dup := start.st.known[f.Cond]; !dup {
					start.st.known[f.Cond] = f.True
				}
			}
		}
	}
	for v, t := range q.Known {
		start.st.known[v] = t
	}
	reached := false
	seen := map[string]bool{}
	work := []item{start}
	states := 0
	for len(work) > 0 {
		it := work[len(work)-1]
		work = work[:len(work)-1]
		states++
		if states > max {
			return false, ir.ErrUndecided
		}
		st := it.st
		if it.prev != nil {
			// phi nodes read the values of the previous block: evaluate all, then forget, then bind
			type bnd struct {
				p *ssa.Phi
				v tmFval
			}
			var binds []bnd
			for j, p := range it.blk.Preds {
				if p != it.prev {
					continue
				}
				for _, in := range it.blk.Instrs {
					phi, ok := in.(*ssa.Phi)
					if !ok {
						break
					}
					binds = append(binds, bnd{phi, st.eval(phi.Edges[j], 0)})
				}
				break
			}
			st = st.clone()
			st.enter(it.blk)
			for _, b := range binds {
				if b.v.v == ssa.Value(b.p) {
					continue // x = phi(..., x): nothing learnt
				}
				st.bind[b.p] = b.v
			}
		}
		stopped := false
		for i := it.first; i < len(it.blk.Instrs); i++ {
			in := it.blk.Instrs[i]
			if q.Target != nil && q.Target(in) {
				if q.Collect == nil {
					return true, nil
				}
				reached = true
				cur := st
				q.Collect(in, func(v ssa.Value) (constant.Value, bool) {
					r := cur.eval(v, 0)
					return r.c, r.c != nil
				})
				stopped = true
				break
			}
			if q.Stop != nil && q.Stop(in) {
				stopped = true
				break
			}
		}
		if stopped {
			continue
		}
		var cond ssa.Value
		if n := len(it.blk.Instrs); n > 0 {
			if iff, ok := it.blk.Instrs[n-1].(*ssa.If); ok && len(it.blk.Succs) == 2 && it.blk.Succs[0] != it.blk.Succs[1] {
				cond = iff.Cond
			}
		}
		for si, s := range it.blk.Succs {
			ns := st
			if cond != nil {
				taken := si == 0
				r := st.eval(cond, 0)
				if r.c != nil {
					if r.c.Kind() == constant.Bool && constant.BoolVal(r.c) != taken {
						continue
					}
				} else if r.v != nil {
					ns = st.clone()
					ns.known[r.v] = taken != r.neg
				}
			}
			key := s.String() + "<" + it.blk.String() + "|" + ns.encode()
			if seen[key] {
				continue
			}
			seen[key] = true
			work = append(work, item{blk: s, prev: it.blk, st: ns})
		}
	}
	return reached, nil
}
