package rules

// Extension of rule family D (w_deps.go) by the contracts of two more helpers the rules take at their word:
//
//	D6  the zero-copy conversions of package cast return the bytes of their argument          (v_codec_cast.go)
//	D7  container.SliceFill assigns the value to every element of the slice it is given       (v_ring_fill.go)
//
// Which of the D rules run under a property: D1-D5 wherever w_deps.go ran them before; D6 under the checks whose rules
// see a call of the conversions and reason as if it were the identity on the bytes (C15, C16: the string coders; C19:
// EmbedObject / ExtractObject); D7 under C14 (the ring buffer releases consumed slots through SliceFill).

import (
	"sort"

	"golang.org/x/tools/go/ssa"

	"verif/checker/ir"
)

// depOnlyV: properties that run only the listed D rules (the others run D1-D5 plus what depExtraV adds).
var depOnlyV = map[string][]string{
	"C15": {"D6"},
	"C16": {"D6"},
	"C19": {"D6"},
}

// depExtraV: D rules added to D1-D5 for a property.
var depExtraV = map[string][]string{
	"C14": {"D7"},
}

// withDepsV: the packages whose bodies the D rules of property id read, added to pkgs.
func withDepsV(id string, pkgs []string) []string {
	if _, only := depOnlyV[id]; !only {
		return withDeps(pkgs)
	}
	res := append([]string{}, pkgs...)
	for _, p := range res {
		if p == "cast" {
			return res
		}
	}
	return append(res, "cast") // D6 reads package cast only
}

func depRuleOnV(id, rule string) bool {
	has := func(l []string) bool {
		for _, r := range l {
			if r == rule {
				return true
			}
		}
		return false
	}
	if only, ok := depOnlyV[id]; ok {
		return has(only)
	}
	switch rule {
	case "D1", "D2", "D3", "D4", "D5":
		return true
	}
	return has(depExtraV[id])
}

const depExplanationD6V = "D6 (decided on the bodies of the helpers): the zero-copy conversions of package cast between string and []byte, which the rules above read as 'the same bytes under the other type', return on every exit a view over exactly the memory of their argument " +
	"(unsafe.String/unsafe.Slice of the argument's data pointer and length; the argument's own header read under the other type; a reflect header whose data word is the argument's and whose length and capacity are its length), the whole-value conversion, or the empty value for an empty argument, and do not write to the argument - never a value out of a table, string(number), a view of another length or a slice header read from the two-word cell of a string."

const depExplanationD7V = "D7 (decided on the body of the helper): container.SliceFill(s, v), which R1 accepts as the release of the consumed slots, assigns v to every element of s before it returns: a forward analysis of the written prefix (facts 'elements [0, min(t.., len(s))) hold v' over linear terms, stores and copies extend the prefix when they start inside it and copy from inside it, loop variables are generalised and checked inductively) must establish len(s) <= prefix at every return."

func depExplanationV(id string) string {
	res := ""
	if depRuleOnV(id, "D1") {
		res = depExplanation
	}
	add := func(s string) {
		if res != "" {
			res += " "
		}
		res += s
	}
	if depRuleOnV(id, "D6") {
		add(depExplanationD6V)
	}
	if depRuleOnV(id, "D7") {
		add(depExplanationD7V)
	}
	return res
}

func depTechniqueV(id string) string {
	res := ""
	if depRuleOnV(id, "D1") {
		res += "; contracts of the repository's own trusted helpers (error classes, errors.Is, chans.IsOpened, cast.Ptr) decided on the helpers' bodies by path enumeration"
	}
	if depRuleOnV(id, "D6") {
		res += "; contract of the zero-copy string/[]byte conversions decided by a provenance walk over the helper's SSA (data pointer, length, capacity of the returned header)"
	}
	if depRuleOnV(id, "D7") {
		res += "; contract of the slice-fill helper decided by a forward written-prefix analysis with inductively checked loop invariants over linear terms"
	}
	return res
}

// depContractsV runs D6 and D7 for property id; used: the functions of the repository the property's code refers to.
func (c *Ctx) depContractsV(id string, used map[string]*ssa.Function) {
	if depRuleOnV(id, "D6") {
		convs := zeroCopyConversionsV(used)
		for _, fn := range convs {
			c.depZeroCopy(id+".D6", fn)
		}
		if len(convs) > 0 {
			c.R.Floor(id+".D6", len(convs))
		}
	}
	if depRuleOnV(id, "D7") {
		var names []string
		for n := range used {
			names = append(names, n)
		}
		sort.Strings(names)
		for _, n := range names {
			if n == ir.Module+"/container.SliceFill" {
				c.depSliceFill(id+".D7", used[n])
			}
		}
	}
}
