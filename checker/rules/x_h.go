package rules

import (
	"sort"

	"golang.org/x/tools/go/ssa"

	"verif/checker/ir"
)

// ---------------------------------------------------------------------------
// lockViewH: must-locksets that see through private helpers and locked closures
//
// The intra-procedural lockset of ir.ComputeLockset starts every function with nothing held. A helper written to be
// called with the mutex held ("xxxLocked"), or a closure run by a withLock(func()) wrapper, is then reported as using
// the protected state without the lock. lockViewH gives every function of one package the entry lockset it really has:
//   - an exported function or method, a function that is used as a value, started with go/defer, or never called
//     inside the package starts with nothing held;
//   - a private function starts with the intersection, over all its static call sites, of what is held there (on the
//     same receiver: the mutex is named by its receiver-rooted path);
//   - a function literal starts with what is held where it is called: directly, or - when it is handed to a function
//     of the package as an argument - at the calls of that parameter inside the receiving function.
//
// A call of a package function that (transitively) releases a mutex makes that mutex "not held" after the call, and a
// call of one that may return with a mutex acquired makes it "possibly held" (not held for must-questions, but listed by
// Any for must-not-hold questions).
type lockViewH struct {
	p      *ir.Prog
	fns    map[*ssa.Function]bool
	sites  map[*ssa.Function][]ssa.CallInstruction // static call sites per package function
	escape map[*ssa.Function]bool                  // used as a value / go / defer
	entry  map[*ssa.Function]map[string]bool
	doing  map[*ssa.Function]bool
	sets   map[*ssa.Function]map[ssa.Instruction]map[string]bool
	rel    map[*ssa.Function]map[string]bool // mutexes a call of fn may release
	acq    map[*ssa.Function]map[string]bool // mutexes a call of fn may leave acquired
}

const maybeHeldH = "?maybe:"

func newLockViewH(p *ir.Prog, rel string) *lockViewH {
	lv := &lockViewH{p: p, fns: map[*ssa.Function]bool{}, sites: map[*ssa.Function][]ssa.CallInstruction{}, escape: map[*ssa.Function]bool{},
		entry: map[*ssa.Function]map[string]bool{}, doing: map[*ssa.Function]bool{}, sets: map[*ssa.Function]map[ssa.Instruction]map[string]bool{},
		rel: map[*ssa.Function]map[string]bool{}, acq: map[*ssa.Function]map[string]bool{}}
	for _, fn := range p.FuncsOf(rel) {
		if len(fn.Blocks) > 0 {
			lv.fns[fn] = true
		}
	}
	for fn := range lv.fns {
		ir.Instrs(fn, func(in ssa.Instruction) {
			var calleeVal ssa.Value
			if ci, ok := in.(ssa.CallInstruction); ok {
				calleeVal = ci.Common().Value
				if cal := ir.StaticCallee(ci); cal != nil && lv.fns[cal] && !ci.Common().IsInvoke() {
					if _, isCall := in.(*ssa.Call); isCall {
						lv.sites[cal] = append(lv.sites[cal], ci)
					} else {
						lv.escape[cal] = true // go / defer: runs at another time
					}
				}
			}
			for _, op := range in.Operands(nil) {
				if op == nil || *op == nil {
					continue
				}
				if f, ok := (*op).(*ssa.Function); ok {
					if *op == calleeVal {
						continue
					}
					if _, isMC := in.(*ssa.MakeClosure); isMC {
						continue
					}
					o := f
					if f.Origin() != nil {
						o = f.Origin()
					}
					lv.escape[o] = true
				}
			}
		})
	}
	return lv
}

// closureUses returns the places a function literal is invoked, as (function, call instruction) pairs, and whether all
// uses of the literal are understood (called directly, or passed to a package function that only calls it).
func (lv *lockViewH) closureUses(lit *ssa.Function) (calls []ssa.CallInstruction, ok bool) {
	par := lit.Parent()
	if par == nil {
		return nil, false
	}
	var mcs []*ssa.MakeClosure
	ir.Instrs(par, func(in ssa.Instruction) {
		if mc, isMC := in.(*ssa.MakeClosure); isMC && mc.Fn == ssa.Value(lit) {
			mcs = append(mcs, mc)
		}
	})
	if len(mcs) == 0 {
		return nil, false
	}
	ok = true
	var follow func(v ssa.Value, depth int)
	follow = func(v ssa.Value, depth int) {
		if depth > 4 {
			ok = false
			return
		}
		refs := v.Referrers()
		if refs == nil {
			ok = false
			return
		}
		for _, r := range *refs {
			switch x := r.(type) {
			case *ssa.Call:
				if x.Call.Value == v && !x.Call.IsInvoke() {
					calls = append(calls, x)
					continue
				}
				// passed as an argument to a package function: the calls of the parameter there
				cal := ir.StaticCallee(x)
				if cal != nil && !lv.fns[cal] && !x.Call.IsInvoke() && len(cal.Blocks) > 0 {
					// handed to a function of another package whose body is known and which does nothing with the
					// parameter but call it (an iteration helper "ForEach(func(e) bool)"): the literal runs during this
					// very call, on this goroutine. A function of another package cannot name a mutex of this package
					// (unexported field), so what is held when the helper is called is held when the literal runs: the
					// call of the helper stands for the call of the literal.
					for i, a := range x.Call.Args {
						if a != v {
							continue
						}
						if i >= len(cal.Params) || !onlyCalledH(cal.Params[i], 0) {
							ok = false
							continue
						}
						calls = append(calls, x)
					}
					continue
				}
				if cal == nil || !lv.fns[cal] {
					ok = false
					continue
				}
				for i, a := range x.Call.Args {
					if a != v {
						continue
					}
					if i >= len(cal.Params) {
						ok = false
						continue
					}
					follow(cal.Params[i], depth+1)
				}
			case *ssa.Store:
				// spilled into a local that is only loaded and called
				if al, isAl := x.Addr.(*ssa.Alloc); isAl && x.Val == v && len(ir.StoresTo(al)) == 1 {
					if ar := al.Referrers(); ar != nil {
						for _, rr := range *ar {
							if ld, isLd := rr.(*ssa.UnOp); isLd {
								follow(ld, depth+1)
							} else if rr != ssa.Instruction(x) {
								if _, isDbg := rr.(*ssa.DebugRef); !isDbg {
									ok = false
								}
							}
						}
					}
					continue
				}
				ok = false
			case *ssa.DebugRef:
			default:
				ok = false
			}
		}
	}
	for _, mc := range mcs {
		follow(mc, 0)
	}
	return calls, ok
}

// onlyCalledH: the function-valued parameter p is used for nothing but being called in place (or handed to a function
// with a known body that does the same): it is not stored, captured, returned, started with go or deferred.
func onlyCalledH(p ssa.Value, depth int) bool {
	refs := p.Referrers()
	if refs == nil || depth > 3 {
		return false
	}
	for _, r := range *refs {
		switch x := r.(type) {
		case *ssa.DebugRef:
		case *ssa.Call:
			if x.Call.Value == p && !x.Call.IsInvoke() {
				used := false
				for _, a := range x.Call.Args {
					if a == p {
						used = true
					}
				}
				if used {
					return false
				}
				continue
			}
			cal := ir.StaticCallee(x)
			if cal == nil || x.Call.IsInvoke() || len(cal.Blocks) == 0 {
				return false
			}
			for i, a := range x.Call.Args {
				if a == p && (i >= len(cal.Params) || !onlyCalledH(cal.Params[i], depth+1)) {
					return false
				}
			}
		default:
			return false
		}
	}
	return true
}

// entryOf computes the entry lockset of fn.
func (lv *lockViewH) entryOf(fn *ssa.Function) map[string]bool {
	if e, ok := lv.entry[fn]; ok {
		return e
	}
	if lv.doing[fn] {
		return map[string]bool{}
	}
	lv.doing[fn] = true
	defer delete(lv.doing, fn)
	res := map[string]bool{}
	var sites []ssa.CallInstruction
	known := false
	switch {
	case fn.Parent() != nil:
		// a function literal
		cs, ok := lv.closureUses(fn)
		if ok && len(cs) > 0 {
			sites, known = cs, true
		}
	case fn.Object() != nil && !fn.Object().Exported() && !lv.escape[fn] && len(lv.sites[fn]) > 0 && fn.Name() != "init":
		known = true
		for _, s := range lv.sites[fn] {
			// the mutex is named by a receiver-rooted path: only calls on the caller's own receiver carry it over
			if fn.Signature.Recv() != nil {
				if len(s.Common().Args) == 0 || ir.Path(s.Common().Args[0]) != "recv" {
					known = false
				}
			}
			sites = append(sites, s)
		}
	}
	// a literal that is run by a function outside the package (an iteration helper) may be run any number of times
	// during that call: its second run starts with what its first run left, so what it may release itself is not held
	// on entry
	var ownRel map[string]bool
	if known && fn.Parent() != nil {
		for _, s := range sites {
			if cal := ir.StaticCallee(s); cal != nil && cal != fn && !lv.fns[cal] {
				ownRel, _ = lv.effects(fn, map[*ssa.Function]bool{})
			}
		}
	}
	if known {
		first := true
		for _, s := range sites {
			held := lv.before(s.(ssa.Instruction))
			cur := map[string]bool{}
			for k := range held {
				if len(k) < len(maybeHeldH) || k[:len(maybeHeldH)] != maybeHeldH {
					cur[k] = true
				}
			}
			for k := range ownRel {
				delete(cur, k)
			}
			if first {
				res, first = cur, false
			} else {
				for k := range res {
					if !cur[k] {
						delete(res, k)
					}
				}
			}
		}
	}
	lv.entry[fn] = res
	return res
}

// effects: which mutexes a call of fn may release / may leave acquired (transitively through package functions and the
// literals it creates).
func (lv *lockViewH) effects(fn *ssa.Function, seen map[*ssa.Function]bool) (rel, acq map[string]bool) {
	if r, ok := lv.rel[fn]; ok {
		return r, lv.acq[fn]
	}
	rel, acq = map[string]bool{}, map[string]bool{}
	if seen[fn] {
		return
	}
	seen[fn] = true
	deferredRel := ir.DeferredUnlocks(fn)
	ir.Instrs(fn, func(in ssa.Instruction) {
		if p, a, r := ir.LockOp(in); a || r {
			if r {
				rel[p] = true
			}
			if a {
				if _, isDefer := in.(*ssa.Defer); !isDefer && !deferredRel[p] {
					// acquired and not released by a defer: may it reach an exit still held?
					w, err := (ir.Query{Fn: fn, From: in, Target: ir.IsExit, Block: func(x ssa.Instruction) bool {
						_, isD := x.(*ssa.Defer)
						pp, _, rr := ir.LockOp(x)
						return rr && pp == p && !isD
					}}).Find()
					if w != nil || err != nil {
						acq[p] = true
					}
				}
			}
			return
		}
		var sub *ssa.Function
		switch x := in.(type) {
		case ssa.CallInstruction:
			if cal := ir.StaticCallee(x); cal != nil && lv.fns[cal] {
				sub = cal
			}
		case *ssa.MakeClosure:
			sub, _ = x.Fn.(*ssa.Function)
		}
		if sub != nil {
			r2, a2 := lv.effects(sub, seen)
			for k := range r2 {
				rel[k] = true
			}
			for k := range a2 {
				acq[k] = true
			}
		}
	})
	lv.rel[fn], lv.acq[fn] = rel, acq
	return
}

// before returns the lockset that holds right before in.
func (lv *lockViewH) before(in ssa.Instruction) map[string]bool {
	fn := in.Parent()
	if fn == nil {
		return nil
	}
	if _, ok := lv.sets[fn]; !ok {
		lv.sets[fn] = lv.compute(fn, lv.entryOf(fn))
	}
	return lv.sets[fn][in]
}

func (lv *lockViewH) compute(fn *ssa.Function, entry map[string]bool) map[ssa.Instruction]map[string]bool {
	before := map[ssa.Instruction]map[string]bool{}
	if len(fn.Blocks) == 0 {
		return before
	}
	cp := func(m map[string]bool) map[string]bool {
		n := make(map[string]bool, len(m))
		for k := range m {
			n[k] = true
		}
		return n
	}
	// meet: must-held entries are intersected, possibly-held markers are united
	meet := func(a, b map[string]bool) map[string]bool {
		n := map[string]bool{}
		for k := range a {
			isMaybe := len(k) >= len(maybeHeldH) && k[:len(maybeHeldH)] == maybeHeldH
			if isMaybe || b[k] {
				n[k] = true
			} else {
				n[maybeHeldH+k] = true
			}
		}
		for k := range b {
			isMaybe := len(k) >= len(maybeHeldH) && k[:len(maybeHeldH)] == maybeHeldH
			if isMaybe {
				n[k] = true
			} else if !a[k] {
				n[maybeHeldH+k] = true
			}
		}
		return n
	}
	eq := func(a, b map[string]bool) bool {
		if len(a) != len(b) {
			return false
		}
		for k := range a {
			if !b[k] {
				return false
			}
		}
		return true
	}
	in := make([]map[string]bool, len(fn.Blocks))
	out := make([]map[string]bool, len(fn.Blocks))
	in[0] = cp(entry)
	transfer := func(b *ssa.BasicBlock, s map[string]bool, record bool) map[string]bool {
		cur := cp(s)
		for _, instr := range b.Instrs {
			if record {
				before[instr] = cp(cur)
			}
			switch instr.(type) {
			case *ssa.Defer, *ssa.Go:
				continue
			}
			if p, acq, rel := ir.LockOp(instr); acq {
				cur[p] = true
				delete(cur, maybeHeldH+p)
				continue
			} else if rel {
				delete(cur, p)
				delete(cur, maybeHeldH+p)
				continue
			}
			if call, ok := instr.(*ssa.Call); ok {
				var sub []*ssa.Function
				if cal := ir.StaticCallee(call); cal != nil && lv.fns[cal] && !call.Call.IsInvoke() {
					sub = append(sub, cal)
				} else if !call.Call.IsInvoke() && call.Call.StaticCallee() == nil {
					// a function value: a literal of this package (directly, or a parameter bound to literals)
					sub = lv.literalsOf(call.Call.Value, 0)
				} else {
					// a function outside the package that is handed literals of this package may run them: what they
					// release is released after the call
					for _, a := range call.Call.Args {
						if mc, isMC := ir.Resolve(a).(*ssa.MakeClosure); isMC {
							if f, isF := mc.Fn.(*ssa.Function); isF && lv.fns[f] {
								sub = append(sub, f)
							}
						}
					}
				}
				for _, g := range sub {
					r, a := lv.effects(g, map[*ssa.Function]bool{})
					for k := range r {
						if cur[k] {
							delete(cur, k)
							if a[k] {
								cur[maybeHeldH+k] = true
							}
						}
					}
					for k := range a {
						if !cur[k] {
							cur[maybeHeldH+k] = true
						}
					}
				}
			}
		}
		return cur
	}
	changed := true
	for iter := 0; changed && iter < 1000; iter++ {
		changed = false
		for _, b := range fn.Blocks {
			if b.Index != 0 {
				var m map[string]bool
				first := true
				for _, p := range b.Preds {
					if out[p.Index] == nil {
						continue
					}
					if first {
						m, first = cp(out[p.Index]), false
					} else {
						m = meet(m, out[p.Index])
					}
				}
				if first {
					continue
				}
				in[b.Index] = m
			}
			if in[b.Index] == nil {
				continue
			}
			o := transfer(b, in[b.Index], false)
			if out[b.Index] == nil || !eq(o, out[b.Index]) {
				out[b.Index] = o
				changed = true
			}
		}
	}
	for _, b := range fn.Blocks {
		if in[b.Index] != nil {
			transfer(b, in[b.Index], true)
		}
	}
	return before
}

// literalsOf: the function literals of this package a called function value can be.
func (lv *lockViewH) literalsOf(v ssa.Value, depth int) []*ssa.Function {
	if depth > 3 || v == nil {
		return nil
	}
	switch x := ir.Resolve(v).(type) {
	case *ssa.MakeClosure:
		if f, ok := x.Fn.(*ssa.Function); ok {
			return []*ssa.Function{f}
		}
	case *ssa.Function:
		if lv.fns[x] {
			return []*ssa.Function{x}
		}
	case *ssa.Parameter:
		fn := x.Parent()
		idx := -1
		for i, p := range fn.Params {
			if p == x {
				idx = i
			}
		}
		var res []*ssa.Function
		for _, s := range lv.sites[fn] {
			if idx >= 0 && idx < len(s.Common().Args) {
				res = append(res, lv.literalsOf(s.Common().Args[idx], depth+1)...)
			}
		}
		return res
	}
	return nil
}

// Held reports whether the mutex path is certainly held before in.
func (lv *lockViewH) Held(in ssa.Instruction, path string) bool {
	return lv.before(in)[path]
}

// Any lists the mutexes that are held or possibly held before in.
func (lv *lockViewH) Any(in ssa.Instruction) []string {
	var res []string
	for k := range lv.before(in) {
		res = append(res, k)
	}
	sort.Strings(res)
	return res
}

// ---------------------------------------------------------------------------
// Flow-based obligations

// NoFlow is NoPath on the path query with valuations (ir.Flow).
func (c *Ctx) NoFlow(rule string, construct string, at ssa.Instruction, q ir.Flow, what string) bool {
	w, err := q.Find()
	if err != nil {
		c.Undecided(rule, q.Fn, construct, at, err.Error())
		return false
	}
	if w != nil {
		c.Decide(rule, q.Fn, construct, at, false, what+": path "+w.String(c.P))
		return false
	}
	c.Decide(rule, q.Fn, construct, at, true, "")
	return true
}

// rootFnH returns the declared function a literal is nested in (fn itself when it is not a literal).
func rootFnH(fn *ssa.Function) *ssa.Function {
	for fn != nil && fn.Parent() != nil {
		fn = fn.Parent()
	}
	return fn
}

// ---------------------------------------------------------------------------
// call sites of private helpers: facts and dominance through a helper boundary

// callersOf returns the instructions that invoke fn when every use of fn is understood: the static calls of a private
// function that is never used as a value, or the invocations of a function literal (directly or through a parameter of
// a package function that only calls it).
func (lv *lockViewH) callersOf(fn *ssa.Function) ([]ssa.Instruction, bool) {
	var res []ssa.Instruction
	if fn.Parent() != nil {
		// a literal: what its enclosing function established holds where the literal is called or handed to the package
		// function that runs it (the literal runs during that call)
		if _, ok := lv.closureUses(fn); !ok {
			return nil, false
		}
		ir.Instrs(fn.Parent(), func(in ssa.Instruction) {
			mc, isMC := in.(*ssa.MakeClosure)
			if !isMC || mc.Fn != ssa.Value(fn) {
				return
			}
			var follow func(v ssa.Value, depth int)
			follow = func(v ssa.Value, depth int) {
				if v.Referrers() == nil || depth > 3 {
					return
				}
				for _, r := range *v.Referrers() {
					switch x := r.(type) {
					case *ssa.Call:
						res = append(res, x)
					case *ssa.Store:
						if al, isAl := x.Addr.(*ssa.Alloc); isAl && x.Val == v && al.Referrers() != nil {
							for _, rr := range *al.Referrers() {
								if ld, isLd := rr.(*ssa.UnOp); isLd {
									follow(ld, depth+1)
								}
							}
						}
					}
				}
			}
			follow(mc, 0)
		})
		return res, len(res) > 0
	}
	if fn.Object() == nil || fn.Object().Exported() || lv.escape[fn] || len(lv.sites[fn]) == 0 || fn.Name() == "init" {
		return nil, false
	}
	for _, s := range lv.sites[fn] {
		res = append(res, s.(ssa.Instruction))
	}
	return res, true
}

// holdsInter reports whether pred holds at in, or - when in sits in a private helper or a literal all of whose uses are
// understood - at every place that helper is invoked from (transitively, bounded). It is how a guard or an ordering
// established by the caller ("if Len() > capacity { evictOldest() }") is seen from inside the helper.
func (lv *lockViewH) holdsInter(in ssa.Instruction, pred func(at ssa.Instruction) bool) bool {
	return lv.holdsInterIn(in, nil, pred)
}

// holdsInterIn is holdsInter restricted to the invocations made from the functions in scope (nil: all): the question
// is asked about the runs of the helper on behalf of one operation ("the eviction of GetOrCreate"), the other operations
// that share the helper are judged by their own rules.
func (lv *lockViewH) holdsInterIn(in ssa.Instruction, scope map[*ssa.Function]bool, pred func(at ssa.Instruction) bool) bool {
	var rec func(in ssa.Instruction, depth int) bool
	rec = func(in ssa.Instruction, depth int) bool {
		if pred(in) {
			return true
		}
		if depth >= 4 || in.Parent() == nil {
			return false
		}
		cs, ok := lv.callersOf(in.Parent())
		if !ok {
			return false
		}
		n := 0
		for _, c := range cs {
			if scope != nil && !scope[c.Parent()] {
				continue
			}
			n++
			if !rec(c, depth+1) {
				return false
			}
		}
		return n > 0
	}
	return rec(in, 0)
}

// reachable lists from and the package functions it can run: static calls and the literals it creates, transitively.
func (lv *lockViewH) reachable(from *ssa.Function) []*ssa.Function {
	seen := map[*ssa.Function]bool{}
	var res []*ssa.Function
	var rec func(fn *ssa.Function)
	rec = func(fn *ssa.Function) {
		if fn == nil || seen[fn] || !lv.fns[fn] {
			return
		}
		seen[fn] = true
		res = append(res, fn)
		ir.Instrs(fn, func(in ssa.Instruction) {
			switch x := in.(type) {
			case ssa.CallInstruction:
				if cal := ir.StaticCallee(x); cal != nil && !x.Common().IsInvoke() {
					rec(cal)
				}
			case *ssa.MakeClosure:
				if f, ok := x.Fn.(*ssa.Function); ok {
					rec(f)
				}
			}
		})
	}
	rec(from)
	return res
}

// ---------------------------------------------------------------------------
// must-effects through helpers and locked-closure wrappers

// mustEffectH decides "this instruction performs the effect": the instruction satisfies base, or it is a call of a
// package function that performs the effect on every path to a normal exit - where, inside that function, calling a
// parameter counts when the argument handed in at this very call is a function literal that performs the effect on
// every path (p.withLock(func() { ...effect... })).
type mustEffectH struct {
	lv   *lockViewH
	base func(ssa.Instruction) bool
	memo map[string]bool
}

func newMustEffectH(lv *lockViewH, base func(ssa.Instruction) bool) *mustEffectH {
	return &mustEffectH{lv: lv, base: base, memo: map[string]bool{}}
}

// Is reports whether in performs the effect.
func (m *mustEffectH) Is(in ssa.Instruction) bool { return m.is(in, nil, 0) }

// is: bind maps the parameters of the function in sits in to the literals handed in by the call under consideration.
func (m *mustEffectH) is(in ssa.Instruction, bind map[*ssa.Parameter]*ssa.Function, depth int) bool {
	if m.base(in) {
		return true
	}
	call, ok := in.(*ssa.Call)
	if !ok || depth > 3 || call.Call.IsInvoke() {
		return false
	}
	var callee *ssa.Function
	if cal := ir.StaticCallee(call); cal != nil && m.lv.fns[cal] {
		callee = cal
	} else if call.Call.StaticCallee() == nil {
		switch x := ir.Resolve(call.Call.Value).(type) {
		case *ssa.MakeClosure:
			callee, _ = x.Fn.(*ssa.Function)
		case *ssa.Parameter:
			callee = bind[x]
		}
	}
	if callee == nil || len(callee.Blocks) == 0 {
		return false
	}
	nb := map[*ssa.Parameter]*ssa.Function{}
	for i, a := range call.Call.Args {
		if i >= len(callee.Params) {
			break
		}
		switch x := ir.Resolve(a).(type) {
		case *ssa.MakeClosure:
			if f, isF := x.Fn.(*ssa.Function); isF {
				nb[callee.Params[i]] = f
			}
		case *ssa.Parameter:
			if f := bind[x]; f != nil {
				nb[callee.Params[i]] = f
			}
		}
	}
	w, err := (ir.Flow{Fn: callee, Block: func(x ssa.Instruction) bool { return m.is(x, nb, depth+1) }, Target: ir.IsExit}).Find()
	return w == nil && err == nil
}
