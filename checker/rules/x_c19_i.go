package rules

import (
	"strings"

	"golang.org/x/tools/go/ssa"

	"verif/checker/ir"
)

// C19.R8 - codec agreement of EmbedObject / ExtractObject.
//
// The property promises that an embedded object "is still extractable afterwards" for every object. ExtractObject
// decodes the text between the markers with encoding/json.Unmarshal (C19.R4 decides that), so the text EmbedObject
// puts between the markers has to be a JSON text of the object for EVERY dynamic type of the object: on every path of
// EmbedObject that builds a new error, each piece of the message that is computed from the object parameter must be
//   - the bytes returned by encoding/json.Marshal / MarshalIndent of the object parameter itself (trusted to be the
//     inverse of Unmarshal), possibly through value-preserving string<->[]byte conversions, or
//   - one of the encoders of package strconv that are JSON-exact for their whole domain, applied to the object asserted
//     to a type of that domain: Itoa / FormatInt(.,10) of a signed integer, FormatUint(.,10) of an unsigned integer,
//     FormatBool of a bool (only widening conversions in between),
//
// printed by a plain %s / %v. Any other function applied to the object (strconv.Quote writes Go escapes \x1b, \a, \v,
// \x7f that JSON does not know; fmt.Sprint; a hand-written encoder) is a second, unproved codec: the object of some
// dynamic type / value is then not extractable. A payload whose shape is not a call at all is reported undecided.
//
// Over-approximation: a correct hand-written JSON encoder (or a third-party one) is reported; encoding through a
// json.Encoder into a buffer is reported undecided.
func (c *Ctx) c19codec(t *c19tables, embedFn *ssa.Function) {
	const construct = "payload between the markers is encoding/json of the object"
	isConv := func(name string) bool {
		i := strings.LastIndex(name, ".")
		return i > 0 && strings.HasSuffix(name[:i], "/cast")
	}
	var eargs []sxVal
	var eerr, eobj sxVal
	for _, p := range embedFn.Params {
		a := sxParam(p.Name())
		eargs = append(eargs, a)
		if ir.IsErrorType(p.Type()) {
			eerr = a
		} else {
			eobj = a
		}
	}
	if eerr == nil || eobj == nil {
		return // C19.R4 reports the signature
	}
	t.env.call, t.env.nonNil = nil, nil
	paths, err := sxExplore(t.env, embedFn, eargs)
	if err != nil {
		return // C19.R4 reports it
	}
	signed := map[string]bool{"int": true, "int8": true, "int16": true, "int32": true, "int64": true}
	unsigned := map[string]bool{"uint": true, "uint8": true, "uint16": true, "uint32": true, "uint64": true, "uintptr": true}
	// asserted returns the type the object parameter is asserted to when v is assert:T(o), through conversions to
	// types of the same family only (widening is checked by the caller's family; narrowing is not possible into the
	// parameter types int / int64 / uint64 from the accepted sets except int64->int, which is refused here).
	asserted := func(v sxVal, family map[string]bool, param string) (string, bool) {
		for {
			tm, ok := v.(*sxTerm)
			if !ok || len(tm.args) != 1 {
				return "", false
			}
			if strings.HasPrefix(tm.op, "conv:") {
				if to := strings.TrimPrefix(tm.op, "conv:"); to != param {
					return "", false
				}
				v = tm.args[0]
				continue
			}
			if strings.HasPrefix(tm.op, "assert:") && tm.args[0].key() == eobj.key() {
				ty := strings.TrimPrefix(tm.op, "assert:")
				if !family[ty] {
					return "", false
				}
				if param == "int" && (ty == "int64") {
					return "", false // may truncate on 32 bit
				}
				return ty, true
			}
			return "", false
		}
	}
	base10 := func(v sxVal) bool { n, ok := sxAsInt(v); return ok && n == 10 }
	// verdict: 1 accepted, 0 undecided, -1 another codec
	classify := func(v sxVal) (int, string) {
		v = sxStripConv(v, isConv)
		tm, ok := v.(*sxTerm)
		if !ok {
			return 0, v.key()
		}
		if strings.HasPrefix(tm.op, "extract#0") && len(tm.args) == 1 {
			if call, ok := tm.args[0].(*sxTerm); ok && (call.op == "call:encoding/json.Marshal" || call.op == "call:encoding/json.MarshalIndent") {
				if len(call.args) >= 1 && call.args[0].key() == eobj.key() {
					return 1, ""
				}
				return 0, "json.Marshal of " + call.args[0].key() + ", not of the object"
			}
		}
		if !strings.HasPrefix(tm.op, "call:") {
			return 0, v.key()
		}
		name := strings.TrimPrefix(tm.op, "call:")
		switch {
		case name == "strconv.Itoa" && len(tm.args) == 1:
			if _, ok := asserted(tm.args[0], signed, "int"); ok {
				return 1, ""
			}
		case name == "strconv.FormatInt" && len(tm.args) == 2 && base10(tm.args[1]):
			if _, ok := asserted(tm.args[0], signed, "int64"); ok {
				return 1, ""
			}
		case name == "strconv.FormatUint" && len(tm.args) == 2 && base10(tm.args[1]):
			if _, ok := asserted(tm.args[0], unsigned, "uint64"); ok {
				return 1, ""
			}
		case name == "strconv.FormatBool" && len(tm.args) == 1:
			if _, ok := asserted(tm.args[0], map[string]bool{"bool": true}, "bool"); ok {
				return 1, ""
			}
		}
		if strings.HasPrefix(name, "encoding/json.") {
			return 0, v.key()
		}
		return -1, v.key()
	}
	n, bad, unknown := 0, "", ""
	for _, p := range paths {
		if p.panicked || len(p.ret) != 1 || p.ret[0].key() == eerr.key() {
			continue
		}
		segs, why := c19message(p.ret[0])
		if why != "" {
			continue // C19.R4 reports the shape of the message
		}
		for _, s := range segs {
			if s.val == nil || s.verb == 'w' || !strings.Contains(s.val.key(), eobj.key()) {
				continue
			}
			n++
			verdict, what := classify(s.val)
			switch {
			case verdict > 0 && (s.verb == 's' || s.verb == 'v'):
			case verdict > 0:
				bad = "the JSON text is printed by %" + string(s.verb)
			case verdict < 0:
				bad = "the payload is " + what + ": not the encoder ExtractObject's json.Unmarshal is the inverse of"
			default:
				unknown = what
			}
		}
	}
	switch {
	case n == 0:
		return // nothing is embedded: C19.R4 reports it
	case bad != "":
		c.Decide("C19.R8", embedFn, construct, nil, false, "an embedded object of some type/value is not extractable: "+bad)
	case unknown != "":
		c.Undecided("C19.R8", embedFn, construct, nil, "the payload "+unknown+" is not understood")
	default:
		c.Decide("C19.R8", embedFn, construct, nil, true, "")
	}
}
