package rules

import (
	"go/token"
	"go/types"

	"golang.org/x/tools/go/ssa"

	"verif/checker/ir"
)

// Timer rules, round g.

// tmPickPoolWorker resolves the role "worker" when several functions of the package that are started with go take
// futures out of the heap (a pool worker next to a one-shot runner for calls that are due already, say). The pool worker
// is the one the wake channel is for: the started function that receives from the control block's wake channel (in its
// own body, in a function it reaches through plain calls, or in a literal of those). A goroutine that pops and never
// listens to the wake channel cannot be told about a new head; it is a subject of the rules (R1: starting it does not
// replace the wake-up), not the worker. Still ambiguous: nil.
func (r *timerRoles) tmPickPoolWorker(cands []*ssa.Function) *ssa.Function {
	if r.wake == nil {
		return nil
	}
	var res []*ssa.Function
	for _, cand := range cands {
		rr := *r
		rr.worker = cand
		listens := false
		var bodies []*ssa.Function
		var add func(fn *ssa.Function)
		seen := map[*ssa.Function]bool{}
		add = func(fn *ssa.Function) {
			if fn == nil || seen[fn] {
				return
			}
			seen[fn] = true
			bodies = append(bodies, fn)
			for _, a := range fn.AnonFuncs {
				add(a)
			}
		}
		for _, b := range rr.workerBodies() {
			add(b)
		}
		for _, b := range bodies {
			ir.Instrs(b, func(in ssa.Instruction) {
				switch x := in.(type) {
				case *ssa.Select:
					for _, st := range x.States {
						if st.Dir == types.RecvOnly {
							if _, isWake := loadOfField(st.Chan, r.wake); isWake {
								listens = true
							}
						}
					}
				case *ssa.UnOp:
					if x.Op == token.ARROW {
						if _, isWake := loadOfField(x.X, r.wake); isWake {
							listens = true
						}
					}
				}
			})
		}
		if listens {
			res = append(res, cand)
		}
	}
	if len(res) == 1 {
		return res[0]
	}
	return nil
}

// tmWorkerCountOf resolves the role "worker count" when several int fields of the control block are incremented in
// functions that start goroutines (a second counter for another kind of goroutine): the count of the pool is the field
// whose increment comes before a go statement that starts the pool worker (the increment dominates that statement).
func (r *timerRoles) tmWorkerCountOf(cands []*types.Var) []*types.Var {
	var res []*types.Var
	for _, f := range cands {
		found := false
		for _, fn := range r.all {
			var spawns []ssa.Instruction
			ir.Instrs(fn, func(in ssa.Instruction) {
				if g, ok := in.(*ssa.Go); ok && ir.StaticCallee(g) == r.worker {
					spawns = append(spawns, in)
				}
			})
			if len(spawns) == 0 {
				continue
			}
			ir.Instrs(fn, func(in ssa.Instruction) {
				if _, ok := isFieldDelta(in, f, 1); ok {
					for _, sp := range spawns {
						if ir.Dominates(in, sp) {
							found = true
						}
					}
				}
			})
		}
		if found {
			res = append(res, f)
		}
	}
	return res
}

// ---------------------------------------------------------------------------
// R1 (C13.R1 / C05.U1): a queued future is announced

// tmPops: fn, started as a goroutine, takes futures out of the heap (heap.Pop in its body or behind plain calls).
func (r *timerRoles) tmPops(fn *ssa.Function) bool {
	if fn == nil || len(fn.Blocks) == 0 {
		return false
	}
	rr := *r
	rr.worker = fn
	pops := false
	for _, body := range rr.workerBodies() {
		ir.Instrs(body, func(in ssa.Instruction) {
			if heapCall(in, "Pop") != nil {
				pops = true
			}
		})
	}
	return pops
}

// tmRunnerForDue: instruction in starts a goroutine of the package, other than the pool worker, that pops the heap (a
// one-shot runner), and it does so under the fact that the future handed to heap.Push at push is due: the fire time of
// that very future is not after time.Now() (fireT.After(now) false, now.Before(fireT) false, now.After(fireT) or
// fireT.Before(now) true). Only then is the runner "a worker started for this future": a runner started for a future
// that is not due yet finds nothing to pop and exits, and the sleeping workers have not been told about the new head.
// The side mechanism therefore replaces the wake-up exactly on the paths on which it is started; every other path after
// the Push - in particular the one on which its start condition fails - still has to start a worker or poke the channel.
func (r *timerRoles) tmRunnerForDue(in ssa.Instruction, push ssa.Instruction) bool {
	g, ok := in.(*ssa.Go)
	if !ok || r.fTime == nil {
		return false
	}
	cal := ir.StaticCallee(g)
	if cal == nil || cal == r.worker || cal.Pkg != r.callFn.Pkg || !r.tmPops(cal) {
		return false
	}
	pc := heapCall(push, "Push")
	if pc == nil || len(pc.Call.Args) != 2 {
		return false
	}
	pushed := ir.Resolve(pc.Call.Args[1])
	isNow := func(v ssa.Value) bool {
		nc, isCall := ir.Resolve(v).(*ssa.Call)
		return isCall && ir.CalleeFullName(nc) == "time.Now"
	}
	isFire := func(v ssa.Value) bool {
		base, isT := loadOfField(v, r.fTime)
		return isT && same(base, pushed)
	}
	for _, f := range xcFacts(in.Block()) {
		f = f.StripNot()
		later, earlier, isCmp := tmStrictlyAfter(f.Cond)
		if !isCmp {
			continue
		}
		if f.True && isNow(later) && isFire(earlier) {
			return true
		}
		if !f.True && isFire(later) && isNow(earlier) {
			return true
		}
	}
	return false
}

// timerPushAnnounced extends R1 to a heap.Push that stands outside the add routine (Call itself, or another function
// the future is forwarded to): the same clause - from the Push every path to a return of that function starts the pool
// worker, pokes the wake channel, or starts a runner for a future that is due.
func (c *Ctx) timerPushAnnounced(r *timerRoles, rule string, isSpawn, isNotify func(ssa.Instruction) bool) {
	heapSet := map[*ssa.Function]bool{}
	for _, m := range r.heapMethods {
		heapSet[m] = true
	}
	for _, fn := range r.all {
		if fn == r.add || heapSet[fn] {
			continue
		}
		fn := fn
		ir.Instrs(fn, func(in ssa.Instruction) {
			if heapCall(in, "Push") == nil {
				return
			}
			c.NoPath(rule, "after Push: start a worker or wake one", in, ir.Query{Fn: fn, From: in,
				Block:  func(x ssa.Instruction) bool { return isSpawn(x) || isNotify(x) || r.tmRunnerForDue(x, in) },
				Target: ir.IsExit},
				"a future is queued and nobody is told: a sleeping worker keeps sleeping towards a later deadline (or no worker exists)")
		})
	}
}
